(* C13 groundwork: the shape of the next component ([Parse]), a big-step relation [Run] that
   is equivalent to the fuelled [go] (so fuel disappears), and [canon] in terms of [Run]. *)
From Coq Require Import List NArith Arith Lia Bool.
From N2 Require Import Model.All.
Import ListNotations.
Local Open Scope nat_scope.

(* ---------------------------------------------------------------------------------- *)
(* Names. *)

Definition nosep (l : bytes) : bool := forallb (fun c => negb (is_sep c)) l.
Definition nonnil (l : bytes) : bool := match l with [] => false | _ => true end.

(* an ordinary component name: non-empty, no separator, neither "." nor ".." *)
Definition good (n : bytes) : bool :=
  nonnil n && nosep n && negb (is_dot n) && negb (is_dotdot n).

Lemma good_inv n : good n = true ->
  n <> [] /\ nosep n = true /\ is_dot n = false /\ is_dotdot n = false.
Proof.
  unfold good. intro H.
  apply andb_true_iff in H as [H H4]. apply andb_true_iff in H as [H H3].
  apply andb_true_iff in H as [H1 H2].
  apply negb_true_iff in H3. apply negb_true_iff in H4.
  repeat split; auto. intro E; subst; discriminate.
Qed.

Lemma good_nosep n : good n = true -> nosep n = true.
Proof. intro H; apply good_inv in H; tauto. Qed.

Lemma good_nonnil n : good n = true -> n <> [].
Proof. intro H; apply good_inv in H; tauto. Qed.

Lemma is_sep_dot : is_sep 46%N = false.
Proof. reflexivity. Qed.

Lemma nosep_cons c l : nosep (c :: l) = true -> is_sep c = false /\ nosep l = true.
Proof.
  unfold nosep. cbn [forallb]. intro H. apply andb_true_iff in H as [H1 H2].
  apply negb_true_iff in H1. auto.
Qed.

Lemma good_head c l : good (c :: l) = true -> is_sep c = false.
Proof. intro H. apply good_nosep in H. apply nosep_cons in H. tauto. Qed.

(* ---------------------------------------------------------------------------------- *)
(* take_comp on "name" and "name sep rest". *)

Lemma take_comp_end n : nosep n = true -> take_comp n = (n, []).
Proof.
  induction n as [|c n IH]; intro H; [reflexivity|].
  apply nosep_cons in H as [Hc Hn]. cbn [take_comp]. rewrite Hc, (IH Hn). reflexivity.
Qed.

Lemma take_comp_sep n s rest : nosep n = true -> is_sep s = true ->
  take_comp (n ++ s :: rest) = (n ++ [s], rest).
Proof.
  induction n as [|c n IH]; intros H Hs.
  - cbn [app take_comp]. rewrite Hs. reflexivity.
  - apply nosep_cons in H as [Hc Hn]. cbn [app take_comp]. rewrite Hc, (IH Hn Hs). reflexivity.
Qed.

(* every string is a separator-free prefix, then nothing or a separator and a rest *)
Lemma split_sep (l : bytes) :
  exists n, nosep n = true /\ (l = n \/ exists s rest, is_sep s = true /\ l = n ++ s :: rest).
Proof.
  induction l as [|c l IH].
  - exists []. split; [reflexivity | left; reflexivity].
  - destruct (is_sep c) eqn:Hc.
    + exists []. split; [reflexivity|]. right. exists c, l. auto.
    + destruct IH as (n & Hn & Hl). exists (c :: n). split.
      * unfold nosep in *. cbn [forallb]. rewrite Hc, Hn. reflexivity.
      * destruct Hl as [->|(s & rest & Hs & ->)]; [left; reflexivity|].
        right. exists s, rest. auto.
Qed.

(* ---------------------------------------------------------------------------------- *)
(* The shape of a source string as [go] reads it. *)

Inductive Parse : bytes -> Prop :=
| PNil : Parse []
| PSep c rest : is_sep c = true -> Parse rest -> Parse (c :: rest)
| PDotEnd : Parse [46%N]
| PDotSep s rest : is_sep s = true -> Parse rest -> Parse (46%N :: s :: rest)
| PUpEnd : Parse [46%N; 46%N]
| PUpSep s rest : is_sep s = true -> Parse rest -> Parse (46%N :: 46%N :: s :: rest)
| PNameEnd n : good n = true -> Parse n
| PNameSep n s rest : good n = true -> is_sep s = true -> Parse rest -> Parse (n ++ s :: rest).

Lemma is_dot_eq n : is_dot n = true -> n = [46%N].
Proof. intro H. apply bytes_eqb_spec in H. exact H. Qed.

Lemma is_dotdot_eq n : is_dotdot n = true -> n = [46%N; 46%N].
Proof. intro H. apply bytes_eqb_spec in H. exact H. Qed.

Lemma Parse_total_len : forall k src, length src <= k -> Parse src.
Proof.
  induction k as [|k IH]; intros src Hk.
  - destruct src; [apply PNil | cbn in Hk; lia].
  - destruct (split_sep src) as (n & Hn & Hsrc).
    destruct (nonnil n) eqn:Hnn.
    + destruct (is_dot n) eqn:Hd.
      * apply is_dot_eq in Hd. subst n.
        destruct Hsrc as [->|(s & rest & Hs & ->)]; [apply PDotEnd|].
        cbn [app]. apply PDotSep; [assumption|]. apply IH.
        cbn [app length] in Hk. lia.
      * destruct (is_dotdot n) eqn:Hdd.
        -- apply is_dotdot_eq in Hdd. subst n.
           destruct Hsrc as [->|(s & rest & Hs & ->)]; [apply PUpEnd|].
           cbn [app]. apply PUpSep; [assumption|]. apply IH.
           cbn [app length] in Hk. lia.
        -- assert (Hg : good n = true).
           { unfold good. rewrite Hnn, Hn, Hd, Hdd. reflexivity. }
           destruct Hsrc as [->|(s & rest & Hs & ->)]; [apply PNameEnd; assumption|].
           apply PNameSep; try assumption. apply IH.
           rewrite app_length in Hk. cbn [length] in Hk. lia.
    + destruct n; [|discriminate].
      destruct Hsrc as [->|(s & rest & Hs & ->)]; [apply PNil|].
      cbn [app]. apply PSep; [assumption|]. apply IH. cbn [app length] in Hk. lia.
Qed.

Lemma Parse_total src : Parse src.
Proof. apply (Parse_total_len (length src)). lia. Qed.

(* ---------------------------------------------------------------------------------- *)
(* One step of [go] per shape. *)

Definition ordinary (f : nat) (out : bytes) (st : list nat) (src : bytes) : outcome bytes :=
  if (stack_cap <=? length st) then Panic 1%N else
  let '(comp, rest') := take_comp src in
  go f (out ++ comp) (length out :: st) rest'.

Lemma go_nil f out st : go (S f) out st [] = Ok out.
Proof. reflexivity. Qed.

Lemma go_sep f out st c rest : is_sep c = true ->
  go (S f) out st (c :: rest) = go f out st rest.
Proof. intro H. cbn [go]. rewrite H. reflexivity. Qed.

Lemma go_dot_end f out st : go (S f) out st [46%N] = Ok out.
Proof. reflexivity. Qed.

Lemma go_dot_sep f out st s rest : is_sep s = true ->
  go (S f) out st (46%N :: s :: rest) = go f out st rest.
Proof. intro H. cbn [go]. rewrite is_sep_dot. cbn [N.eqb Pos.eqb]. rewrite H. reflexivity. Qed.

Lemma go_up_end_empty f out : go (S f) out [] [46%N; 46%N] = go f (out ++ [46%N; 46%N]) [] [].
Proof. reflexivity. Qed.

Lemma go_up_end_pop f out ofs st :
  go (S f) out (ofs :: st) [46%N; 46%N] = go f (firstn ofs out) st [].
Proof. reflexivity. Qed.

Lemma go_up_sep_empty f out s rest : is_sep s = true ->
  go (S f) out [] (46%N :: 46%N :: s :: rest) = go f (out ++ [46%N; 46%N; s]) [] rest.
Proof.
  intro H. cbn [go]. rewrite is_sep_dot. cbn [N.eqb Pos.eqb]. rewrite H. reflexivity.
Qed.

Lemma go_up_sep_pop f out ofs st s rest : is_sep s = true ->
  go (S f) out (ofs :: st) (46%N :: 46%N :: s :: rest) = go f (firstn ofs out) st rest.
Proof.
  intro H. cbn [go]. rewrite is_sep_dot. cbn [N.eqb Pos.eqb]. rewrite H. reflexivity.
Qed.

(* [tl] is empty or starts with a separator *)
Definition istl (tl : bytes) : Prop := tl = [] \/ exists s r, is_sep s = true /\ tl = s :: r.

Lemma go_ordinary f out st n tl : good n = true -> istl tl ->
  go (S f) out st (n ++ tl) = ordinary f out st (n ++ tl).
Proof.
  intros Hg Htl.
  destruct (good_inv n Hg) as (Hnn & Hns & Hd & Hdd).
  destruct n as [|a n1]; [congruence|].
  apply nosep_cons in Hns as [Ha Hn1].
  cbn [app go]. rewrite Ha.
  destruct (a =? 46)%N eqn:Ea; [|reflexivity].
  apply N.eqb_eq in Ea. subst a.
  destruct n1 as [|b n2]; [discriminate Hd|].
  apply nosep_cons in Hn1 as [Hb Hn2].
  cbn [app]. rewrite Hb.
  destruct (b =? 46)%N eqn:Eb; [|reflexivity].
  apply N.eqb_eq in Eb. subst b.
  destruct n2 as [|c n3]; [discriminate Hdd|].
  apply nosep_cons in Hn2 as [Hc Hn3].
  cbn [app]. rewrite Hc. reflexivity.
Qed.

(* ---------------------------------------------------------------------------------- *)
(* Big-step relation. *)

Inductive Run : bytes -> list nat -> bytes -> outcome bytes -> Prop :=
| RNil out st : Run out st [] (Ok out)
| RSep out st c rest res : is_sep c = true -> Run out st rest res -> Run out st (c :: rest) res
| RDotEnd out st : Run out st [46%N] (Ok out)
| RDotSep out st s rest res : is_sep s = true -> Run out st rest res ->
    Run out st (46%N :: s :: rest) res
| RUpEndE out : Run out [] [46%N; 46%N] (Ok (out ++ [46%N; 46%N]))
| RUpEndP out ofs st : Run out (ofs :: st) [46%N; 46%N] (Ok (firstn ofs out))
| RUpSepE out s rest res : is_sep s = true -> Run (out ++ [46%N; 46%N; s]) [] rest res ->
    Run out [] (46%N :: 46%N :: s :: rest) res
| RUpSepP out ofs st s rest res : is_sep s = true -> Run (firstn ofs out) st rest res ->
    Run out (ofs :: st) (46%N :: 46%N :: s :: rest) res
| RFullEnd out st n : good n = true -> stack_cap <= length st -> Run out st n (Panic 1%N)
| RFullSep out st n s rest : good n = true -> is_sep s = true -> stack_cap <= length st ->
    Run out st (n ++ s :: rest) (Panic 1%N)
| RNameEnd out st n : good n = true -> length st < stack_cap -> Run out st n (Ok (out ++ n))
| RNameSep out st n s rest res : good n = true -> is_sep s = true -> length st < stack_cap ->
    Run (out ++ n ++ [s]) (length out :: st) rest res -> Run out st (n ++ s :: rest) res.

Lemma Run_total src : forall out st, exists res, Run out st src res.
Proof.
  induction (Parse_total src) as
    [|c rest Hc _ IH| |s rest Hs _ IH| |s rest Hs _ IH|n Hn|n s rest Hn Hs _ IH]; intros out st.
  - eexists; apply RNil.
  - destruct (IH out st) as [res H]. exists res. apply RSep; assumption.
  - eexists; apply RDotEnd.
  - destruct (IH out st) as [res H]. exists res. apply RDotSep; assumption.
  - destruct st; eexists; [apply RUpEndE | apply RUpEndP].
  - destruct st as [|ofs st].
    + destruct (IH (out ++ [46%N; 46%N; s]) []) as [res H]. exists res. apply RUpSepE; assumption.
    + destruct (IH (firstn ofs out) st) as [res H]. exists res. apply RUpSepP; assumption.
  - destruct (le_lt_dec stack_cap (length st)).
    + eexists. apply RFullEnd; assumption.
    + eexists. apply RNameEnd; assumption.
  - destruct (le_lt_dec stack_cap (length st)).
    + eexists. apply RFullSep; assumption.
    + destruct (IH (out ++ n ++ [s]) (length out :: st)) as [res H]. exists res.
      apply RNameSep; assumption.
Qed.

Lemma ordinary_full f out st src : stack_cap <= length st -> ordinary f out st src = Panic 1%N.
Proof.
  intro H. unfold ordinary. apply Nat.leb_le in H. rewrite H. reflexivity.
Qed.

Lemma ordinary_end f out st n : good n = true -> length st < stack_cap ->
  ordinary f out st n = go f (out ++ n) (length out :: st) [].
Proof.
  intros Hg H. unfold ordinary. apply Nat.leb_gt in H. rewrite H.
  rewrite (take_comp_end n (good_nosep n Hg)). reflexivity.
Qed.

Lemma ordinary_sep f out st n s rest : good n = true -> is_sep s = true -> length st < stack_cap ->
  ordinary f out st (n ++ s :: rest) = go f (out ++ n ++ [s]) (length out :: st) rest.
Proof.
  intros Hg Hs H. unfold ordinary. apply Nat.leb_gt in H. rewrite H.
  rewrite (take_comp_sep n s rest (good_nosep n Hg) Hs). reflexivity.
Qed.

Lemma istl_nil : istl [].
Proof. left; reflexivity. Qed.

Lemma istl_sep s r : is_sep s = true -> istl (s :: r).
Proof. intro H. right. exists s, r. auto. Qed.

Lemma go_Run out st src res : Run out st src res ->
  forall f, length src < f -> go f out st src = res.
Proof.
  induction 1 as
    [out st|out st c rest res Hc _ IH|out st|out st s rest res Hs _ IH|out|out ofs st
    |out s rest res Hs _ IH|out ofs st s rest res Hs _ IH|out st n Hn Hst|out st n s rest Hn Hs Hst
    |out st n Hn Hst|out st n s rest res Hn Hs Hst _ IH];
    intros f Hf; (destruct f as [|f]; [lia|]).
  - reflexivity.
  - rewrite go_sep by assumption. apply IH. cbn [length] in Hf. lia.
  - reflexivity.
  - rewrite go_dot_sep by assumption. apply IH. cbn [length] in Hf. lia.
  - rewrite go_up_end_empty. cbn [length] in Hf. destruct f as [|f]; [lia|]. reflexivity.
  - rewrite go_up_end_pop. cbn [length] in Hf. destruct f as [|f]; [lia|]. reflexivity.
  - rewrite go_up_sep_empty by assumption. apply IH. cbn [length] in Hf. lia.
  - rewrite go_up_sep_pop by assumption. apply IH. cbn [length] in Hf. lia.
  - rewrite <- (app_nil_r n). rewrite go_ordinary by (auto using istl_nil).
    apply ordinary_full. assumption.
  - rewrite go_ordinary by (auto using istl_sep). apply ordinary_full. assumption.
  - rewrite <- (app_nil_r n) at 1. rewrite go_ordinary by (auto using istl_nil).
    rewrite app_nil_r. rewrite ordinary_end by assumption.
    destruct f as [|f]; [|reflexivity].
    pose proof (good_nonnil n Hn). destruct n; [congruence | cbn [length] in Hf; lia].
  - rewrite go_ordinary by (auto using istl_sep).
    rewrite ordinary_sep by assumption. apply IH.
    rewrite app_length in Hf. cbn [length] in Hf. lia.
Qed.

Lemma Run_det out st src r1 r2 : Run out st src r1 -> Run out st src r2 -> r1 = r2.
Proof.
  intros H1 H2.
  rewrite <- (go_Run _ _ _ _ H1 (S (length src))) by lia.
  apply (go_Run _ _ _ _ H2). lia.
Qed.

(* ---------------------------------------------------------------------------------- *)
(* [canon] through [Run]. *)

Definition root (p : bytes) : bytes :=
  match p with c :: _ => if is_sep c then [c] else [] | [] => [] end.

Definition body (p : bytes) : bytes := skipn (length (root p)) p.

Definition fixdot (out : bytes) : bytes := match out with [] => [46%N] | _ => out end.

Definition isroot (r : bytes) : bool :=
  match r with [] => true | [c] => is_sep c | _ => false end.

Lemma root_body p : p = root p ++ body p.
Proof.
  unfold body, root. destruct p as [|c p]; [reflexivity|].
  destruct (is_sep c); reflexivity.
Qed.

Lemma isroot_root p : isroot (root p) = true.
Proof.
  unfold root. destruct p as [|c p]; [reflexivity|].
  destruct (is_sep c) eqn:H; [exact H | reflexivity].
Qed.

Lemma root_nil_rooted p : rooted p = false <-> root p = [].
Proof.
  unfold rooted, root. destruct p as [|c p]; [tauto|].
  destruct (is_sep c); split; intro; congruence.
Qed.

Lemma root_cons_rooted p : rooted p = true <-> exists c, root p = [c] /\ is_sep c = true.
Proof.
  unfold rooted, root. destruct p as [|c p].
  - split; [discriminate | intros (c & H & _); discriminate].
  - destruct (is_sep c) eqn:E; split; intro H; try congruence; eauto.
    destruct H as (c' & H & _). discriminate.
Qed.

Lemma canon_Run p res : p <> [] -> Run (root p) [] (body p) res ->
  canon p = bind res (fun out => Ok (fixdot out)).
Proof.
  intros Hp HR. destruct p as [|c r]; [congruence|].
  unfold canon, root, body in *. cbn [root] in *.
  destruct (is_sep c) eqn:Hc.
  - cbn [length skipn] in HR. rewrite (go_Run _ _ _ _ HR) by (cbn [length]; lia). reflexivity.
  - cbn [length skipn] in HR. rewrite (go_Run _ _ _ _ HR) by lia. reflexivity.
Qed.

Lemma canon_ok_Run p q : canon p = Ok q ->
  p <> [] /\ exists out, Run (root p) [] (body p) (Ok out) /\ q = fixdot out.
Proof.
  intro H. assert (Hp : p <> []) by (intro; subst; discriminate). split; [assumption|].
  destruct (Run_total (body p) (root p) []) as [res HR].
  rewrite (canon_Run p res Hp HR) in H.
  destruct res; try discriminate. cbn [bind] in H. exists a. split; [assumption | congruence].
Qed.
