(* Every field of BInv except the closure under producers is preserved by each single set of
   the want traversal; the closure holds again whenever a top-level want_file returns. *)
From N2 Require Import Model.All Proofs.SchedSpec Proofs.SchedInv Proofs.SchedWantRel Proofs.SchedWantSteps.

(* ---- counting ---- *)

Lemma filter_flip_one (P Q : nat -> bool) i : forall n a,
  a <= i < a + n -> (forall j, j <> i -> P j = Q j) -> P i = false -> Q i = true ->
  length (filter Q (seq a n)) = S (length (filter P (seq a n))).
Proof.
  induction n as [|n IH]; intros a Hr Hag HP HQ; [lia|].
  cbn [seq filter]. destruct (Nat.eq_dec a i) as [->|Hne].
  - rewrite HP, HQ. cbn [length]. f_equal. f_equal.
    apply filter_ext_in. intros j Hj. apply in_seq in Hj. symmetry. apply Hag. lia.
  - rewrite (Hag a Hne). destruct (Q a); cbn [length]; [f_equal|]; apply IH; auto; lia.
Qed.

Lemma NoDup_snoc {A} (l : list A) x : NoDup l -> ~ In x l -> NoDup (l ++ [x]).
Proof.
  induction l as [|y r IH]; intros Hnd Hx; cbn [app].
  - constructor; [intros []|constructor].
  - inversion Hnd; subst. constructor.
    + rewrite in_app_iff. intros [H|[H|[]]]; [contradiction|]. apply Hx. now left.
    + apply IH; [assumption|]. intro H. apply Hx. now right.
Qed.

Section Inv.
Variable g : graph.
Variable decls : list (bytes * nat).

(* BInv without bi_closed *)
Record NC (s : bstates) : Prop := {
  nc_len : length (bs_states s) = length (g_builds g);
  nc_prod : forall b p, In (get_state s b) [Ready; Queued; Running; Done] -> ordering_producer g b p -> get_state s p = Done;
  nc_counts : bs_counts s = census g s;
  nc_pending : bs_pending s = (count_state g s Want false + count_state g s Ready false + count_state g s Queued false + count_state g s Running false)%Z;
  nc_ready : NoDup (bs_ready s) /\ (forall b, In b (bs_ready s) <-> (b < length (g_builds g) /\ get_state s b = Ready));
  nc_pool_names : map (fun p => (p_name p, p_depth p)) (bs_pools s) = map (fun p => (p_name p, p_depth p)) (init_pools decls);
  nc_pool_names_nodup : NoDup (map p_name (bs_pools s));
  nc_pool_running : forall p, In p (bs_pools s) -> p_running p = running_in_pool g s (p_name p);
  nc_pool_queued : forall p b, In p (bs_pools s) -> In b (p_queued p) -> (get_state s b = Queued /\ pool_name (get_build g b) = p_name p);
  nc_pool_queued_nodup : forall p, In p (bs_pools s) -> NoDup (p_queued p);
  nc_queued_in_pool : forall b, b < length (g_builds g) -> get_state s b = Queued -> exists p, In p (bs_pools s) /\ p_name p = pool_name (get_build g b) /\ In b (p_queued p);
  nc_running_pool : forall b, b < length (g_builds g) -> In (get_state s b) [Queued; Running] -> pool_find (bs_pools s) (pool_name (get_build g b)) <> None;
  nc_nonphony : forall b, In (get_state s b) [Queued; Running] -> b_phony (get_build g b) = false;
}.

Definition closed (s : bstates) : Prop :=
  forall b p, get_state s b <> Unknown -> any_producer g b p -> get_state s p <> Unknown.

Lemma BInv_NC s : BInv g decls s -> NC s.
Proof. intros []; constructor; assumption. Qed.

Lemma BInv_closed s : BInv g decls s -> closed s.
Proof. intros []; assumption. Qed.

Lemma NC_closed_BInv s : NC s -> closed s -> BInv g decls s.
Proof. intros [] Hc; constructor; assumption. Qed.

Section OneSet.
Variables (s s' : bstates) (id : nat) (st : bstate).
Hypothesis Hid : id < length (g_builds g).
Hypothesis HU : get_state s id = Unknown.
Hypothesis Hst : st = Want \/ st = Ready.
Hypothesis Hset : bs_set s id (get_build g id) st = Ok s'.
Hypothesis Hlen : length (bs_states s) = length (g_builds g).

Lemma os_get i : get_state s' i = if (i =? id)%nat then st else get_state s i.
Proof.
  rewrite (bs_set_get _ _ _ _ _ i Hset). rewrite Hlen.
  apply Nat.ltb_lt in Hid. rewrite Hid, andb_true_r. reflexivity.
Qed.

Lemma os_get_other i : i <> id -> get_state s' i = get_state s i.
Proof. intro H. rewrite os_get. destruct (Nat.eqb_spec i id); [contradiction|reflexivity]. Qed.

Lemma os_get_same : get_state s' id = st.
Proof. rewrite os_get. now rewrite Nat.eqb_refl. Qed.

Lemma os_fields :
  bs_counts s' = (if b_phony (get_build g id) then bs_counts s else c6_add (bs_counts s) st 1) /\
  bs_pending s' = (bs_pending s + 1)%Z /\
  bs_ready s' = (match st with Ready => bs_ready s ++ [id] | _ => bs_ready s end) /\
  bs_pools s' = bs_pools s.
Proof.
  pose proof Hset as H. rewrite (bs_set_fresh s id _ st HU Hst) in H. inversion H. cbn. auto.
Qed.

Lemma os_count X np : X <> Unknown ->
  count_state g s' X np =
  (count_state g s X np +
   (if bstate_eqb st X && (negb np || negb (b_phony (get_build g id))) then 1 else 0))%Z.
Proof.
  intro HX. unfold count_state, indices.
  destruct (bstate_eqb st X && (negb np || negb (b_phony (get_build g id)))) eqn:Ec.
  - rewrite (filter_flip_one
               (fun i => bstate_eqb (get_state s i) X && (negb np || negb (b_phony (get_build g i))))
               (fun i => bstate_eqb (get_state s' i) X && (negb np || negb (b_phony (get_build g i))))
               id).
    + lia.
    + lia.
    + intros j Hj. now rewrite (os_get_other j Hj).
    + rewrite HU. destruct X; try contradiction; reflexivity.
    + rewrite os_get_same. exact Ec.
  - rewrite Z.add_0_r. f_equal. f_equal. apply filter_ext_in. intros i _.
    destruct (Nat.eq_dec i id) as [->|Hne]; [|now rewrite (os_get_other i Hne)].
    rewrite os_get_same, Ec, HU. destruct X; try contradiction; reflexivity.
Qed.

Lemma os_running name : running_in_pool g s' name = running_in_pool g s name.
Proof.
  unfold running_in_pool. f_equal. f_equal. apply filter_ext_in. intros i _.
  destruct (Nat.eq_dec i id) as [->|Hne]; [|now rewrite (os_get_other i Hne)].
  rewrite os_get_same, HU. destruct Hst as [Es|Es]; rewrite Es; reflexivity.
Qed.

Lemma os_NC :
  (st = Ready -> forall p, ordering_producer g id p -> get_state s p = Done) ->
  NC s -> NC s'.
Proof.
  intros HR [L PR CN PE [RD1 RD2] PN PND PRU PQ PQN QP RP NP].
  destruct os_fields as (Fc & Fp & Fr & Fl).
  assert (Hq : forall b, In (get_state s' b) [Queued; Running] ->
                         b <> id /\ get_state s' b = get_state s b).
  { intros b Hb. destruct (Nat.eq_dec b id) as [->|Hne].
    - rewrite os_get_same in Hb. cbn [In] in Hb.
      destruct Hst as [Es|Es]; rewrite Es in Hb; intuition discriminate.
    - split; [exact Hne|now apply os_get_other]. }
  constructor.
  - rewrite (bs_set_states _ _ _ _ _ Hset), set_nth_length. exact L.
  - intros b p Hb Hp.
    assert (Hps : get_state s p = Done).
    { destruct (Nat.eq_dec b id) as [->|Hne].
      - rewrite os_get_same in Hb. cbn [In] in Hb.
        assert (st = Ready).
        { destruct Hst as [Es|Es]; [rewrite Es in Hb; intuition discriminate|exact Es]. }
        now apply HR.
      - rewrite (os_get_other b Hne) in Hb. eapply PR; eauto. }
    rewrite os_get_other; [exact Hps|]. congruence.
  - rewrite Fc. unfold census.
    rewrite !os_count by discriminate. rewrite CN. unfold census.
    destruct (b_phony (get_build g id)); destruct Hst as [Es|Es]; rewrite Es; cbn;
      rewrite ?Z.add_0_r; reflexivity.
  - rewrite Fp, !os_count by discriminate. rewrite PE.
    destruct Hst as [Es|Es]; rewrite Es; cbn; lia.
  - rewrite Fr. destruct Hst as [Es|Es]; rewrite Es.
    + split; [exact RD1|]. intros b. rewrite RD2. rewrite os_get.
      destruct (Nat.eqb_spec b id) as [->|Hne]; [|tauto].
      rewrite HU, Es. split; intros [_ H]; discriminate.
    + split.
      * apply NoDup_snoc; [exact RD1|]. intro Hin. apply RD2 in Hin as [_ Hin]. congruence.
      * intros b. rewrite in_app_iff, RD2, os_get. cbn [In].
        destruct (Nat.eqb_spec b id) as [->|Hne].
        -- split; [intros _; split; [exact Hid|exact Es]|intros _; right; left; reflexivity].
        -- split; [intros [H|[H|[]]]; [exact H|congruence]|intros H; now left].
  - rewrite Fl. exact PN.
  - rewrite Fl. exact PND.
  - rewrite Fl. intros p Hp. rewrite os_running. now apply PRU.
  - rewrite Fl. intros p b Hp Hb. destruct (PQ p b Hp Hb) as [Hqs Hn].
    split; [|exact Hn]. rewrite os_get_other; [exact Hqs|]. congruence.
  - rewrite Fl. exact PQN.
  - rewrite Fl. intros b Hb Hqs.
    destruct (Hq b) as [Hne E]; [rewrite Hqs; cbn; auto|].
    apply QP; [exact Hb|congruence].
  - rewrite Fl. intros b Hb Hqs.
    destruct (Hq b Hqs) as [Hne E]. apply RP; [exact Hb|]. now rewrite <- E.
  - intros b Hqs. destruct (Hq b Hqs) as [Hne E]. apply NP. now rewrite <- E.
Qed.

End OneSet.

Lemma good_set_NC s id st s' : good_set g s id st s' -> NC s -> NC s'.
Proof.
  intros (Hid & HU & Hst & Hset & HR & _) Hnc.
  eapply os_NC; eauto. now destruct Hnc.
Qed.

Lemma steps_NC s s' : steps g s s' -> NC s -> NC s'.
Proof. induction 1; intros; [assumption|]. apply IHsteps. eapply good_set_NC; eauto. Qed.

End Inv.

(* ---- closure under producers ---- *)

Lemma ins_split b f : In f (b_ins b) -> In f (ordering_ins b) \/ In f (validation_ins b).
Proof.
  intro H. unfold ordering_ins, validation_ins.
  rewrite <- (firstn_skipn (b_order_only b + b_explicit b + b_implicit b) (b_ins b)) in H.
  now apply in_app_or in H.
Qed.

Lemma ordering_ins_incl b f : In f (ordering_ins b) -> In f (b_ins b).
Proof.
  intro H. unfold ordering_ins in H.
  rewrite <- (firstn_skipn (b_order_only b + b_explicit b + b_implicit b) (b_ins b)).
  apply in_or_app. now left.
Qed.

Lemma validation_ins_incl b f : In f (validation_ins b) -> In f (b_ins b).
Proof.
  intro H. unfold validation_ins in H.
  rewrite <- (firstn_skipn (b_order_only b + b_explicit b + b_implicit b) (b_ins b)).
  apply in_or_app. now right.
Qed.

Section Closure.
Variable g : graph.
Hypothesis Hwf : graph_wf g.

Lemma OL_known w stack ins r w' r' f p :
  OL g w stack ins r w' r' -> lenok g (fst w) -> In f ins -> file_input g f = Some p ->
  known (fst w') p.
Proof.
  intros H Hl Hf Hp. apply (proj1 (proj2 (proj2 (want_steps_all g Hwf)))) in H as (_ & _ & _ & K).
  eauto.
Qed.

Lemma VL_known w ins w' f p :
  VL g w ins w' -> lenok g (fst w) -> In f ins -> file_input g f = Some p -> known (fst w') p.
Proof.
  intros H Hl Hf Hp. apply (proj2 (proj2 (proj2 (want_steps_all g Hwf)))) in H as (_ & K).
  eauto.
Qed.

Lemma WB_known_after w stack id w' st :
  WB g w stack id w' st -> id < length (g_builds g) -> lenok g (fst w) ->
  known (fst w') id /\ st = get_state (fst w') id.
Proof.
  intros H Hid Hl. apply (proj1 (want_steps_all g Hwf)) in H. destruct (H Hid) as (_ & _ & _ & K).
  now apply K.
Qed.

(* closed except for the steps on the call chain [O] *)
Definition closedX (O : list nat) (s : bstates) : Prop :=
  forall b p, known s b -> any_producer g b p -> known s p \/ In b O.

Definition Q (w w' : wst) : Prop :=
  lenok g (fst w) -> forall O, closedX O (fst w) -> closedX O (fst w').

Lemma closedX_ext_weak O s s' :
  ext g s s' -> (forall b, known s' b -> known s b \/ In b O) -> closedX O s -> closedX O s'.
Proof.
  intros He Hnew HC b p Hb Hp. destruct (Hnew b Hb) as [Hk|Hin]; [|now right].
  destruct (HC b p Hk Hp) as [H|H]; [left; eapply ext_known; eauto|now right].
Qed.

Lemma want_closed_all :
  (forall w stack id w' st, WB g w stack id w' st -> id < length (g_builds g) -> Q w w') /\
  (forall w stack f w' ok, WF g w stack f w' ok -> Q w w') /\
  (forall w stack ins ready w' ready', OL g w stack ins ready w' ready' -> Q w w') /\
  (forall w ins w', VL g w ins w' -> Q w w').
Proof.
  apply want_mutind; unfold Q.
  - intros; assumption.
  - intros w stack id w1 ready s' w2 HU HOL IHOL Hset HVL IHVL Hid Hl O HC.
    set (st := if ready then Ready else Want) in *.
    assert (Hst : st <> Unknown) by (subst st; destruct ready; discriminate).
    pose proof (steps_ext _ _ _ (OL_steps g Hwf _ _ _ _ _ _ HOL)) as E1.
    pose proof (steps_ext _ _ _ (VL_steps g Hwf _ _ _ HVL)) as E2. cbn [fst] in E2.
    assert (Hl1 : lenok g (fst w1)) by (apply (ext_lenok _ _ _ E1); exact Hl).
    assert (Hl' : lenok g s').
    { unfold lenok. rewrite (bs_set_states _ _ _ _ _ Hset), set_nth_length. exact Hl1. }
    assert (C1 : closedX (id :: O) (fst w1)).
    { apply IHOL; [exact Hl|]. intros b p Hb Hp. destruct (HC b p Hb Hp); [now left|right; now right]. }
    assert (Kmono : forall b, known (fst w1) b -> known s' b).
    { intros b Hb. unfold known. rewrite (bs_set_get _ _ _ _ _ b Hset).
      destruct ((b =? id) && (id <? length (bs_states (fst w1))))%nat; assumption. }
    assert (Knew : forall b, known s' b -> known (fst w1) b \/ b = id).
    { intros b Hb. destruct (Nat.eq_dec b id) as [->|Hne]; [now right|left].
      unfold known in *. now rewrite (bs_set_get_other _ _ _ _ _ b Hset Hne) in Hb. }
    assert (C1' : closedX (id :: O) s').
    { intros b p Hb Hp. destruct (Knew b Hb) as [Hk| ->]; [|right; now left].
      destruct (C1 b p Hk Hp) as [H|H]; [left; now apply Kmono|now right]. }
    assert (C2 : closedX (id :: O) (fst w2)) by (apply IHVL; [exact Hl'|exact C1']).
    intros b p Hb Hp. destruct (C2 b p Hb Hp) as [H|[<-|H]]; [now left| |now right].
    left. destruct Hp as (f & Hf & Hp). destruct (ins_split _ _ Hf) as [Ho|Hv].
    + apply (ext_known _ _ _ _ E2). apply Kmono. eapply OL_known; eauto.
    + eapply VL_known; eauto.
  - intros; assumption.
  - intros w stack f bid w' st _ HF _ IH Hl O HC.
    apply IH; auto. eapply (proj1 Hwf); eauto.
  - intros; assumption.
  - intros w stack f rest ready w1 ok w2 ready2 HWF IH1 _ IH2 Hl O HC.
    apply IH2; [|now apply IH1].
    apply (ext_lenok _ _ _ (steps_ext _ _ _ (WF_steps g Hwf _ _ _ _ _ HWF))). exact Hl.
  - intros; assumption.
  - intros w f rest w1 ok w2 HWF IH1 _ IH2 Hl O HC.
    apply IH2; [|now apply IH1].
    apply (ext_lenok _ _ _ (steps_ext _ _ _ (WF_steps g Hwf _ _ _ _ _ HWF))). exact Hl.
Qed.

Lemma closed_closedX s : closed g s <-> closedX [] s.
Proof.
  unfold closed, closedX, known. split.
  - intros H b p Hb Hp. left. eauto.
  - intros H b p Hb Hp. destruct (H b p Hb Hp) as [|[]]; assumption.
Qed.

Lemma want_file_closed fuel s l stack f s' l' ok :
  want_file fuel g (s, l) stack f = Ok ((s', l'), ok) ->
  lenok g s -> closed g s -> closed g s'.
Proof.
  intros H Hl Hc. apply want_file_sound in H.
  apply (proj1 (proj2 want_closed_all)) in H. apply closed_closedX.
  apply (H Hl []). now apply closed_closedX.
Qed.

Theorem want_file_preserves_BInv decls fuel s l stack f s' l' ok :
  BInv g decls s -> want_file fuel g (s, l) stack f = Ok ((s', l'), ok) -> BInv g decls s'.
Proof.
  intros HB H. apply NC_closed_BInv.
  - apply (steps_NC g decls s s'); [exact (want_file_steps g Hwf _ _ _ _ _ _ _ _ H)|now apply BInv_NC].
  - eapply want_file_closed; eauto; [apply (bi_len _ _ _ HB)|now apply (BInv_closed g decls)].
Qed.

Theorem wanted_preserves_BInv decls s s' :
  BInv g decls s -> wanted g s s' -> BInv g decls s'.
Proof.
  intros HB H. induction H as [s|s s1 s2 l l' f rdy _ IH Hw]; [assumption|].
  eapply want_file_preserves_BInv; [apply IH; exact HB|exact Hw].
Qed.

End Closure.

Theorem wanted_preserves_BInv_holds g decls : graph_wf g -> wanted_preserves_BInv_stmt g decls.
Proof. intros Hwf s s' HB H. eapply wanted_preserves_BInv; eauto. Qed.

Theorem wanted_frame_holds g : graph_wf g -> wanted_frame_stmt g.
Proof. intros Hwf s s' b H. now apply (wanted_frame g Hwf). Qed.
