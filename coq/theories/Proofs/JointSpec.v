(* Joint view of one Work: the items of an instrumented run of the real scheduler, and their
   projections to the event lists of the two models (Sched.accepts and World.replay).  The
   correspondence check performs exactly these projections on every observed trace (python:
   sched.event_tokens and world.world_line), so a trace accepted by the check is a [jitem] list
   whose two projections are accepted.  Definitions only. *)
From N2 Require Import Model.All Proofs.SchedSpec Proofs.DbSpec Proofs.WorldSpec.

Inductive jitem :=
| JUpdate (c : counts6)
| JPop (b : nat)
| JVerdict (b : nat) (v : verdict)
| JSet (b : nat) (p n : bstate)
| JStart (b : nat)
| JQuiesce (n : nat)
| JWrite (name : bytes) (t : option mtime)              (* a running command writes / removes a file *)
| JFinish (b : nat) (t : term) (reported : option (list bytes))
| JRecord (b : nat) (h : N)
| JReturn (ok : option bool).

Definition proj_s1 (j : jitem) : list event :=
  match j with
  | JUpdate c => [EUpdate c]
  | JPop b => [EPopReady b]
  | JVerdict b v => [EVerdict b v]
  | JSet b p n => [ESet b p n]
  | JStart b => [EStart b]
  | JQuiesce n => [EQuiesce n]
  | JWrite _ _ => []
  | JFinish b t _ => [EFinish b t]
  | JRecord b _ => [ERecord b]
  | JReturn ok => [EReturn ok]
  end.
Definition proj_s (tr : list jitem) : list event := concat (map proj_s1 tr).

Definition term_code (t : term) : N := match t with TSuccess => 0 | TFailure => 1 | TInterrupted => 2 end%N.
Definition verdict_code (v : verdict) : N := match v with VClean => 0 | VDirty => 1 | VError => 2 end%N.

(* [awaiting] = the step whose record / no-record decision is pending (after a successful finish,
   or after a dirty verdict in adopt mode) *)
Fixpoint proj_w (adopt : bool) (awaiting : option nat) (tr : list jitem) : list wevent :=
  match tr with
  | [] => []
  | j :: rest =>
    match j with
    | JWrite n t => WWrite n t :: proj_w adopt awaiting rest
    | JVerdict b v =>
      match v with
      | VDirty => if adopt then WVerdict b 1 :: WAdopt b :: proj_w adopt (Some b) rest
                  else WVerdict b 1 :: proj_w adopt awaiting rest
      | _ => WVerdict b (verdict_code v) :: proj_w adopt awaiting rest
      end
    | JFinish b t rep =>
      WFinish b (term_code t) rep :: proj_w adopt (match t with TSuccess => Some b | _ => None end) rest
    | JRecord b h => WRecord b h :: proj_w adopt None rest
    | JSet b _ Done =>
      match awaiting with
      | Some a => if (a =? b)%nat then WNoRecord b :: proj_w adopt None rest else proj_w adopt awaiting rest
      | None => proj_w adopt awaiting rest
      end
    | _ => proj_w adopt awaiting rest
    end
  end.

(* the two graph views describe the same manifest *)
Definition names_of_ids (g : graph) (ids : list nat) : list bytes := map (file_name g) ids.

Record graphs_agree (g : graph) (wg : wgraph) : Prop := {
  ga_len : length (w_builds wg) = length (g_builds g);
  ga_build : forall i, i < length (g_builds g) ->
     let b := get_build g i in let wb := get_wbuild wg i in
     wb_ins wb = names_of_ids g (b_ins b) /\ wb_explicit wb = b_explicit b /\ wb_implicit wb = b_implicit b /\
     wb_order_only wb = b_order_only b /\ wb_outs wb = names_of_ids g (b_outs b) /\
     (wb_cmdline wb = None <-> b_phony b = true);
  ga_names_distinct : forall f1 f2, f1 < length (g_files g) -> f2 < length (g_files g) -> file_name g f1 = file_name g f2 -> f1 = f2;
  ga_producer : forall f, f < length (g_files g) -> producer_of wg (file_name g f) = file_input g f;
  ga_producer_outs : forall f b, file_input g f = Some b <-> (b < length (g_builds g) /\ In f (b_outs (get_build g b)));
}.

(* H-quiet: a file is written only by a command that is running at that moment and declares it as an output *)
Fixpoint writes_ok (wg : wgraph) (running : list nat) (tr : list jitem) : Prop :=
  match tr with
  | [] => True
  | JStart b :: rest => writes_ok wg (b :: running) rest
  | JFinish b _ _ :: rest => writes_ok wg (filter (fun x => negb (x =? b)%nat) running) rest
  | JWrite n _ :: rest => (exists b, In b running /\ In n (wb_outs (get_wbuild wg b))) /\ writes_ok wg running rest
  | _ :: rest => writes_ok wg running rest
  end.

(* a trace of one Work accepted by both models *)
Definition jaccepted (cf : config) (wg : wgraph) (r0 : rstate) (w0 : wstate) (tr : list jitem) (r : rstate) (w : wstate) : Prop :=
  accepts cf r0 (proj_s tr) = Some r /\ replay wg w0 None (proj_w (cf_adopt cf) None tr) 0 = WOk w.

(* the code the World replay compares a verdict event with (appended for the joint theorems) *)
Definition dr_code (r : dirty_result) : N :=
  match r with DClean => 0 | DDirty _ => 1 | DError _ => 2 end%N.

(* the completion records one Work appends to the log, read off its trace: every [JRecord b h]
   item is one [write_build] of step b's outputs, the dependency list kept for b, and the hash h.
   (A step is recorded at most once per Work, so the dependency list kept for b when the Work
   ends - [disc_of w b] for the final World state [w] - is the one that was written.)
   Appended for the null-build theorems C03_null_build_invocation*. *)
Definition rec_item (j : jitem) : list (nat * N) :=
  match j with JRecord b h => [(b, h)] | _ => [] end.
Definition trace_records (tr : list jitem) : list (nat * N) := flat_map rec_item tr.
Definition rec_of (wg : wgraph) (w : wstate) (p : nat * N) : wr :=
  wr_of (get_wbuild wg (fst p)) (disc_of w (fst p)) (snd p).
Definition work_records (wg : wgraph) (w : wstate) (tr : list jitem) : list wr :=
  map (rec_of wg w) (trace_records tr).
