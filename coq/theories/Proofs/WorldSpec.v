(* Specification vocabulary for C02 / C03 / C09 (definitions only). *)
From Coq Require Import String.
From N2 Require Import Model.All Proofs.DbSpec.

(* ------------------------------------------------------------------------------------ *)
(* the stat cache and the tree *)

(* The stat cache never disagrees with the tree.  This holds as long as nothing writes (or
   removes) a file after this Work stat()ed it: [stat] copies [fs_get] into the cache, and
   the only thing that changes [ws_fs] is a [WWrite] event. *)
Definition cache_consistent (w : wstate) : Prop :=
  forall n v, cache_get (ws_cache w) n = Some v -> v = fs_get (ws_fs w) n.

(* generated inputs were stat()ed when their producer finished *)
Definition stated_generated (g : wgraph) (w : wstate) (names : list bytes) : Prop :=
  forall n, In n names -> producer_of g n <> None -> cache_get (ws_cache w) n <> None.

Definition present (w : wstate) (names : list bytes) : Prop :=
  forall n, In n names -> fs_get (ws_fs w) n <> None.

(* [w'] is [w] after some stat() calls: same tree, and every cache entry is either the old
   one or what the tree says *)
Definition cache_ext (w w' : wstate) : Prop :=
  ws_fs w' = ws_fs w /\ ws_disc w' = ws_disc w /\ ws_hashes w' = ws_hashes w /\
  ws_tbl w' = ws_tbl w /\ ws_log w' = ws_log w /\
  forall n, cache_get (ws_cache w') n = cache_get (ws_cache w) n \/
            cache_get (ws_cache w') n = Some (fs_get (ws_fs w) n).

(* the (name, mtime) list of [names] read directly from the tree *)
Fixpoint fs_mtimes (fs : fsmap) (names : list bytes) : option (list (bytes * mtime)) :=
  match names with
  | [] => Some []
  | n :: rest =>
    match fs_get fs n, fs_mtimes fs rest with
    | Some t, Some l => Some ((n, t) :: l)
    | _, _ => None
    end
  end.

(* the parts of a step the dirty check looks at *)
Definition same_manifest_parts (bd bd' : wbuild) : Prop :=
  wb_dirtying bd = wb_dirtying bd' /\ wb_outs bd = wb_outs bd' /\
  wb_cmdline bd = wb_cmdline bd' /\ wb_rsp bd = wb_rsp bd'.

(* ------------------------------------------------------------------------------------ *)
(* well-formed manifests (for the injectivity of the hashed stream) *)

Definition no255 (l : bytes) : bool := negb (existsb (N.eqb 255) l).

(* a file name: non-empty, no byte 255, does not start with byte 31 *)
Definition wf_name (n : bytes) : bool :=
  no255 n && match n with [] => false | c :: _ => negb (c =? 31)%N end.

(* seconds < 2^64, nanoseconds < 2^32 *)
Definition wf_mtime (t : mtime) : bool :=
  (fst t <? 18446744073709551616)%N && (snd t <? 4294967296)%N.

Definition wf_file (f : bytes * mtime) : bool := wf_name (fst f) && wf_mtime (snd f).

Definition wf_manifest (m : manifest) : bool :=
  forallb wf_file (mf_ins m) && forallb wf_file (mf_discovered m) &&
  forallb wf_file (mf_outs m) && no255 (mf_cmdline m).

(* the two manifests do not witness a SipHash collision.  (The same statement for ALL pairs of
   manifests is false by counting - 64-bit hashes - so the theorems assume it only for the
   pair they compare.) *)
Definition no_collision (m1 m2 : manifest) : Prop :=
  hash_build m1 = hash_build m2 -> manifest_stream m1 = manifest_stream m2.

(* ------------------------------------------------------------------------------------ *)
(* discovered dependencies *)

Definition mem_bytes (c : bytes) (l : list bytes) : bool := existsb (bytes_eqb c) l.

(* the canonical forms of the non-empty reported names, in order *)
Fixpoint canon_names (names : list bytes) : outcome (list bytes) :=
  match names with
  | [] => Ok []
  | [] :: rest => canon_names rest
  | n :: rest => do c <- canon n; do cs <- canon_names rest; Ok (c :: cs)
  end.

(* keep the first occurrence of every element *)
Fixpoint first_occurrences (l : list bytes) : list bytes :=
  match l with
  | [] => []
  | x :: r => x :: filter (fun y => negb (bytes_eqb x y)) (first_occurrences r)
  end.

(* what record_finished keeps of a report *)
Definition kept_deps (dirtying : list bytes) (cs : list bytes) : list bytes :=
  first_occurrences (filter (fun c => negb (mem_bytes c dirtying)) cs).

Definition reported_names (reported : option (list bytes)) : list bytes :=
  match reported with Some l => l | None => [] end.

(* ------------------------------------------------------------------------------------ *)
(* the log *)

Definition wr_of (bd : wbuild) (deps : list bytes) (h : N) : wr := mkWr (wb_outs bd) deps h.

(* the log of [w] is what a crash-free writer produced for the records [ws], and the writer's
   id table is the one that run left *)
Definition log_is (w : wstate) (ws : list wr) : Prop :=
  exists body, log_from [] ws = Ok (body, ws_tbl w) /\ ws_log w = signature ++ body.

(* ------------------------------------------------------------------------------------ *)
(* /showIncludes *)

Definition lines (o : bytes) : list bytes := split_on 10%N [] o.

Fixpoint join_nl (ls : list bytes) : bytes :=
  match ls with
  | [] => []
  | [l] => l
  | l :: r => l ++ [10%N] ++ join_nl r
  end.

Definition is_note (line : bytes) : bool :=
  match strip_prefix note_prefix line with Some _ => true | None => false end.

(* the text after the prefix, for the lines that have it *)
Fixpoint note_payloads (ls : list bytes) : list bytes :=
  match ls with
  | [] => []
  | l :: r => match strip_prefix note_prefix l with
              | Some p => p :: note_payloads r
              | None => note_payloads r
              end
  end.

Definition strip_cr (l : bytes) : bytes :=
  match rev l with
  | 13%N :: r => rev r
  | _ => l
  end.
