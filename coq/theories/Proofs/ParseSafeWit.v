(* C12: the refutation witness for the pinned read_vardef (finding F1), and safety of the
   command-line target lookup (T5). *)
From N2 Require Import Model.All Proofs.CanonBase Proofs.CanonProps.

(* F1: `x=` as the last line without a newline: the pinned read_vardef expects '\n' at the
   offset where read_eval failed, i.e. one past the NUL. *)
Lemma pinned_vardef_refuted :
  exists text vs,
    parser_read false (parse_fuel (text ++ [0%N])) (mkScanner (text ++ [0%N]) 0 1) vs = SOob 20%N.
Proof.
  exists [120; 61]%N, []. vm_compute. reflexivity.
Qed.

(* the same input is rejected with a diagnostic by the fixed code *)
Lemma fixed_vardef_example :
  exists m o,
    parser_read true (parse_fuel ([120; 61]%N ++ [0%N])) (mkScanner ([120; 61]%N ++ [0%N]) 0 1) [] = SErr m o
    /\ o <= 3.
Proof.
  eexists _, _. vm_compute. split; [reflexivity|]. repeat constructor.
Qed.

(* canon of a non-empty path is Ok or "too many path components" *)
Lemma canon_nonempty_outcomes p : p <> [] ->
  (exists q, canon p = Ok q) \/ canon p = Panic 1%N.
Proof.
  intro Hp.
  destruct (Run_total (body p) (root p) []) as [res HR].
  rewrite (canon_Run p res Hp HR).
  destruct (Run_outcomes _ _ _ _ HR) as [[q ->]| ->]; cbn [bind]; eauto.
Qed.

Lemma target_safe : forall g name,
  match resolve_target g name with
  | Ok _ => True
  | Panic s => s = 1%N
  | _ => False
  end.
Proof.
  intros g name. unfold resolve_target.
  destruct name as [|c r]; [exact I|].
  destruct (canon_nonempty_outcomes (c :: r)) as [[q E]|E]; [discriminate| |];
    rewrite E; cbn [bind]; [exact I | reflexivity].
Qed.
