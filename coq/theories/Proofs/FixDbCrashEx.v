(* The crash model of Props/C07Crash.v is strictly larger than "byte prefixes of crash-free logs":
   a concrete file reached by  write, write, crash, recover, append  that is not a byte prefix of
   any crash-free log (the argument audit finding M3 left open), and a second crash of that file. *)
From Coq Require Import String Lia.
From N2 Require Import Model.All Proofs.DbSpec Proofs.DbCodec Proofs.DbWriter Proofs.DbReader Proofs.DbMain.
From N2 Require Import Proofs.AuditNonVacuousDb Proofs.AuditFindingsMisc.
From N2 Require Import Proofs.FixDbCrashSpec Proofs.FixDbCrash.

(* ------------------------------------------------------------------------------------ *)
(* what a write enters into the id table *)

Lemma ensure_ids_news : forall names tbl n ids out tbl' n',
  ensure_ids names tbl n = Ok (ids, out, tbl', n') -> tbl' = tbl ++ new_names names tbl.
Proof.
  induction names as [|nm names IH]; intros tbl n ids out tbl' n' H; cbn [ensure_ids new_names] in *.
  - injection H as _ _ <- _. now rewrite app_nil_r.
  - destruct (index_of nm tbl 0) as [i|].
    + destruct (ensure_ids names tbl n) as [[[[ids0 out0] t0] n0]| | | |] eqn:E; try discriminate H.
      cbn [bind] in H. injection H as _ _ <- _. exact (IH _ _ _ _ _ _ E).
    + destruct (enc_path nm) as [p| | | |]; try discriminate H. cbn [bind] in H.
      destruct (ensure_ids names (tbl ++ [nm]) (n + 1)%N) as [[[[ids0 out0] t0] n0]| | | |] eqn:E; try discriminate H.
      cbn [bind] in H. injection H as _ _ <- _. rewrite (IH _ _ _ _ _ _ E), <- app_assoc. reflexivity.
Qed.

Lemma write_build_news tbl outs deps hash b tbl' :
  write_build tbl outs deps hash = Ok (b, tbl') ->
  tbl' = tbl ++ new_names outs tbl ++ new_names deps (tbl ++ new_names outs tbl).
Proof.
  unfold write_build. intro H.
  destruct (ensure_ids outs tbl (N.of_nat (length tbl))) as [[[[oids p1] t1] n1]| | | |] eqn:E1; try discriminate H.
  cbn [bind] in H.
  destruct (ensure_ids deps t1 n1) as [[[[dids p2] t2] n2]| | | |] eqn:E2; try discriminate H.
  cbn [bind] in H.
  destruct (enc_build oids dids hash) as [r| | | |]; try discriminate H. cbn [bind] in H.
  injection H as _ <-.
  rewrite (ensure_ids_news _ _ _ _ _ _ _ E2), (ensure_ids_news _ _ _ _ _ _ _ E1), <- app_assoc. reflexivity.
Qed.

(* the records of the first write of a crash-free run, with the path records pinned down *)
Lemma log_from_cons_shape tbl w ws b tbl' :
  in_bounds w -> Forall in_bounds ws -> (N.of_nat (length tbl + nnames (w :: ws)) < 16777216)%N ->
  log_from tbl (w :: ws) = Ok (b, tbl') ->
  exists oids dids recs,
    let news := new_names (w_outs w) tbl ++ new_names (w_deps w) (tbl ++ new_names (w_outs w) tbl) in
    b = encs (map DPath news ++ DBuild oids dids (w_hash w) :: recs) /\
    Forall rec_ok (map DPath news ++ DBuild oids dids (w_hash w) :: recs) /\ Forall rec_ok recs /\
    Forall2 (id_name (tbl ++ news)) oids (w_outs w) /\ Forall2 (id_name (tbl ++ news)) dids (w_deps w) /\
    log_from (tbl ++ news) ws = Ok (encs recs, tbl') /\
    (N.of_nat (length (tbl ++ news) + nnames ws) < 16777216)%N.
Proof.
  intros Hw Hws Hsz Hl. rewrite nnames_cons in Hsz. cbn [log_from] in Hl.
  destruct (write_build_ok tbl w Hw) as (news & oids & dids & E & Hlen & Hio & Hid & Hrec); [lia|].
  pose proof (write_build_news _ _ _ _ _ _ E) as En. apply app_inv_head in En. subst news.
  rewrite E in Hl. cbn [bind] in Hl.
  destruct (log_from_ok ws (tbl ++ new_names (w_outs w) tbl ++ new_names (w_deps w) (tbl ++ new_names (w_outs w) tbl)) Hws)
    as (recs & tbl2 & E2 & Hrecs & _ & _); [rewrite app_length; lia|].
  rewrite E2 in Hl. cbn [bind] in Hl. injection Hl as <- <-.
  exists oids, dids, recs. cbv zeta. split; [|split; [|split; [|split; [|split; [|split]]]]]; try assumption.
  - rewrite <- encs_app, <- app_assoc. reflexivity.
  - replace (map DPath _ ++ DBuild oids dids (w_hash w) :: recs)
      with ((map DPath (new_names (w_outs w) tbl ++ new_names (w_deps w) (tbl ++ new_names (w_outs w) tbl))
             ++ [DBuild oids dids (w_hash w)]) ++ recs) by (now rewrite <- app_assoc).
    apply Forall_app. now split.
  - rewrite app_length. lia.
Qed.

(* encoded record lists are uniquely decodable *)
Lemma encs_prefix : forall rs1 rs2 t, Forall rec_ok rs1 -> Forall rec_ok rs2 ->
  encs rs1 ++ t = encs rs2 -> exists rest, rs2 = rs1 ++ rest.
Proof.
  induction rs1 as [|r rs1 IH]; intros rs2 t H1 H2 E; [now exists rs2|].
  inversion H1 as [|? ? Hr Hrs]; subst.
  destruct rs2 as [|r2 rs2].
  - exfalso. rewrite encs_cons in E. cbn [encs map concat] in E.
    apply (f_equal (@length N)) in E. rewrite !app_length in E. pose proof (enc_rec_len r). cbn [length] in E. lia.
  - inversion H2 as [|? ? Hr2 Hrs2]; subst. rewrite !encs_cons, <- app_assoc in E.
    pose proof (parse_record_enc r (encs rs1 ++ t) Hr) as P1.
    pose proof (parse_record_enc r2 (encs rs2) Hr2) as P2. rewrite E in P1. rewrite P1 in P2.
    injection P2 as -> E'. destruct (IH rs2 t Hrs Hrs2 E') as (rest & ->). now exists rest.
Qed.

Lemma paths_build_inj : forall n1 n2 o1 d1 h1 r1 o2 d2 h2 r2,
  map DPath n1 ++ DBuild o1 d1 h1 :: r1 = map DPath n2 ++ DBuild o2 d2 h2 :: r2 ->
  n1 = n2 /\ o1 = o2 /\ d1 = d2 /\ h1 = h2 /\ r1 = r2.
Proof.
  induction n1 as [|a n1 IH]; intros [|b n2] o1 d1 h1 r1 o2 d2 h2 r2 H; cbn [map app] in H.
  - injection H as -> -> -> ->. repeat split.
  - discriminate H.
  - discriminate H.
  - injection H as -> H. destruct (IH _ _ _ _ _ _ _ _ _ H) as (-> & R). split; [reflexivity | exact R].
Qed.

(* ------------------------------------------------------------------------------------ *)
(* the witness: two writes, a crash inside the second, recovery, an append *)

Definition ex_w1 : wr := mkWr [bs "a"] [bs "x"] 11%N.
Definition ex_w2 : wr := mkWr [bs "a"] [bs "y"] 22%N.

Definition ex_step (f : bytes) (w : wr) : bytes :=
  f ++ fst (unok ([], []) (write_build (ld_tbl (open_st (db_open true nv_prod f))) (w_outs w) (w_deps w) (w_hash w))).

Definition ex_f1 : bytes := ex_step signature ex_w1.
Definition ex_f2 : bytes := ex_step ex_f1 ex_w2.
Definition ex_f3 : bytes := open_file (db_open true nv_prod (firstn 40 ex_f2)).
Definition ex_f4 : bytes := ex_step ex_f3 nv_w.

Definition ex_h2 : history := [(ex_w1, 32); (ex_w2, 53)].
Definition ex_h4 : history := [(ex_w1, 32); (nv_w, 62)].

Lemma ex_f4_is_m3_file : ex_f4 = m3_file.
Proof. vm_compute. reflexivity. Qed.

Lemma cr_append_eq p f h st w b t f' h' :
  crash_reach p f h -> db_open true p f = OpenOk st f -> in_bounds w ->
  (N.of_nat (length (ld_tbl st) + length (w_outs w) + length (w_deps w)) < 16777216)%N ->
  write_build (ld_tbl st) (w_outs w) (w_deps w) (w_hash w) = Ok (b, t) ->
  f' = f ++ b -> h' = h ++ [(w, length f')] -> crash_reach p f' h'.
Proof. intros R Ho Hw Hs Hb -> ->. exact (cr_append p f h st w b t R Ho Hw Hs Hb). Qed.

Lemma cr_crash_eq p f h k st f' h' :
  crash_reach p f h -> db_open true p (firstn k f) = OpenOk st f' -> h' = survivors k h -> crash_reach p f' h'.
Proof. intros R Ho ->. exact (cr_crash p f h k st f' R Ho). Qed.

Lemma ex_w1_in_bounds : in_bounds ex_w1. Proof. in_bounds_tac. Qed.
Lemma ex_w2_in_bounds : in_bounds ex_w2. Proof. in_bounds_tac. Qed.
Lemma nv_w_in_bounds : in_bounds nv_w. Proof. in_bounds_tac. Qed.

Lemma ex_f2_reach : crash_reach nv_prod ex_f2 ex_h2.
Proof.
  assert (R1 : crash_reach nv_prod ex_f1 [(ex_w1, 32)]).
  { eapply (cr_append_eq nv_prod signature [] _ ex_w1 _ _ ex_f1 _ (cr_new nv_prod));
      [vm_compute; reflexivity | exact ex_w1_in_bounds | vm_compute; reflexivity | vm_compute; reflexivity
      | vm_compute; reflexivity | vm_compute; reflexivity]. }
  eapply (cr_append_eq nv_prod ex_f1 _ _ ex_w2 _ _ ex_f2 _ R1);
    [vm_compute; reflexivity | exact ex_w2_in_bounds | vm_compute; reflexivity | vm_compute; reflexivity
    | vm_compute; reflexivity | vm_compute; reflexivity].
Qed.

Lemma ex_f3_reach : crash_reach nv_prod ex_f3 [(ex_w1, 32)].
Proof.
  eapply (cr_crash_eq nv_prod ex_f2 ex_h2 40 _ ex_f3 _ ex_f2_reach); [vm_compute; reflexivity | vm_compute; reflexivity].
Qed.

Lemma ex_f4_reach : crash_reach nv_prod ex_f4 ex_h4.
Proof.
  eapply (cr_append_eq nv_prod ex_f3 _ _ nv_w _ _ ex_f4 _ ex_f3_reach);
    [vm_compute; reflexivity | exact nv_w_in_bounds | vm_compute; reflexivity | vm_compute; reflexivity
    | vm_compute; reflexivity | vm_compute; reflexivity].
Qed.

(* the records of the witness file *)
Definition ex_rs4 : list dbrec :=
  map DPath [bs "a"; bs "x"] ++ DBuild [0%N] [1%N] 11%N ::
  (map DPath [bs "y"; bs "b"; bs "z"] ++ [DBuild [3%N] [2%N; 4%N] 77%N]).

Lemma ex_f4_records : ex_f4 = signature ++ encs ex_rs4.
Proof. vm_compute. reflexivity. Qed.

Lemma ex_rs4_ok : Forall rec_ok ex_rs4.
Proof.
  unfold ex_rs4. cbn [map app].
  repeat (apply Forall_cons; [cbn [rec_ok]; repeat split; repeat (first [apply Forall_nil | apply Forall_cons]);
                              unfold id_ok; reflexivity|]).
  apply Forall_nil.
Qed.

Lemma Forall2_id_name_names tbl : forall ids names, Forall2 (id_name tbl) ids names ->
  map Some names = map (fun i => nth_error tbl (N.to_nat i)) ids.
Proof. induction 1 as [|i n ids names H _ IH]; [reflexivity|]. cbn [map]. unfold id_name in H. now rewrite H, IH. Qed.

(* in a crash-free log the path records of a write come in the order outputs-then-dependencies;
   the witness has them in the order  y (left by the torn write), b, z *)
Theorem ex_f4_not_a_prefix : forall ws log,
  Forall in_bounds ws -> table_small ws -> log_of ws = Ok log -> ~ is_prefix ex_f4 log.
Proof.
  intros ws log Hb Hs Hlog [t Ht]. unfold log_of in Hlog.
  destruct (log_from [] ws) as [[b tbl']| | | |] eqn:E; try discriminate Hlog. cbn [bind fst] in Hlog.
  apply Ok_inj in Hlog. subst log. rewrite ex_f4_records, <- app_assoc in Ht. apply app_inv_head in Ht. subst b.
  change (N.of_nat (length (@nil bytes) + nnames ws) < 16777216)%N in Hs.
  destruct ws as [|wa ws1].
  { cbn [log_from] in E. apply Ok_inj in E. apply (f_equal fst) in E. vm_compute in E. discriminate E. }
  pose proof (Forall_inv Hb) as Hwa. pose proof (Forall_inv_tail Hb) as Hws1.
  destruct (log_from_cons_shape [] wa ws1 _ tbl' Hwa Hws1 Hs E)
    as (oa & da & recs1 & Eb & Hoka & Hok1 & _ & _ & E1 & Hs1). cbv zeta in *.
  set (newsA := new_names (w_outs wa) [] ++ new_names (w_deps wa) ([] ++ new_names (w_outs wa) [])) in *.
  destruct (encs_prefix ex_rs4 _ t ex_rs4_ok Hoka Eb) as (rest & Er).
  unfold ex_rs4 in Er. rewrite <- app_assoc in Er. cbn [app] in Er. rewrite <- app_assoc in Er. cbn [app] in Er.
  change (map DPath newsA ++ DBuild oa da (w_hash wa) :: recs1 =
          map DPath [bs "a"; bs "x"] ++ DBuild [0%N] [1%N] 11%N ::
            (map DPath [bs "y"; bs "b"; bs "z"] ++ DBuild [3%N] [2%N; 4%N] 77%N :: rest)) in Er.
  apply paths_build_inj in Er as (EnA & _ & _ & _ & Er1).
  rewrite EnA in E1, Hs1. cbn [app] in E1, Hs1. clear Hoka Eb EnA newsA.
  destruct ws1 as [|wb ws2].
  { cbn in E1. injection E1 as E1 _. subst recs1. vm_compute in E1. discriminate E1. }
  pose proof (Forall_inv Hws1) as Hwb. pose proof (Forall_inv_tail Hws1) as Hws2.
  destruct (log_from_cons_shape _ wb ws2 _ tbl' Hwb Hws2 Hs1 E1)
    as (ob & db & recs2 & Eb & Hokb & _ & Hob & Hdb & _ & _). cbv zeta in *.
  set (tblA := [bs "a"; bs "x"]) in *.
  set (newsB := new_names (w_outs wb) tblA ++ new_names (w_deps wb) (tblA ++ new_names (w_outs wb) tblA)) in *.
  rewrite <- (app_nil_r (encs recs1)) in Eb.
  destruct (encs_prefix recs1 _ [] Hok1 Hokb Eb) as (rest' & Er2).
  rewrite Er1, <- app_assoc in Er2. cbn [app] in Er2.
  apply paths_build_inj in Er2 as (EnB & Eob & Edb & _ & _).
  subst ob db. rewrite EnB in Hob, Hdb.
  apply Forall2_id_name_names in Hob. apply Forall2_id_name_names in Hdb.
  cbn in Hob, Hdb.
  destruct (w_outs wb) as [|o1 [|o2 os]]; try discriminate Hob. injection Hob as ->.
  destruct (w_deps wb) as [|d1 [|d2 [|d3 ds]]]; try discriminate Hdb. injection Hdb as -> ->.
  vm_compute in EnB. discriminate EnB.
Qed.

(* the witness crashes a second time: the record appended after the first recovery is torn, the
   record that survived the first crash survives again *)
Example ex_second_crash :
  survivors 50 ex_h4 = [(ex_w1, 32)] /\
  exists st f', db_open true nv_prod (firstn 50 ex_f4) = OpenOk st f' /\ length f' = 41 /\
                loaded_for st 0 = Some ([bs "x"], 11%N) /\ loaded_for st 1 = None /\
                ld_tbl st = [bs "a"; bs "x"; bs "y"; bs "b"; bs "z"].
Proof.
  split; [vm_compute; reflexivity|].
  exists (open_st (db_open true nv_prod (firstn 50 ex_f4))), (open_file (db_open true nv_prod (firstn 50 ex_f4))).
  repeat split; vm_compute; reflexivity.
Qed.
