(* C06, termination: the fuel [want_fuel g] is never exhausted by the want traversal.
   Measure: (#steps without a state, room left on the stack).  The stack holds pairwise
   distinct files (else the cycle check fires); a fresh stack is started only below a step
   that has just been given a state. *)
From N2 Require Import Model.All Proofs.SchedSpec Proofs.SchedInv Proofs.SchedWantRel
     Proofs.SchedWantSteps Proofs.SchedWantInv Proofs.CanonProps.

Lemma filter_len_le {A} (P Q : A -> bool) l :
  (forall x, In x l -> Q x = true -> P x = true) ->
  length (filter Q l) <= length (filter P l).
Proof.
  induction l as [|x r IH]; intros H; cbn [filter]; [lia|].
  assert (IH' : length (filter Q r) <= length (filter P r))
    by (apply IH; intros y Hy; apply H; now right).
  destruct (Q x) eqn:EQ.
  - rewrite (H x (or_introl eq_refl) EQ). cbn [length]. lia.
  - destruct (P x); cbn [length]; lia.
Qed.

Lemma filter_len_lt {A} (P Q : A -> bool) l a :
  (forall x, In x l -> Q x = true -> P x = true) ->
  In a l -> P a = true -> Q a = false ->
  length (filter Q l) < length (filter P l).
Proof.
  induction l as [|x r IH]; intros H Hin HP HQ; [destruct Hin|].
  cbn [filter].
  assert (Hr : forall y, In y r -> Q y = true -> P y = true) by (intros y Hy; apply H; now right).
  destruct Hin as [->|Hin].
  - rewrite HP, HQ. cbn [length]. pose proof (filter_len_le P Q r Hr). lia.
  - pose proof (IH Hr Hin HP HQ) as IH'.
    destruct (Q x) eqn:EQ.
    + rewrite (H x (or_introl eq_refl) EQ). cbn [length]. lia.
    + destruct (P x); cbn [length]; lia.
Qed.

Lemma filter_len_all {A} (P : A -> bool) l : length (filter P l) <= length l.
Proof. induction l as [|x r IH]; cbn [filter length]; [lia|]. destruct (P x); cbn [length]; lia. Qed.

Lemma file_input_lt g f b : file_input g f = Some b -> f < length (g_files g).
Proof.
  unfold file_input. destruct (nth_error (g_files g) f) eqn:E; [|discriminate].
  intros _. apply nth_error_Some. congruence.
Qed.

Section Fuel.
Variable g : graph.
Hypothesis Hwf : graph_wf g.

Let nb := length (g_builds g).
Let nf := length (g_files g).

Definition unknowns (s : bstates) : nat :=
  length (filter (fun i => bstate_eqb (get_state s i) Unknown) (indices (g_builds g))).

Definition Ff (u k : nat) : nat := u * (2 * nf + 2) + 2 * (nf - k) + 1.
Definition Fb (u k : nat) : nat := u * (2 * nf + 2) + 2 * (nf - k) + 2.

Lemma unknowns_le_nb s : unknowns s <= nb.
Proof. unfold unknowns, indices. etransitivity; [apply filter_len_all|]. now rewrite seq_length. Qed.

Lemma unknowns_mono s s' :
  (forall b, get_state s' b = Unknown -> get_state s b = Unknown) -> unknowns s' <= unknowns s.
Proof.
  intro H. apply filter_len_le. intros x _ Hx. apply bstate_eqb_eq in Hx. apply bstate_eqb_eq. auto.
Qed.

Lemma unknowns_ext s s' : ext g s s' -> unknowns s' <= unknowns s.
Proof.
  intro He. apply unknowns_mono. intros b Hb.
  destruct (get_state s b) eqn:E; try reflexivity;
    exfalso; refine (ext_known g s s' b He _ Hb); unfold known; congruence.
Qed.

Lemma unknowns_lt s s' id :
  (forall b, get_state s' b = Unknown -> get_state s b = Unknown) ->
  id < nb -> get_state s id = Unknown -> get_state s' id <> Unknown ->
  unknowns s' < unknowns s.
Proof.
  intros H Hid HU HK. unfold unknowns. apply filter_len_lt with (a := id).
  - intros x _ Hx. apply bstate_eqb_eq in Hx. apply bstate_eqb_eq. auto.
  - unfold indices. apply in_seq. fold nb. lia.
  - now apply bstate_eqb_eq.
  - now apply bstate_eqb_neq.
Qed.

Lemma ord_loop_no_oof wf u :
  (forall w f, lenok g (fst w) -> unknowns (fst w) <= u -> wf w f <> OutOfFuel) ->
  (forall w f w' ok, wf w f = Ok (w', ok) -> ext g (fst w) (fst w')) ->
  forall ins w ready, lenok g (fst w) -> unknowns (fst w) <= u ->
                      ord_loop wf ins w ready <> OutOfFuel.
Proof.
  intros H1 H2. induction ins as [|f rest IH]; intros w ready Hl Hu; cbn [ord_loop]; [discriminate|].
  destruct (wf w f) as [[w1 ok]| | | |] eqn:E; cbn [bind]; try discriminate.
  - pose proof (H2 _ _ _ _ E) as He. apply IH.
    + now apply (ext_lenok g _ _ He).
    + pose proof (unknowns_ext _ _ He). lia.
  - exfalso. now apply (H1 w f Hl Hu).
Qed.

Lemma val_loop_no_oof wf u :
  (forall w f, lenok g (fst w) -> unknowns (fst w) <= u -> wf w f <> OutOfFuel) ->
  (forall w f w' ok, wf w f = Ok (w', ok) -> ext g (fst w) (fst w')) ->
  forall ins w, lenok g (fst w) -> unknowns (fst w) <= u -> val_loop wf ins w <> OutOfFuel.
Proof.
  intros H1 H2. induction ins as [|f rest IH]; intros w Hl Hu; cbn [val_loop]; [discriminate|].
  destruct (wf w f) as [[w1 ok]| | | |] eqn:E; cbn [bind]; try discriminate.
  - pose proof (H2 _ _ _ _ E) as He. cbn [fst]. apply IH.
    + now apply (ext_lenok g _ _ He).
    + pose proof (unknowns_ext _ _ He). lia.
  - exfalso. now apply (H1 w f Hl Hu).
Qed.

Lemma want_file_ext fuel w stack f w' ok :
  want_file fuel g w stack f = Ok (w', ok) -> ext g (fst w) (fst w').
Proof. intro H. apply want_file_sound in H. apply steps_ext. eapply WF_steps; eauto. Qed.

Lemma stack_room stack f :
  NoDup stack -> (forall x, In x stack -> x < nf) -> ~ In f stack -> f < nf ->
  S (length stack) <= nf.
Proof.
  intros Hnd Hlt Hnin Hf.
  assert (H : length (f :: stack) <= length (seq 0 nf)).
  { apply NoDup_incl_length; [constructor; assumption|].
    intros x [<-|Hx]; apply in_seq; [lia|]. specialize (Hlt x Hx). lia. }
  rewrite seq_length in H. exact H.
Qed.

Lemma want_no_oof : forall fuel,
  (forall w stack id, id < nb -> lenok g (fst w) -> NoDup stack ->
     (forall x, In x stack -> x < nf) -> Fb (unknowns (fst w)) (length stack) <= fuel ->
     want_build fuel g w stack id <> OutOfFuel) /\
  (forall w stack f, lenok g (fst w) -> NoDup stack ->
     (forall x, In x stack -> x < nf) -> Ff (unknowns (fst w)) (length stack) <= fuel ->
     want_file fuel g w stack f <> OutOfFuel).
Proof.
  induction fuel as [|fuel [IHb IHf]].
  { split; intros; unfold Fb, Ff in *; lia. }
  split.
  - intros w stack id Hid Hl Hnd Hlt Hfuel. rewrite want_build_S. cbv zeta.
    destruct (bstate_eqb (get_state (fst w) id) Unknown) eqn:EU; cbn [negb]; [|discriminate].
    apply bstate_eqb_eq in EU.
    set (u := unknowns (fst w)) in *.
    assert (Hwf1 : forall w0 f, lenok g (fst w0) -> unknowns (fst w0) <= u ->
                                want_file fuel g w0 stack f <> OutOfFuel).
    { intros w0 f Hl0 Hu0. apply IHf; auto. unfold Fb, Ff in *.
      assert (unknowns (fst w0) * (2 * nf + 2) <= u * (2 * nf + 2)) by (apply Nat.mul_le_mono_r; exact Hu0).
      lia. }
    destruct (ord_loop _ _ _ _) as [[w1 ready]| | | |] eqn:EO; cbn [bind]; try discriminate.
    2:{ exfalso. refine (ord_loop_no_oof _ u Hwf1 _ _ w true Hl (le_n _) EO).
        intros; eapply want_file_ext; eauto. }
    pose proof (ord_loop_sound g _ stack (fun w f w' ok => want_file_sound g fuel w stack f w' ok) _ _ _ _ _ EO) as HOL.
    pose proof (steps_ext _ _ _ (OL_steps g Hwf _ _ _ _ _ _ HOL)) as E1.
    assert (Hl1 : lenok g (fst w1)) by (apply (ext_lenok g _ _ E1); exact Hl).
    set (st := if ready then Ready else Want).
    destruct (bs_set (fst w1) id (get_build g id) st) as [s'| | | |] eqn:ES; cbn [bind]; try discriminate.
    2:{ exfalso. eapply bs_set_no_fuel; eauto. }
    assert (Hst : st <> Unknown) by (subst st; destruct ready; discriminate).
    assert (Hl' : lenok g s').
    { unfold lenok. rewrite (bs_set_states _ _ _ _ _ ES), set_nth_length. exact Hl1. }
    assert (Hu' : unknowns s' < u).
    { apply unknowns_lt with (id := id); auto.
      - intros b Hb. destruct (Nat.eq_dec b id) as [->|Hne]; [exact EU|].
        rewrite (bs_set_get_other _ _ _ _ _ b ES Hne) in Hb.
        destruct (get_state (fst w) b) eqn:E; try reflexivity;
          exfalso; refine (ext_known g _ _ b E1 _ Hb); unfold known; congruence.
      - rewrite (bs_set_get_same _ _ _ _ _ ES); [exact Hst|].
        unfold lenok in Hl1. rewrite Hl1. exact Hid. }
    assert (Hwf2 : forall w0 f, lenok g (fst w0) -> unknowns (fst w0) <= u - 1 ->
                                want_file fuel g w0 [] f <> OutOfFuel).
    { intros w0 f Hl0 Hu0. apply IHf; auto; [constructor|intros x []|].
      unfold Fb, Ff in *. cbn [length].
      assert (unknowns (fst w0) * (2 * nf + 2) <= (u - 1) * (2 * nf + 2)) by (apply Nat.mul_le_mono_r; exact Hu0).
      assert (u = S (u - 1)) by lia.
      assert (u * (2 * nf + 2) = (u - 1) * (2 * nf + 2) + (2 * nf + 2)) by (rewrite H0 at 1; cbn [Nat.mul]; lia).
      lia. }
    destruct (val_loop _ _ _) as [w2| | | |] eqn:EV; cbn [bind]; try discriminate.
    exfalso. refine (val_loop_no_oof _ (u - 1) Hwf2 _ _ _ _ _ EV).
    + intros; eapply want_file_ext; eauto.
    + exact Hl'.
    + cbn [fst]. lia.
  - intros w stack f Hl Hnd Hlt Hfuel. rewrite want_file_S.
    destruct (position f stack) eqn:EP; [discriminate|]. apply position_none in EP.
    destruct (file_input g f) as [bid|] eqn:EF; [|discriminate].
    assert (Hf : f < nf) by (eapply file_input_lt; eauto).
    assert (Hbid : bid < nb) by (eapply (proj1 Hwf); eauto).
    pose proof (stack_room stack f Hnd Hlt EP Hf) as Hroom.
    assert (Hb : want_build fuel g w (stack ++ [f]) bid <> OutOfFuel).
    { apply IHb; auto.
      - now apply NoDup_snoc.
      - intros x Hx. apply in_app_or in Hx as [Hx|[<-|[]]]; auto.
      - rewrite app_length. cbn [length]. unfold Fb, Ff in *. lia. }
    destruct (want_build fuel g w (stack ++ [f]) bid) as [[w' st]| | | |]; cbn [bind];
      try discriminate. contradiction.
Qed.

Lemma want_fuel_enough s : Ff (unknowns s) 0 <= want_fuel g.
Proof.
  unfold Ff, want_fuel. fold nb nf. pose proof (unknowns_le_nb s) as H.
  assert (unknowns s * (2 * nf + 2) <= nb * (2 * nf + 2)) by (apply Nat.mul_le_mono_r; exact H).
  nia.
Qed.

Theorem want_file_terminates s l f :
  lenok g s -> want_file (want_fuel g) g (s, l) [] f <> OutOfFuel.
Proof.
  intro Hl. apply (proj2 (want_no_oof (want_fuel g))); auto.
  - constructor.
  - intros x [].
  - cbn [length fst]. apply want_fuel_enough.
Qed.

Theorem want_targets_terminates ts : forall s l,
  lenok g s -> want_targets g (s, l) ts <> OutOfFuel.
Proof.
  induction ts as [|t rest IH]; intros s l Hl; cbn [want_targets]; [discriminate|].
  destruct (want_file (want_fuel g) g (s, l) [] t) as [[[s1 l1] ok]| | | |] eqn:E; cbn [bind];
    try discriminate.
  - cbn [fst]. apply IH. apply want_file_ext in E. now apply (ext_lenok g _ _ E).
  - exfalso. now apply (want_file_terminates s l t Hl).
Qed.

Lemma resolve_target_no_oof name : resolve_target g name <> OutOfFuel.
Proof.
  unfold resolve_target. destruct name as [|c r]; [discriminate|].
  destruct (canon_outcomes (c :: r)) as [[q ->]|[-> | ->]]; cbn [bind]; discriminate.
Qed.

Theorem want_named_terminates manifest adopt names : forall s l,
  lenok g s -> want_named g manifest adopt names (s, l) <> OutOfFuel.
Proof.
  induction names as [|n rest IH]; intros s l Hl; cbn [want_named]; [discriminate|].
  pose proof (resolve_target_no_oof n) as Hr.
  destruct (resolve_target g n) as [[t|]| | | |]; cbn [bind]; try discriminate; try contradiction.
  - destruct (opt_nat_eqb (Some t) manifest); [now apply IH|].
    destruct (want_file (want_fuel g) g (s, l) [] t) as [[[s1 l1] ok]| | | |] eqn:E; cbn [bind];
      try discriminate.
    + cbn [fst]. apply IH. apply want_file_ext in E. now apply (ext_lenok g _ _ E).
    + exfalso. now apply (want_file_terminates s l t Hl).
  - destruct adopt; [now apply IH|discriminate].
Qed.

Theorem want_main_terminates defaults manifest adopt names s l :
  lenok g s -> want_main g defaults manifest adopt names (s, l) <> OutOfFuel.
Proof.
  intro Hl. unfold want_main. destruct names as [|n rest].
  - unfold select_targets. destruct defaults; cbn [bind]; now apply want_targets_terminates.
  - now apply want_named_terminates.
Qed.

End Fuel.

(* statements in the form asked for (BInv supplies the length) *)
Theorem C06_want_terminates g decls s :
  graph_wf g -> BInv g decls s ->
  forall f l, want_file (want_fuel g) g (s, l) [] f <> OutOfFuel.
Proof. intros Hwf HB f l. apply want_file_terminates; [exact Hwf|apply (bi_len _ _ _ HB)]. Qed.

Theorem C06_want_targets_terminates g decls s :
  graph_wf g -> BInv g decls s -> forall ts l, want_targets g (s, l) ts <> OutOfFuel.
Proof. intros Hwf HB ts l. apply want_targets_terminates; [exact Hwf|apply (bi_len _ _ _ HB)]. Qed.

Theorem C06_want_named_terminates g decls s :
  graph_wf g -> BInv g decls s ->
  forall manifest adopt names l, want_named g manifest adopt names (s, l) <> OutOfFuel.
Proof. intros Hwf HB m a n l. apply want_named_terminates; [exact Hwf|apply (bi_len _ _ _ HB)]. Qed.

Theorem C06_want_main_terminates g decls s :
  graph_wf g -> BInv g decls s ->
  forall defaults manifest adopt names l,
    want_main g defaults manifest adopt names (s, l) <> OutOfFuel.
Proof. intros Hwf HB d m a n l. apply want_main_terminates; [exact Hwf|apply (bi_len _ _ _ HB)]. Qed.
