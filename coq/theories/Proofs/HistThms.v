(* The capstone of C02 at the level of histories, in the form stated in Props/C02Hist.v. *)
From Coq Require Import Lia ZArith List Bool Arith.
From N2 Require Import Model.All Proofs.SchedSpec Proofs.SchedInv Proofs.SchedRunBase
     Proofs.SchedRunStep Proofs.SchedRunCore Proofs.SchedRunAux Proofs.SchedRunRInv Proofs.SchedRunThms
     Proofs.SchedWantInv Proofs.SchedRunFinal Proofs.SchedLive.
From N2 Require Import Proofs.DbSpec Proofs.WorldSpec Proofs.WorldBase Proofs.WorldDeps Proofs.WorldDirty
     Proofs.WorldHash Proofs.WorldLog Proofs.JointSpec Proofs.JointBase Proofs.JointSched Proofs.JointInv
     Proofs.JointThms Proofs.JointLog Proofs.JointMain
     Proofs.HistSpec Proofs.HistBase Proofs.HistInv Proofs.HistMain Proofs.HistClean.
Import ListNotations.

Section HistThms.
Variable content : Type.
Variable stamp : bytes -> mtime -> content.
Variable cmd : bytes -> option (bytes * bytes) -> (bytes -> option content) -> (bytes -> content) * list bytes.
Variable GR : nat -> manifest -> Prop.
Variable g : graph.
Variable wg : wgraph.
Notation nb := (length (g_builds g)).
Notation bd_ b := (get_wbuild wg b).
Notation cont := (cont content stamp).
Notation fresh := (fresh content stamp cmd).
Notation fresh_at := (fresh_at content stamp cmd).
Notation clean_cont := (clean_cont content cmd wg).
Notation HInv := (HInv content stamp cmd GR g wg).
Notation hstep := (hstep content stamp cmd GR g wg).
Notation hsteps := (hsteps content stamp cmd GR g wg).

Hypothesis Hst : static_ok content cmd g wg.

Theorem hist_invariant : forall st H st', HInv st -> hsteps st H st' -> HInv st'.
Proof. exact (history_invariant content stamp cmd GR g wg Hst). Qed.

Theorem hist_invariant_from_empty : forall fs H st', fs_wf fs -> hsteps (mkH fs [] []) H st' -> HInv st'.
Proof.
  intros fs H st' Wf Hs. apply (hist_invariant (mkH fs [] []) H st'); [|exact Hs].
  exact (HInv_init content stamp cmd GR g wg fs Wf).
Qed.

(* the state before the last item *)
Lemma last_invocation st H inv st2 :
  HInv st -> hsteps st (H ++ [HInvoke inv]) st2 ->
  exists st1, HInv st1 /\ hstep st1 (HInvoke inv) st2.
Proof.
  intros Hi Hs. apply hsteps_snoc_inv in Hs. destruct Hs as (st1 & H1 & H2).
  exists st1. split; [exact (hist_invariant _ _ _ Hi H1)|exact H2].
Qed.

Theorem success_all_fresh : forall st H inv pre st2,
  HInv st -> hsteps st (H ++ [HInvoke inv]) st2 -> i_tr inv = pre ++ [JReturn (Some true)] ->
  forall b, get_state (i_s inv) b <> Unknown -> wb_cmdline (bd_ b) <> None ->
    fresh (h_fs st2) (bd_ b) /\
    (forall n p, In n (wb_dirtying (bd_ b)) -> producer_of wg n = Some p -> get_state (i_s inv) p <> Unknown).
Proof.
  intros st H inv pre st2 Hi Hs Htr b Hw Hc.
  destruct (last_invocation st H inv st2 Hi Hs) as (st1 & Hi1 & H1).
  destruct (invoke_all_fresh content stamp cmd GR g wg Hst st1 inv st2 pre Hi1 H1 Htr b Hw Hc)
    as (_ & (deps & Hf & _) & Hcl).
  split; [exact (fresh_at_fresh content stamp cmd _ _ _ Hf)|exact Hcl].
Qed.

Theorem equals_clean_build : forall st H inv pre st2,
  HInv st -> hsteps st (H ++ [HInvoke inv]) st2 -> i_tr inv = pre ++ [JReturn (Some true)] ->
  forall fuel, nb <= fuel ->
  forall b, get_state (i_s inv) b <> Unknown -> wb_cmdline (bd_ b) <> None ->
  forall o, In o (wb_outs (bd_ b)) -> cont (h_fs st2) o = clean_cont fuel (cont (h_fs st2)) o.
Proof.
  intros st H inv pre st2 Hi Hs Htr fuel Hfuel b Hw Hc o Ho.
  destruct (last_invocation st H inv st2 Hi Hs) as (st1 & Hi1 & H1).
  apply (clean_build_equiv content stamp cmd g wg Hst (h_fs st2) (fun x => get_state (i_s inv) x <> Unknown))
    with (b := b); auto.
  - intros x Hx Hcx.
    destruct (invoke_all_fresh content stamp cmd GR g wg Hst st1 inv st2 pre Hi1 H1 Htr x Hx Hcx)
      as (Lx & Hf & Hcl). auto.
  - inversion H1 as [|st0 inv0 w0 r w1 Hg Had El W Ha Ho' Ht Hlim]; subst st0 inv0 st2.
    rewrite <- Hg in W |- *.
    assert (Hwf : graph_wf (cf_graph (i_cf inv))) by (rewrite Hg; exact (so_wf _ _ _ _ Hst)).
    exact (reachable_acyclic (i_cf inv) (i_decls inv) Hwf _
             (reach_init (i_cf inv) (i_decls inv) (i_s inv) (i_fl inv) W)).
Qed.

End HistThms.
