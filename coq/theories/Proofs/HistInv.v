(* One invocation of a history: along a jointly accepted trace, every step that has been settled
   (judged clean, or run and recorded, or Done) is fresh w.r.t. the present tree, and every record
   in effect in the log has a provenance. *)
From Coq Require Import Lia ZArith List Bool Arith.
From N2 Require Import Model.All Proofs.SchedSpec Proofs.SchedInv Proofs.SchedRunBase
     Proofs.SchedRunStep Proofs.SchedRunCore Proofs.SchedRunAux Proofs.SchedRunRInv Proofs.SchedRunThms.
From N2 Require Import Proofs.DbSpec Proofs.WorldSpec Proofs.WorldBase Proofs.WorldDeps Proofs.WorldDirty
     Proofs.WorldHash Proofs.WorldLog Proofs.JointSpec Proofs.JointBase Proofs.JointSched Proofs.JointInv
     Proofs.JointLog Proofs.HistSpec Proofs.HistBase.
Import ListNotations.

Section HistInv.
Variable content : Type.
Variable stamp : bytes -> mtime -> content.
Variable cmd : bytes -> option (bytes * bytes) -> (bytes -> option content) -> (bytes -> content) * list bytes.
Variable GR : nat -> manifest -> Prop.
Variable cf : config.
Variable decls : list (bytes * nat).
Variable wg : wgraph.
Notation g := (cf_graph cf).
Notation nb := (length (g_builds (cf_graph cf))).
Notation P := (producer_of wg).
Notation bd_ b := (get_wbuild wg b).
Notation cont := (cont content stamp).
Notation run := (run content cmd).
Notation hermetic := (hermetic content cmd).
Notation fresh := (fresh content stamp cmd).
Notation fresh_at := (fresh_at content stamp cmd).
Notation finish_ok := (finish_ok content stamp cmd wg).
Notation rep_ok := (rep_ok wg).
Notation trace_gen := (trace_gen content stamp cmd GR wg).
Notation srcs := (srcs wg).
Notation trace_ws := (trace_ws wg).

Hypothesis Hst : static_ok content cmd (cf_graph cf) wg.
Hypothesis Had : cf_adopt cf = false.

Variable w0 : wstate.
Variable ws0 : list wr.
Hypothesis Hload : forall b,
  assoc_nat b (ws_disc w0) = option_map fst (last_applicable P ws0 b None) /\
  assoc_nat b (ws_hashes w0) = option_map snd (last_applicable P ws0 b None).

(* the invariant of the list of records, and what it must provide (instantiated in HistMain.v
   for a fixed graph and in HistGMain.v for a graph that changes along the history) *)
Variable RecOk : list wr -> Prop.
Variable NCc : nat -> fsmap -> Prop.
(* the steps that may be wanted; their dependency lists loaded from the log are source files *)
Variable W0 : nat -> Prop.
Hypothesis Hsrc0 : forall b d, W0 b -> In d (disc_of w0 b) -> P d = None.
(* a tree whose manifest of step b hashes to the loaded hash makes b fresh *)
Hypothesis Hclean0 : forall b prev fs m, b < nb -> wb_cmdline (bd_ b) <> None ->
  assoc_nat b (ws_hashes w0) = Some prev -> fs_wf fs ->
  fs_manifest fs (bd_ b) (disc_of w0 b) = Some m -> hash_build m = prev -> NCc b fs ->
  fresh_at fs (bd_ b) (disc_of w0 b).
(* a new record of a fresh step *)
Hypothesis Hrec_step : forall ws b deps h fs m, RecOk ws -> b < nb -> wb_cmdline (bd_ b) <> None ->
  fs_wf fs -> fs_manifest fs (bd_ b) deps = Some m -> hash_build m = h -> GR b m ->
  fresh_at fs (bd_ b) deps -> srcs deps -> RecOk (ws ++ [wr_of (bd_ b) deps h]).

Lemma Hwf : graph_wf g. Proof. exact (so_wf _ _ _ _ Hst). Qed.
Lemma Hag : graphs_agree g wg. Proof. exact (so_agree _ _ _ _ Hst). Qed.
Lemma Houts : forall b, b < nb -> wb_outs (bd_ b) <> []. Proof. exact (so_outs _ _ _ _ Hst). Qed.

Lemma Hdisc0 : forall b d, W0 b -> In d (disc_of w0 b) -> P d = None.
Proof. exact Hsrc0. Qed.

(* ------------------------------------------------------------------------------------ *)

Record FInv (a : jst) (ws : list wr) (lf : option (nat * option (list bytes))) : Prop := {
  fi_wf : fs_wf (ws_fs (j_w a));
  fi_pend : forall b rep, j_pend a = Some (b, rep) ->
     j_aw a = Some b /\ lf = Some (b, rep) /\ finish_ok (ws_fs (j_w a)) b rep;
  fi_settled : forall b, b < nb -> wb_cmdline (bd_ b) <> None -> settled (j_r a) b ->
     fresh_at (ws_fs (j_w a)) (bd_ b) (disc_of (j_w a) b);
  fi_log : log_is (j_w a) ws;
  fi_recs : RecOk ws;
}.

(* the step whose record decision is pending has just finished *)
Lemma aw_ctl a b : JInv cf decls wg a -> j_aw a = Some b -> rs_ctl (j_r a) = CFinished b TSuccess false.
Proof.
  intros J Ha. pose proof (ji_aw _ _ _ _ J) as A. rewrite Had, Ha in A.
  destruct (rs_ctl (j_r a)) as [|q|q v rec|q|q t rec|o]; cbn [aw_ok] in A; try discriminate.
  - destruct v; try discriminate. destruct rec; discriminate.
  - destruct t; try discriminate. destruct rec; try discriminate. now injection A as ->.
Qed.

Lemma finishing_facts a b : JInv cf decls wg a -> rs_ctl (j_r a) = CFinished b TSuccess false ->
  b < nb /\ get_state (rs_bs (j_r a)) b = Running /\ wb_cmdline (bd_ b) <> None.
Proof.
  intros J Hc. pose proof (ji_r _ _ _ _ J) as R. pose proof (ri_ctl _ _ _ R) as K. rewrite Hc in K.
  cbn [ctl_ok] in K. destruct K as (_ & _ & L & E). split; [exact L|]. split; [exact E|].
  intro Hn. apply (ga_phony g wg Hag b L) in Hn.
  rewrite (bc_nonphony _ _ _ (ri_core _ _ _ R) b) in Hn; [discriminate|]. rewrite E. cbn. tauto.
Qed.

Lemma running_nonphony a b : JInv cf decls wg a -> b < nb -> get_state (rs_bs (j_r a)) b = Running ->
  wb_cmdline (bd_ b) <> None.
Proof.
  intros J L E Hn. pose proof (ji_r _ _ _ _ J) as R. apply (ga_phony g wg Hag b L) in Hn.
  rewrite (bc_nonphony _ _ _ (ri_core _ _ _ R) b) in Hn; [discriminate|]. rewrite E. cbn. tauto.
Qed.

(* a running command does not write a declared input or an output of the step that has just finished *)
Lemma finishing_frame a b x n :
  JInv cf decls wg a -> rs_ctl (j_r a) = CFinished b TSuccess false ->
  In x (j_run a) -> In n (wb_outs (bd_ x)) ->
  ~ In n (wb_dirtying (bd_ b)) /\ ~ In n (wb_outs (bd_ b)) /\ P n = Some x.
Proof.
  intros J Hc Hx Ix. destruct (finishing_facts a b J Hc) as (Lb & Eb & _).
  destruct (ji_run _ _ _ _ J x Hx) as (Lx & Ex & Nf). pose proof (ji_r _ _ _ _ J) as R.
  split; [|split].
  - intro Hn. pose proof (dirtying_out_producer g wg Hwf Hag b n x Lb Lx Hn Ix) as Hop.
    pose proof (bc_prod _ _ _ (ri_core _ _ _ R) b x) as Hd. rewrite Eb in Hd.
    rewrite Hd in Ex; [discriminate|cbn; tauto|exact Hop].
  - intro Hn. assert (b = x) by exact (outs_disjoint g wg Hag b x n Lb Lx Hn Ix). subst x.
    exact (Nf _ _ Hc).
  - exact (outs_producer g wg Hag x n Lx Ix).
Qed.

(* ... nor a file of a settled step (the argument of JointLog.LInv_write) *)
Lemma settled_frame a wsL b x n :
  JInv cf decls wg a -> LInv cf wg w0 ws0 W0 a wsL ->
  b < nb -> wb_cmdline (bd_ b) <> None -> settled (j_r a) b ->
  In x (j_run a) -> In n (wb_outs (bd_ x)) -> ~ In n (files wg (j_w a) b).
Proof.
  intros J L Lb Hc Hb Hx Ix Hn'.
  destruct (ji_run _ _ _ _ J x Hx) as (Lx & Ex & Nf). pose proof (ji_r _ _ _ _ J) as R.
  destruct (li_settled _ _ _ _ _ _ _ L b Lb Hc Hb) as (Hsrc & _).
  assert (Hst' : In (get_state (rs_bs (j_r a)) b) [Ready; Queued; Running; Done] /\ b <> x).
  { pose proof (ri_ctl _ _ _ R) as Kc.
    destruct Hb as [Eb|[Hcb|Hcb]].
    - rewrite Eb. split; [cbn; tauto|congruence].
    - rewrite Hcb in Kc. cbn [ctl_ok] in Kc. destruct Kc as (_ & _ & [(Eb & _)|(Ev & _)]); [|discriminate].
      rewrite Eb. split; [cbn; tauto|congruence].
    - rewrite Hcb in Kc. cbn [ctl_ok] in Kc. destruct Kc as (_ & _ & _ & Eb).
      rewrite Eb. split; [cbn; tauto|]. intros ->. exact (Nf _ _ Hcb). }
  destruct Hst' as (Hst' & Hbx).
  unfold files in Hn'. apply in_app_or in Hn'. destruct Hn' as [Hn'|Hn'].
  - pose proof (dirtying_out_producer g wg Hwf Hag b n x Lb Lx Hn' Ix) as Hop.
    pose proof (bc_prod _ _ _ (ri_core _ _ _ R) b x Hst' Hop). congruence.
  - apply in_app_or in Hn'. destruct Hn' as [Hn'|Hn'].
    + pose proof (Hsrc n Hn'). pose proof (outs_producer g wg Hag x n Lx Ix). congruence.
    + apply Hbx. exact (outs_disjoint g wg Hag b x n Lb Lx Hn' Ix).
Qed.

(* the finish premise moves between trees that agree on the files the command depends on *)
Lemma finish_ok_agree fs fs' b rep :
  hermetic (bd_ b) -> finish_ok fs b rep ->
  (forall n, In n (wb_dirtying (bd_ b)) -> fs_get fs' n = fs_get fs n) ->
  (forall n d, In n (reported_names rep) -> n <> [] -> canon n = Ok d -> fs_get fs' d = fs_get fs d) ->
  (forall o, In o (wb_outs (bd_ b)) -> fs_get fs' o = fs_get fs o) ->
  finish_ok fs' b rep.
Proof.
  intros Hh (Hr & Hrep & Hf) Hd Hn Ho.
  assert (E : run (bd_ b) (cont fs') = run (bd_ b) (cont fs)).
  { apply (run_agree content stamp cmd); [exact Hh|exact Hd|]. rewrite <- Hrep. exact Hn. }
  split; [exact Hr|]. split; [now rewrite E|].
  intros o Io. rewrite E, <- (Hf o Io). apply (cont_agree content stamp). now apply Ho.
Qed.

(* ------------------------------------------------------------------------------------ *)
(* stage 3: a clean verdict *)

Lemma clean_fresh a wsL ws lf b w' c :
  JInv cf decls wg a -> LInv cf wg w0 ws0 W0 a wsL -> FInv a ws lf ->
  rs_ctl (j_r a) = CChecking b -> wb_cmdline (bd_ b) = Some c ->
  check_build_dirty wg (j_w a) b (bd_ b) = (w', DClean) ->
  NCc b (ws_fs (j_w a)) ->
  fresh_at (ws_fs w') (bd_ b) (disc_of w' b).
Proof.
  intros J L F Hc Hcmd Ec Hnc. pose proof (ji_r _ _ _ _ J) as R.
  pose proof (ri_ctl _ _ _ R) as Kc. rewrite Hc in Kc. cbn [ctl_ok] in Kc. destruct Kc as (_ & _ & Lb & Eb).
  pose proof (check_ext _ _ _ _ _ _ Ec) as X.
  assert (Ff : ws_fs w' = ws_fs (j_w a)) by apply X.
  assert (Hun : unrec (j_r a) b) by (split; [rewrite Eb|rewrite Hc]; discriminate).
  destruct (li_unrec _ _ _ _ _ _ _ L b Hun) as (Hd0 & _).
  assert (Hd' : disc_of w' b = disc_of (j_w a) b) by apply (cache_ext_disc_of _ _ b X).
  destruct (clean_inv2 _ _ _ _ _ _ Hcmd Ec) as (prev & m & Hprev & Hm & Hhm).
  rewrite (li_hashes _ _ _ _ _ _ _ L) in Hprev.
  assert (Hcne : wb_cmdline (bd_ b) <> None) by congruence.
  assert (Wb : W0 b) by (apply (li_known _ _ _ _ _ _ _ L b); rewrite Eb; discriminate).
  pose proof (fun n => Hsrc0 b n Wb) as Hs0.
  rewrite Hd0 in Hm.
  (* the manifest from the cache is the manifest of the tree *)
  assert (Efs : fs_manifest (ws_fs w') (bd_ b) (disc_of w0 b) = Some m).
  { apply manifest_of_fresh; [exact Hm|]. intros n Hn v Hv.
    assert (CO : cache_ok cf wg (j_r a) w').
    { apply (cache_ok_gen cf wg (j_r a) (j_w a) (j_r a) w' (ji_cache _ _ _ _ J) (cache_ext_wext _ _ X)).
      intros p Sp. now left. }
    destruct (CO n v Hv) as [E|(p & Lp & Ip & Sp)]; [exact E|exfalso].
    assert (Hp' : get_state (rs_bs (j_r a)) p <> Done /\ get_state (rs_bs (j_r a)) p <> Ready).
    { destruct Sp as [[E _]|E]; rewrite E; split; discriminate. }
    apply in_app_or in Hn. destruct Hn as [Hn|Hn].
    + pose proof (dirtying_out_producer g wg Hwf Hag b n p Lb Lp Hn Ip) as Hop.
      apply (proj1 Hp'). apply (bc_prod _ _ _ (ri_core _ _ _ R) b p); [rewrite Eb; cbn; tauto|exact Hop].
    + apply in_app_or in Hn. destruct Hn as [Hn|Hn].
      * pose proof (Hs0 n Hn). pose proof (outs_producer g wg Hag p n Lp Ip). congruence.
      * assert (p = b) by exact (outs_disjoint g wg Hag p b n Lp Lb Ip Hn). subst p. apply (proj2 Hp'), Eb. }
  rewrite Hd', Hd0. apply (Hclean0 b prev (ws_fs w') m Lb Hcne Hprev); auto.
  - rewrite Ff. exact (fi_wf _ _ _ F).
  - now rewrite Ff.
Qed.

(* ------------------------------------------------------------------------------------ *)
(* preservation *)

(* the World only stat()ed *)
Lemma FInv_gen a ws lf r' w' aw' pend' run' lf' :
  FInv a ws lf -> cache_ext (j_w a) w' ->
  (forall x, x < nb -> wb_cmdline (bd_ x) <> None -> settled r' x ->
             settled (j_r a) x \/ fresh_at (ws_fs w') (bd_ x) (disc_of w' x)) ->
  (forall x rep, pend' = Some (x, rep) ->
             aw' = Some x /\ lf' = Some (x, rep) /\ finish_ok (ws_fs (j_w a)) x rep) ->
  FInv (mkJ r' w' aw' pend' run') ws lf'.
Proof.
  intros [Wf Pd S Lg Rc] X Hs Hp. pose proof X as (Ff & _ & _ & T & Ll & _).
  constructor; cbn [j_r j_w j_aw j_pend].
  - now rewrite Ff.
  - intros x rep Hx. rewrite Ff. exact (Hp x rep Hx).
  - intros x Lx Hc Hx. destruct (Hs x Lx Hc Hx) as [Hx'|Hx']; [|exact Hx'].
    rewrite Ff, (cache_ext_disc_of _ _ x X). now apply S.
  - exact (log_is_ext _ _ _ T Ll Lg).
  - exact Rc.
Qed.

(* a write by a running command *)
Lemma FInv_write a wsL ws lf n t :
  JInv cf decls wg a -> LInv cf wg w0 ws0 W0 a wsL -> FInv a ws lf ->
  write_ok wg (j_run a) (JWrite n t) -> mt_wf t ->
  FInv (mkJ (j_r a) (set_fs (j_w a) n t) (j_aw a) (j_pend a) (j_run a)) ws lf.
Proof.
  intros J L [Wf Pd S Lg Rc] (x & Hx & Ix) Ht. cbn [write_ok] in *.
  constructor; cbn [j_r j_w j_aw j_pend set_fs ws_fs ws_log ws_tbl ws_disc].
  - now apply fs_wf_set.
  - intros b rep Hb. destruct (Pd b rep Hb) as (Ha & Hl & Hf). split; [exact Ha|]. split; [exact Hl|].
    pose proof (aw_ctl a b J Ha) as Hc. destruct (finishing_facts a b J Hc) as (Lb & _ & Hcne).
    destruct (finishing_frame a b x n J Hc Hx Ix) as (N1 & N2 & Pn).
    apply (finish_ok_agree (ws_fs (j_w a)) _ b rep (so_hermetic _ _ _ _ Hst b Lb Hcne) Hf).
    + intros n' Hn'. apply fs_get_set_other. intros ->. contradiction.
    + intros n' d Hn' Hne Hcn. apply fs_get_set_other. intros ->.
      destruct Hf as (Hr & _). pose proof (proj1 (Hr n' n Hn' Hne Hcn)). congruence.
    + intros o Ho. apply fs_get_set_other. intros ->. contradiction.
  - intros b Lb Hc Hb. unfold disc_of at 1. cbn [ws_disc]. fold (disc_of (j_w a) b).
    apply (fresh_at_agree content stamp cmd (bd_ b) (disc_of (j_w a) b) (ws_fs (j_w a))).
    + exact (so_hermetic _ _ _ _ Hst b Lb Hc).
    + now apply S.
    + intros n' Hn'. apply fs_get_set_other. intros ->.
      exact (settled_frame a wsL b x n J L Lb Hc Hb Hx Ix Hn').
  - exact (log_is_ext _ _ _ eq_refl eq_refl Lg).
  - exact Rc.
Qed.

(* record_finished for the step that has just finished (with or without a record) *)
Lemma FInv_record a ws lf b rep w' ro r' aw' run' :
  JInv cf decls wg a -> FInv a ws lf ->
  record_finished (j_w a) b (bd_ b) rep = Ok (w', ro) -> j_pend a = Some (b, rep) ->
  (forall h deps m0, ro = Some h ->
     keep_deps (wb_dirtying (bd_ b)) (reported_names rep) [] = Ok deps ->
     fs_manifest (ws_fs (j_w a)) (bd_ b) deps = Some m0 -> GR b m0) ->
  (forall x, x <> b -> settled r' x -> settled (j_r a) x) ->
  FInv (mkJ r' w' aw' None run')
       (match ro with Some h => ws ++ [wr_of (bd_ b) (disc_of w' b) h] | None => ws end) lf.
Proof.
  intros J [Wf Pd S Lg Rc] Er Hp Hgr Hs.
  destruct (Pd b rep Hp) as (Ha & _ & Hf).
  pose proof (aw_ctl a b J Ha) as Hc. destruct (finishing_facts a b J Hc) as (Lb & _ & Hcne).
  destruct (record_ext _ _ _ _ _ _ Er) as (Ff & _ & _ & _).
  pose proof (replace_wholesale _ _ _ _ _ _ Er) as (Hk & Hother).
  assert (Hfr : fresh_at (ws_fs (j_w a)) (bd_ b) (disc_of w' b)).
  { destruct Hf as (_ & Hrep & Hfresh). split; [now rewrite <- Hrep|exact Hfresh]. }
  assert (Hsrc : srcs (disc_of w' b)).
  { intros d Hd. destruct (record_deps_from _ _ _ _ _ _ Er d Hd) as (n & Hn & Hne & Hcn).
    destruct Hf as (Hr & _). exact (Hr n d Hn Hne Hcn). }
  constructor; cbn [j_r j_w j_aw j_pend].
  - now rewrite Ff.
  - discriminate.
  - intros x Lx Hcx Hx. rewrite Ff. destruct (Nat.eq_dec x b) as [->|Hne]; [exact Hfr|].
    rewrite (Hother x Hne). apply S; auto.
  - destruct ro as [h|].
    + exact (log_is_record _ _ _ _ _ _ _ Lg Er).
    + exact (log_is_no_record _ _ _ _ _ _ Lg Er).
  - destruct ro as [h|]; [|exact Rc].
    destruct (record_some_inv _ _ _ _ _ _ Er) as (deps & m & Hd & _ & _ & _ & _ & _ & Hhm & Hfm).
    subst deps. apply (Hrec_step ws b (disc_of w' b) h (ws_fs (j_w a)) m); auto.
    exact (Hgr h (disc_of w' b) m eq_refl Hk Hfm).
Qed.

Lemma FInv_step a wsL ws lf j a' rest :
  JInv cf decls wg a -> LInv cf wg w0 ws0 W0 a wsL -> FInv a ws lf ->
  jstep cf wg a j a' -> trace_gen NCc (ws_fs (j_w a)) lf (j :: rest) ->
  exists ws' lf', FInv a' ws' lf' /\ trace_gen NCc (ws_fs (j_w a')) lf' rest /\
                 trace_ws lf' ws' rest = trace_ws lf ws (j :: rest).
Proof.
  intros J L F Hstep Ht. pose proof Hstep as (Hs & Hw & Hwr & Hrun).
  destruct a as [r w aw pend run], a' as [r' w' aw' pend' run'].
  cbn [j_r j_w j_aw j_pend j_run] in Hs, Hw, Hwr, Hrun, Ht |- *. subst run'.
  pose proof (ji_r _ _ _ _ J) as R. cbn [j_r] in R. rewrite Had in Hw.
  destruct j as [c|b0|b0 v|b0 p n|b0|n|n t|b0 t rep|b0 h|ok]; cbn [proj_s1] in Hs; cbn [run_after] in *.
  7:{ (* write *)
    cbn [accepts] in Hs. injection Hs as <-. destruct Hw as (-> & -> & ->).
    cbn [HistSpec.trace_gen] in Ht. destruct Ht as (Hmt & Ht).
    exists ws, lf. split; [|split; [exact Ht|reflexivity]]. exact (FInv_write _ wsL ws lf n t J L F Hwr Hmt). }
  all: apply accepts_one in Hs; pose proof (accept1_step cf _ _ _ Hs) as Hstp;
    assert (Hfin : forall x, get_state (rs_bs r) x = Done -> get_state (rs_bs r') x = Done)
      by (intros x Ex; rewrite (step_final cf decls r _ r' x R Hstp); [exact Ex|rewrite Ex; cbn; tauto]);
    destruct (accept_sum cf decls _ _ _ R Hs) as [S R']; cbn [ev_sum] in S.
  - (* update *)
    destruct S as [-> _]. destruct Hw as (-> & -> & ->). exists ws, lf. split; [exact F|split; [exact Ht|reflexivity]].
  - (* pop *)
    destruct S as (SS & Hc & Hc' & Lb & E). destruct Hw as (-> & -> & ->). exists ws, lf. split; [|split; [exact Ht|reflexivity]].
    apply (FInv_gen _ ws lf _ _ _ _ _ lf F (cache_ext_refl _)); cbn [j_r j_w j_pend].
    + intros x _ _ [Ex|[Ex|Ex]]; [left; left; now rewrite <- SS|rewrite Hc' in Ex; discriminate ..].
    + intros x rp Hx. exact (fi_pend _ _ _ F x rp Hx).
  - (* verdict *)
    destruct S as (SS & Hc & Hc' & Lb & E & Hph). destruct Hw as (res & Ec & Hcode & Haw).
    assert (Hp' : aw' = aw /\ pend' = pend) by (destruct v; exact Haw). destruct Hp' as (-> & ->).
    pose proof (check_ext _ _ _ _ _ _ Ec) as X. assert (Ff : ws_fs w' = ws_fs w) by apply X.
    exists ws, lf. split.
    + apply (FInv_gen _ ws lf _ _ _ _ _ lf F X); cbn [j_r j_w j_pend].
      * intros x Lx Hcx [Ex|[Ex|Ex]]; [left; left; now rewrite <- SS| |rewrite Hc' in Ex; discriminate].
        rewrite Hc' in Ex. injection Ex as -> ->. right.
        destruct res; try discriminate Hcode.
        destruct (wb_cmdline (bd_ x)) as [c|] eqn:Hcmd; [|congruence].
        cbn [HistSpec.trace_gen] in Ht. destruct Ht as (Hnc & _).
        exact (clean_fresh _ wsL ws lf x w' c J L F Hc Hcmd Ec Hnc).
      * intros x rp Hx. exact (fi_pend _ _ _ F x rp Hx).
    + split; [|reflexivity].
      rewrite Ff. destruct v; cbn [HistSpec.trace_gen] in Ht; [exact (proj2 Ht)|exact Ht|exact Ht].
  - (* set *)
    destruct S as (Lb & Ep & En & U & S).
    destruct p, n; try contradiction.
    + (* Want -> Ready *)
      destruct S as (Hc & Hc'). destruct Hw as (-> & -> & ->). exists ws, lf. split; [|split; [exact Ht|reflexivity]].
      apply (FInv_gen _ ws lf _ _ _ _ _ lf F (cache_ext_refl _)); cbn [j_r j_w j_pend].
      * intros x _ _ [Ex|[Ex|Ex]]; [|rewrite Hc' in Ex; discriminate ..].
        left. left. destruct (Nat.eq_dec x b0) as [->|Hne]; [congruence|]. now rewrite <- (U x Hne).
      * intros x rp Hx. exact (fi_pend _ _ _ F x rp Hx).
    + (* Ready -> Queued *)
      destruct S as (Hc & _ & Hc'). destruct Hw as (-> & -> & ->). exists ws, lf. split; [|split; [exact Ht|reflexivity]].
      apply (FInv_gen _ ws lf _ _ _ _ _ lf F (cache_ext_refl _)); cbn [j_r j_w j_pend].
      * intros x _ _ [Ex|[Ex|Ex]]; [|destruct Hc' as [Hc'|Hc']; rewrite Hc' in Ex; discriminate ..].
        left. left. destruct (Nat.eq_dec x b0) as [->|Hne]; [congruence|]. now rewrite <- (U x Hne).
      * intros x rp Hx. exact (fi_pend _ _ _ F x rp Hx).
    + (* Ready -> Done *)
      destruct S as ((v & rec & Hc & Hv) & Hc').
      destruct Hv as [[-> ->]|[_ Hv]]; [|congruence].
      pose proof (ji_aw _ _ _ _ J) as A. cbn [j_r j_aw] in A. rewrite Hc in A. cbn [aw_ok] in A. subst aw.
      cbn [wstepP aw_is] in Hw. destruct Hw as (-> & -> & ->).
      exists ws, lf. split; [|split; [exact Ht|reflexivity]].
      apply (FInv_gen _ ws lf _ _ _ _ _ lf F (cache_ext_refl _)); cbn [j_r j_w j_pend].
      * intros x _ _ [Ex|[Ex|Ex]]; [|rewrite Hc' in Ex; discriminate ..].
        left. destruct (Nat.eq_dec x b0) as [->|Hne]; [right; left; exact Hc|].
        left. now rewrite <- (U x Hne).
      * intros x rp Hx. exact (fi_pend _ _ _ F x rp Hx).
    + (* Queued -> Running *)
      destruct S as (Hc & Hc'). destruct Hw as (-> & -> & ->). exists ws, lf. split; [|split; [exact Ht|reflexivity]].
      apply (FInv_gen _ ws lf _ _ _ _ _ lf F (cache_ext_refl _)); cbn [j_r j_w j_pend].
      * intros x _ _ [Ex|[Ex|Ex]]; [|rewrite Hc' in Ex; discriminate ..].
        left. left. destruct (Nat.eq_dec x b0) as [->|Hne]; [congruence|]. now rewrite <- (U x Hne).
      * intros x rp Hx. exact (fi_pend _ _ _ F x rp Hx).
    + (* Running -> Done *)
      destruct S as ((rec & Hc) & Hc').
      pose proof (ji_aw _ _ _ _ J) as A. cbn [j_r j_aw] in A. rewrite Hc in A.
      destruct rec; cbn [aw_ok] in A; subst aw; cbn [wstepP aw_is] in Hw; try rewrite Nat.eqb_refl in Hw.
      * (* recorded before *)
        destruct Hw as (-> & -> & ->). exists ws, lf. split; [|split; [exact Ht|reflexivity]].
        apply (FInv_gen _ ws lf _ _ _ _ _ lf F (cache_ext_refl _)); cbn [j_r j_w j_pend].
        -- intros x _ _ [Ex|[Ex|Ex]]; [|rewrite Hc' in Ex; discriminate ..].
           left. destruct (Nat.eq_dec x b0) as [->|Hne]; [right; right; exact Hc|].
           left. now rewrite <- (U x Hne).
        -- intros x rp Hx. exact (fi_pend _ _ _ F x rp Hx).
      * (* no record *)
        destruct Hw as (rp & Hp & Er & -> & ->).
        destruct (record_ext _ _ _ _ _ _ Er) as (Ff & _ & _ & _).
        exists ws, lf. split; [|split; [rewrite Ff; exact Ht|reflexivity]].
        apply (FInv_record _ ws lf b0 rp w' None r' None run J F Er Hp); cbn [j_r].
        -- discriminate.
        -- intros x Hne [Ex|[Ex|Ex]]; [|rewrite Hc' in Ex; discriminate ..].
           left. now rewrite <- (U x Hne).
    + (* Running -> Failed *)
      destruct S as ((rec & Hc) & Hc'). destruct Hw as (-> & -> & ->). exists ws, lf. split; [|split; [exact Ht|reflexivity]].
      apply (FInv_gen _ ws lf _ _ _ _ _ lf F (cache_ext_refl _)); cbn [j_r j_w j_pend].
      * intros x _ _ [Ex|[Ex|Ex]]; [|rewrite Hc' in Ex; discriminate ..].
        left. left. destruct (Nat.eq_dec x b0) as [->|Hne]; [congruence|]. now rewrite <- (U x Hne).
      * intros x rp Hx. exact (fi_pend _ _ _ F x rp Hx).
  - (* start *)
    destruct S as (SS & Hc & Hc' & Lb & E). destruct Hw as (-> & -> & ->). exists ws, lf. split; [|split; [exact Ht|reflexivity]].
    apply (FInv_gen _ ws lf _ _ _ _ _ lf F (cache_ext_refl _)); cbn [j_r j_w j_pend].
    + intros x _ _ [Ex|[Ex|Ex]]; [left; left; now rewrite <- SS|rewrite Hc' in Ex; discriminate ..].
    + intros x rp Hx. exact (fi_pend _ _ _ F x rp Hx).
  - (* quiesce *)
    destruct S as [-> _]. destruct Hw as (-> & -> & ->). exists ws, lf. split; [exact F|split; [exact Ht|reflexivity]].
  - (* finish *)
    destruct S as (SS & Hc & Hc' & Lb & E). destruct Hw as (-> & Haw).
    assert (Hset : forall x, x < nb -> wb_cmdline (bd_ x) <> None -> settled r' x ->
                     settled r x \/ fresh_at (ws_fs w) (bd_ x) (disc_of w x)).
    { intros x _ _ [Ex|[Ex|Ex]]; [left; left; now rewrite <- SS|rewrite Hc' in Ex; discriminate ..]. }
    destruct t; cbn [HistSpec.trace_gen] in Ht; destruct Ht as (Hfo & Ht); destruct Haw as (-> & ->).
    + exists ws, (Some (b0, rep)). split; [|split; [exact Ht|reflexivity]].
      apply (FInv_gen _ ws lf _ _ _ _ _ (Some (b0, rep)) F (cache_ext_refl _)); cbn [j_r j_w j_pend]; [exact Hset|].
      intros x rp Hx. injection Hx as <- <-. auto.
    + exists ws, lf. split; [|split; [exact Ht|reflexivity]].
      apply (FInv_gen _ ws lf _ _ _ _ _ lf F (cache_ext_refl _)); cbn [j_r j_w j_pend]; [exact Hset|discriminate].
    + exists ws, lf. split; [|split; [exact Ht|reflexivity]].
      apply (FInv_gen _ ws lf _ _ _ _ _ lf F (cache_ext_refl _)); cbn [j_r j_w j_pend]; [exact Hset|discriminate].
  - (* record *)
    destruct S as (SS & [(_ & Hadt & _)|(Hc & Hc' & Lb & E)]); [congruence|].
    destruct Hw as (rp & Hp & Er & -> & ->).
    destruct (record_ext _ _ _ _ _ _ Er) as (Ff & _ & _ & _).
    cbn [HistSpec.trace_gen] in Ht. destruct Ht as (Hgr & Ht).
    exists (ws ++ [wr_of (bd_ b0) (disc_of w' b0) h]), lf. split; [|split; [rewrite Ff; exact Ht|]].
    2:{ cbn [HistSpec.trace_ws]. destruct (fi_pend _ _ _ F b0 rp Hp) as (_ & Hl & _). cbn [j_pend] in Hl.
        unfold hist_rec_of. rewrite Hl, (proj1 (replace_wholesale _ _ _ _ _ _ Er)). reflexivity. }
    apply (FInv_record _ ws lf b0 rp w' (Some h) r' None run J F Er Hp); cbn [j_r j_w].
    + intros h1 deps m0 _ Hk Hm. destruct (fi_pend _ _ _ F b0 rp Hp) as (_ & Hl & _).
      exact (Hgr rp deps m0 Hl Hk Hm).
    + intros x Hne [Ex|[Ex|Ex]]; [left; now rewrite <- SS|rewrite Hc' in Ex; discriminate|].
      rewrite Hc' in Ex. congruence.
  - (* return *)
    destruct S as (SS & Hc' & Hc). destruct Hw as (-> & -> & ->). exists ws, lf. split; [|split; [exact Ht|reflexivity]].
    apply (FInv_gen _ ws lf _ _ _ _ _ lf F (cache_ext_refl _)); cbn [j_r j_w j_pend].
    + intros x _ _ [Ex|[Ex|Ex]]; [left; left; now rewrite <- SS|rewrite Hc' in Ex; discriminate ..].
    + intros x rp Hx. exact (fi_pend _ _ _ F x rp Hx).
Qed.

(* every finish of the trace reports source files *)
Lemma trace_ok_item_src fs lf j rest : trace_gen NCc fs lf (j :: rest) -> item_src wg j.
Proof.
  destruct j as [c|b0|b0 v|b0 p n|b0|n|n t|b0 t rep|b0 h|ok]; cbn [item_src]; auto.
  intro H. assert (Hr : rep_ok rep).
  { destruct t; cbn [HistSpec.trace_gen] in H; [exact (proj1 (proj1 H))|exact (proj1 H)|exact (proj1 H)]. }
  intros n d' Hn Hne Hc. exact (proj1 (Hr n d' Hn Hne Hc)).
Qed.

(* the three invariants along a joint run *)
Lemma inv_run : forall tr a wsL ws lf r' w',
  JInv cf decls wg a -> LInv cf wg w0 ws0 W0 a wsL -> FInv a ws lf ->
  trace_gen NCc (ws_fs (j_w a)) lf tr -> jrun cf wg a tr r' w' ->
  exists a' wsL' lf', j_r a' = r' /\ j_w a' = w' /\
    JInv cf decls wg a' /\ LInv cf wg w0 ws0 W0 a' wsL' /\ FInv a' (trace_ws lf ws tr) lf'.
Proof.
  induction tr as [|j tr IH]; intros a wsL ws lf r' w' J L F Ht H.
  - apply jrun_nil in H. destruct H as (-> & ->). exists a, wsL, lf. auto.
  - apply jrun_cons in H. destruct H as (b & Hs & H).
    pose proof (JInv_step cf decls wg Hag _ _ _ J Hs) as J'.
    destruct (LInv_step cf decls wg Hwf Hag Had Houts w0 ws0 W0 Hload Hdisc0 a wsL j b J L
                (trace_ok_item_src _ _ _ _ Ht) Hs) as (L' & _ & _).
    destruct (FInv_step a wsL ws lf j b tr J L F Hs Ht) as (ws' & lf' & F' & Ht' & Ews).
    rewrite <- Ews. exact (IH b _ ws' lf' r' w' J' L' F' Ht' H).
Qed.

End HistInv.
