(* C06, when the loop may return from its top: exactly when nothing more can be done - every
   wanted step is Done, Failed, or blocked by a failed one - and then with the value that
   tells whether something failed. *)
From Coq Require Import Lia ZArith List Bool Arith.
From N2 Require Import Model.All Proofs.SchedSpec Proofs.SchedInv Proofs.SchedRunBase
     Proofs.SchedRunStep Proofs.SchedRunCore Proofs.SchedRunAux Proofs.SchedRunRInv
     Proofs.SchedRunThms Proofs.SchedRunFinal Proofs.SchedLive Proofs.SchedBoundSpec
     Proofs.SchedTermSpec Proofs.SchedTermFinal.
Import ListNotations.

Section ReturnIff.
Variable cf : config.
Variable decls : list (bytes * nat).
Hypothesis Hwf : graph_wf (cf_graph cf).
Notation g := (cf_graph cf).
Notation nb := (length (g_builds (cf_graph cf))).

Lemma all_done_settled s : all_done g s -> settled g s.
Proof. intros AD b L Kb. left. exact (AD b L Kb). Qed.

(* in a settled state no step is Ready, Queued or Running *)
Lemma settled_states s b :
  settled g s -> b < nb -> In (get_state s b) [Unknown; Want; Done; Failed].
Proof.
  intros S L. destruct (get_state s b) eqn:E; try (cbn; tauto); exfalso.
  all: assert (K : get_state s b <> Unknown) by (rewrite E; discriminate).
  all: destruct (S b L K) as [X|[X|[X _]]]; rewrite E in X; discriminate X.
Qed.

Lemma settled_not s b st :
  settled g s -> b < nb -> In st [Ready; Queued; Running] -> get_state s b <> st.
Proof.
  intros S L I E. pose proof (settled_states s b S L) as H. rewrite E in H.
  cbn [In] in I, H.
  destruct I as [<-|[<-|[<-|[]]]]; destruct H as [H|[H|[H|[H|[]]]]]; discriminate H.
Qed.

(* a blocked step has an ordering producer that is not Done *)
Lemma blocked_not_promotable s b :
  BCore g decls s -> blocked g s b -> producers_done g s (get_build g b) = true -> False.
Proof.
  intros C [_ (f & Ff & R)] PD.
  pose proof (producers_done_spec g s b PD) as PS.
  destruct R as [b p Hp|b p q Hp R].
  - rewrite (PS p Hp) in Ff. discriminate Ff.
  - assert (D : get_state s q = Done).
    { apply (BCore_ord_reach g decls s p q C R). rewrite (PS p Hp). cbn. tauto. }
    congruence.
Qed.

Section Settled.
Variable r : rstate.
Hypothesis Hr : reachable cf decls r.
Hypothesis Hc : rs_ctl r = CIdle.
Hypothesis S : settled g (rs_bs r).

Let Hinv : RInv cf decls r := reachable_RInv_closed cf decls Hwf r Hr.
Let B : BInv g decls (rs_bs r) := reachable_BInv_closed cf decls Hwf r Hr (or_introl Hc).

Lemma settled_norun : rs_running r = 0.
Proof.
  pose proof (ri_running _ _ _ Hinv) as Rn. rewrite Hc in Rn. cbn [run_count_ok run_shift] in Rn.
  rewrite (count_state_zero_intro g (rs_bs r) Running false) in Rn; [lia|].
  intros b L. apply (settled_not (rs_bs r) b Running S L). cbn. tauto.
Qed.

Lemma settled_noready : bs_ready (rs_bs r) = [].
Proof.
  destruct (bs_ready (rs_bs r)) as [|b q] eqn:ER; [reflexivity|exfalso].
  assert (I : In b (bs_ready (rs_bs r))) by (rewrite ER; now left).
  apply (proj2 (bi_ready _ _ _ B)) in I. destruct I as [L E].
  apply (settled_not (rs_bs r) b Ready S L); [cbn; tauto|exact E].
Qed.

Lemma settled_nostart : some_startable (rs_bs r) = false.
Proof.
  destruct (some_startable (rs_bs r)) eqn:ES; [exfalso|reflexivity].
  unfold some_startable in ES. apply existsb_exists in ES. destruct ES as (p & Ip & Hp).
  apply andb_true_iff in Hp. destruct Hp as [_ Hq].
  destruct (p_queued p) as [|b q] eqn:EQ; [discriminate Hq|].
  assert (Iq : In b (p_queued p)) by (rewrite EQ; now left).
  destruct (bi_pool_queued _ _ _ B p b Ip Iq) as [E _].
  assert (L : b < nb).
  { apply (BCore_range g decls _ b (ri_core _ _ _ Hinv)). rewrite E. discriminate. }
  apply (settled_not (rs_bs r) b Queued S L); [cbn; tauto|exact E].
Qed.

Lemma settled_nopromote : some_promotable g (rs_bs r) = false.
Proof.
  destruct (some_promotable g (rs_bs r)) eqn:EP; [exfalso|reflexivity].
  unfold some_promotable in EP. apply existsb_exists in EP. destruct EP as (d & Id & Hd).
  apply andb_true_iff in Hd. destruct Hd as [E PD]. apply bstate_eqb_eq in E.
  unfold indices in Id. apply in_seq in Id.
  destruct (S d ltac:(lia) ltac:(rewrite E; discriminate)) as [X|[X|X]]; try congruence.
  exact (blocked_not_promotable (rs_bs r) d (ri_core _ _ _ Hinv) X PD).
Qed.

(* nothing failed: then nothing is blocked either, and nothing is pending *)
Lemma settled_nofail_pending : rs_failed r = 0 -> bs_pending (rs_bs r) = 0%Z.
Proof.
  intro Hf. pose proof (idle_nofail cf decls Hwf r Hr Hf) as NF.
  assert (W : forall b, b < nb -> get_state (rs_bs r) b <> Want).
  { intros b L E. destruct (S b L ltac:(rewrite E; discriminate)) as [X|[X|(_ & f & Ff & _)]];
      [congruence|congruence|exact (NF f Ff)]. }
  rewrite (bi_pending _ _ _ B).
  rewrite (count_state_zero_intro g (rs_bs r) Want false W).
  rewrite (count_state_zero_intro g (rs_bs r) Ready false)
    by (intros b L; apply (settled_not (rs_bs r) b Ready S L); cbn; tauto).
  rewrite (count_state_zero_intro g (rs_bs r) Queued false)
    by (intros b L; apply (settled_not (rs_bs r) b Queued S L); cbn; tauto).
  rewrite (count_state_zero_intro g (rs_bs r) Running false)
    by (intros b L; apply (settled_not (rs_bs r) b Running S L); cbn; tauto).
  reflexivity.
Qed.

Lemma settled_return_accepted :
  exists r', accept1 cf r (EReturn (Some (rs_failed r =? 0))) = Some r'.
Proof.
  eexists. unfold accept1.
  rewrite Hc, settled_norun, settled_noready, settled_nostart, settled_nopromote.
  cbn [Nat.eqb negb andb]. rewrite andb_true_r, eqb_reflx, andb_true_r.
  destruct (bs_pending (rs_bs r) =? 0)%Z eqn:Ez; [reflexivity|].
  destruct (0 <? rs_failed r) eqn:Ef; [reflexivity|]. exfalso.
  apply Z.eqb_neq in Ez. apply Nat.ltb_ge in Ef.
  apply Ez. apply settled_nofail_pending. lia.
Qed.

End Settled.

Theorem idle_return_iff r ok :
  reachable cf decls r -> rs_ctl r = CIdle ->
  ((exists r', accept1 cf r (EReturn (Some ok)) = Some r') <->
   (settled g (rs_bs r) /\ ok = (rs_failed r =? 0))).
Proof.
  intros Hr Hc. split.
  - intros [r' A].
    pose proof (return_guarantee_holds cf decls Hwf r (Some ok) r' Hr A) as G.
    destruct (return_inv_some cf r ok r' (accept1_step cf r _ r' A))
      as [(_ & _ & Hok)|[(_ & b & rec & Hc2 & _)|(_ & b & rec & Hc2)]]; try congruence.
    split; [|exact Hok].
    unfold return_guarantee in G. destruct ok.
    + apply all_done_settled. exact (proj2 (proj2 (proj2 (proj2 G)))).
    + destruct G as [(_ & _ & _ & _ & St)|[(b & rec & Hc2 & _)|(b & rec & Hc2 & _)]]; [exact St|congruence|congruence].
  - intros [St ->]. exact (settled_return_accepted r Hr Hc St).
Qed.

End ReturnIff.
