(* Repair of audit finding A8 (Props/C01Loaded.v): the graph of every loaded manifest, seen by the
   scheduler ([sched_graph_of]) and by the World model ([world_graph_of]), is well formed and the
   two views agree - so the scheduler and joint theorems apply to every manifest n2 accepts. *)
From Coq Require Import String.
From N2 Require Import Model.All Proofs.SchedSpec Proofs.DbSpec Proofs.WorldSpec Proofs.JointSpec.
From N2 Require Import Proofs.EvalScope Proofs.GraphDedup Proofs.GraphAddBuild Proofs.GraphLoad.
From N2 Require Import Proofs.LoadGraphFile Proofs.LoadGraphNames.
From N2 Require Import Proofs.AuditFindings Proofs.AuditFindingsParse Proofs.FixLoadSpec Proofs.FixLoadInv.

Lemma sched_file_name l f : file_name (sched_graph_of l) f = file_nm l f.
Proof.
  unfold file_name, file_nm, sched_graph_of. cbn [g_files]. rewrite nth_error_map.
  destruct (nth_error (l_files l) f); reflexivity.
Qed.

Lemma sched_file_input l f :
  file_input (sched_graph_of l) f = match nth_error (l_files l) f with Some x => lf_input x | None => None end.
Proof.
  unfold file_input, sched_graph_of. cbn [g_files]. rewrite nth_error_map.
  destruct (nth_error (l_files l) f); reflexivity.
Qed.

Lemma sched_get_build l i lb : nth_error (l_builds l) i = Some lb -> get_build (sched_graph_of l) i = sched_build lb.
Proof.
  intro E. unfold get_build, sched_graph_of. cbn [g_builds].
  apply nth_error_nth. rewrite nth_error_map, E. reflexivity.
Qed.

Lemma world_get_build l i lb : nth_error (l_builds l) i = Some lb -> get_wbuild (world_graph_of l) i = world_build l lb.
Proof.
  intro E. unfold get_wbuild, world_graph_of. cbn [w_builds].
  apply nth_error_nth. rewrite nth_error_map, E. reflexivity.
Qed.

(* the producer table of the World view: first entry with the name *)
Fixpoint pgo (tbl : list (bytes * nat)) (name : bytes) : option nat :=
  match tbl with
  | [] => None
  | (n, b) :: r => if bytes_eqb n name then Some b else pgo r name
  end.

Lemma producer_of_pgo g name : producer_of g name = pgo (w_producer g) name.
Proof. unfold producer_of. induction (w_producer g) as [|[n b] r IH]; [reflexivity|]. cbn [pgo]. now rewrite IH. Qed.

Lemma pgo_none name : forall files, ~ In name (map lf_name files) -> pgo (flat_map producer_entry files) name = None.
Proof.
  induction files as [|x r IH]; intro H; [reflexivity|]. cbn [flat_map map] in *.
  assert (Hx : bytes_eqb (lf_name x) name = false).
  { destruct (bytes_eqb (lf_name x) name) eqn:E; [|reflexivity].
    apply bytes_eqb_spec in E. exfalso. apply H. now left. }
  unfold producer_entry at 1. destruct (lf_input x); cbn [app pgo]; [rewrite Hx|]; apply IH; intro I; apply H; now right.
Qed.

Lemma pgo_file : forall files f lf, NoDup (map lf_name files) -> nth_error files f = Some lf ->
  pgo (flat_map producer_entry files) (lf_name lf) = lf_input lf.
Proof.
  induction files as [|x r IH]; intros f lf N H; [destruct f; discriminate|].
  cbn [map] in N. inversion N as [|? ? Nx Nr]; subst. cbn [flat_map].
  destruct f as [|f]; cbn [nth_error] in H.
  - inversion H; subst x. unfold producer_entry at 1. destruct (lf_input lf) as [p|]; cbn [app pgo].
    + now rewrite bytes_eqb_refl.
    + now apply pgo_none.
  - assert (Hx : bytes_eqb (lf_name x) (lf_name lf) = false).
    { destruct (bytes_eqb (lf_name x) (lf_name lf)) eqn:E; [|reflexivity].
      apply bytes_eqb_spec in E. exfalso. apply Nx. rewrite E. apply in_map. eapply nth_error_In. exact H. }
    unfold producer_entry at 1. destruct (lf_input x); cbn [app pgo]; [rewrite Hx|]; eapply IH; eassumption.
Qed.

Theorem loaded_graphs_agree l : LInv l -> NamesUnique l -> graphs_agree (sched_graph_of l) (world_graph_of l).
Proof.
  intros I U. constructor.
  - cbn [sched_graph_of world_graph_of g_builds w_builds]. now rewrite !map_length.
  - intros i Hi. cbn [sched_graph_of g_builds] in Hi. rewrite map_length in Hi.
    destruct (nth_error (l_builds l) i) as [lb|] eqn:E; [|apply nth_error_None in E; lia].
    cbv zeta. rewrite (sched_get_build l i lb E), (world_get_build l i lb E).
    unfold world_build, sched_build, names_of_ids.
    cbn [wb_ins wb_explicit wb_implicit wb_order_only wb_outs wb_cmdline b_ins b_explicit b_implicit b_order_only b_outs b_phony].
    split; [apply map_ext; intro a; symmetry; apply sched_file_name|].
    split; [reflexivity|]. split; [reflexivity|]. split; [reflexivity|].
    split; [apply map_ext; intro a; symmetry; apply sched_file_name|].
    destruct (lb_cmdline lb); split; intro H; (reflexivity || discriminate H).
  - intros f1 f2 H1 H2 E. cbn [sched_graph_of g_files] in H1, H2. rewrite map_length in H1, H2.
    rewrite !sched_file_name in E. unfold NamesUnique in U.
    apply (proj1 (NoDup_nth_error (map lf_name (l_files l))) U f1 f2); [now rewrite map_length|].
    rewrite !nth_error_map. unfold file_nm in E.
    destruct (nth_error (l_files l) f1) as [x1|] eqn:E1; [|apply nth_error_None in E1; lia].
    destruct (nth_error (l_files l) f2) as [x2|] eqn:E2; [|apply nth_error_None in E2; lia].
    cbn [option_map]. now rewrite E.
  - intros f Hf. cbn [sched_graph_of g_files] in Hf. rewrite map_length in Hf.
    rewrite producer_of_pgo, sched_file_name, sched_file_input. cbn [world_graph_of w_producer]. unfold file_nm.
    destruct (nth_error (l_files l) f) as [x|] eqn:E; [|apply nth_error_None in E; lia].
    eapply pgo_file; [exact U | exact E].
  - intros f b. rewrite sched_file_input. cbn [sched_graph_of g_builds]. rewrite map_length. split.
    + destruct (nth_error (l_files l) f) as [x|] eqn:E; [|discriminate]. intro Hp.
      destruct (LI_producer_listed l I f x b E Hp) as (bb & Hb & Ho).
      split; [apply nth_error_Some; congruence|].
      fold (sched_graph_of l). rewrite (sched_get_build l b bb Hb). exact Ho.
    + intros [Hb Ho]. destruct (nth_error (l_builds l) b) as [bb|] eqn:E; [|apply nth_error_None in E; lia].
      fold (sched_graph_of l) in Ho. rewrite (sched_get_build l b bb E) in Ho. cbn [sched_build b_outs] in Ho.
      destruct (LI_outs_produced l I b bb f E Ho) as (x & Hx & Hp). now rewrite Hx.
Qed.

Theorem loaded_graph_ok depth fs name text l : load_manifest true depth fs name text = Ok l ->
  graph_wf (sched_graph_of l) /\ graphs_agree (sched_graph_of l) (world_graph_of l).
Proof.
  intro H. split; [exact (A8_every_loaded_manifest_has_a_wf_graph depth fs name text l H)|].
  apply loaded_graphs_agree; [exact (load_manifest_LInv depth fs name text l H)|].
  exact (load_manifest_names_unique_incl depth fs name text l H).
Qed.

(* the consumer edges, in the scheduler's view *)
Theorem loaded_graph_dependents depth fs name text l : load_manifest true depth fs name text = Ok l ->
  forall i, i < length (g_files (sched_graph_of l)) ->
  file_dependents (sched_graph_of l) i = dependents_from (l_builds l) 0 i.
Proof.
  intros H i Hi. cbn [sched_graph_of g_files] in Hi. rewrite map_length in Hi.
  unfold file_dependents, sched_graph_of. cbn [g_files]. rewrite nth_error_map.
  destruct (nth_error (l_files l) i) as [x|] eqn:E; [|apply nth_error_None in E; lia].
  cbn [option_map sched_file f_dependents]. exact (load_manifest_DInv depth fs name text l H i x E).
Qed.

(* Props/C14Start.v, by name *)
Lemma load_manifest_dependents_iff depth fs name text l : load_manifest true depth fs name text = Ok l ->
  forall i f, nth_error (l_files l) i = Some f ->
  forall p, In p (lf_dependents f) <-> exists b, nth_error (l_builds l) p = Some b /\ In i (lb_ins b).
Proof. intro H. exact (DInv_iff l (load_manifest_DInv depth fs name text l H)). Qed.

Lemma load_manifest_dependents_count depth fs name text l : load_manifest true depth fs name text = Ok l ->
  forall i f p, nth_error (l_files l) i = Some f ->
  count_occ Nat.eq_dec (lf_dependents f) p =
  match nth_error (l_builds l) p with Some b => count_occ Nat.eq_dec (lb_ins b) i | None => 0 end.
Proof. intro H. exact (DInv_count l (load_manifest_DInv depth fs name text l H)). Qed.

Lemma load_manifest_dependents_sorted depth fs name text l : load_manifest true depth fs name text = Ok l ->
  forall i f, nth_error (l_files l) i = Some f -> Sorted.Sorted le (lf_dependents f).
Proof. intro H. exact (DInv_sorted l (load_manifest_DInv depth fs name text l H)). Qed.
