(* C13: outside the class F17 the canonical form is a function of
   (separator byte, sem, ends_dirlike): [canon_spec], hence [canon_same_node_partial]. *)
From Coq Require Import List NArith Arith Lia Bool.
From N2 Require Import Model.All Proofs.CanonBase Proofs.CanonProps.
Import ListNotations.
Local Open Scope nat_scope.

(* ---------------------------------------------------------------------------------- *)
(* the rendering of (ups, names) *)

Definition upseg (s : N) (u : nat) : bytes := concat (repeat [46%N; 46%N; s] u).

(* names newest first, every name followed by [s] *)
Definition seg (s : N) (nm : list bytes) : bytes := concat (map (fun x => x ++ [s]) (rev nm)).

(* the newest name keeps its separator iff [d] *)
Definition render (s : N) (nm : list bytes) (d : bool) : bytes :=
  match nm with
  | [] => []
  | n :: nm' => seg s nm' ++ n ++ (if d then [s] else [])
  end.

Lemma concat_repeat_S {A} (x : list A) u :
  concat (repeat x (S u)) = concat (repeat x u) ++ x.
Proof.
  induction u as [|u IH]; [cbn; rewrite app_nil_r; reflexivity|].
  change (concat (repeat x (S (S u)))) with (x ++ concat (repeat x (S u))).
  rewrite IH at 1. change (concat (repeat x (S u))) with (x ++ concat (repeat x u)).
  rewrite app_assoc. reflexivity.
Qed.

Lemma upseg_S s u : upseg s (S u) = upseg s u ++ [46%N; 46%N; s].
Proof. apply concat_repeat_S. Qed.

Lemma seg_cons s n nm : seg s (n :: nm) = seg s nm ++ n ++ [s].
Proof.
  unfold seg. cbn [rev]. rewrite map_app, concat_app. cbn [map concat].
  rewrite app_nil_r. reflexivity.
Qed.

Lemma render_true s nm : render s nm true = seg s nm.
Proof. destruct nm as [|n nm]; [reflexivity|]. cbn [render]. rewrite seg_cons. reflexivity. Qed.

Lemma St_render s r out st U Nm : St r out st U Nm ->
  Forall (eq s) U -> Forall (fun x => snd x = s) Nm ->
  out = r ++ upseg s (length U) ++ seg s (map fst Nm).
Proof.
  induction 1 as [|out U s0 HSt IH Hs|out st U Nm n s0 HSt IH Hg Hs Hlen]; intros HU HN.
  - cbn. rewrite app_nil_r. reflexivity.
  - pose proof (Forall_inv HU) as E. cbn beta in E. subst s0.
    rewrite (IH (Forall_inv_tail HU) HN) at 1.
    cbn [length map]. rewrite upseg_S. change (seg s []) with (@nil N).
    rewrite !app_nil_r, app_assoc. reflexivity.
  - pose proof (Forall_inv HN) as E. cbn [snd] in E. subst s0.
    rewrite (IH HU (Forall_inv_tail HN)) at 1.
    cbn [map fst]. rewrite seg_cons. rewrite <- !app_assoc. reflexivity.
Qed.

(* ---------------------------------------------------------------------------------- *)
(* uses_only *)

Lemma uses_only_app s a b : uses_only s (a ++ b) = uses_only s a && uses_only s b.
Proof. apply forallb_app. Qed.

Lemma uses_only_tok s n s0 rest : uses_only s (n ++ s0 :: rest) = true -> is_sep s0 = true ->
  s0 = s /\ uses_only s rest = true.
Proof.
  intros H Hs. rewrite uses_only_app in H. apply andb_true_iff in H as [_ H].
  unfold uses_only in H. cbn [forallb] in H. apply andb_true_iff in H as [H1 H2].
  rewrite Hs in H1. cbn [negb orb] in H1. apply N.eqb_eq in H1. auto.
Qed.

(* ---------------------------------------------------------------------------------- *)
(* ends_dirlike along the shapes *)

Definition lastopt {A} (l : list A) : option A :=
  match rev l with [] => None | x :: _ => Some x end.

Lemma lastopt_app {A} (a b : list A) : b <> [] -> lastopt (a ++ b) = lastopt b.
Proof.
  intro Hb. unfold lastopt. rewrite rev_app_distr.
  pose proof (rev_nonnil b Hb) as Hr. destruct (rev b); [congruence | reflexivity].
Qed.

Lemma lastopt_In {A} (l : list A) x : lastopt l = Some x -> In x l.
Proof.
  unfold lastopt. destruct (rev l) as [|y t] eqn:E; [discriminate|].
  intro H. injection H as ->. apply in_rev. rewrite E. left; reflexivity.
Qed.

Lemma ends_dirlike_eq p :
  ends_dirlike p =
    match lastopt p with
    | None => false
    | Some c => is_sep c ||
                match lastopt (comps p) with
                | Some l => is_dot l || is_dotdot l
                | None => false
                end
    end.
Proof.
  unfold ends_dirlike, lastopt. destruct (rev p); [reflexivity|].
  destruct (rev (comps p)); reflexivity.
Qed.

Lemma comps_aux_nil l : forall cur, comps_aux cur l = [] -> cur = [] /\ forallb is_sep l = true.
Proof.
  induction l as [|c l IH]; intros cur H.
  - cbn [comps_aux] in H. destruct cur; [auto | discriminate].
  - cbn [comps_aux] in H. cbn [forallb]. destruct (is_sep c).
    + destruct cur; [|discriminate]. destruct (IH _ H). auto.
    + destruct (IH _ H) as [E _]. discriminate.
Qed.

Lemma comps_nil_last rest c : comps rest = [] -> lastopt rest = Some c -> is_sep c = true.
Proof.
  intros H L. apply comps_aux_nil in H as [_ H].
  apply lastopt_In in L. rewrite forallb_forall in H. auto.
Qed.

Definition dl (src : bytes) : bool := match src with [] => true | _ => ends_dirlike src end.

Lemma dl_nonnil p : p <> [] -> dl p = ends_dirlike p.
Proof. destruct p; [congruence | reflexivity]. Qed.

Lemma comps_tok n s rest : nosep n = true -> is_sep s = true ->
  comps (n ++ s :: rest) = match n with [] => comps rest | _ => n :: comps rest end.
Proof.
  intros Hn Hs. destruct n as [|c n].
  - apply comps_sep. assumption.
  - apply comps_name_sep; [discriminate | assumption | assumption].
Qed.

Lemma dl_tok n s rest : nosep n = true -> is_sep s = true -> dl (n ++ s :: rest) = dl rest.
Proof.
  intros Hn Hs.
  rewrite dl_nonnil by (intro E; apply app_eq_nil in E as [_ E]; discriminate).
  rewrite ends_dirlike_eq.
  destruct rest as [|x rest'].
  - rewrite lastopt_app by discriminate. change (lastopt [s]) with (Some s). cbv beta iota.
    rewrite Hs. reflexivity.
  - set (rest := x :: rest').
    assert (Hrest : rest <> []) by discriminate.
    rewrite dl_nonnil by assumption. rewrite ends_dirlike_eq.
    replace (n ++ s :: rest) with ((n ++ [s]) ++ rest) by (rewrite <- app_assoc; reflexivity).
    rewrite lastopt_app by assumption.
    destruct (lastopt rest) as [c|] eqn:L; [|reflexivity].
    destruct (is_sep c) eqn:Hc; [reflexivity|]. cbn [orb].
    rewrite <- app_assoc. cbn [app]. rewrite comps_tok by assumption.
    destruct n as [|a n]; [reflexivity|].
    destruct (comps rest) as [|k cs] eqn:C.
    + rewrite (comps_nil_last rest c C L) in Hc. discriminate.
    + change ((a :: n) :: k :: cs) with ([a :: n] ++ k :: cs).
      rewrite lastopt_app by discriminate. reflexivity.
Qed.

Lemma dl_sep c rest : is_sep c = true -> dl (c :: rest) = dl rest.
Proof. exact (dl_tok [] c rest eq_refl). Qed.

Lemma dl_dot_sep s rest : is_sep s = true -> dl (46%N :: s :: rest) = dl rest.
Proof. exact (dl_tok [46%N] s rest eq_refl). Qed.

Lemma dl_up_sep s rest : is_sep s = true -> dl (46%N :: 46%N :: s :: rest) = dl rest.
Proof. exact (dl_tok [46%N; 46%N] s rest eq_refl). Qed.

Lemma dl_good n : good n = true -> dl n = false.
Proof.
  intro Hg. destruct (good_inv n Hg) as (Hnn & Hns & Hd & Hdd).
  rewrite dl_nonnil by assumption. rewrite ends_dirlike_eq.
  destruct (lastopt n) as [c|] eqn:L; [|reflexivity].
  apply lastopt_In in L. unfold nosep in Hns. rewrite forallb_forall in Hns.
  specialize (Hns c L). apply negb_true_iff in Hns. rewrite Hns.
  rewrite comps_good_end by assumption. change (lastopt [n]) with (Some n). cbv beta iota.
  rewrite Hd, Hdd. reflexivity.
Qed.

Lemma dl_body p : dl (body p) = dl p.
Proof.
  destruct p as [|c p]; [reflexivity|].
  unfold body, root. destruct (is_sep c) eqn:Hc; [|reflexivity].
  cbn [length skipn]. symmetry. apply dl_sep. assumption.
Qed.

(* ---------------------------------------------------------------------------------- *)
(* the canonical form as a function of (s, root, ups, names, dirlike) *)

Lemma Run_same s out st src res : Run out st src res ->
  forall q r U Nm u' n', res = Ok q -> St r out st U Nm -> uses_only s src = true ->
  Forall (eq s) U -> Forall (fun x => snd x = s) Nm ->
  resolve (comps src) (length U) (map fst Nm) = (u', n') -> (n' <> [] \/ u' = 0) ->
  q = r ++ upseg s u' ++ render s n' (dl src).
Proof.
  induction 1 as
    [out st|out st c rest res Hc HR IH|out st|out st s0 rest res Hs HR IH|out|out ofs st
    |out s0 rest res Hs HR IH|out ofs st s0 rest res Hs HR IH|out st n Hn Hst
    |out st n s0 rest Hn Hs Hst|out st n Hn Hst|out st n s0 rest res Hn Hs Hst HR IH];
    intros q r U Nm u' n' Hq HSt Huse HU HN Hres Hcl;
    try (injection Hq as <-); try discriminate Hq.
  - cbn in Hres. injection Hres as <- <-.
    change (dl []) with true. rewrite render_true. eapply St_render; eassumption.
  - destruct (uses_only_tok s [] c rest Huse Hc) as [_ Hrest].
    rewrite comps_sep in Hres by assumption.
    rewrite dl_sep by assumption. eapply IH; eassumption.
  - cbn in Hres. injection Hres as <- <-.
    change (dl [46%N]) with true. rewrite render_true. eapply St_render; eassumption.
  - destruct (uses_only_tok s [46%N] s0 rest Huse Hs) as [_ Hrest].
    rewrite comps_dot_sep in Hres by assumption.
    rewrite dl_dot_sep by assumption. eapply IH; eassumption.
  - pose proof (St_empty _ _ _ _ HSt) as ->. cbn in Hres. injection Hres as <- <-.
    destruct Hcl; [congruence | discriminate].
  - apply St_pop in HSt as (n & s1 & Nm' & -> & HSt & _).
    cbn in Hres. injection Hres as <- <-.
    change (dl [46%N; 46%N]) with true. rewrite render_true.
    eapply St_render; [eassumption | assumption | exact (Forall_inv_tail HN)].
  - pose proof (St_empty _ _ _ _ HSt) as ->.
    destruct (uses_only_tok s [46%N; 46%N] s0 rest Huse Hs) as [-> Hrest].
    rewrite comps_up_sep in Hres by assumption.
    rewrite dl_up_sep by assumption.
    eapply (IH q r (s :: U) []); try eassumption.
    + apply StUp; assumption.
    + constructor; [reflexivity | assumption].
  - apply St_pop in HSt as (n & s1 & Nm' & -> & HSt & _).
    destruct (uses_only_tok s [46%N; 46%N] s0 rest Huse Hs) as [-> Hrest].
    rewrite comps_up_sep in Hres by assumption.
    rewrite dl_up_sep by assumption.
    eapply (IH q r U Nm'); try eassumption.
    exact (Forall_inv_tail HN).
  - rewrite comps_good_end in Hres by assumption. rewrite resolve_good in Hres by assumption.
    cbn [resolve] in Hres. injection Hres as <- <-.
    rewrite dl_good by assumption. cbn [render]. rewrite app_nil_r.
    rewrite (St_render s _ _ _ _ _ HSt HU HN) at 1. rewrite <- !app_assoc. reflexivity.
  - destruct (uses_only_tok s n s0 rest Huse Hs) as [-> Hrest].
    rewrite comps_good_sep in Hres by assumption. rewrite resolve_good in Hres by assumption.
    rewrite (dl_tok n s rest) by auto using good_nosep.
    eapply (IH q r U ((n, s) :: Nm)); try eassumption.
    + apply StName; assumption.
    + constructor; [reflexivity | assumption].
Qed.

Definition spec (s : N) (rt : bool) (u : nat) (nm : list bytes) (d : bool) : bytes :=
  fixdot ((if rt then [s] else []) ++ upseg s u ++ render s nm d).

Lemma root_uses s p : uses_only s p = true -> root p = if rooted p then [s] else [].
Proof.
  destruct p as [|c p]; [reflexivity|]. intro H. cbn [root rooted].
  destruct (is_sep c) eqn:Hc; [|reflexivity].
  destruct (uses_only_tok s [] c p H Hc) as [-> _]. reflexivity.
Qed.

Theorem canon_spec s p p' u nm : uses_only s p = true -> canon p = Ok p' ->
  resolve (comps p) 0 [] = (u, nm) -> (nm <> [] \/ u = 0) ->
  p' = spec s (rooted p) u nm (ends_dirlike p).
Proof.
  intros Huse Hc Hres Hcl.
  apply canon_ok_Run in Hc as (Hp & out & HR & ->).
  assert (Hb : uses_only s (body p) = true).
  { rewrite (root_body p), uses_only_app in Huse. apply andb_true_iff in Huse. tauto. }
  rewrite comps_root_body in Hres.
  pose proof (Run_same s _ _ _ _ HR out (root p) [] [] u nm eq_refl (St0 _) Hb
                       (Forall_nil _) (Forall_nil _) Hres Hcl) as E.
  rewrite dl_body, dl_nonnil in E by assumption.
  rewrite (root_uses s p Huse) in E. unfold spec. rewrite E. reflexivity.
Qed.

Theorem canon_same_node_partial : forall s p q p' q',
  uses_only s p = true -> uses_only s q = true -> canon p = Ok p' -> canon q = Ok q' ->
  sem p = sem q -> ends_dirlike p = ends_dirlike q -> f17_class p = false -> p' = q'.
Proof.
  intros s p q p' q' Hp Hq Cp Cq Hsem Hdl Hf.
  unfold sem in Hsem. injection Hsem as Hroot Hres.
  destruct (resolve (comps p) 0 []) as [u nm] eqn:Rp.
  assert (Hcl : nm <> [] \/ u = 0).
  { unfold f17_class in Hf. rewrite Rp in Hf.
    destruct u as [|u]; [auto|]. destruct nm; [discriminate | left; discriminate]. }
  symmetry in Hres.
  rewrite (canon_spec s p p' u nm Hp Cp Rp Hcl).
  rewrite (canon_spec s q q' u nm Hq Cq Hres Hcl).
  rewrite Hroot, Hdl. reflexivity.
Qed.
