(* Proofs about Model/Task.v (task::run_task, task::read_depfile). *)
From Coq Require Import String.
From Coq Require Import List NArith Arith Lia Bool.
From N2 Require Import Base.Base Model.Scanner Model.Depfile Model.Proc Model.Task.
From N2 Require Import Proofs.ProcProps Proofs.DepfileSafe Proofs.ParseSpec.
Import ListNotations.

(* ---- read_depfile ---- *)

Lemma depfile_parse_named_cases path t :
  (exists m, depfile_parse_named path t = Ok m /\ depfile_parse t = Ok m) \/
  (exists msg o txt e, df_parse_loop true (df_fuel t) (mkScanner (t ++ [0%N]) 0 1) [] = SErr msg o /\
                       o <= length (t ++ [0%N]) /\
                       format_parse_error (t ++ [0%N]) path msg o = Ok txt /\
                       depfile_parse_named path t = Err txt /\ depfile_parse t = Err e).
Proof.
  unfold depfile_parse_named, depfile_parse, depfile_parse_gen. rewrite sc_new_nul. cbn [bind].
  pose proof (parse_loop_final true t) as H.
  destruct (df_parse_loop true (df_fuel t) _ []) as [m s'|m o| | |]; cbn in H; try contradiction.
  - left. exists m. split; reflexivity.
  - right. cbn [finish_sres].
    destruct (format_parse_error_ok (t ++ [0%N]) path m o H) as (txt & E).
    destruct (format_parse_error_ok (t ++ [0%N]) (bs "d") m o H) as (e & E').
    rewrite E, E'. exists m, o, txt, e. repeat split; auto.
Qed.

(* the prerequisites found do not depend on the name of the file *)
Lemma read_depfile_ok_iff path t deps :
  read_depfile path (Some t) = Ok deps <-> depfile_deps t = Ok deps.
Proof.
  unfold read_depfile, depfile_deps.
  destruct (depfile_parse_named_cases path t) as [(m & E1 & E2) | (msg & o & txt & e & _ & _ & _ & E1 & E2)];
    rewrite E1, E2; cbn [bind]; split; intro H; try discriminate H; exact H.
Qed.

Lemma read_depfile_missing path : read_depfile path None = Ok [].
Proof. reflexivity. Qed.

Lemma read_depfile_total path file :
  (exists deps, read_depfile path file = Ok deps) \/ (exists txt, read_depfile path file = Err txt).
Proof.
  destruct file as [t|]; [|left; exists []; reflexivity]. unfold read_depfile.
  destruct (depfile_parse_named_cases path t) as [(m & E1 & _) | (msg & o & txt & e & _ & _ & _ & E1 & _)]; rewrite E1; cbn [bind]; eauto.
Qed.

(* ---- run_task ---- *)

Lemma last_lines_length : forall chunks acc, length (last_lines acc chunks) = length chunks.
Proof. induction chunks as [|c r IH]; intros acc; cbn [last_lines length]; [reflexivity | now rewrite IH]. Qed.

Lemma last_lines_nth : forall chunks acc i, i < length chunks ->
  nth_error (last_lines acc chunks) i = Some (find_last_line (acc ++ concat (firstn (S i) chunks))).
Proof.
  induction chunks as [|c r IH]; intros acc i Hi; [cbn in Hi; lia|].
  destruct i as [|i]; cbn [last_lines nth_error firstn concat].
  - now rewrite app_nil_r.
  - cbn [length] in Hi. rewrite IH by lia. now rewrite <- app_assoc.
Qed.

Lemma take_until_nl_no_nl l : forallb (fun c => negb (is_nl c)) (take_until_nl l) = true.
Proof.
  induction l as [|c r IH]; [reflexivity|]. cbn [take_until_nl].
  destruct (is_nl c) eqn:E; [reflexivity|]. cbn [forallb]. now rewrite E, IH.
Qed.

Lemma forallb_rev {A} (f : A -> bool) l : forallb f (rev l) = forallb f l.
Proof.
  induction l as [|x r IH]; [reflexivity|]. cbn [rev forallb]. rewrite forallb_app, IH. cbn [forallb].
  rewrite andb_true_r. apply andb_comm.
Qed.

(* what is shown under a running command never contains a line break *)
Lemma find_last_line_no_nl buf : forallb (fun c => negb (is_nl c)) (find_last_line buf) = true.
Proof.
  unfold find_last_line. destruct (drop_while_nl (rev buf)) as [|c r]; [reflexivity|].
  rewrite forallb_rev. apply take_until_nl_no_nl.
Qed.

Lemma last_lines_no_nl : forall chunks acc,
  Forall (fun l => forallb (fun c => negb (is_nl c)) l = true) (last_lines acc chunks).
Proof.
  induction chunks as [|c r IH]; intros acc; cbn [last_lines]; constructor;
    [apply find_last_line_no_nl | apply IH].
Qed.

Lemma run_task_failure showinc depfile run :
  cr_term run <> 0%N ->
  run_task showinc depfile run =
    Ok (mkTR (cr_term run)
             (if showinc then snd (extract_showincludes (concat (cr_chunks run))) else concat (cr_chunks run))
             (if showinc then Some (fst (extract_showincludes (concat (cr_chunks run)))) else None),
        last_lines [] (cr_chunks run)).
Proof.
  intros Ht. unfold run_task. cbv zeta. apply N.eqb_neq in Ht. rewrite Ht. cbn [bind].
  rewrite accumulate_is_concat. destruct showinc; reflexivity.
Qed.

Lemma run_task_success_nodepfile showinc run :
  cr_term run = 0%N ->
  run_task showinc None run =
    Ok (mkTR 0%N
             (if showinc then snd (extract_showincludes (concat (cr_chunks run))) else concat (cr_chunks run))
             (if showinc then Some (fst (extract_showincludes (concat (cr_chunks run)))) else None),
        last_lines [] (cr_chunks run)).
Proof.
  intros Ht. unfold run_task. cbv zeta. rewrite Ht. cbn [N.eqb bind].
  rewrite accumulate_is_concat. destruct showinc; reflexivity.
Qed.

Lemma run_task_success_depfile showinc path file run :
  cr_term run = 0%N ->
  run_task showinc (Some (path, file)) run =
    match read_depfile path file with
    | Ok d => Ok (mkTR 0%N
                       (if showinc then snd (extract_showincludes (concat (cr_chunks run))) else concat (cr_chunks run))
                       (Some d),
                  last_lines [] (cr_chunks run))
    | Err e => Err e
    | Panic s => Panic s
    | OutOfBounds s => OutOfBounds s
    | OutOfFuel => OutOfFuel
    end.
Proof.
  intros Ht. unfold run_task. cbv zeta. rewrite Ht. cbn [N.eqb].
  destruct (read_depfile path file); cbn [bind]; try reflexivity.
  rewrite accumulate_is_concat. destruct showinc; reflexivity.
Qed.

(* run_task never panics, reads out of bounds or loops, whatever the command printed and whatever
   the depfile holds *)
Theorem run_task_total showinc depfile run :
  (exists r, run_task showinc depfile run = Ok r) \/ (exists txt, run_task showinc depfile run = Err txt).
Proof.
  destruct (N.eq_dec (cr_term run) 0) as [Ht|Ht].
  - destruct depfile as [[path file]|].
    + rewrite run_task_success_depfile by exact Ht.
      destruct (read_depfile_total path file) as [(d & E)|(t & E)]; rewrite E; eauto.
    + rewrite run_task_success_nodepfile by exact Ht. eauto.
  - rewrite run_task_failure by exact Ht. eauto.
Qed.

(* the only error is a malformed depfile after a successful command, and its text is the parse
   error naming that depfile *)
Theorem run_task_error_names_depfile showinc depfile run txt :
  run_task showinc depfile run = Err txt ->
  cr_term run = 0%N /\
  exists path t msg o, depfile = Some (path, Some t) /\ o <= length (t ++ [0%N]) /\
                       format_parse_error (t ++ [0%N]) path msg o = Ok txt /\
                       exists e, depfile_parse t = Err e.
Proof.
  intros H. destruct (N.eq_dec (cr_term run) 0) as [Ht|Ht].
  - split; [exact Ht|]. destruct depfile as [[path file]|].
    + rewrite run_task_success_depfile in H by exact Ht. destruct file as [t|]; [|discriminate H].
      unfold read_depfile in H.
      destruct (depfile_parse_named_cases path t) as [(m & E1 & _) | (msg & o & txt' & e & _ & Ho & Ef & E1 & E2)];
        rewrite E1 in H; cbn [bind] in H; [discriminate H|].
      inversion H; subst. exists path, t, msg, o. repeat split; eauto.
    + rewrite run_task_success_nodepfile in H by exact Ht. discriminate H.
  - rewrite run_task_failure in H by exact Ht. discriminate H.
Qed.

(* the shape of that text: "parse error: <msg>" / "<depfile>:<line>: <excerpt>" / caret *)
From N2 Require Import Proofs.FixErrFormatSpec Proofs.FixErrFormat.

Lemma format_parse_error_shape buf path msg o txt :
  o <= length buf -> format_parse_error buf path msg o = Ok txt ->
  exists lno ctx pad, 1 <= lno /\ txt = error_text path msg lno ctx pad.
Proof.
  intros Ho H.
  destruct (error_line_exists buf o Ho) as (before & line & after & Eb & Hnl & Hb & Ha & Hr).
  rewrite (format_parse_error_exact buf path msg o before line after Eb Hnl Hb Ha Hr) in H.
  inversion H; subst. do 3 eexists. split; [|reflexivity]. lia.
Qed.

Theorem run_task_error_text showinc depfile run txt :
  run_task showinc depfile run = Err txt ->
  cr_term run = 0%N /\
  exists path t msg lno ctx pad, depfile = Some (path, Some t) /\ 1 <= lno /\
                                 txt = error_text path msg lno ctx pad /\ exists e, depfile_parse t = Err e.
Proof.
  intros H. destruct (run_task_error_names_depfile _ _ _ _ H) as (Ht & path & t & msg & o & Ed & Ho & Ef & He).
  split; [exact Ht|].
  destruct (format_parse_error_shape _ _ _ _ _ Ho Ef) as (lno & ctx & pad & Hl & Et).
  exists path, t, msg, lno, ctx, pad. repeat split; assumption.
Qed.

(* ---- the worker thread's glue (task::Runner::start) ---- *)

Theorem worker_result_total showinc depfile run : exists r, worker_result showinc depfile run = Ok r.
Proof.
  unfold worker_result. destruct (run_task_total showinc depfile run) as [((r & ls) & E)|(t & E)]; rewrite E; eauto.
Qed.

(* a malformed depfile fails the step: the command's success is turned into a failure whose output
   is the parse error naming the depfile, and nothing is reported as discovered (so nothing is
   recorded: C05_record_only_after_success) *)
Theorem worker_malformed_depfile_fails_step showinc path t run e :
  cr_term run = 0%N -> depfile_parse t = Err e ->
  exists msg lno ctx pad, 1 <= lno /\
    worker_result showinc (Some (path, Some t)) run = Ok (mkTR 1%N (error_text path msg lno ctx pad ++ [10%N]) None).
Proof.
  intros Ht He. unfold worker_result.
  destruct (run_task_total showinc (Some (path, Some t)) run) as [((r & ls) & E)|(txt & E)].
  - exfalso. rewrite run_task_success_depfile in E by exact Ht. unfold read_depfile in E.
    destruct (depfile_parse_named_cases path t) as [(m & _ & E2) | (msg & o & txt & e' & _ & _ & _ & E1 & _)].
    + rewrite E2 in He. discriminate He.
    + rewrite E1 in E. cbn [bind] in E. discriminate E.
  - rewrite E. destruct (run_task_error_text _ _ _ _ E) as (_ & path' & t' & msg & lno & ctx & pad & Ed & Hl & Et & _).
    inversion Ed; subst. exists msg, lno, ctx, pad. split; [exact Hl | reflexivity].
Qed.

(* and only that: whenever the depfile parses (or is missing, or the command failed) the worker's
   result is run_task's *)
Theorem worker_result_is_run_task showinc depfile run r ls :
  run_task showinc depfile run = Ok (r, ls) -> worker_result showinc depfile run = Ok r.
Proof. intros E. unfold worker_result. now rewrite E. Qed.
