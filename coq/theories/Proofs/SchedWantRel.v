(* The want traversal (BuildStates::want_build / want_file) as a fuel-free big-step relation,
   basic facts about BuildStates::set, and the cycle-message theorem. *)
From N2 Require Import Model.All Proofs.SchedSpec.

(* ---- small list facts ---- *)

Lemma get_set_nth (l : list bstate) j v i :
  nth i (set_nth_state l j v) Unknown =
  if ((i =? j) && (j <? length l))%nat then v else nth i l Unknown.
Proof.
  revert j i. induction l as [|c r IH]; intros j i.
  - cbn [set_nth_state length]. destruct j; rewrite andb_false_r; reflexivity.
  - destruct j as [|j]; destruct i as [|i]; cbn [set_nth_state nth length]; try reflexivity.
    rewrite IH. reflexivity.
Qed.

Lemma set_nth_length (l : list bstate) j v : length (set_nth_state l j v) = length l.
Proof.
  revert j. induction l as [|c r IH]; intros [|j]; cbn [set_nth_state length]; auto.
Qed.

Lemma set_nth_same (l : list bstate) j : set_nth_state l j (nth j l Unknown) = l.
Proof.
  revert j. induction l as [|c r IH]; intros [|j]; cbn [set_nth_state nth]; auto.
  now rewrite IH.
Qed.

Lemma bstate_eqb_eq a b : bstate_eqb a b = true <-> a = b.
Proof. destruct a, b; cbn; split; intro H; try reflexivity; try discriminate. Qed.

Lemma bstate_eqb_neq a b : bstate_eqb a b = false <-> a <> b.
Proof.
  split.
  - intros H E. apply bstate_eqb_eq in E. congruence.
  - intro H. destruct (bstate_eqb a b) eqn:E; [|reflexivity]. apply bstate_eqb_eq in E. contradiction.
Qed.

Lemma position_none x l : position x l = None <-> ~ In x l.
Proof.
  induction l as [|y r IH]; cbn [position In].
  - split; auto.
  - destruct (Nat.eqb_spec x y) as [E|E].
    + split; [discriminate|]. intro H. exfalso. apply H. left. now symmetry.
    + destruct (position x r) as [c|]; cbn [option_map].
      * split; [discriminate|]. intro H. exfalso.
        assert (Hn : ~ In x r) by (intro Hi; apply H; now right).
        apply IH in Hn. discriminate Hn.
      * split; [|reflexivity]. intros _ [H|H]; [now apply E|].
        revert H. now apply IH.
Qed.

Lemma position_some x l c : position x l = Some c -> exists tl, skipn c l = x :: tl.
Proof.
  revert c. induction l as [|y r IH]; intros c; cbn [position]; [discriminate|].
  destruct (Nat.eqb_spec x y) as [E|E].
  - intro H. inversion H; subst. exists r. reflexivity.
  - destruct (position x r) as [c'|]; cbn [option_map]; [|discriminate].
    intro H. inversion H; subst. cbn [skipn]. now apply IH.
Qed.

Lemma bind_ok {A B} (e : outcome A) (f : A -> outcome B) r :
  bind e f = Ok r -> exists a, e = Ok a /\ f a = Ok r.
Proof. destruct e; cbn [bind]; try discriminate. eauto. Qed.

Lemma bind_err {A B} (e : outcome A) (f : A -> outcome B) m :
  bind e f = Err m -> e = Err m \/ exists a, e = Ok a /\ f a = Err m.
Proof. destruct e; cbn [bind]; try discriminate; eauto. intro H; left; inversion H; reflexivity. Qed.

(* ---- BuildStates::set ---- *)

Lemma bs_set_states s id b st s' :
  bs_set s id b st = Ok s' -> bs_states s' = set_nth_state (bs_states s) id st.
Proof.
  unfold bs_set.
  destruct (bstate_eqb (get_state s id) Unknown).
  - destruct st; cbn; try (intro H; inversion H; reflexivity).
    destruct (pool_update _ _ _); cbn; intro H; inversion H; reflexivity.
  - destruct (bstate_eqb (get_state s id) Running).
    + destruct (pool_update (bs_pools s) _ _); cbn; [|discriminate].
      destruct st; cbn; try (intro H; inversion H; reflexivity).
      destruct (pool_update _ _ _); cbn; intro H; inversion H; reflexivity.
    + destruct st; cbn; try (intro H; inversion H; reflexivity).
      destruct (pool_update _ _ _); cbn; intro H; inversion H; reflexivity.
Qed.

Lemma bs_set_fresh s id b st :
  get_state s id = Unknown -> st = Want \/ st = Ready ->
  bs_set s id b st =
  Ok (mkBS (set_nth_state (bs_states s) id st)
           (if b_phony b then bs_counts s else c6_add (bs_counts s) st 1)
           (bs_pending s + 1)
           (match st with Ready => bs_ready s ++ [id] | _ => bs_ready s end)
           (bs_pools s)).
Proof.
  intros HU [-> | ->]; unfold bs_set; rewrite HU; cbn; reflexivity.
Qed.

Lemma bs_set_want_again s id b :
  get_state s id = Want -> bs_set s id b Want = Ok s.
Proof.
  intro HW. unfold bs_set. rewrite HW. cbn.
  assert (E : set_nth_state (bs_states s) id Want = bs_states s).
  { unfold get_state in HW. rewrite <- HW at 1. apply set_nth_same. }
  rewrite E. destruct s as [sts [kw kr kq kn kd kf] pe rd pl]. cbn.
  destruct (b_phony b); [reflexivity|]. cbn. f_equal. f_equal. f_equal. lia.
Qed.

Lemma bs_set_no_fuel s id b st : bs_set s id b st <> OutOfFuel.
Proof.
  unfold bs_set.
  destruct (bstate_eqb (get_state s id) Unknown).
  - destruct st; cbn; try discriminate. destruct (pool_update _ _ _); cbn; discriminate.
  - destruct (bstate_eqb (get_state s id) Running).
    + destruct (pool_update (bs_pools s) _ _); cbn; [|discriminate].
      destruct st; cbn; try discriminate. destruct (pool_update _ _ _); cbn; discriminate.
    + destruct st; cbn; try discriminate. destruct (pool_update _ _ _); cbn; discriminate.
Qed.

Lemma bs_set_no_err s id b st m : bs_set s id b st <> Err m.
Proof.
  unfold bs_set.
  destruct (bstate_eqb (get_state s id) Unknown).
  - destruct st; cbn; try discriminate. destruct (pool_update _ _ _); cbn; discriminate.
  - destruct (bstate_eqb (get_state s id) Running).
    + destruct (pool_update (bs_pools s) _ _); cbn; [|discriminate].
      destruct st; cbn; try discriminate. destruct (pool_update _ _ _); cbn; discriminate.
    + destruct st; cbn; try discriminate. destruct (pool_update _ _ _); cbn; discriminate.
Qed.

(* ---- the two inner loops as standalone functions ---- *)

Definition ord_loop (wf : wst -> nat -> outcome (wst * bool)) :=
  fix loop (ins : list nat) (w : wst) (ready : bool) : outcome (wst * bool) :=
    match ins with
    | [] => Ok (w, ready)
    | f :: rest => do r <- wf w f; let '(w, ok) := r in loop rest w (ready && ok)
    end.

Definition val_loop (wf : wst -> nat -> outcome (wst * bool)) :=
  fix vloop (ins : list nat) (w : wst) : outcome wst :=
    match ins with
    | [] => Ok w
    | f :: rest => do r <- wf w f; vloop rest (fst r)
    end.

Lemma want_build_S fuel g w stack id :
  want_build (S fuel) g w stack id =
  let st0 := get_state (fst w) id in
  if negb (bstate_eqb st0 Unknown) then Ok (w, st0) else
  let b := get_build g id in
  do r <- ord_loop (fun w f => want_file fuel g w stack f) (ordering_ins b) w true;
  let '(w, ready) := r in
  let st := if ready then Ready else Want in
  do s' <- bs_set (fst w) id b st;
  let w := (s', snd w ++ [(id, st)]) in
  do w <- val_loop (fun w f => want_file fuel g w [] f) (validation_ins b) w;
  Ok (w, st).
Proof. reflexivity. Qed.

Lemma want_file_S fuel g w stack id :
  want_file (S fuel) g w stack id =
  match position id stack with
  | Some c => Err (cycle_message g (skipn c stack) id)
  | None =>
    match file_input g id with
    | None => Ok (w, true)
    | Some bid =>
      do r <- want_build fuel g w (stack ++ [id]) bid;
      let '(w, st) := r in
      Ok (w, bstate_eqb st Done)
    end
  end.
Proof. reflexivity. Qed.

(* ---- big-step relation for successful traversals ---- *)

Section Rel.
Variable g : graph.

Inductive WB : wst -> list nat -> nat -> wst -> bstate -> Prop :=
| WB_known w stack id :
    get_state (fst w) id <> Unknown -> WB w stack id w (get_state (fst w) id)
| WB_visit w stack id w1 ready s' w2 :
    get_state (fst w) id = Unknown ->
    OL w stack (ordering_ins (get_build g id)) true w1 ready ->
    bs_set (fst w1) id (get_build g id) (if ready then Ready else Want) = Ok s' ->
    VL (s', snd w1 ++ [(id, if ready then Ready else Want)]) (validation_ins (get_build g id)) w2 ->
    WB w stack id w2 (if ready then Ready else Want)
with WF : wst -> list nat -> nat -> wst -> bool -> Prop :=
| WF_leaf w stack f :
    ~ In f stack -> file_input g f = None -> WF w stack f w true
| WF_build w stack f bid w' st :
    ~ In f stack -> file_input g f = Some bid ->
    WB w (stack ++ [f]) bid w' st -> WF w stack f w' (bstate_eqb st Done)
with OL : wst -> list nat -> list nat -> bool -> wst -> bool -> Prop :=
| OL_nil w stack ready : OL w stack [] ready w ready
| OL_cons w stack f rest ready w1 ok w2 ready2 :
    WF w stack f w1 ok -> OL w1 stack rest (ready && ok) w2 ready2 ->
    OL w stack (f :: rest) ready w2 ready2
with VL : wst -> list nat -> wst -> Prop :=
| VL_nil w : VL w [] w
| VL_cons w f rest w1 ok w2 :
    WF w [] f w1 ok -> VL w1 rest w2 -> VL w (f :: rest) w2.

Scheme WB_mind := Minimality for WB Sort Prop
  with WF_mind := Minimality for WF Sort Prop
  with OL_mind := Minimality for OL Sort Prop
  with VL_mind := Minimality for VL Sort Prop.
Combined Scheme want_mutind from WB_mind, WF_mind, OL_mind, VL_mind.

Lemma ord_loop_sound wf stack
      (Hwf : forall w f w' ok, wf w f = Ok (w', ok) -> WF w stack f w' ok) :
  forall ins w ready w' ready',
    ord_loop wf ins w ready = Ok (w', ready') -> OL w stack ins ready w' ready'.
Proof.
  induction ins as [|f rest IH]; intros w ready w' ready' H; cbn [ord_loop] in H.
  - inversion H; subst. constructor.
  - apply bind_ok in H as [[w1 ok] [H1 H2]].
    eapply OL_cons; [apply Hwf; exact H1 | apply IH; exact H2].
Qed.

Lemma val_loop_sound wf
      (Hwf : forall w f w' ok, wf w f = Ok (w', ok) -> WF w [] f w' ok) :
  forall ins w w', val_loop wf ins w = Ok w' -> VL w ins w'.
Proof.
  induction ins as [|f rest IH]; intros w w' H; cbn [val_loop] in H.
  - inversion H; subst. constructor.
  - apply bind_ok in H as [[w1 ok] [H1 H2]]. cbn [fst] in H2.
    eapply VL_cons; [apply Hwf; exact H1 | apply IH; exact H2].
Qed.

Lemma want_sound : forall fuel,
  (forall w stack id w' st, want_build fuel g w stack id = Ok (w', st) -> WB w stack id w' st) /\
  (forall w stack f w' ok, want_file fuel g w stack f = Ok (w', ok) -> WF w stack f w' ok).
Proof.
  induction fuel as [|fuel [IHb IHf]]; [split; intros; discriminate|].
  split.
  - intros w stack id w' st H. rewrite want_build_S in H. cbv zeta in H.
    destruct (bstate_eqb (get_state (fst w) id) Unknown) eqn:EU; cbn [negb] in H.
    + apply bstate_eqb_eq in EU.
      apply bind_ok in H as [[w1 ready] [H1 H2]].
      apply bind_ok in H2 as [s' [H2 H3]].
      apply bind_ok in H3 as [w2 [H3 H4]]. inversion H4; subst w' st.
      eapply WB_visit; eauto.
      * eapply ord_loop_sound; [|exact H1]. intros; now apply IHf.
      * eapply val_loop_sound; [|exact H3]. intros; now apply IHf.
    + apply bstate_eqb_neq in EU. inversion H; subst. now constructor.
  - intros w stack f w' ok H. rewrite want_file_S in H.
    destruct (position f stack) eqn:EP; [discriminate|]. apply position_none in EP.
    destruct (file_input g f) as [bid|] eqn:EF.
    + apply bind_ok in H as [[w1 st] [H1 H2]]. inversion H2; subst.
      eapply WF_build; eauto.
    + inversion H; subst. now constructor.
Qed.

Lemma want_file_sound fuel w stack f w' ok :
  want_file fuel g w stack f = Ok (w', ok) -> WF w stack f w' ok.
Proof. apply want_sound. Qed.

End Rel.
