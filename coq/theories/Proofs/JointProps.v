(* The joint theorems in the form they are stated in PropsNew/Joint.v. *)
From Coq Require Import Lia ZArith List Bool Arith.
From N2 Require Import Model.All Proofs.SchedSpec Proofs.SchedInv Proofs.SchedRunRInv Proofs.SchedRunFinal.
From N2 Require Import Proofs.DbSpec Proofs.WorldSpec Proofs.JointSpec Proofs.JointBase Proofs.JointInv
     Proofs.JointThms Proofs.JointMain.
Import ListNotations.

Section P.
Variable cf : config.
Variable decls : list (bytes * nat).
Variable wg : wgraph.
Hypothesis Hwf : graph_wf (cf_graph cf).
Hypothesis Hag : graphs_agree (cf_graph cf) wg.

Lemma fresh_start_reachable r0 w0 :
  reachable cf decls r0 -> rs_ctl r0 = CIdle -> (forall b, get_state (rs_bs r0) b <> Done) ->
  ws_cache w0 = [] -> fresh_start cf decls r0 w0.
Proof. intros Hr Hc Hd Hca. split; [exact (reachable_RInv_closed cf decls Hwf r0 Hr)|auto]. Qed.

Lemma P_done_outputs_cached s fl w0 tr r w :
  wanted (cf_graph cf) (bs_new (length (g_builds (cf_graph cf))) decls) s -> ws_cache w0 = [] ->
  jaccepted cf wg (run_init s fl) w0 tr r w -> writes_ok wg [] tr ->
  forall b, get_state (rs_bs r) b = Done ->
  forall o, In o (wb_outs (get_wbuild wg b)) -> cache_get (ws_cache w) o = Some (fs_get (ws_fs w) o).
Proof.
  intros W Hca. apply (done_outputs_cached cf decls wg Hag). now apply fresh_start_wanted.
Qed.

Lemma P_done_outputs_cached_reachable r0 w0 tr r w :
  reachable cf decls r0 -> rs_ctl r0 = CIdle -> (forall b, get_state (rs_bs r0) b <> Done) ->
  ws_cache w0 = [] ->
  jaccepted cf wg r0 w0 tr r w -> writes_ok wg [] tr ->
  forall b, get_state (rs_bs r) b = Done ->
  forall o, In o (wb_outs (get_wbuild wg b)) -> cache_get (ws_cache w) o = Some (fs_get (ws_fs w) o).
Proof.
  intros Hr Hc Hd Hca. apply (done_outputs_cached cf decls wg Hag). now apply fresh_start_reachable.
Qed.

Lemma P_stated_generated s fl w0 tr r w b :
  wanted (cf_graph cf) (bs_new (length (g_builds (cf_graph cf))) decls) s -> ws_cache w0 = [] ->
  jaccepted cf wg (run_init s fl) w0 tr r w -> writes_ok wg [] tr ->
  rs_ctl r = CChecking b ->
  stated_generated wg w (wb_dirtying (get_wbuild wg b)).
Proof.
  intros W Hca. apply (checked_stated_generated cf decls wg Hwf Hag). now apply fresh_start_wanted.
Qed.

Lemma P_cache_stale s fl w0 tr r w :
  wanted (cf_graph cf) (bs_new (length (g_builds (cf_graph cf))) decls) s -> ws_cache w0 = [] ->
  jaccepted cf wg (run_init s fl) w0 tr r w -> writes_ok wg [] tr ->
  forall n v, cache_get (ws_cache w) n = Some v ->
    v = fs_get (ws_fs w) n \/
    exists p, producer_of wg n = Some p /\ In n (wb_outs (get_wbuild wg p)) /\
              (get_state (rs_bs r) p = Running \/ get_state (rs_bs r) p = Failed).
Proof.
  intros W Hca. apply (cache_stale_only_running_failed cf decls wg Hag). now apply fresh_start_wanted.
Qed.

Lemma P_cache_stale_reachable r0 w0 tr r w :
  reachable cf decls r0 -> rs_ctl r0 = CIdle -> (forall b, get_state (rs_bs r0) b <> Done) ->
  ws_cache w0 = [] ->
  jaccepted cf wg r0 w0 tr r w -> writes_ok wg [] tr ->
  forall n v, cache_get (ws_cache w) n = Some v ->
    v = fs_get (ws_fs w) n \/
    exists p, producer_of wg n = Some p /\ In n (wb_outs (get_wbuild wg p)) /\
              (get_state (rs_bs r) p = Running \/ get_state (rs_bs r) p = Failed).
Proof.
  intros Hr Hc Hd Hca. apply (cache_stale_only_running_failed cf decls wg Hag). now apply fresh_start_reachable.
Qed.

Lemma P_cache_consistent_for_checked s fl w0 tr r w b :
  wanted (cf_graph cf) (bs_new (length (g_builds (cf_graph cf))) decls) s -> ws_cache w0 = [] ->
  jaccepted cf wg (run_init s fl) w0 tr r w -> writes_ok wg [] tr ->
  rs_ctl r = CChecking b ->
  forall n, In n (wb_dirtying (get_wbuild wg b) ++ wb_outs (get_wbuild wg b)) ->
  forall v, cache_get (ws_cache w) n = Some v -> v = fs_get (ws_fs w) n.
Proof.
  intros W Hca Ha Ho Hc n Hn v Hv. pose proof (fresh_start_wanted cf decls Hwf s fl w0 W Hca) as Hf.
  apply in_app_or in Hn. destruct Hn as [Hn|Hn].
  - exact (checked_cache_consistent cf decls wg Hwf Hag _ _ _ _ _ b Hf Ha Ho Hc n Hn v Hv).
  - exact (checked_outs_consistent cf decls wg Hag _ _ _ _ _ b Hf Ha Ho Hc n Hn v Hv).
Qed.

Lemma P_at_verdict s fl w0 pre b v post r w :
  wanted (cf_graph cf) (bs_new (length (g_builds (cf_graph cf))) decls) s -> ws_cache w0 = [] ->
  jaccepted cf wg (run_init s fl) w0 (pre ++ JVerdict b v :: post) r w ->
  writes_ok wg [] (pre ++ JVerdict b v :: post) ->
  exists rp wp,
    jaccepted cf wg (run_init s fl) w0 pre rp wp /\ writes_ok wg [] pre /\ rs_ctl rp = CChecking b /\
    (exists wc res, check_build_dirty wg wp b (get_wbuild wg b) = (wc, res) /\ dr_code res = verdict_code v) /\
    stated_generated wg wp (wb_dirtying (get_wbuild wg b)) /\
    (forall n, In n (wb_dirtying (get_wbuild wg b) ++ wb_outs (get_wbuild wg b)) ->
       forall x, cache_get (ws_cache wp) n = Some x -> x = fs_get (ws_fs wp) n).
Proof.
  intros W Hca. apply (joint_at_verdict_gen cf decls wg Hwf Hag). now apply fresh_start_wanted.
Qed.

End P.
