(* Vocabulary for Props/C12Depth.v, error-format part (definitions only).
   The window of the offending line that format_parse_error (src/scanner.rs) shows, as the code
   cuts it: when the error column is beyond 40 the line is cut 20 bytes before the column (moved
   back to a char boundary) and "..." is put in front; when what remains is longer than 40 bytes it
   is cut at 40 (moved back to a char boundary) and "..." is appended. *)
From Coq Require Import String.
From N2 Require Import Model.All.

(* number of newlines *)
Definition count_nl (l : bytes) : nat := length (filter (N.eqb 10%N) l).

Definition err_dots (col : nat) : bytes := if (40 <? col)%nat then bs "..." else [].
Definition err_context (line : bytes) (col : nat) : bytes :=
  if (40 <? col)%nat then skipn (floor_boundary line (col - 20)) line else line.
(* where the error byte ends up in dots ++ context *)
Definition err_caret (line : bytes) (col : nat) : nat :=
  if (40 <? col)%nat then (3 + (col - floor_boundary line (col - 20)))%nat else col.
Definition err_shown (ctx : bytes) : bytes :=
  if (40 <? length ctx)%nat then firstn (floor_boundary ctx 40) ctx ++ bs "..." else ctx.
Definition err_window (line : bytes) (col : nat) : bytes := err_dots col ++ err_shown (err_context line col).
