(* C10, loader half, L2 + L3: what [run_stmts] leaves in the loader - one step per `build`
   statement, in order, each as declared; rules, pools and defaults as declared. *)
From Coq Require Import String.
From N2 Require Import Model.All Proofs.EvalScope Proofs.GraphDedup Proofs.GraphAddBuild Proofs.GraphLoad.
From N2 Require Import Proofs.LoadGraphSpec Proofs.LoadGraphBuild.

(* ------------------------------------------------------------------------------------ *)
(* vocabulary: what a statement sequence declares *)

(* the rule table after the statements (a later `rule` of the same name replaces the bindings) *)
Fixpoint rules_of (rules : list (bytes * varlist)) (sts : list (statement * vars)) : list (bytes * varlist) :=
  match sts with
  | [] => rules
  | (st, _) :: r => match st with
                    | SRule n rv => rules_of (insert_b n rv rules) r
                    | _ => rules_of rules r
                    end
  end.

(* the pool table: a later declaration of the same name replaces the depth, keeps the position *)
Fixpoint pools_of (pools : list (bytes * N)) (sts : list (statement * vars)) : list (bytes * N) :=
  match sts with
  | [] => pools
  | (st, _) :: r => match st with
                    | SPool n d => pools_of (insert_b n d pools) r
                    | _ => pools_of pools r
                    end
  end.

(* the `build` statements in order, each with the file-level variables and the rule table in
   force where it stands *)
Fixpoint build_items (rules : list (bytes * varlist)) (sts : list (statement * vars))
  : list (pbuild * vars * list (bytes * varlist)) :=
  match sts with
  | [] => []
  | (st, vs) :: r => match st with
                     | SRule n rv => build_items (insert_b n rv rules) r
                     | SBuild pb => (pb, vs, rules) :: build_items rules r
                     | _ => build_items rules r
                     end
  end.

(* the paths of the `default` statements in order, each with the variables in force *)
Fixpoint default_items (sts : list (statement * vars)) : list (evalstring * vars) :=
  match sts with
  | [] => []
  | (st, vs) :: r => match st with
                     | SDefault ds => map (fun p => (p, vs)) ds ++ default_items r
                     | _ => default_items r
                     end
  end.

Fixpoint count_builds (sts : list (statement * vars)) : nat :=
  match sts with
  | [] => 0
  | (st, _) :: r => match st with SBuild _ => S (count_builds r) | _ => count_builds r end
  end.

(* the latest `rule name` among the statements *)
Fixpoint last_rule (name : bytes) (sts : list (statement * vars)) : option varlist :=
  match sts with
  | [] => None
  | (st, _) :: r =>
    match last_rule name r with
    | Some rv => Some rv
    | None => match st with
              | SRule n rv => if bytes_eqb n name then Some rv else None
              | _ => None
              end
    end
  end.

Definition item_ok (l : loader) (filename : bytes) (it : pbuild * vars * list (bytes * varlist)) (b : lbuild)
  : Prop := build_ok l filename (fst (fst it)) (snd (fst it)) (snd it) b.

Definition default_ok (l : loader) (pv : evalstring * vars) (id : nat) : Prop :=
  names_at l [vars_env (snd pv)] (fst pv) id.

(* ------------------------------------------------------------------------------------ *)
(* facts about the vocabulary *)

Lemma build_items_length rules sts : length (build_items rules sts) = count_builds sts.
Proof.
  revert rules. induction sts as [|[st vs] r IH]; intro rules; [reflexivity|].
  destruct st; cbn [build_items count_builds length]; rewrite ?IH; reflexivity.
Qed.

Lemma rules_of_app rules a b : rules_of rules (a ++ b) = rules_of (rules_of rules a) b.
Proof.
  revert rules. induction a as [|[st vs] r IH]; intro rules; [reflexivity|].
  destruct st; cbn [app rules_of]; apply IH.
Qed.

Lemma build_items_app rules a b :
  build_items rules (a ++ b) = build_items rules a ++ build_items (rules_of rules a) b.
Proof.
  revert rules. induction a as [|[st vs] r IH]; intro rules; [reflexivity|].
  destruct st; cbn [app build_items rules_of]; rewrite IH; reflexivity.
Qed.

(* the k-th item is the k-th `build` statement, with the rules declared in front of it *)
Lemma build_items_nth : forall sts rules k pb vs rules',
  nth_error (build_items rules sts) k = Some (pb, vs, rules') ->
  exists pre post, sts = pre ++ (SBuild pb, vs) :: post /\ count_builds pre = k /\
                   rules' = rules_of rules pre.
Proof.
  induction sts as [|[st v] r IH]; intros rules k pb vs rules' H; [destruct k; discriminate|].
  assert (SKIP : forall rules1, (forall x, st <> SBuild x) ->
            nth_error (build_items rules1 r) k = Some (pb, vs, rules') ->
            rules_of rules [(st, v)] = rules1 ->
            exists pre post, (st, v) :: r = pre ++ (SBuild pb, vs) :: post /\ count_builds pre = k /\
                             rules' = rules_of rules pre).
  { intros rules1 NB H1 R1. destruct (IH _ _ _ _ _ H1) as (pre & post & -> & C & ->).
    exists ((st, v) :: pre), post. split; [reflexivity|]. split.
    - cbn [count_builds]. destruct st; try exact C. exfalso. eapply NB. reflexivity.
    - rewrite <- R1. change ((st, v) :: pre) with ([(st, v)] ++ pre). rewrite rules_of_app. reflexivity. }
  destruct st as [n rv|b|ds|p|p|n d]; cbn [build_items] in H;
    try (eapply SKIP; [intros x; discriminate | exact H | reflexivity]).
  destruct k as [|k]; cbn [nth_error] in H.
  - inversion H; subst. exists [], r. repeat split.
  - destruct (IH _ _ _ _ _ H) as (pre & post & -> & C & ->).
    exists ((SBuild b, v) :: pre), post. split; [reflexivity|]. split; [cbn [count_builds]; lia | reflexivity].
Qed.

(* the binding list of a rule name: the latest `rule` statement of that name, else what was there *)
Lemma assoc_rules_of name : forall sts rules,
  assoc_b name (rules_of rules sts) =
  match last_rule name sts with Some rv => Some rv | None => assoc_b name rules end.
Proof.
  induction sts as [|[st vs] r IH]; intro rules; [reflexivity|].
  cbn [last_rule]. destruct st as [n rv|b|ds|p|p|n d]; cbn [rules_of]; rewrite IH;
    destruct (last_rule name r); try reflexivity.
  destruct (bytes_eqb n name) eqn:E.
  - apply bytes_eqb_spec in E. subst n. apply assoc_insert_same.
  - apply assoc_insert_other. apply bytes_eqb_false_neq in E. congruence.
Qed.

Lemma Forall2_map_l {A B C} (f : A -> B) (P : B -> C -> Prop) (xs : list A) (ys : list C) :
  Forall2 (fun x y => P (f x) y) xs ys -> Forall2 P (map f xs) ys.
Proof. induction 1; cbn [map]; constructor; assumption. Qed.

Lemma Forall2_impl {A B} (P Q : A -> B -> Prop) xs ys :
  (forall x y, P x y -> Q x y) -> Forall2 P xs ys -> Forall2 Q xs ys.
Proof. intros H. induction 1; constructor; auto. Qed.

Lemma Forall2_mono_in {A B} (P Q : A -> B -> Prop) xs ys :
  Forall2 P xs ys -> (forall x y, In y ys -> P x y -> Q x y) -> Forall2 Q xs ys.
Proof.
  induction 1 as [|x y xs ys H1 H IH]; intro K; constructor.
  - apply K; [left; reflexivity | exact H1].
  - apply IH. intros x' y' I'. apply K. right. exact I'.
Qed.

Lemma default_ok_mono l l' pvs ids :
  NamesExt l l' -> ids_in l ids -> Forall2 (default_ok l) pvs ids -> Forall2 (default_ok l') pvs ids.
Proof.
  intros X R H. induction H as [|pv id pvs ids H1 H IH]; [constructor|].
  inversion R as [|? ? R1 R2]; subst. constructor; [|apply IH; exact R2].
  unfold default_ok, names_at in *. rewrite (NamesExt_file_nm _ _ _ X R1). exact H1.
Qed.

(* ------------------------------------------------------------------------------------ *)
(* the characterisation *)

Theorem run_stmts_spec filename : forall sts l0 l,
  LInv l0 -> builds_wf sts -> run_stmts l0 filename sts = Ok l ->
  LInv l /\ NamesExt l0 l /\
  (exists bs, l_builds l = l_builds l0 ++ bs /\
              Forall2 (item_ok l filename) (build_items (l_rules l0) sts) bs) /\
  l_rules l = rules_of (l_rules l0) sts /\
  l_pools l = pools_of (l_pools l0) sts /\
  (exists ids, l_defaults l = l_defaults l0 ++ ids /\
               Forall2 (default_ok l) (default_items sts) ids /\ ids_in l ids) /\
  l_builddir l = l_builddir l0.
Proof.
  induction sts as [|[st vs] r IH]; intros l0 l I W H.
  - cbn [run_stmts] in H. inversion H; subst l.
    split; [exact I|]. split; [apply NamesExt_refl|].
    split; [exists []; rewrite app_nil_r; split; [reflexivity | constructor]|].
    split; [reflexivity|]. split; [reflexivity|].
    split; [exists []; rewrite app_nil_r; split; [reflexivity | split; constructor]|]. reflexivity.
  - cbn [run_stmts] in H. apply bind_ok in H as [l1 [E H]].
    inversion W as [|? ? W1 W2]; subst. cbn [fst] in W1.
    destruct st as [name rv|pb|ds|p|p|name d]; cbn [stmt_step] in E; try discriminate E.
    + inversion E; subst l1; clear E.
      assert (I1 : LInv (with_rules l0 (insert_b name rv (l_rules l0))))
        by (eapply LInv_same_graph; [| |exact I]; reflexivity).
      destruct (IH _ _ I1 W2 H) as (J & X & B & RL & PL & D & BD).
      cbn [with_rules l_files l_builds l_rules l_pools l_defaults l_builddir] in *.
      cbn [build_items rules_of pools_of default_items].
      repeat (split; try assumption).
    + destruct (add_build_spec _ _ _ _ _ I W1 E) as (I1 & X1 & RL1 & PL1 & DF1 & BD1 & b & B1 & OK1).
      destruct (IH _ _ I1 W2 H) as (J & X & (bs0 & B & FB) & RL & PL & D & BD).
      cbn [build_items rules_of pools_of default_items].
      rewrite RL1 in *. rewrite PL1 in *. rewrite DF1 in *. rewrite BD1 in *.
      split; [exact J|]. split; [eapply NamesExt_trans; eassumption|].
      split.
      { exists (b :: bs0). split; [rewrite B, B1, <- app_assoc; reflexivity|].
        constructor; [|exact FB]. unfold item_ok. cbn [fst snd].
        eapply build_ok_mono; eassumption. }
      repeat (split; try assumption).
    + apply bind_ok in E as [[l1' ids1] [E1 E]]. inversion E; subst l1; clear E.
      destruct (evaluate_paths_spec _ _ _ _ _ E1) as [X1 [R1 C1]].
      destruct (evaluate_paths_other _ _ _ _ _ E1) as (Q1 & Q2 & Q3).
      assert (I1 : LInv (with_defaults l1' (l_defaults l1' ++ ids1))).
      { eapply LInv_same_graph; [| |eapply Ext_LInv; [exact X1 | exact I]]; reflexivity. }
      destruct (IH _ _ I1 W2 H) as (J & X & B & RL & PL & (ids & D & FD & RD) & BD).
      cbn [with_defaults l_files l_builds l_rules l_pools l_defaults l_builddir] in *.
      assert (X' : NamesExt l1' l) by exact X.
      cbn [build_items rules_of pools_of default_items].
      rewrite (Ext_builds _ _ X1), (Ext_rules _ _ X1), Q1, Q2, Q3 in *.
      split; [exact J|]. split; [eapply NamesExt_trans; [apply Ext_NamesExt; exact X1 | exact X']|].
      split; [exact B|]. split; [exact RL|]. split; [exact PL|]. split; [|exact BD].
      exists (ids1 ++ ids). split; [rewrite D, app_assoc; reflexivity|].
      split.
      * apply Forall2_app; [|exact FD]. apply Forall2_map_l. cbn [fst snd].
        change (Forall2 (names_at l [vars_env vs]) ds ids1).
        eapply names_at_mono; [exact X' | exact R1 | exact C1].
      * apply Forall_app. split; [eapply ids_in_mono; [exact X' | exact R1] | exact RD].
    + inversion E; subst l1; clear E.
      assert (I1 : LInv (with_pools l0 (insert_b name d (l_pools l0))))
        by (eapply LInv_same_graph; [| |exact I]; reflexivity).
      destruct (IH _ _ I1 W2 H) as (J & X & B & RL & PL & D & BD).
      cbn [with_pools l_files l_builds l_rules l_pools l_defaults l_builddir] in *.
      cbn [build_items rules_of pools_of default_items].
      repeat (split; try assumption).
Qed.

(* ------------------------------------------------------------------------------------ *)
(* L2, L3 as separate statements *)

Theorem one_build_per_statement filename sts l0 l :
  LInv l0 -> builds_wf sts -> run_stmts l0 filename sts = Ok l ->
  exists bs, l_builds l = l_builds l0 ++ bs /\ length bs = count_builds sts /\
             Forall2 (item_ok l filename) (build_items (l_rules l0) sts) bs.
Proof.
  intros I W H. destruct (run_stmts_spec filename sts l0 l I W H) as (_ & _ & (bs & B & FB) & _).
  exists bs. split; [exact B|]. split; [|exact FB].
  rewrite <- (Forall2_length_eq _ _ _ FB). apply build_items_length.
Qed.

Theorem pools_defaults filename sts l0 l :
  LInv l0 -> builds_wf sts -> run_stmts l0 filename sts = Ok l ->
  l_pools l = pools_of (l_pools l0) sts /\ l_rules l = rules_of (l_rules l0) sts /\
  exists ids, l_defaults l = l_defaults l0 ++ ids /\ Forall2 (default_ok l) (default_items sts) ids.
Proof.
  intros I W H. destruct (run_stmts_spec filename sts l0 l I W H) as (_ & _ & _ & RL & PL & (ids & D & FD & _) & _).
  split; [exact PL|]. split; [exact RL|]. exists ids. split; assumption.
Qed.

(* file ids keep their names from the loader the statements started from *)
Theorem names_stable filename sts l0 l j :
  LInv l0 -> builds_wf sts -> run_stmts l0 filename sts = Ok l ->
  j < length (l_files l0) -> file_nm l j = file_nm l0 j.
Proof.
  intros I W H L. destruct (run_stmts_spec filename sts l0 l I W H) as (_ & X & _).
  apply NamesExt_file_nm; assumption.
Qed.
