(* C06: a reported dependency cycle is a cycle of ordering edges, and a successful traversal
   leaves the wanted part of the graph free of ordering cycles. *)
From N2 Require Import Model.All Proofs.SchedSpec Proofs.SchedInv Proofs.SchedWantRel
     Proofs.SchedWantSteps Proofs.SchedWantInv.

(* ---------------------------------------------------------------------------------- *)
(* the message *)

Section Msg.
Variable g : graph.

Lemma ord_chain_tail a l : ord_chain g (a :: l) -> ord_chain g l.
Proof. destruct l as [|b r]; cbn [ord_chain]; [auto|]. now intros [_ H]. Qed.

Lemma ord_chain_skipn c : forall l, ord_chain g l -> ord_chain g (skipn c l).
Proof.
  induction c as [|c IH]; intros l H; [exact H|].
  destruct l as [|a r]; [exact H|]. cbn [skipn]. apply IH. eapply ord_chain_tail; eauto.
Qed.

Lemma ord_chain_snoc l a b :
  ord_chain g (l ++ [a]) -> ord_edge g a b -> ord_chain g ((l ++ [a]) ++ [b]).
Proof.
  intros H He. induction l as [|x l' IH].
  - cbn. auto.
  - destruct l' as [|y l''].
    + cbn in *. tauto.
    + cbn [app ord_chain] in *. destruct H as [Hxy H]. split; [exact Hxy|]. now apply IH.
Qed.

Definition is_cycle_msg (m : bytes) : Prop :=
  exists cyc x, m = cycle_message g cyc x /\ cyc <> [] /\ hd x cyc = x /\
                ord_chain g (cyc ++ [x]).

Lemma ord_loop_err wf : forall ins w ready m,
  ord_loop wf ins w ready = Err m -> exists w0 f, In f ins /\ wf w0 f = Err m.
Proof.
  induction ins as [|f rest IH]; intros w ready m H; cbn [ord_loop] in H; [discriminate|].
  apply bind_err in H as [H|[[w1 ok] [H1 H2]]].
  - exists w, f. split; [now left|exact H].
  - destruct (IH _ _ _ H2) as (w0 & f' & Hf & He). exists w0, f'. split; [now right|exact He].
Qed.

Lemma val_loop_err wf : forall ins w m,
  val_loop wf ins w = Err m -> exists w0 f, In f ins /\ wf w0 f = Err m.
Proof.
  induction ins as [|f rest IH]; intros w m H; cbn [val_loop] in H; [discriminate|].
  apply bind_err in H as [H|[r [H1 H2]]].
  - exists w, f. split; [now left|exact H].
  - destruct (IH _ _ H2) as (w0 & f' & Hf & He). exists w0, f'. split; [now right|exact He].
Qed.

Lemma want_err : forall fuel,
  (forall w stack id m, want_build fuel g w stack id = Err m ->
     ord_chain g stack -> (exists pre f0, stack = pre ++ [f0] /\ file_input g f0 = Some id) ->
     is_cycle_msg m) /\
  (forall w stack f m, want_file fuel g w stack f = Err m ->
     ord_chain g (stack ++ [f]) -> is_cycle_msg m).
Proof.
  induction fuel as [|fuel [IHb IHf]]; [split; intros; discriminate|].
  split.
  - intros w stack id m H Hc (pre & f0 & -> & Hf0). rewrite want_build_S in H. cbv zeta in H.
    destruct (bstate_eqb (get_state (fst w) id) Unknown); cbn [negb] in H; [|discriminate].
    apply bind_err in H as [H|[[w1 ready] [H1 H]]].
    + apply ord_loop_err in H as (w0 & f & Hf & He).
      eapply IHf; [exact He|]. apply ord_chain_snoc; [exact Hc|]. exists id. auto.
    + apply bind_err in H as [H|[s' [H2 H]]]; [exfalso; eapply bs_set_no_err; eauto|].
      apply bind_err in H as [H|[w2 [H3 H]]]; [|discriminate].
      apply val_loop_err in H as (w0 & f & Hf & He).
      eapply IHf; [exact He|]. cbn. exact I.
  - intros w stack f m H Hc. rewrite want_file_S in H.
    destruct (position f stack) as [c|] eqn:EP.
    + inversion H; subst m. destruct (position_some _ _ _ EP) as [tl Htl].
      exists (skipn c stack), f. split; [reflexivity|]. split; [rewrite Htl; discriminate|].
      split; [rewrite Htl; reflexivity|].
      assert (Hlen : c < length stack).
      { destruct (Nat.lt_ge_cases c (length stack)) as [Hlt|Hge]; [exact Hlt|].
        rewrite (skipn_all2 stack Hge) in Htl. discriminate. }
      replace (skipn c stack ++ [f]) with (skipn c (stack ++ [f])); [now apply ord_chain_skipn|].
      rewrite skipn_app. replace (c - length stack) with 0 by lia. reflexivity.
    + destruct (file_input g f) as [bid|] eqn:EF; [|discriminate].
      apply bind_err in H as [H|[[w1 st] [H1 H]]]; [|discriminate].
      eapply IHb; [exact H|exact Hc|]. exists stack, f. auto.
Qed.

End Msg.

Theorem C06_cycle_message_is_cycle g decls s l f m :
  graph_wf g -> BInv g decls s ->
  want_file (want_fuel g) g (s, l) [] f = Err m ->
  exists cyc x, m = cycle_message g cyc x /\ cyc <> [] /\ hd x cyc = x /\
                ord_chain g (cyc ++ [x]).
Proof.
  intros _ _ H. eapply (proj2 (want_err g (want_fuel g))); [exact H|]. cbn. exact I.
Qed.

(* ---------------------------------------------------------------------------------- *)
(* no ordering cycle among wanted steps *)

Section Acyclic.
Variable g : graph.
Hypothesis Hwf : graph_wf g.

Definition ordclosed (s : bstates) : Prop :=
  forall b p, known s b -> ordering_producer g b p -> known s p.

Definition ranked (rank : nat -> nat) (s : bstates) : Prop :=
  forall b p, get_state s b <> Unknown -> ordering_producer g b p -> rank p < rank b.

Lemma in_le_list_max l x : In x l -> x <= list_max l.
Proof.
  intro H. assert (HF : Forall (fun k => k <= list_max l) l) by (apply list_max_le; lia).
  rewrite Forall_forall in HF. now apply HF.
Qed.

Lemma good_set_acyclic s id st s' :
  good_set g s id st s' -> lenok g s -> ordclosed s -> acyclic_wanted g s ->
  ordclosed s' /\ acyclic_wanted g s'.
Proof.
  intros Hg Hl Hoc [rank Hr].
  pose proof (good_set_ext g _ _ _ _ Hg) as He.
  destruct Hg as (Hid & HU & Hst & Hset & _ & HK). specialize (HK Hl).
  assert (Hother : forall b, b <> id -> get_state s' b = get_state s b).
  { intros b Hb. eapply bs_set_get_other; eauto. }
  split.
  - intros b p Hb Hp. destruct (Nat.eq_dec b id) as [->|Hne].
    + eapply ext_known; eauto.
    + eapply ext_known; [exact He|]. unfold known in Hb. rewrite (Hother b Hne) in Hb. eapply Hoc; eauto.
  - set (B := S (list_max (map rank (seq 0 (length (g_builds g)))))).
    exists (fun x => if (x =? id)%nat then B else rank x).
    intros b p Hb Hp.
    assert (Hpid : forall q, known s q -> (q =? id)%nat = false).
    { intros q Hq. apply Nat.eqb_neq. intros ->. now apply Hq. }
    destruct (Nat.eqb_spec b id) as [->|Hne].
    + pose proof (HK p Hp) as Hkp. rewrite (Hpid p Hkp).
      assert (Hplt : p < length (g_builds g)).
      { destruct Hp as (f & _ & Hf). eapply (proj1 Hwf); eauto. }
      assert (rank p <= list_max (map rank (seq 0 (length (g_builds g))))).
      { apply in_le_list_max. apply in_map. apply in_seq. lia. }
      subst B. lia.
    + rewrite (Hother b Hne) in Hb.
      rewrite (Hpid p (Hoc b p Hb Hp)). now apply Hr.
Qed.

Lemma steps_acyclic s s' :
  steps g s s' -> lenok g s -> ordclosed s -> acyclic_wanted g s ->
  ordclosed s' /\ acyclic_wanted g s'.
Proof.
  induction 1 as [s|s id st s1 s2 Hg _ IH]; intros Hl Hoc Hac; [auto|].
  destruct (good_set_acyclic _ _ _ _ Hg Hl Hoc Hac) as [Hoc1 Hac1].
  apply IH; auto. apply (ext_lenok g _ _ (good_set_ext g _ _ _ _ Hg)). exact Hl.
Qed.

Lemma closed_ordclosed s : closed g s -> ordclosed s.
Proof.
  intros Hc b p Hb (f & Hf & Hp). apply (Hc b p Hb). exists f. split; [|exact Hp].
  now apply ordering_ins_incl.
Qed.

End Acyclic.

Theorem C06_ok_acyclic g decls s s' :
  graph_wf g -> BInv g decls s -> acyclic_wanted g s -> wanted g s s' -> acyclic_wanted g s'.
Proof.
  intros Hwf HB Hac Hw.
  apply (steps_acyclic g Hwf s s'); auto.
  - now apply wanted_steps.
  - apply (bi_len _ _ _ HB).
  - apply closed_ordclosed. now apply (BInv_closed g decls).
Qed.

(* a fresh Work is trivially acyclic *)
Lemma bs_new_acyclic g n decls : acyclic_wanted g (bs_new n decls).
Proof.
  exists (fun _ => 0). intros b p Hb _. exfalso. apply Hb.
  unfold get_state, bs_new. cbn [bs_states].
  destruct (Nat.lt_ge_cases b n) as [H|H].
  - apply nth_repeat.
  - apply nth_overflow. now rewrite repeat_length.
Qed.
