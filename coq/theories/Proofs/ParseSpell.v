(* Specification vocabulary for C10 (parser half): abstract eval strings / path lists / statements
   and the relations "text [t] is a spelling of ...".  Definitions only ([Example]s that the
   relations are inhabited are in ParseRoundEx.v), used by Props/C10.v.
   (Named ParseSpell, not ParseSpec: Proofs/ParseSpec.v is the C12 vocabulary.)

   The abstract objects are the model's own [evalstring] / [statement] types.  The parser does not
   merge the literal pieces it reads ("a$ b" is read as [Lit a; Lit " "; Lit b], "a$\n b" as
   [Lit a; Lit []; Lit b]), so results are compared up to [norm_eval]: the canonical form in which
   adjacent literals are merged and empty literals dropped.  [atoms] is the underlying sequence of
   literal bytes and variable references; [norm_eval es = norm_eval es' <-> atoms es = atoms es']
   and [evaluate] only depends on [atoms] (ParseRound1.v). *)
From Coq Require Import String.
From N2 Require Import Model.All.

(* ------------------------------------------------------------------------------------ *)
(* eval strings up to literal merging *)

Inductive eatom := AByte (c : N) | AVar (v : bytes).

Definition part_atoms (p : epart) : list eatom :=
  match p with Lit l => map AByte l | Var v => [AVar v] end.
Definition atoms (es : evalstring) : list eatom := flat_map part_atoms es.

Fixpoint of_atoms (l : list eatom) : evalstring :=
  match l with
  | [] => []
  | AVar v :: r => Var v :: of_atoms r
  | AByte c :: r => match of_atoms r with
                    | Lit s :: r' => Lit (c :: s) :: r'
                    | r' => Lit [c] :: r'
                    end
  end.

Definition norm_eval (es : evalstring) : evalstring := of_atoms (atoms es).

Definition atom_eval (envs : list env) (a : eatom) : bytes :=
  match a with AByte c => [c] | AVar v => eval_var envs v end.

(* number of newlines, for line numbers *)
Fixpoint nlz (l : bytes) : Z :=
  match l with
  | [] => 0%Z
  | c :: r => ((if (c =? 10)%N then 1 else 0) + nlz r)%Z
  end.

(* white space inside a statement (Parser::skip_spaces): spaces and "$\n" line continuations *)
Inductive ws : bytes -> Prop :=
| ws_nil : ws []
| ws_sp w : ws w -> ws (32%N :: w)
| ws_cont w : ws w -> ws (36%N :: 10%N :: w).

(* ------------------------------------------------------------------------------------ *)
(* Stage 1: spelling of one eval string.  [path = true]: a path on a build/default line (stops at
   ' ', ':', '|', newline); [path = false]: a value (stops at newline). *)

(* a byte that stands for itself: anything but NUL, newline, '$' (and CR, to stay away from the
   CR-LF quirk of Scanner::back); in a path also not ' ', ':', '|' *)
Definition plain_char (path : bool) (c : N) : bool :=
  negb ((c =? 0) || (c =? 10) || (c =? 13) || (c =? 36)
        || (path && ((c =? 32) || (c =? 58) || (c =? 124))))%N.

(* inside ${...}: anything but NUL, '}' (and CR) *)
Definition brace_char (c : N) : bool := negb ((c =? 0) || (c =? 13) || (c =? 125))%N.

Inductive spells_eval_raw (path : bool) : evalstring -> bytes -> Prop :=
| se_nil : spells_eval_raw path [] []
| se_lit l es t :                       (* a run of plain bytes *)
    l <> [] -> forallb (plain_char path) l = true -> spells_eval_raw path es t ->
    spells_eval_raw path (Lit l :: es) (l ++ t)
| se_esc c es t :                       (* "$ "  "$$"  "$:" *)
    (c = 32 \/ c = 36 \/ c = 58)%N -> spells_eval_raw path es t ->
    spells_eval_raw path (Lit [c] :: es) (36%N :: c :: t)
| se_cont n es t :                      (* "$\n" and ALL the spaces that follow stand for nothing;
                                           in a path a continuation is not the last thing *)
    spells_eval_raw path es t ->
    match t with [] => path = false | c :: _ => c <> 32%N end ->
    spells_eval_raw path es (36%N :: 10%N :: repeat 32%N n ++ t)
| se_var v es t :                       (* "$name": the name extends as far as it can *)
    v <> [] -> forallb is_simple_var_char v = true -> spells_eval_raw path es t ->
    match t with [] => True | c :: _ => is_simple_var_char c = false end ->
    spells_eval_raw path (Var v :: es) (36%N :: v ++ t)
| se_bvar v es t :                      (* "${name}" *)
    v <> [] -> forallb brace_char v = true -> spells_eval_raw path es t ->
    spells_eval_raw path (Var v :: es) (36%N :: 123%N :: v ++ 125%N :: t).

(* [t] spells [es]: it spells some splitting of [es] into pieces *)
Definition spells_eval (path : bool) (es : evalstring) (t : bytes) : Prop :=
  exists es0, spells_eval_raw path es0 t /\ atoms es0 = atoms es.

(* where an eval string may stop *)
Definition eval_stop (path : bool) (rest : bytes) : Prop :=
  exists c r, rest = c :: r /\ (c = 10%N \/ (path = true /\ (c = 32 \/ c = 58 \/ c = 124)%N)).

(* ------------------------------------------------------------------------------------ *)
(* Stage 2: path lists and the build line *)

Definition not_cont_head (t : bytes) : Prop := forall r, t <> 36%N :: 10%N :: r.

(* the text of one path: non-empty, and not beginning with a continuation (that would belong to the
   white space in front of it) *)
Definition path_text (e : evalstring) (t : bytes) : Prop :=
  spells_eval true e t /\ t <> [] /\ not_cont_head t.

(* white space behind a path: nothing, or white space that begins with a space
   ("a$\n b" is ONE path "ab", in Ninja as in n2) *)
Definition path_sep (w : bytes) : Prop := ws w /\ (w = [] \/ exists w', w = 32%N :: w').

(* paths, each followed by white space; only the last one may be followed by nothing *)
Inductive spells_paths : list evalstring -> bytes -> Prop :=
| sp_nil : spells_paths [] []
| sp_cons e es t w r :
    path_text e t -> path_sep w -> (es <> [] -> w <> []) -> spells_paths es r ->
    spells_paths (e :: es) (t ++ w ++ r).

(* white space, then paths *)
Definition spells_wpaths (es : list evalstring) (t : bytes) : Prop :=
  exists w p, t = w ++ p /\ ws w /\ spells_paths es p.

(* where a path list stops *)
Definition paths_stop (X : bytes) : Prop :=
  exists c r, X = c :: r /\ (c = 58 \/ c = 124 \/ c = 10)%N.

Definition ident (n : bytes) : Prop := n <> [] /\ forallb is_ident_char n = true.
Definition not_ident_head (t : bytes) : Prop :=
  match t with [] => True | c :: _ => is_ident_char c = false end.

(* the optional sections of a build line, from the right; an absent section and an empty one
   declare the same thing *)
Inductive spells_vtail : list evalstring -> bytes -> Prop :=          (* [ "|@" paths ] "\n" *)
| vt_none : spells_vtail [] [10%N]
| vt_some v B : spells_wpaths v B -> spells_vtail v (124%N :: 64%N :: B ++ [10%N]).

Inductive spells_otail : list evalstring -> list evalstring -> bytes -> Prop :=   (* [ "||" paths ] ... *)
| ot_none v T : spells_vtail v T -> spells_otail [] v T
| ot_some o v B T : spells_wpaths o B -> spells_vtail v T -> spells_otail o v (124%N :: 124%N :: B ++ T).

Inductive spells_itail : list evalstring -> list evalstring -> list evalstring -> bytes -> Prop :=
| it_none o v T : spells_otail o v T -> spells_itail [] o v T         (* [ "|" paths ] ... *)
| it_some i o v B T :
    spells_wpaths i B -> spells_otail o v T ->
    (forall r, B ++ T <> 124%N :: r) -> (forall r, B ++ T <> 64%N :: r) ->   (* not "||", not "|@" *)
    spells_itail i o v (124%N :: B ++ T).

Inductive spells_iouts : list evalstring -> bytes -> Prop :=          (* [ "|" implicit outputs ] *)
| io_none : spells_iouts [] []
| io_some o B : spells_wpaths o B -> spells_iouts o (124%N :: B).

Record build_decl := mkDecl {
  d_outs : list evalstring; d_iouts : list evalstring; d_rule : bytes;
  d_ins : list evalstring; d_iins : list evalstring; d_oins : list evalstring; d_vins : list evalstring }.

(* the build line behind "build" and its white space, up to and including the newline:
   outs [| iouts] : rule ins [| iins] [|| oins] [|@ vins] \n *)
Definition spells_build_line (d : build_decl) (t : bytes) : Prop :=
  exists P IO w I1 T,
    t = P ++ IO ++ [58%N] ++ w ++ d_rule d ++ I1 ++ T /\
    spells_paths (d_outs d) P /\ spells_iouts (d_iouts d) IO /\ ws w /\ ident (d_rule d) /\
    spells_wpaths (d_ins d) I1 /\ spells_itail (d_iins d) (d_oins d) (d_vins d) T /\
    not_ident_head (I1 ++ T).

Definition decl_build (d : build_decl) (line : Z) (vs : varlist) : pbuild :=
  mkPBuild (d_rule d) line (d_outs d ++ d_iouts d) (length (d_outs d))
           (d_ins d ++ d_iins d ++ d_oins d ++ d_vins d)
           (length (d_ins d)) (length (d_iins d)) (length (d_oins d)) (length (d_vins d)) vs.

(* ------------------------------------------------------------------------------------ *)
(* Stage 3: blocks and statements *)

(* the text of a value: does not begin with white space (that belongs to the white space behind
   '='); may be empty *)
Definition value_text (e : evalstring) (v : bytes) : Prop :=
  spells_eval false e v /\ not_cont_head v /\ (forall r, v <> 32%N :: r).

(* indented bindings: 1+ spaces, key, '=' with optional white space around it, value, newline.
   No comment or blank lines inside (n2 ends the block there). *)
Inductive spells_block (valid : bytes -> bool) : list (bytes * evalstring) -> bytes -> Prop :=
| sb_nil : spells_block valid [] []
| sb_cons n k w1 w2 e v bl t :
    ident k -> valid k = true -> ws w1 -> ws w2 -> value_text e v -> spells_block valid bl t ->
    spells_block valid ((k, e) :: bl)
                 (repeat 32%N (S n) ++ k ++ w1 ++ [61%N] ++ w2 ++ v ++ [10%N] ++ t).

(* the bindings as the parser stores them: a later binding of a key replaces the earlier one *)
Definition block_vars (bl : list (bytes * evalstring)) : varlist :=
  fold_left (fun a kv => insert_b (fst kv) (snd kv) a) bl [].

Definition is_keyword (n : bytes) : bool :=
  existsb (bytes_eqb n) [bs "rule"; bs "build"; bs "default"; bs "include"; bs "subninja"; bs "pool"].

Definition depth_key (n : bytes) : bool := bytes_eqb n (bs "depth").

(* a statement, from its keyword to the end of its last line; [ln] = the line it starts on.
   include/subninja: the spelling ends BEFORE the newline (the parser leaves it unread; it is then
   skipped as a blank line). *)
Inductive spells_stmt (ln : Z) : statement -> bytes -> Prop :=
| ss_rule w name bl t :
    ws w -> w <> [] -> ident name -> spells_block rule_var_ok bl t ->
    spells_stmt ln (SRule name (block_vars bl)) (bs "rule" ++ w ++ name ++ [10%N] ++ t)
| ss_pool0 w name :
    ws w -> w <> [] -> ident name ->
    spells_stmt ln (SPool name 0) (bs "pool" ++ w ++ name ++ [10%N])
| ss_pool w name e d t :
    ws w -> w <> [] -> ident name -> spells_block depth_key [(bs "depth", e)] t ->
    parse_usize (evaluate [] e) = inl d ->
    spells_stmt ln (SPool name d) (bs "pool" ++ w ++ name ++ [10%N] ++ t)
| ss_default w ps P :
    ws w -> ps <> [] -> spells_paths ps P -> not_ident_head (w ++ P) ->
    spells_stmt ln (SDefault ps) (bs "default" ++ w ++ P ++ [10%N])
| ss_include w e v :
    ws w -> value_text e v -> v <> [] -> not_ident_head (w ++ v) ->
    spells_stmt ln (SInclude e) (bs "include" ++ w ++ v)
| ss_subninja w e v :
    ws w -> value_text e v -> v <> [] -> not_ident_head (w ++ v) ->
    spells_stmt ln (SSubninja e) (bs "subninja" ++ w ++ v)
| ss_build w d L bl t :
    ws w -> spells_build_line d L -> not_ident_head (w ++ L) -> spells_block (fun _ => true) bl t ->
    spells_stmt ln (SBuild (decl_build d (ln + nlz w) (block_vars bl))) (bs "build" ++ w ++ L ++ t).

(* what must follow a statement: a newline behind include/subninja; otherwise anything that is
   not a space (a space would continue the block) *)
Definition follow_ok (st : statement) (X : bytes) : Prop :=
  exists c r, X = c :: r /\
    match st with
    | SInclude _ | SSubninja _ => c = 10%N
    | _ => c <> 32%N
    end.

Definition comment_char (c : N) : bool := negb ((c =? 0) || (c =? 10) || (c =? 13))%N.

(* what may stand in front of a statement: blank lines, comment lines, and file-level bindings,
   which update the file-level variables from [vs] to [vs'] *)
Inductive spells_pre : vars -> vars -> bytes -> Prop :=
| pr_nil vs : spells_pre vs vs []
| pr_blank vs vs' t : spells_pre vs vs' t -> spells_pre vs vs' (10%N :: t)
| pr_comment c vs vs' t :
    forallb comment_char c = true -> spells_pre vs vs' t -> spells_pre vs vs' (35%N :: c ++ 10%N :: t)
| pr_bind k w1 w2 e v vs vs' t :
    ident k -> is_keyword k = false -> ws w1 -> ws w2 -> value_text e v ->
    spells_pre (bind_step vs k e) vs' t ->
    spells_pre vs vs' (k ++ w1 ++ [61%N] ++ w2 ++ v ++ [10%N] ++ t).

(* statements up to eval-string normalisation *)
Definition norm_vars (l : varlist) : varlist := map (fun kv => (fst kv, norm_eval (snd kv))) l.
Definition norm_build (b : pbuild) : pbuild :=
  mkPBuild (pb_rule b) (pb_line b) (map norm_eval (pb_outs b)) (pb_explicit_outs b)
           (map norm_eval (pb_ins b)) (pb_explicit_ins b) (pb_implicit_ins b) (pb_order_only_ins b)
           (pb_validation_ins b) (norm_vars (pb_vars b)).
Definition norm_stmt (st : statement) : statement :=
  match st with
  | SRule n vs => SRule n (norm_vars vs)
  | SBuild b => SBuild (norm_build b)
  | SDefault ps => SDefault (map norm_eval ps)
  | SInclude p => SInclude (norm_eval p)
  | SSubninja p => SSubninja (norm_eval p)
  | SPool n d => SPool n d
  end.

(* ------------------------------------------------------------------------------------ *)
(* a whole file: statements [sts], each behind its filler; file-level variables go from [vs] to
   [vs'].  [ln] = the line the text starts on. *)
Inductive spells_file : Z -> vars -> list statement -> vars -> bytes -> Prop :=
| sf_end ln vs vs' F : spells_pre vs vs' F -> spells_file ln vs [] vs' F
| sf_stmt ln vs vs1 vs' F st txt sts rest :
    spells_pre vs vs1 F -> spells_stmt (ln + nlz F) st txt -> follow_ok st (rest ++ [0%N]) ->
    spells_file (ln + nlz (F ++ txt)) vs1 sts vs' rest ->
    spells_file ln vs (st :: sts) vs' (F ++ txt ++ rest).

(* Parser::read called until it returns None (at most [n] times), as the loader does *)
Fixpoint read_all (n : nat) (fuel : nat) (s : scanner) (vs : vars) : sres (list statement * vars) :=
  match n with
  | O => SFuel
  | S n =>
    sdo (r, s) <- parser_read true fuel s vs;
    match r with
    | (None, vs) => SOk ([], vs) s
    | (Some st, vs) => sdo (r2, s) <- read_all n fuel s vs; SOk (st :: fst r2, snd r2) s
    end
  end.
