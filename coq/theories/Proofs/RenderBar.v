(* Proofs about Model/Render.v: progress_bar has exactly the requested width. *)
From Coq Require Import List NArith Arith Lia Bool.
From N2 Require Import Base.Base Model.Scanner Model.Render.
Import ListNotations.

Lemma repeat_byte_length c n : length (repeat_byte c n) = n.
Proof.
  induction n as [|n IH]; cbn [repeat_byte length]; [reflexivity | now rewrite IH].
Qed.

Lemma bar_step_inv bsz total (bar : list N) sum count ch :
  (0 < total)%N -> (sum + count <= total)%N -> (N.of_nat (length bar) <= bsz)%N ->
  exists bar' : list N,
    bar_step bsz total (bar, sum) (count, ch) = (bar', (sum + count)%N) /\
    (N.of_nat (length bar') <= bsz)%N /\
    ((sum + count = total)%N -> N.of_nat (length bar') = bsz).
Proof.
  intros Ht Hs Hl. unfold bar_step. cbv beta iota zeta.
  set (target0 := ((sum + count) * bsz / total)%N).
  set (len := N.of_nat (length bar)) in *.
  set (target := if ((0 <? count) && (target0 =? len) && (target0 <? bsz))%N
                 then (target0 + 1)%N else target0).
  eexists. split; [reflexivity|].
  rewrite app_length, repeat_byte_length, Nat2N.inj_add, N2Nat.id. fold len.
  assert (H0 : (target0 <= bsz)%N).
  { subst target0. apply N.div_le_upper_bound; [lia|].
    apply N.mul_le_mono_r. exact Hs. }
  assert (H1 : (target <= bsz)%N).
  { subst target.
    destruct ((0 <? count) && (target0 =? len) && (target0 <? bsz))%N eqn:E; [|exact H0].
    apply andb_true_iff in E as [_ E]. apply N.ltb_lt in E. lia. }
  split; [lia|].
  intros Heq.
  assert (H2 : target = bsz).
  { subst target target0. rewrite Heq, (N.mul_comm total bsz), N.div_mul by lia.
    rewrite N.ltb_irrefl, andb_false_r. reflexivity. }
  lia.
Qed.

Lemma progress_bar_width c n : length (progress_bar c n) = N.to_nat n.
Proof.
  unfold progress_bar. destruct (counts_total c =? 0)%N eqn:E.
  - apply repeat_byte_length.
  - apply N.eqb_neq in E. cbn [fold_left].
    remember (counts_total c) as total eqn:Htot.
    unfold counts_total in Htot.
    destruct (bar_step_inv n total [] 0%N (c_done c + c_failed c)%N 61%N)
      as (b1 & E1 & L1 & _); [lia | lia | cbn [length]; lia |].
    unfold bytes in *. rewrite E1.
    destruct (bar_step_inv n total b1 (0 + (c_done c + c_failed c))%N
                           (c_queued c + c_running c + c_ready c)%N 45%N)
      as (b2 & E2 & L2 & _); [lia | lia | exact L1 |].
    unfold bytes in *. rewrite E2.
    destruct (bar_step_inv n total b2
                (0 + (c_done c + c_failed c) + (c_queued c + c_running c + c_ready c))%N
                (c_want c) 32%N)
      as (b3 & E3 & _ & F3); [lia | lia | exact L2 |].
    unfold bytes in *. rewrite E3. cbn [fst]. rewrite <- F3 by lia. rewrite Nat2N.id. reflexivity.
Qed.
