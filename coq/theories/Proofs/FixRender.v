(* Repairs of audit findings M8 and M9 (Props/C20Shape.v): truncate is the LONGEST admissible
   prefix (and that determines it), and what task_message prints in each of its three regimes,
   including the format of the elapsed-time note. *)
From Coq Require Import String.
From Coq Require Import List NArith Arith Lia Bool.
From N2 Require Import Base.Base Model.Scanner Model.Render Proofs.RenderTrunc Proofs.RenderMsg.
From N2 Require Import Proofs.AuditFindingsMisc.
Import ListNotations.

(* ------------------------------------------------------------------------------------ *)
(* M8 *)

Lemma icb_beyond s j : (length s < j)%nat -> is_char_boundary s j = false.
Proof.
  intro H. unfold is_char_boundary.
  destruct (Nat.eqb_spec j 0) as [E|_]; [lia|].
  destruct (Nat.eqb_spec j (length s)) as [E|_]; [lia|].
  assert (N : nth_error s j = None) by (apply nth_error_None; lia). now rewrite N.
Qed.

Theorem truncate_maximal s max :
  (length (truncate s max) <= max)%nat /\ (exists t, s = truncate s max ++ t) /\
  is_char_boundary s (length (truncate s max)) = true /\
  forall j, (length (truncate s max) < j <= max)%nat -> is_char_boundary s j = false.
Proof.
  destruct (truncate_safe s max) as (A & B & C). split; [exact A|]. split; [exact B|]. split; [exact C|].
  intros j Hj. destruct (Nat.le_gt_cases (length s) max) as [L|L].
  - rewrite truncate_fits in Hj by exact L. apply icb_beyond. lia.
  - now apply (M8_truncate_maximal s max j).
Qed.

Lemma prefix_firstn {A} (r s t : list A) : s = r ++ t -> r = firstn (length r) s.
Proof. intros ->. rewrite firstn_app, Nat.sub_diag, firstn_all. cbn [firstn]. now rewrite app_nil_r. Qed.

(* the four conjuncts determine the result: any cut with these properties is truncate's *)
Theorem truncate_unique s max r :
  (length r <= max)%nat -> (exists t, s = r ++ t) -> is_char_boundary s (length r) = true ->
  (forall j, (length r < j <= max)%nat -> is_char_boundary s j = false) -> r = truncate s max.
Proof.
  intros A (t & B) C D. destruct (truncate_maximal s max) as (A' & (t' & B') & C' & D').
  assert (E : length r = length (truncate s max)).
  { destruct (Nat.lt_trichotomy (length r) (length (truncate s max))) as [L|[L|L]]; [|exact L|].
    - rewrite D in C' by lia. discriminate C'.
    - rewrite D' in C by lia. discriminate C. }
  rewrite (prefix_firstn r s t B), (prefix_firstn (truncate s max) s t' B'), E. reflexivity.
Qed.

(* the degenerate implementation of the audit does not have the fourth conjunct *)
Lemma truncate_bad_not_maximal :
  ~ (forall s max j, (length (truncate_bad s max) < j <= max)%nat -> is_char_boundary s j = false).
Proof. intro H. specialize (H (bs "hello") 3 3). cbn in H. discriminate H. lia. Qed.

(* ------------------------------------------------------------------------------------ *)
(* M9: the time note *)

Definition is_digit (c : N) : bool := ((48 <=? c) && (c <=? 57))%N.
Definition dec_value (l : bytes) : N := fold_left (fun a c => (10 * a + (c - 48))%N) l 0%N.

Lemma dec_value_snoc l c : dec_value (l ++ [c]) = (10 * dec_value l + (c - 48))%N.
Proof. unfold dec_value. rewrite fold_left_app. reflexivity. Qed.

Lemma dec_digits_spec : forall fuel n acc, (n < 10 ^ N.of_nat fuel)%N -> (0 < fuel)%nat ->
  exists d, dec_digits fuel n acc = d ++ acc /\ d <> [] /\ forallb is_digit d = true /\ dec_value d = n /\
            (hd 0%N d = 48%N -> n = 0%N).
Proof.
  induction fuel as [|fuel IH]; intros n acc Hn Hf; [lia|].
  cbn [dec_digits].
  assert (Hm : (n mod 10 < 10)%N) by (apply N.mod_lt; discriminate).
  assert (DM : (n = 10 * (n / 10) + n mod 10)%N) by (apply N.div_mod; discriminate).
  replace (N.of_nat (S fuel)) with (N.succ (N.of_nat fuel)) in Hn by lia.
  rewrite N.pow_succ_r' in Hn.
  remember (n mod 10)%N as r eqn:Er. remember (n / 10)%N as q eqn:Eq.
  remember (10 ^ N.of_nat fuel)%N as P eqn:EP.
  destruct (N.ltb_spec n 10) as [L|L].
  - exists [(48 + r)%N].
    split; [reflexivity|]. split; [discriminate|]. split.
    + cbn [forallb]. unfold is_digit. rewrite andb_true_r. apply andb_true_iff. split; apply N.leb_le; lia.
    + split; [unfold dec_value; cbn [fold_left]; lia | cbn [hd]; lia].
  - assert (Hf' : (0 < fuel)%nat).
    { destruct fuel; [|lia]. cbn in EP. lia. }
    assert (Hn' : (q < P)%N) by lia.
    destruct (IH q ((48 + r)%N :: acc) Hn' Hf') as (d & E & Hne & Hd & Hv & Hh).
    exists (d ++ [(48 + r)%N]). rewrite E, <- app_assoc. split; [reflexivity|].
    split; [destruct d; discriminate|]. split; [|split].
    + rewrite forallb_app, Hd. cbn [forallb andb]. unfold is_digit. rewrite andb_true_r.
      apply andb_true_iff. split; apply N.leb_le; lia.
    + rewrite dec_value_snoc, Hv. lia.
    + destruct d as [|c d]; [exfalso; now apply Hne|]. cbn [app hd] in *. intro H48.
      specialize (Hh H48). lia.
Qed.

Lemma dec_of_N_spec n :
  exists d, dec_of_N n = d /\ d <> [] /\ forallb is_digit d = true /\ dec_value d = n /\
            (hd 0%N d = 48%N -> n = 0%N).
Proof.
  unfold dec_of_N.
  destruct (dec_digits_spec (S (N.to_nat (N.log2 n))) n []) as (d & E & R); [|lia|].
  - replace (N.of_nat (S (N.to_nat (N.log2 n)))) with (N.succ (N.log2 n)) by lia.
    destruct n as [|p]; [reflexivity|].
    apply N.lt_le_trans with (2 ^ N.succ (N.log2 (N.pos p)))%N.
    + apply N.log2_spec. reflexivity.
    + apply N.pow_le_mono_l. lia.
  - exists d. rewrite E, app_nil_r. split; [reflexivity | exact R].
Qed.

(* no note up to two seconds; after that " (" decimal-seconds "s)", the number written in
   decimal digits, without a leading zero, and it is the number of seconds *)
Theorem time_note_shape secs :
  ((secs <= 2)%N -> time_note secs = []) /\
  ((2 < secs)%N -> exists d, time_note secs = bs " (" ++ d ++ bs "s)" /\ d <> [] /\
                             forallb is_digit d = true /\ dec_value d = secs /\ hd 0%N d <> 48%N).
Proof.
  unfold time_note. split; intro H.
  - destruct (N.ltb_spec 2 secs); [lia | reflexivity].
  - destruct (N.ltb_spec 2 secs); [|lia].
    destruct (dec_of_N_spec secs) as (d & E & Hne & Hd & Hv & Hh). exists d. rewrite E.
    split; [reflexivity|]. split; [exact Hne|]. split; [exact Hd|]. split; [exact Hv|].
    intro H48. specialize (Hh H48). lia.
Qed.

(* ------------------------------------------------------------------------------------ *)
(* M9: the three regimes of task_message *)

Lemma icb_ascii s j : ascii_only s = true -> (j <= length s)%nat -> is_char_boundary s j = true.
Proof.
  intros Ha Hj. unfold is_char_boundary.
  destruct (j =? 0)%nat; [reflexivity|]. destruct (j =? length s)%nat eqn:E; [reflexivity|].
  apply Nat.eqb_neq in E. destruct (nth_error s j) as [c|] eqn:Ec.
  - apply nth_error_In in Ec. unfold ascii_only in Ha. rewrite forallb_forall in Ha. specialize (Ha c Ec).
    apply N.ltb_lt in Ha. destruct (N.leb_spec 128 c); [lia | reflexivity].
  - apply nth_error_None in Ec. lia.
Qed.

Lemma truncate_ascii s max : ascii_only s = true -> truncate s max = firstn max s.
Proof.
  intro Ha. unfold truncate. destruct (Nat.leb_spec (length s) max) as [L|L].
  - now rewrite firstn_all2.
  - assert (E : trunc_boundary s max = max).
    { destruct max as [|m]; cbn [trunc_boundary]; rewrite icb_ascii by (assumption || lia); reflexivity. }
    now rewrite E.
Qed.

Lemma truncate_zero s : truncate s 0 = [].
Proof.
  unfold truncate. destruct (Nat.leb_spec (length s) 0) as [L|L].
  - destruct s; [reflexivity | cbn in L; lia].
  - cbn [trunc_boundary]. now destruct (is_char_boundary s 0).
Qed.

Theorem task_message_shape m secs cols :
  ((length m + length (time_note secs) < cols)%nat ->
     task_message m secs cols = Ok (m ++ time_note secs)) /\
  ((length (time_note secs) + 3 <= cols <= length m + length (time_note secs))%nat ->
     task_message m secs cols =
       Ok (truncate m (cols - (length (time_note secs) + 3)) ++ bs "..." ++ time_note secs)) /\
  ((cols <= length m + length (time_note secs))%nat -> (cols < length (time_note secs) + 3)%nat ->
     task_message m secs cols = Ok (firstn cols (bs "..." ++ time_note secs))).
Proof.
  split; [apply task_message_fits|]. split; [intros [H1 H2]; now apply M9_task_message_shape|].
  intros H1 H2. unfold task_message. cbv zeta.
  assert (E : (cols <=? length m + length (time_note secs))%nat = true) by (apply Nat.leb_le; exact H1).
  rewrite E. replace (cols - (length (time_note secs) + 3))%nat with 0%nat by lia.
  rewrite truncate_zero. cbn [app]. rewrite truncate_ascii; [reflexivity|].
  change (bs "." ++ bs "." ++ bs "." ++ time_note secs)%list with (bs "..." ++ time_note secs).
  rewrite ascii_only_app, time_note_ascii. reflexivity.
Qed.

(* the degenerate implementation of the audit does not have the second regime *)
Lemma task_message_bad_not_shaped :
  task_message_bad (bs "cc -c foo.c") 100%N 12 = Ok [] /\
  task_message (bs "cc -c foo.c") 100%N 12 = Ok (bs "cc... (100s)").
Proof. split; vm_compute; reflexivity. Qed.
