(* C10, loader half, manifests WITH include/subninja, the flat view: a manifest whose include
   lines all name readable files ([flat_file] = Some items) loads exactly like the flat sequence
   of its items ([run_flat]); a manifest that loads has such a sequence; what [run_flat] leaves
   in the loader ([FlatSpec]): one step per `build` item, in order, each as declared. *)
From Coq Require Import String.
From N2 Require Import Model.All Proofs.EvalScope Proofs.GraphDedup Proofs.GraphAddBuild Proofs.GraphLoad.
From N2 Require Import Proofs.LoadGraphSpec Proofs.LoadGraphBuild Proofs.LoadGraphRun Proofs.LoadGraphFile
     Proofs.LoadGraphNames Proofs.LoadGraphView.
From N2 Require Import Proofs.LoadInclSpec Proofs.LoadInclRun.

(* ------------------------------------------------------------------------------------ *)
(* equations *)

Lemma run_flat_app a : forall b l, run_flat l (a ++ b) = do l1 <- run_flat l a; run_flat l1 b.
Proof.
  induction a as [|it r IH]; intros b l; [reflexivity|].
  cbn [app run_flat]. rewrite bind_assoc. destruct (fitem_step l it); try reflexivity. cbn [bind]. apply IH.
Qed.

Lemma flat_file_unfold depth fs reading filename text inherited :
  flat_file (S depth) fs reading filename text inherited =
  match snd (file_stmts text inherited) with
  | SOk (None, vs') _ =>
    match flat_stmts depth fs reading filename (fst (file_stmts text inherited)) with
    | Some items => Some (items ++ [FEnd vs'])
    | None => None
    end
  | _ => None
  end.
Proof. reflexivity. Qed.

Lemma flat_file_some depth fs reading filename text inherited items :
  flat_file (S depth) fs reading filename text inherited = Some items ->
  exists vs' s' its,
    snd (file_stmts text inherited) = SOk (None, vs') s' /\
    flat_stmts depth fs reading filename (fst (file_stmts text inherited)) = Some its /\
    items = its ++ [FEnd vs'].
Proof.
  rewrite flat_file_unfold. intro H.
  destruct (snd (file_stmts text inherited)) as [[[st|] vs'] s'|m o|x|x|]; try discriminate.
  destruct (flat_stmts depth fs reading filename (fst (file_stmts text inherited))) as [its|]; [|discriminate].
  inversion H; subst. exists vs', s', its. repeat split.
Qed.

Definition is_child_line (st : statement) (p : evalstring) : Prop := st = SInclude p \/ st = SSubninja p.

(* a statement that is not an include line is one item *)
Lemma flat_stmts_rec_plain rec fs reading filename st vs r :
  is_include st = false ->
  flat_stmts_rec rec fs reading filename ((st, vs) :: r) =
  match flat_stmts_rec rec fs reading filename r with
  | Some tl => Some (FStmt filename st vs :: tl)
  | None => None
  end.
Proof. intro N. destruct st; try reflexivity; discriminate N. Qed.

(* an include line is one item followed by the items of the child file *)
Lemma flat_stmts_rec_child rec fs reading filename st p vs r items :
  is_child_line st p ->
  flat_stmts_rec rec fs reading filename ((st, vs) :: r) = Some items <->
  exists path content child tl,
    include_path p vs = Ok path /\ existsb (bytes_eqb path) reading = false /\
    assoc_b path fs = Some content /\
    rec (reading ++ [path]) path content vs = Some child /\
    flat_stmts_rec rec fs reading filename r = Some tl /\
    items = FStmt filename st vs :: child ++ tl.
Proof.
  intros [->| ->]; cbn [flat_stmts_rec]; (split;
  [ intro H; destruct (include_path p vs) as [path|m|x|x|] eqn:P; try discriminate;
    destruct (existsb (bytes_eqb path) reading) eqn:X; [discriminate|];
    destruct (assoc_b path fs) as [content|] eqn:A; [|discriminate];
    destruct (rec (reading ++ [path]) path content vs) as [child|] eqn:C; [|discriminate];
    destruct (flat_stmts_rec rec fs reading filename r) as [tl|] eqn:T; [|discriminate];
    inversion H; subst; exists path, content, child, tl; repeat split; assumption
  | intros (path & content & child & tl & P & X & A & C & T & ->); rewrite P, X, A, C, T; reflexivity ]).
Qed.

Lemma flat_stmts_rec_app rec fs reading filename a : forall b,
  flat_stmts_rec rec fs reading filename (a ++ b) =
  match flat_stmts_rec rec fs reading filename a, flat_stmts_rec rec fs reading filename b with
  | Some fa, Some fb => Some (fa ++ fb)
  | _, _ => None
  end.
Proof.
  induction a as [|[st vs] r IH]; intro b.
  - cbn [app flat_stmts_rec]. destruct (flat_stmts_rec rec fs reading filename b); reflexivity.
  - cbn [app].
    assert (PLAIN : is_include st = false ->
      flat_stmts_rec rec fs reading filename ((st, vs) :: r ++ b) =
      match flat_stmts_rec rec fs reading filename ((st, vs) :: r), flat_stmts_rec rec fs reading filename b with
      | Some fa, Some fb => Some (fa ++ fb)
      | _, _ => None
      end).
    { intro N. rewrite !flat_stmts_rec_plain by exact N. rewrite IH.
      destruct (flat_stmts_rec rec fs reading filename r) as [fa|]; [|reflexivity].
      destruct (flat_stmts_rec rec fs reading filename b) as [fb|]; reflexivity. }
    destruct st as [name rv|pb|ds|p|p|name d]; try (apply PLAIN; reflexivity);
      cbn [flat_stmts_rec]; rewrite IH;
      destruct (include_path p vs) as [path|m|x|x|]; try reflexivity;
      destruct (existsb (bytes_eqb path) reading); try reflexivity;
      destruct (assoc_b path fs) as [content|]; try reflexivity;
      destruct (rec (reading ++ [path]) path content vs) as [child|]; try reflexivity;
      destruct (flat_stmts_rec rec fs reading filename r) as [fa|]; try reflexivity;
      destruct (flat_stmts_rec rec fs reading filename b) as [fb|]; try reflexivity;
      cbn [app]; rewrite <- app_assoc; reflexivity.
Qed.

(* ------------------------------------------------------------------------------------ *)
(* a manifest with a flat sequence loads like the sequence: every outcome alike *)

Lemma flat_stmts_rec_run frec rrec fs reading filename :
  (forall rd path content vs items, frec rd path content vs = Some items ->
     forall l, rrec rd l path content vs = run_flat l items) ->
  forall sts items, flat_stmts_rec frec fs reading filename sts = Some items ->
  forall l, run_stmts_rec rrec fs reading l filename sts = run_flat l items.
Proof.
  intro REC. induction sts as [|[st vs] r IH]; intros items H l.
  - cbn [flat_stmts_rec] in H. inversion H; subst. reflexivity.
  - assert (PLAIN : is_include st = false ->
              run_stmts_rec rrec fs reading l filename ((st, vs) :: r) = run_flat l items).
    { intro N. rewrite flat_stmts_rec_plain in H by exact N.
      destruct (flat_stmts_rec frec fs reading filename r) as [tl|] eqn:T; [|discriminate].
      inversion H; subst items. cbn [run_stmts_rec run_flat].
      assert (S1 : stmt_step_files rrec fs reading l filename st vs = fitem_step l (FStmt filename st vs))
        by (destruct st; try reflexivity; discriminate N).
      rewrite S1. destruct (fitem_step l (FStmt filename st vs)); try reflexivity.
      cbn [bind]. apply IH. reflexivity. }
    assert (CHILD : forall p, is_child_line st p ->
              run_stmts_rec rrec fs reading l filename ((st, vs) :: r) = run_flat l items).
    { intros p IC. apply (flat_stmts_rec_child frec fs reading filename st p vs r items IC) in H.
      destruct H as (path & content & child & tl & P & X & A & C & T & ->).
      cbn [run_stmts_rec run_flat].
      assert (S1 : stmt_step_files rrec fs reading l filename st vs =
                   rrec (reading ++ [path]) (intern l path) path content vs).
      { destruct IC as [->| ->]; cbn [stmt_step_files]; unfold child_step; rewrite P; cbn [bind];
          rewrite X, A; reflexivity. }
      assert (S2 : fitem_step l (FStmt filename st vs) = Ok (intern l path)).
      { destruct IC as [->| ->]; cbn [fitem_step]; rewrite P; reflexivity. }
      rewrite S1, S2. cbn [bind]. rewrite (REC _ _ _ _ _ C), run_flat_app.
      destruct (run_flat (intern l path) child); try reflexivity. cbn [bind]. apply IH. exact T. }
    destruct st as [name rv|pb|ds|p|p|name d]; try (apply PLAIN; reflexivity).
    + apply (CHILD p). left. reflexivity.
    + apply (CHILD p). right. reflexivity.
Qed.

Theorem flat_file_run fs : forall depth reading filename text inherited items,
  flat_file depth fs reading filename text inherited = Some items ->
  forall l, run_file depth fs reading l filename text inherited = run_flat l items.
Proof.
  induction depth as [|depth IH]; intros reading filename text inherited items H l; [discriminate|].
  apply flat_file_some in H as (vs' & s' & its & E & F & ->).
  rewrite run_file_unfold, E, run_flat_app. unfold run_stmts_files.
  rewrite (flat_stmts_rec_run (flat_file depth fs) (run_file depth fs) fs reading filename IH _ _ F).
  destruct (run_flat l its); reflexivity.
Qed.

Theorem flat_stmts_run depth fs reading filename sts items :
  flat_stmts depth fs reading filename sts = Some items ->
  forall l, run_stmts_files depth fs reading l filename sts = run_flat l items.
Proof.
  intros H l. unfold run_stmts_files.
  apply (flat_stmts_rec_run (flat_file depth fs) (run_file depth fs) fs reading filename); [|exact H].
  apply flat_file_run.
Qed.

(* ------------------------------------------------------------------------------------ *)
(* a manifest that loads has a flat sequence *)

Lemma run_stmts_rec_ok_flat frec rrec fs reading filename :
  (forall rd l path content vs l', rrec rd l path content vs = Ok l' ->
     exists items, frec rd path content vs = Some items) ->
  forall sts l l', run_stmts_rec rrec fs reading l filename sts = Ok l' ->
  exists items, flat_stmts_rec frec fs reading filename sts = Some items.
Proof.
  intro REC. induction sts as [|[st vs] r IH]; intros l l' H; [exists []; reflexivity|].
  cbn [run_stmts_rec] in H. apply bind_ok in H as [l1 [E H]].
  destruct (IH _ _ H) as [tl T].
  assert (PLAIN : is_include st = false ->
            exists items, flat_stmts_rec frec fs reading filename ((st, vs) :: r) = Some items).
  { intro N. rewrite flat_stmts_rec_plain by exact N. rewrite T. eexists. reflexivity. }
  assert (CHILD : forall p, is_child_line st p ->
            exists items, flat_stmts_rec frec fs reading filename ((st, vs) :: r) = Some items).
  { intros p IC.
    assert (E' : child_step rrec fs reading l filename p vs = Ok l1) by (destruct IC as [->| ->]; exact E).
    unfold child_step in E'. apply bind_ok in E' as [path [P E']].
    destruct (existsb (bytes_eqb path) reading) eqn:X; [discriminate|].
    destruct (assoc_b path fs) as [content|] eqn:A; [|discriminate].
    destruct (REC _ _ _ _ _ _ E') as [child C].
    exists (FStmt filename st vs :: child ++ tl).
    apply (flat_stmts_rec_child frec fs reading filename st p vs r _ IC).
    exists path, content, child, tl. repeat split; assumption. }
  destruct st as [name rv|pb|ds|p|p|name d]; try (apply PLAIN; reflexivity).
  - apply (CHILD p). left. reflexivity.
  - apply (CHILD p). right. reflexivity.
Qed.

Theorem run_file_ok_flat fs : forall depth reading l filename text inherited l',
  run_file depth fs reading l filename text inherited = Ok l' ->
  exists items, flat_file depth fs reading filename text inherited = Some items.
Proof.
  induction depth as [|depth IH]; intros reading l filename text inherited l' H; [discriminate|].
  rewrite run_file_unfold in H. apply bind_ok in H as [l1 [E H]].
  rewrite flat_file_unfold.
  destruct (snd (file_stmts text inherited)) as [[[st|] vs'] s'|m o|x|x|]; cbn [finish] in H; try discriminate.
  2:{ apply bind_ok in H as [txt [_ H]]. discriminate. }
  unfold run_stmts_files in E.
  destruct (run_stmts_rec_ok_flat (flat_file depth fs) (run_file depth fs) fs reading filename IH _ _ _ E)
    as [its F].
  unfold flat_stmts. rewrite F. eexists. reflexivity.
Qed.

Theorem run_file_ok_iff depth fs reading l filename text inherited l' :
  run_file depth fs reading l filename text inherited = Ok l' <->
  exists items, flat_file depth fs reading filename text inherited = Some items /\ run_flat l items = Ok l'.
Proof.
  split.
  - intro H. destruct (run_file_ok_flat _ _ _ _ _ _ _ _ H) as [items F].
    exists items. split; [exact F|]. rewrite <- (flat_file_run _ _ _ _ _ _ _ F). exact H.
  - intros (items & F & H). rewrite (flat_file_run _ _ _ _ _ _ _ F). exact H.
Qed.

Theorem run_stmts_files_ok_iff depth fs reading l filename sts l' :
  run_stmts_files depth fs reading l filename sts = Ok l' <->
  exists items, flat_stmts depth fs reading filename sts = Some items /\ run_flat l items = Ok l'.
Proof.
  split.
  - intro H. unfold run_stmts_files in H.
    destruct (run_stmts_rec_ok_flat (flat_file depth fs) (run_file depth fs) fs reading filename
                (run_file_ok_flat fs depth) _ _ _ H) as [items F].
    exists items. split; [exact F|]. rewrite <- (flat_stmts_run _ _ _ _ _ _ F). exact H.
  - intros (items & F & H). rewrite (flat_stmts_run _ _ _ _ _ _ F). exact H.
Qed.

(* ------------------------------------------------------------------------------------ *)
(* the items are well formed (explicit outputs among the outputs) *)

Lemma flat_stmts_rec_wf frec fs reading filename :
  (forall rd path content vs items, frec rd path content vs = Some items -> fitems_wf items) ->
  forall sts items, builds_wf sts -> flat_stmts_rec frec fs reading filename sts = Some items -> fitems_wf items.
Proof.
  intro REC. induction sts as [|[st vs] r IH]; intros items W H.
  - cbn [flat_stmts_rec] in H. inversion H; subst. constructor.
  - inversion W as [|? ? W1 W2]; subst. cbn [fst] in W1.
    assert (PLAIN : is_include st = false -> fitems_wf items).
    { intro N. rewrite flat_stmts_rec_plain in H by exact N.
      destruct (flat_stmts_rec frec fs reading filename r) as [tl|] eqn:T; [|discriminate].
      inversion H; subst items. constructor; [|apply IH; [exact W2 | reflexivity]].
      unfold stmt_wf. exact W1. }
    assert (CHILD : forall p, is_child_line st p -> fitems_wf items).
    { intros p IC. apply (flat_stmts_rec_child frec fs reading filename st p vs r items IC) in H.
      destruct H as (path & content & child & tl & P & X & A & C & T & ->).
      constructor; [destruct IC as [->| ->]; exact I|].
      apply Forall_app. split; [eapply REC; exact C | apply IH; [exact W2 | exact T]]. }
    destruct st as [name rv|pb|ds|p|p|name d]; try (apply PLAIN; reflexivity).
    + apply (CHILD p). left. reflexivity.
    + apply (CHILD p). right. reflexivity.
Qed.

Theorem flat_file_wf fs : forall depth reading filename text inherited items,
  flat_file depth fs reading filename text inherited = Some items -> fitems_wf items.
Proof.
  induction depth as [|depth IH]; intros reading filename text inherited items H; [discriminate|].
  apply flat_file_some in H as (vs' & s' & its & E & F & ->).
  apply Forall_app. split; [|constructor; [exact I | constructor]].
  eapply (flat_stmts_rec_wf (flat_file depth fs) fs reading filename IH); [|exact F].
  apply file_stmts_wf.
Qed.

Theorem flat_stmts_wf depth fs reading filename sts items :
  builds_wf sts -> flat_stmts depth fs reading filename sts = Some items -> fitems_wf items.
Proof.
  intros W H. eapply (flat_stmts_rec_wf (flat_file depth fs) fs reading filename); [|exact W | exact H].
  apply flat_file_wf.
Qed.

(* ------------------------------------------------------------------------------------ *)
(* vocabulary facts *)

Lemma stmts_of_app a b : stmts_of (a ++ b) = stmts_of a ++ stmts_of b.
Proof.
  induction a as [|[file st vs|vs] r IH]; [reflexivity| |]; cbn [app stmts_of]; rewrite IH; reflexivity.
Qed.

Lemma pools_of_app pools a b : pools_of pools (a ++ b) = pools_of (pools_of pools a) b.
Proof.
  revert pools. induction a as [|[st vs] r IH]; intro pools; [reflexivity|].
  destruct st; cbn [app pools_of]; apply IH.
Qed.

Lemma default_items_app a b : default_items (a ++ b) = default_items a ++ default_items b.
Proof.
  induction a as [|[st vs] r IH]; [reflexivity|].
  destruct st; cbn [app default_items]; rewrite IH; try reflexivity. apply app_assoc.
Qed.

Lemma count_builds_app a b : count_builds (a ++ b) = count_builds a + count_builds b.
Proof.
  induction a as [|[st vs] r IH]; [reflexivity|].
  destruct st; cbn [app count_builds]; rewrite IH; reflexivity.
Qed.

Lemma fbuild_items_app a : forall rules b,
  fbuild_items rules (a ++ b) = fbuild_items rules a ++ fbuild_items (rules_of rules (stmts_of a)) b.
Proof.
  induction a as [|[file st vs|vs] r IH]; intros rules b; [reflexivity| |].
  - destruct st; cbn [app fbuild_items stmts_of rules_of]; rewrite IH; reflexivity.
  - cbn [app fbuild_items stmts_of]. apply IH.
Qed.

Lemma fbuild_items_snd : forall items rules, map snd (fbuild_items rules items) = build_items rules (stmts_of items).
Proof.
  induction items as [|[file st vs|vs] r IH]; intro rules; [reflexivity| |].
  - destruct st; cbn [fbuild_items stmts_of build_items map snd]; rewrite IH; reflexivity.
  - cbn [fbuild_items stmts_of]. apply IH.
Qed.

Lemma fbuild_items_length rules items : length (fbuild_items rules items) = count_builds (stmts_of items).
Proof. rewrite <- (map_length snd), fbuild_items_snd. apply build_items_length. Qed.

Lemma fbuild_items_one rules file st vs :
  fbuild_items rules [FStmt file st vs] = map (fun x => (file, x)) (build_items rules [(st, vs)]).
Proof. destruct st; reflexivity. Qed.

(* the k-th build item is the k-th `build` statement of the sequence, with its file, and the rules
   declared in front of it - in whatever file *)
Lemma fbuild_items_nth : forall items rules k file pb vs rules',
  nth_error (fbuild_items rules items) k = Some (file, (pb, vs, rules')) ->
  exists pre post, items = pre ++ FStmt file (SBuild pb) vs :: post /\
                   count_builds (stmts_of pre) = k /\ rules' = rules_of rules (stmts_of pre).
Proof.
  induction items as [|it r IH]; intros rules k file pb vs rules' H; [destruct k; discriminate|].
  assert (SKIP : forall rules1, rules1 = rules_of rules (stmts_of [it]) -> count_builds (stmts_of [it]) = 0 ->
            nth_error (fbuild_items rules1 r) k = Some (file, (pb, vs, rules')) ->
            exists pre post, it :: r = pre ++ FStmt file (SBuild pb) vs :: post /\
                             count_builds (stmts_of pre) = k /\ rules' = rules_of rules (stmts_of pre)).
  { intros rules1 R1 C1 H1. destruct (IH _ _ _ _ _ _ H1) as (pre & post & -> & C & ->).
    exists (it :: pre), post. split; [reflexivity|].
    change (it :: pre) with ([it] ++ pre). rewrite stmts_of_app, count_builds_app, rules_of_app, C1, <- R1.
    split; [exact C | reflexivity]. }
  destruct it as [f st v|v].
  - destruct st as [n rv|b|ds|p|p|n d]; cbn [fbuild_items] in H;
      try (eapply SKIP; [reflexivity | reflexivity | exact H]).
    destruct k as [|k]; cbn [nth_error] in H.
    + inversion H; subst. exists [], r. repeat split.
    + destruct (IH _ _ _ _ _ _ H) as (pre & post & -> & C & ->).
      exists (FStmt f (SBuild b) v :: pre), post. split; [reflexivity|].
      split; [cbn [stmts_of count_builds]; lia | reflexivity].
  - cbn [fbuild_items] in H. eapply SKIP; [reflexivity | reflexivity | exact H].
Qed.

(* ------------------------------------------------------------------------------------ *)
(* what a flat sequence leaves in the loader *)

Definition FlatSpec (l0 l : loader) (items : list fitem) : Prop :=
  LInv l /\ NamesExt l0 l /\
  (exists bs, l_builds l = l_builds l0 ++ bs /\
              Forall2 (fitem_ok l) (fbuild_items (l_rules l0) items) bs) /\
  l_rules l = rules_of (l_rules l0) (stmts_of items) /\
  l_pools l = pools_of (l_pools l0) (stmts_of items) /\
  (exists ids, l_defaults l = l_defaults l0 ++ ids /\
               Forall2 (default_ok l) (default_items (stmts_of items)) ids /\ ids_in l ids).

Lemma FlatSpec_nil l : LInv l -> FlatSpec l l [].
Proof.
  intro I. split; [exact I|]. split; [apply NamesExt_refl|].
  split; [exists []; rewrite app_nil_r; split; [reflexivity | constructor]|].
  split; [reflexivity|]. split; [reflexivity|].
  exists []. rewrite app_nil_r. split; [reflexivity | split; constructor].
Qed.

Lemma FlatSpec_app l0 l1 l ia ib : FlatSpec l0 l1 ia -> FlatSpec l1 l ib -> FlatSpec l0 l (ia ++ ib).
Proof.
  intros (I1 & X1 & (bs1 & B1 & FB1) & RL1 & PL1 & (ids1 & D1 & FD1 & R1))
         (I2 & X2 & (bs2 & B2 & FB2) & RL2 & PL2 & (ids2 & D2 & FD2 & R2)).
  split; [exact I2|]. split; [eapply NamesExt_trans; eassumption|].
  rewrite stmts_of_app, rules_of_app, pools_of_app, default_items_app, fbuild_items_app.
  split.
  { exists (bs1 ++ bs2). split; [rewrite B2, B1, app_assoc; reflexivity|].
    apply Forall2_app.
    - eapply Forall2_impl; [|exact FB1]. intros it b OK. unfold fitem_ok, item_ok in *.
      eapply build_ok_mono; eassumption.
    - rewrite <- RL1. exact FB2. }
  split; [rewrite RL2, RL1; reflexivity|].
  split; [rewrite PL2, PL1; reflexivity|].
  exists (ids1 ++ ids2). split; [rewrite D2, D1, app_assoc; reflexivity|].
  split.
  - apply Forall2_app; [|exact FD2]. eapply default_ok_mono; eassumption.
  - apply Forall_app. split; [eapply ids_in_mono; eassumption | exact R2].
Qed.

Lemma intern_other l c :
  l_builds (intern l c) = l_builds l /\ l_rules (intern l c) = l_rules l /\
  l_pools (intern l c) = l_pools l /\ l_defaults (intern l c) = l_defaults l /\
  l_builddir (intern l c) = l_builddir l /\ l_warnings (intern l c) = l_warnings l.
Proof. unfold intern, id_from_canonical. destruct (find_file (l_files l) c 0); repeat split. Qed.

Lemma FlatSpec_same l0 l file st vs :
  LInv l -> NamesExt l0 l ->
  l_builds l = l_builds l0 -> l_rules l = l_rules l0 -> l_pools l = l_pools l0 -> l_defaults l = l_defaults l0 ->
  is_include st = true -> FlatSpec l0 l [FStmt file st vs].
Proof.
  intros I X B RL PL D N.
  assert (E1 : fbuild_items (l_rules l0) [FStmt file st vs] = []) by (destruct st; try discriminate N; reflexivity).
  assert (E2 : rules_of (l_rules l0) (stmts_of [FStmt file st vs]) = l_rules l0)
    by (destruct st; try discriminate N; reflexivity).
  assert (E3 : pools_of (l_pools l0) (stmts_of [FStmt file st vs]) = l_pools l0)
    by (destruct st; try discriminate N; reflexivity).
  assert (E4 : default_items (stmts_of [FStmt file st vs]) = [])
    by (destruct st; try discriminate N; reflexivity).
  split; [exact I|]. split; [exact X|]. rewrite E1, E2, E3, E4.
  split; [exists []; rewrite app_nil_r; split; [exact B | constructor]|].
  split; [exact RL|]. split; [exact PL|].
  exists []. rewrite app_nil_r. split; [exact D | split; constructor].
Qed.

Lemma fitem_step_spec l it l1 :
  LInv l -> fitems_wf [it] -> fitem_step l it = Ok l1 -> FlatSpec l l1 [it].
Proof.
  intros I W H. inversion W as [|? ? W1 _]; subst.
  destruct it as [file st vs|vs].
  - assert (PLAIN : is_include st = false -> stmt_step l file st vs = Ok l1 -> FlatSpec l l1 [FStmt file st vs]).
    { intros N E.
      assert (RS : run_stmts l file [(st, vs)] = Ok l1) by (cbn [run_stmts]; rewrite E; reflexivity).
      assert (BW : builds_wf [(st, vs)]).
      { constructor; [|constructor]. cbn [fst]. unfold stmt_wf in W1. exact W1. }
      destruct (run_stmts_spec file _ _ _ I BW RS) as (J & X & (bs0 & B & FB) & RL & PL & D & _).
      split; [exact J|]. split; [exact X|]. rewrite fbuild_items_one.
      split; [|cbn [stmts_of]; repeat split; assumption].
      exists bs0. split; [exact B|]. apply Forall2_map_l. exact FB. }
    assert (CHILD : forall p, is_child_line st p ->
              (do c <- include_path p vs; Ok (intern l c)) = Ok l1 -> FlatSpec l l1 [FStmt file st vs]).
    { intros p IC E. apply bind_ok in E as [c [_ E]]. inversion E; subst l1.
      destruct (intern_other l c) as (B & RL & PL & D & _).
      pose proof (intern_Ext l c) as X.
      apply FlatSpec_same; try assumption.
      - eapply Ext_LInv; eassumption.
      - apply Ext_NamesExt. exact X.
      - destruct IC as [->| ->]; reflexivity. }
    destruct st as [name rv|pb|ds|p|p|name d]; try (apply PLAIN; [reflexivity | exact H]).
    + apply (CHILD p); [left; reflexivity | exact H].
    + apply (CHILD p); [right; reflexivity | exact H].
  - cbn [fitem_step] in H. inversion H; subst l1.
    split; [eapply LInv_same_graph; [| |exact I]; reflexivity|].
    split; [apply NamesExt_same; reflexivity|].
    cbn [with_builddir l_builds l_rules l_pools l_defaults fbuild_items stmts_of rules_of pools_of default_items].
    split; [exists []; rewrite app_nil_r; split; [reflexivity | constructor]|].
    split; [reflexivity|]. split; [reflexivity|].
    exists []. rewrite app_nil_r. split; [reflexivity | split; constructor].
Qed.

Theorem run_flat_spec : forall items l0 l,
  LInv l0 -> fitems_wf items -> run_flat l0 items = Ok l -> FlatSpec l0 l items.
Proof.
  induction items as [|it r IH]; intros l0 l I W H.
  - cbn [run_flat] in H. inversion H; subst. apply FlatSpec_nil. exact I.
  - cbn [run_flat] in H. apply bind_ok in H as [l1 [E H]].
    inversion W as [|? ? W1 W2]; subst.
    assert (S1 : FlatSpec l0 l1 [it]).
    { apply fitem_step_spec; [exact I | constructor; [exact W1 | constructor] | exact E]. }
    change (it :: r) with ([it] ++ r). eapply FlatSpec_app; [exact S1|].
    apply IH; [destruct S1 as [J _]; exact J | exact W2 | exact H].
Qed.

(* names stay unique *)
Lemma fitem_step_unique l it l1 :
  LInv l -> fitems_wf [it] -> NamesUnique l -> fitem_step l it = Ok l1 -> NamesUnique l1.
Proof.
  intros I W U H. inversion W as [|? ? W1 _]; subst.
  destruct it as [file st vs|vs].
  - assert (CHILD : forall p, (do c <- include_path p vs; Ok (intern l c)) = Ok l1 -> NamesUnique l1).
    { intros p E. apply bind_ok in E as [c [_ E]]. inversion E; subst l1.
      destruct (id_from_canonical_intern l c) as (id & EI & _).
      eapply id_from_canonical_unique; eassumption. }
    destruct st as [name rv|pb|ds|p|p|name d]; try (apply (CHILD p); exact H);
      cbn [fitem_step] in H; eapply stmt_step_unique; eassumption.
  - cbn [fitem_step] in H. inversion H; subst. exact U.
Qed.

Theorem run_flat_unique : forall items l0 l,
  LInv l0 -> fitems_wf items -> NamesUnique l0 -> run_flat l0 items = Ok l -> NamesUnique l.
Proof.
  induction items as [|it r IH]; intros l0 l I W U H; cbn [run_flat] in H.
  - inversion H; subst. exact U.
  - apply bind_ok in H as [l1 [E H]]. inversion W as [|? ? W1 W2]; subst.
    assert (W' : fitems_wf [it]) by (constructor; [exact W1 | constructor]).
    destruct (fitem_step_spec _ _ _ I W' E) as [I1 _].
    eapply IH; [exact I1 | exact W2 | | exact H]. exact (fitem_step_unique _ _ _ I W' U E).
Qed.

(* the builddir is that of the last file that ended *)
Lemma fitem_step_builddir l it l1 : fitem_step l it = Ok l1 ->
  l_builddir l1 = match it with FEnd vs => assoc_b (bs "builddir") vs | _ => l_builddir l end.
Proof.
  intro H. destruct it as [file st vs|vs].
  - assert (CHILD : forall p, (do c <- include_path p vs; Ok (intern l c)) = Ok l1 -> l_builddir l1 = l_builddir l).
    { intros p E. apply bind_ok in E as [c [_ E]]. inversion E; subst l1.
      destruct (intern_other l c) as (_ & _ & _ & _ & BD & _). exact BD. }
    assert (PLAIN : is_include st = false -> stmt_step l file st vs = Ok l1 -> l_builddir l1 = l_builddir l).
    { intros N E.
      destruct st as [name rv|pb|ds|p|p|name d]; try discriminate N; cbn [stmt_step] in E.
      - inversion E; subst. reflexivity.
      - destruct (loader_add_build_ok _ _ _ _ _ _ E)
          as (la & ins & lb & outs & rule & b & E1 & E2 & _ & _ & _ & _ & _ & _ & _ & _ & _ & G).
        destruct (evaluate_paths_other _ _ _ _ _ E1) as (_ & _ & Q1).
        destruct (evaluate_paths_other _ _ _ _ _ E2) as (_ & _ & Q2).
        rewrite <- Q1, <- Q2. unfold graph_add_build in G. apply bind_ok in G as [[[fl du] wa] [_ G]].
        destruct (if du then remove_duplicates true (lb_outs b) (lb_explicit_outs b)
                  else (lb_outs b, lb_explicit_outs b)) as [o eo].
        inversion G; subst. reflexivity.
      - apply bind_ok in E as [[la ids] [E1 E]]. inversion E; subst.
        destruct (evaluate_paths_other _ _ _ _ _ E1) as (_ & _ & Q1). exact Q1.
      - inversion E; subst. reflexivity. }
    destruct st as [name rv|pb|ds|p|p|name d]; try (apply PLAIN; [reflexivity | exact H]);
      apply (CHILD p); exact H.
  - cbn [fitem_step] in H. inversion H; subst. reflexivity.
Qed.

Theorem run_flat_builddir : forall items l0 l, run_flat l0 items = Ok l ->
  l_builddir l = match last_end items with Some vs => assoc_b (bs "builddir") vs | None => l_builddir l0 end.
Proof.
  induction items as [|it r IH]; intros l0 l H; cbn [run_flat] in H.
  - inversion H; subst. reflexivity.
  - apply bind_ok in H as [l1 [E H]]. rewrite (IH _ _ H). cbn [last_end].
    destruct (last_end r) as [vs|]; [reflexivity|].
    rewrite (fitem_step_builddir _ _ _ E). destruct it; reflexivity.
Qed.

Lemma last_end_snoc items vs : last_end (items ++ [FEnd vs]) = Some vs.
Proof.
  induction items as [|it r IH]; [reflexivity|]. cbn [app last_end]. rewrite IH. reflexivity.
Qed.

(* ------------------------------------------------------------------------------------ *)
(* by name *)

Lemma fitems_view l items bs0 :
  NamesUnique l -> Forall2 (fitem_ok l) items bs0 ->
  map fitem_view items = map (fun b => Some (view l b)) bs0.
Proof.
  intros U H. induction H as [|it b items bs0 H1 H IH]; [reflexivity|].
  cbn [map]. rewrite IH. f_equal. unfold fitem_view, fitem_ok, item_ok in *. apply build_ok_view; assumption.
Qed.

(* ------------------------------------------------------------------------------------ *)
(* whole manifests *)

Theorem load_manifest_flat depth fs name text l :
  load_manifest true depth fs name text = Ok l <->
  exists c items, canon name = Ok c /\ flat_file depth fs [] name text [] = Some items /\
                  run_flat (loader_start c) items = Ok l.
Proof.
  rewrite load_manifest_is_run_file. split.
  - intro H. apply bind_ok in H as [c [C H]]. apply run_file_ok_iff in H as (items & F & H).
    exists c, items. repeat split; assumption.
  - intros (c & items & C & F & H). rewrite C. cbn [bind]. apply run_file_ok_iff.
    exists items. split; assumption.
Qed.

(* every outcome of a manifest with a flat sequence *)
Theorem load_manifest_flat_gen depth fs name text items :
  flat_file depth fs [] name text [] = Some items ->
  load_manifest true depth fs name text = do c <- canon name; run_flat (loader_start c) items.
Proof.
  intro F. rewrite load_manifest_is_run_file. destruct (canon name) as [c|m|x|x|]; try reflexivity.
  cbn [bind]. apply flat_file_run. exact F.
Qed.

(* C10_include_order: the loaded graph has one step per `build` item of the flat sequence, in
   order, each as declared where it stands *)
Theorem include_order depth fs name text l :
  load_manifest true depth fs name text = Ok l ->
  exists items vs',
    flat_file depth fs [] name text [] = Some (items ++ [FEnd vs']) /\
    length (l_builds l) = count_builds (stmts_of items) /\
    Forall2 (fitem_ok l) (fbuild_items [(bs "phony", [])] items) (l_builds l) /\
    map fitem_view (fbuild_items [(bs "phony", [])] items) = map (fun b => Some (view l b)) (l_builds l) /\
    l_rules l = rules_of [(bs "phony", [])] (stmts_of items) /\
    l_pools l = pools_of [] (stmts_of items) /\
    Forall2 (default_ok l) (default_items (stmts_of items)) (l_defaults l) /\
    l_builddir l = assoc_b (bs "builddir") vs' /\
    canon name = Ok (file_nm l 0).
Proof.
  intro H. apply load_manifest_flat in H as (c & items0 & C & F & H).
  destruct depth as [|depth]; [discriminate|].
  destruct (flat_file_some _ _ _ _ _ _ _ F) as (vs' & s' & items & _ & _ & ->).
  exists items, vs'. split; [exact F|].
  pose proof (flat_file_wf _ _ _ _ _ _ _ F) as W.
  pose proof (run_flat_unique _ _ _ (LInv_start c) W (NamesUnique_start c) H) as U.
  pose proof (run_flat_builddir _ _ _ H) as BD. rewrite last_end_snoc in BD.
  destruct (run_flat_spec _ _ _ (LInv_start c) W H) as (J & X & (bs0 & B & FB) & RL & PL & (ids & D & FD & _)).
  rewrite stmts_of_app, fbuild_items_app in *.
  cbn [stmts_of fbuild_items] in *. rewrite app_nil_r in *.
  cbn [loader_start l_builds l_rules l_pools l_defaults app] in B, FB, RL, PL, D. subst bs0.
  rewrite D.
  split; [rewrite <- (Forall2_length_eq _ _ _ FB); apply fbuild_items_length|].
  split; [exact FB|]. split; [apply fitems_view; assumption|].
  split; [exact RL|]. split; [exact PL|]. split; [exact FD|]. split; [exact BD|].
  rewrite C. f_equal. symmetry. rewrite (NamesExt_file_nm _ _ 0 X); [reflexivity | cbn; lia].
Qed.

(* ------------------------------------------------------------------------------------ *)
(* the equations of [flat_stmts] *)

Lemma flat_stmts_plain depth fs reading filename st vs r :
  is_include st = false ->
  flat_stmts depth fs reading filename ((st, vs) :: r) =
  match flat_stmts depth fs reading filename r with
  | Some tl => Some (FStmt filename st vs :: tl)
  | None => None
  end.
Proof. exact (flat_stmts_rec_plain (flat_file depth fs) fs reading filename st vs r). Qed.

Lemma flat_stmts_child depth fs reading filename st p vs r items :
  is_child_line st p ->
  flat_stmts depth fs reading filename ((st, vs) :: r) = Some items <->
  exists path content child tl,
    include_path p vs = Ok path /\ existsb (bytes_eqb path) reading = false /\
    assoc_b path fs = Some content /\
    flat_file depth fs (reading ++ [path]) path content vs = Some child /\
    flat_stmts depth fs reading filename r = Some tl /\
    items = FStmt filename st vs :: child ++ tl.
Proof. exact (flat_stmts_rec_child (flat_file depth fs) fs reading filename st p vs r items). Qed.

Lemma flat_stmts_app depth fs reading filename a b :
  flat_stmts depth fs reading filename (a ++ b) =
  match flat_stmts depth fs reading filename a, flat_stmts depth fs reading filename b with
  | Some fa, Some fb => Some (fa ++ fb)
  | _, _ => None
  end.
Proof. exact (flat_stmts_rec_app (flat_file depth fs) fs reading filename a b). Qed.

(* ------------------------------------------------------------------------------------ *)
(* enough depth: a deeper bound changes nothing once the flat sequence exists *)

Lemma flat_stmts_rec_mono frec1 frec2 fs reading filename :
  (forall rd path content vs items, frec1 rd path content vs = Some items -> frec2 rd path content vs = Some items) ->
  forall sts items, flat_stmts_rec frec1 fs reading filename sts = Some items ->
                    flat_stmts_rec frec2 fs reading filename sts = Some items.
Proof.
  intro REC. induction sts as [|[st vs] r IH]; intros items H; [exact H|].
  assert (PLAIN : is_include st = false -> flat_stmts_rec frec2 fs reading filename ((st, vs) :: r) = Some items).
  { intro N. rewrite flat_stmts_rec_plain in H |- * by exact N.
    destruct (flat_stmts_rec frec1 fs reading filename r) as [tl|] eqn:T; [|discriminate].
    rewrite (IH _ eq_refl). exact H. }
  assert (CHILD : forall p, is_child_line st p ->
            flat_stmts_rec frec2 fs reading filename ((st, vs) :: r) = Some items).
  { intros p IC. apply (flat_stmts_rec_child frec1 fs reading filename st p vs r items IC) in H.
    destruct H as (path & content & child & tl & P & X & A & C & T & ->).
    apply (flat_stmts_rec_child frec2 fs reading filename st p vs r _ IC).
    exists path, content, child, tl. repeat split; try assumption; [apply REC; exact C | apply IH; exact T]. }
  destruct st as [name rv|pb|ds|p|p|name d]; try (apply PLAIN; reflexivity).
  - apply (CHILD p). left. reflexivity.
  - apply (CHILD p). right. reflexivity.
Qed.

Lemma flat_file_mono fs : forall d d' reading filename text inherited items,
  d <= d' -> flat_file d fs reading filename text inherited = Some items ->
  flat_file d' fs reading filename text inherited = Some items.
Proof.
  induction d as [|d IH]; intros d' reading filename text inherited items L H; [discriminate|].
  destruct d' as [|d']; [lia|].
  apply flat_file_some in H as (vs' & s' & its & E & F & ->).
  rewrite flat_file_unfold, E. unfold flat_stmts in *.
  rewrite (flat_stmts_rec_mono (flat_file d fs) (flat_file d' fs) fs reading filename
             (fun rd path content vs items => IH d' rd path content vs items ltac:(lia)) _ _ F).
  reflexivity.
Qed.

Theorem run_file_depth fs d d' reading l filename text inherited items :
  flat_file d fs reading filename text inherited = Some items -> d <= d' ->
  run_file d' fs reading l filename text inherited = run_file d fs reading l filename text inherited.
Proof.
  intros F L. rewrite (flat_file_run _ _ _ _ _ _ _ F).
  apply flat_file_run. eapply flat_file_mono; eassumption.
Qed.

Theorem load_manifest_depth d d' fs name text l :
  load_manifest true d fs name text = Ok l -> d <= d' -> load_manifest true d' fs name text = Ok l.
Proof.
  intros H L. apply load_manifest_flat in H as (c & items & C & F & H).
  apply load_manifest_flat. exists c, items. split; [exact C|]. split; [|exact H].
  eapply flat_file_mono; eassumption.
Qed.
