(* The display operations that the scheduler loop (Work::run, Model/Sched.v) issues respect the
   protocol of the console display state (FancyState, Model/Fancy.v; [proto_ok] in
   Proofs/FancyFrame.v), for every accepted trace.

   In work.rs the loop calls progress.task_started when a command is handed to the runner (event
   [EStart b]) and progress.task_finished when its completion is received (event [EFinish b t]);
   task_output is called in between, for the id of a command that is being run.  The display
   panics when a step without a command line is started, and when output or completion is
   reported for an id it is not displaying.

   Part 1 (scheduler side): along every accepted trace that starts from a quiet state at the top
   of the loop, every [EFinish b t] arrives while [b] is in the display list (the builds started
   and not yet finished, oldest first), and every [EStart b] is for a step that is not phony,
   i.e. that has a command line.

   Part 2 (bridge): the events of the trace, interleaved with arbitrary other display operations
   (update, log, print_progress on a terminal of at least two columns, task_output for a build
   on display), map to a list of display operations that satisfies [proto_ok []]; hence, by
   [protocol_total], the display never panics, and the commands it shows at the end are exactly
   the builds started and not finished. *)
From Coq Require Import Lia ZArith List Bool Arith NArith String.
From N2 Require Import Model.All Model.Fancy Proofs.SchedSpec Proofs.SchedInv Proofs.SchedRunBase
     Proofs.SchedRunStep Proofs.SchedWantSteps Proofs.FancyLossy Proofs.FancyFrame.
Import ListNotations.

(* ------------------------------------------------------------------------------------ *)
(* the display list: builds started and not finished, oldest first *)

Fixpoint remove_nat (b : nat) (d : list nat) : list nat :=
  match d with
  | [] => []
  | x :: r => if (x =? b)%nat then r else x :: remove_nat b r
  end.

Definition disp_step (d : list nat) (e : event) : list nat :=
  match e with
  | EStart b => d ++ [b]
  | EFinish b _ => remove_nat b d
  | _ => d
  end.

Fixpoint disp_of (d : list nat) (tr : list event) : list nat :=
  match tr with
  | [] => d
  | e :: rest => disp_of (disp_step d e) rest
  end.

(* every completion is for a build on display *)
Fixpoint disp_ok (d : list nat) (tr : list event) : Prop :=
  match tr with
  | [] => True
  | e :: rest =>
    match e with EFinish b _ => In b d | _ => True end /\ disp_ok (disp_step d e) rest
  end.

Lemma remove_nat_In x b d : In x d -> x <> b -> In x (remove_nat b d).
Proof.
  induction d as [|y r IH]; intros Hin Hne; [destruct Hin|].
  cbn [remove_nat]. destruct (Nat.eqb_spec y b) as [->|Hyb].
  - destruct Hin as [<-|Hin]; [contradiction|exact Hin].
  - destruct Hin as [<-|Hin]; [now left|right; now apply IH].
Qed.

Lemma remove_nat_subset x b d : In x (remove_nat b d) -> In x d.
Proof.
  induction d as [|y r IH]; intros Hin; [destruct Hin|].
  cbn [remove_nat] in Hin. destruct (y =? b)%nat.
  - now right.
  - destruct Hin as [<-|Hin]; [now left|right; now apply IH].
Qed.

(* ------------------------------------------------------------------------------------ *)
(* facts about BuildStates::set *)

Lemma get_state_set_pools s ps b : get_state (set_pools s ps) b = get_state s b.
Proof. reflexivity. Qed.

Lemma get_state_set_ready s q b : get_state (set_ready s q) b = get_state s b.
Proof. reflexivity. Qed.

Lemma bs_set_get_inv s id bd st s' b x :
  bs_set s id bd st = Ok s' -> get_state s' b = x -> (b = id /\ st = x) \/ get_state s b = x.
Proof.
  intros H Hx. rewrite (bs_set_get _ _ _ _ _ b H) in Hx.
  destruct (Nat.eqb_spec b id) as [->|Hne]; cbn [andb] in Hx; [|now right].
  destruct (id <? length (bs_states s))%nat; [left; split; [reflexivity|exact Hx] | now right].
Qed.

Lemma bs_set_running_back s id bd st s' b :
  bs_set s id bd st = Ok s' -> st <> Running -> get_state s' b = Running ->
  get_state s b = Running /\ b <> id.
Proof.
  intros H Hst Hb. rewrite (bs_set_get _ _ _ _ _ b H) in Hb.
  destruct (Nat.eqb_spec b id) as [->|Hne]; cbn [andb] in Hb; [|split; assumption].
  destruct (id <? length (bs_states s))%nat eqn:El; [congruence|].
  exfalso. apply Nat.ltb_ge in El.
  assert (Hr : (id < length (bs_states s))%nat) by (apply get_state_range; congruence). lia.
Qed.

(* ------------------------------------------------------------------------------------ *)
(* the invariants *)

Section Sched.
Variable cf : config.

Definition nonphony (b : nat) : Prop := b_phony (get_build (cf_graph cf) b) = false.

(* every build in state Running is either about to be started (set Running, EStart not yet
   emitted), or its completion has just been received, or it is on display *)
Definition DInv (r : rstate) (d : list nat) : Prop :=
  (exists o, rs_ctl r = CReturned o) \/
  forall b, get_state (rs_bs r) b = Running ->
    rs_ctl r = CStarting b \/ (exists t rec, rs_ctl r = CFinished b t rec) \/ In b d.

(* what is queued, running, found dirty or about to be started is not phony *)
Definition PInv (r : rstate) : Prop :=
  (forall b, get_state (rs_bs r) b = Queued \/ get_state (rs_bs r) b = Running -> nonphony b) /\
  (forall b rec, rs_ctl r = CVerdict b VDirty rec -> nonphony b) /\
  (forall b, rs_ctl r = CStarting b -> nonphony b).

Definition quiet (r : rstate) : Prop :=
  rs_ctl r = CIdle /\
  forall b, get_state (rs_bs r) b <> Running /\ get_state (rs_bs r) b <> Queued.

Lemma quiet_DInv r : quiet r -> DInv r [].
Proof. intros [_ Hq]. right. intros b Hb. exfalso. now apply (proj1 (Hq b)). Qed.

Lemma quiet_PInv r : quiet r -> PInv r.
Proof.
  intros [Hc Hq]. split; [|split].
  - intros b [Hb|Hb]; exfalso; [now apply (proj2 (Hq b)) | now apply (proj1 (Hq b))].
  - intros b rec H. congruence.
  - intros b H. congruence.
Qed.

Local Ltac old HD b Hold :=
  let Hs := fresh "Hs" in let t := fresh "t" in let rc := fresh "rc" in
  let Hf := fresh "Hf" in let Hin := fresh "Hin" in
  destruct (HD b Hold) as [Hs|[[t [rc Hf]]|Hin]]; try congruence.

Lemma step_DInv r e r' d : step cf r e r' -> DInv r d -> DInv r' (disp_step d e).
Proof.
  intros Hs HD. unfold DInv in *.
  destruct Hs; cbn [disp_step rs_ctl rs_bs with_bs with_ctl];
    (destruct HD as [[o Ho]|HD]; [congruence|]).
  - (* update *) right. exact HD.
  - (* run *)
    right. intros b' Hb'.
    match goal with Hset : bs_set _ _ _ _ = Ok _ |- _ =>
      destruct (bs_set_get_inv _ _ _ _ _ _ _ Hset Hb') as [[-> _]|Hold] end.
    + now left.
    + rewrite get_state_set_pools in Hold. old HD b' Hold. right; right; exact Hin.
  - (* start *)
    right. intros b' Hb'. old HD b' Hb'.
    + right; right. apply in_or_app. right. left. congruence.
    + right; right. apply in_or_app. now left.
  - (* pop *)
    right. intros b' Hb'. rewrite get_state_set_ready in Hb'. old HD b' Hb'. right; right; exact Hin.
  - (* verdict *)
    right. intros b' Hb'. old HD b' Hb'. right; right; exact Hin.
  - (* adopt record *)
    right. intros b' Hb'. old HD b' Hb'. right; right; exact Hin.
  - (* ready -> done *)
    right. intros b' Hb'.
    match goal with Hset : bs_set _ _ _ _ = Ok _ |- _ =>
      destruct (bs_set_running_back _ _ _ _ _ _ Hset ltac:(discriminate) Hb') as [Hold _] end.
    old HD b' Hold. right; right; exact Hin.
  - (* enqueue *)
    right. intros b' Hb'. rewrite get_state_set_pools in Hb'.
    match goal with Hset : bs_set _ _ _ _ = Ok _ |- _ =>
      destruct (bs_set_running_back _ _ _ _ _ _ Hset ltac:(discriminate) Hb') as [Hold _] end.
    old HD b' Hold. right; right; exact Hin.
  - (* enqueue fails *)
    right. intros b' Hb'.
    match goal with Hset : bs_set _ _ _ _ = Ok _ |- _ =>
      destruct (bs_set_running_back _ _ _ _ _ _ Hset ltac:(discriminate) Hb') as [Hold _] end.
    old HD b' Hold. right; right; exact Hin.
  - (* error return *) left. eauto.
  - (* promote *)
    right. intros b' Hb'.
    match goal with Hset : bs_set _ _ _ _ = Ok _ |- _ =>
      destruct (bs_set_running_back _ _ _ _ _ _ Hset ltac:(discriminate) Hb') as [Hold _] end.
    old HD b' Hold. right; right; exact Hin.
  - (* quiesce *) right. exact HD.
  - (* finish *)
    right. intros b' Hb'. old HD b' Hb'.
    destruct (Nat.eq_dec b' b) as [->|Hne].
    + right; left. eauto.
    + right; right. now apply remove_nat_In.
  - (* record *)
    right. intros b' Hb'. old HD b' Hb'.
    + right; left. assert (b' = b) by congruence. subst b'. eauto.
    + right; right; exact Hin.
  - (* done *)
    right. intros b' Hb'.
    match goal with Hset : bs_set _ _ _ _ = Ok _ |- _ =>
      destruct (bs_set_running_back _ _ _ _ _ _ Hset ltac:(discriminate) Hb') as [Hold Hne] end.
    old HD b' Hold. right; right; exact Hin.
  - (* failed *)
    right. intros b' Hb'.
    match goal with Hset : bs_set _ _ _ _ = Ok _ |- _ =>
      destruct (bs_set_running_back _ _ _ _ _ _ Hset ltac:(discriminate) Hb') as [Hold Hne] end.
    old HD b' Hold. right; right; exact Hin.
  - (* budget *) left. eauto.
  - (* interrupted *) left. eauto.
  - (* return *) left. eauto.
Qed.

Lemma step_PInv r e r' : step cf r e r' -> PInv r -> PInv r'.
Proof.
  intros Hs (HQ & HV & HS). unfold PInv.
  destruct Hs; cbn [rs_ctl rs_bs with_bs with_ctl].
  - (* update *) auto.
  - (* run *)
    split; [|split].
    + intros b' Hb'.
      match goal with Hset : bs_set _ _ _ _ = Ok _ |- _ =>
        destruct Hb' as [Hb'|Hb'];
          destruct (bs_set_get_inv _ _ _ _ _ _ _ Hset Hb') as [[-> _]|Hold] end;
        try (rewrite get_state_set_pools in Hold); auto.
    + intros b' rec Hc. discriminate Hc.
    + intros b' Hc. inversion Hc; subst b'. auto.
  - (* start *)
    split; [exact HQ|]. split; [intros b' rec Hc; discriminate Hc | intros b' Hc; discriminate Hc].
  - (* pop *)
    split; [exact HQ|]. split; [intros b' rec Hc; discriminate Hc | intros b' Hc; discriminate Hc].
  - (* verdict *)
    split; [exact HQ|]. split; [|intros b' Hc; discriminate Hc].
    intros b' rec Hc. inversion Hc; subst. unfold nonphony. auto.
  - (* adopt record *)
    split; [exact HQ|]. split; [|intros b' Hc; discriminate Hc].
    intros b' rec Hc. inversion Hc; subst. eauto.
  - (* ready -> done *)
    split; [|split; [intros b' rec' Hc; discriminate Hc | intros b' Hc; discriminate Hc]].
    intros b' Hb'.
    match goal with Hset : bs_set _ _ _ _ = Ok _ |- _ =>
      destruct Hb' as [Hb'|Hb'];
        destruct (bs_set_get_inv _ _ _ _ _ _ _ Hset Hb') as [[_ Hx]|Hold] end;
      try discriminate Hx; auto.
  - (* enqueue *)
    split; [|split; [intros b' rec' Hc; discriminate Hc | intros b' Hc; discriminate Hc]].
    intros b' Hb'. rewrite get_state_set_pools in Hb'.
    match goal with Hset : bs_set _ _ _ _ = Ok _ |- _ =>
      destruct Hb' as [Hb'|Hb'];
        destruct (bs_set_get_inv _ _ _ _ _ _ _ Hset Hb') as [[-> Hx]|Hold] end;
      try discriminate Hx; eauto.
  - (* enqueue fails *)
    split; [|split; [intros b' rec' Hc; discriminate Hc | intros b' Hc; discriminate Hc]].
    intros b' Hb'.
    match goal with Hset : bs_set _ _ _ _ = Ok _ |- _ =>
      destruct Hb' as [Hb'|Hb'];
        destruct (bs_set_get_inv _ _ _ _ _ _ _ Hset Hb') as [[-> Hx]|Hold] end;
      try discriminate Hx; eauto.
  - (* error return *)
    split; [exact HQ|]. split; [intros b' rec' Hc; discriminate Hc | intros b' Hc; discriminate Hc].
  - (* promote *)
    split; [|split; [intros b' rec' Hc; discriminate Hc | intros b' Hc; discriminate Hc]].
    intros b' Hb'.
    match goal with Hset : bs_set _ _ _ _ = Ok _ |- _ =>
      destruct Hb' as [Hb'|Hb'];
        destruct (bs_set_get_inv _ _ _ _ _ _ _ Hset Hb') as [[_ Hx]|Hold] end;
      try discriminate Hx; auto.
  - (* quiesce *) auto.
  - (* finish *)
    split; [exact HQ|]. split; [intros b' rec' Hc; discriminate Hc | intros b' Hc; discriminate Hc].
  - (* record *)
    split; [exact HQ|]. split; [intros b' rec' Hc; discriminate Hc | intros b' Hc; discriminate Hc].
  - (* done *)
    split; [|split; [intros b' rec' Hc; discriminate Hc | intros b' Hc; discriminate Hc]].
    intros b' Hb'.
    match goal with Hset : bs_set _ _ _ _ = Ok _ |- _ =>
      destruct Hb' as [Hb'|Hb'];
        destruct (bs_set_get_inv _ _ _ _ _ _ _ Hset Hb') as [[_ Hx]|Hold] end;
      try discriminate Hx; auto.
  - (* failed *)
    split; [|split; [intros b' rec' Hc; discriminate Hc | intros b' Hc; discriminate Hc]].
    intros b' Hb'.
    match goal with Hset : bs_set _ _ _ _ = Ok _ |- _ =>
      destruct Hb' as [Hb'|Hb'];
        destruct (bs_set_get_inv _ _ _ _ _ _ _ Hset Hb') as [[_ Hx]|Hold] end;
      try discriminate Hx; auto.
  - (* budget *)
    split; [exact HQ|]. split; [intros b' rec' Hc; discriminate Hc | intros b' Hc; discriminate Hc].
  - (* interrupted *)
    split; [exact HQ|]. split; [intros b' rec' Hc; discriminate Hc | intros b' Hc; discriminate Hc].
  - (* return *)
    split; [exact HQ|]. split; [intros b' rec' Hc; discriminate Hc | intros b' Hc; discriminate Hc].
Qed.

(* a completion is accepted only for a build on display *)
Lemma step_finish_displayed r b t r' d : step cf r (EFinish b t) r' -> DInv r d -> In b d.
Proof.
  intros Hs HD. inversion Hs; subst.
  destruct HD as [[o Ho]|HD]; [congruence|].
  match goal with Hr : get_state _ b = Running |- _ =>
    destruct (HD b Hr) as [Hc|[[t' [rec Hc]]|Hin]]; [congruence|congruence|exact Hin] end.
Qed.

(* a build is started only if it has a command line *)
Lemma step_start_nonphony r b r' : step cf r (EStart b) r' -> PInv r -> nonphony b.
Proof. intros Hs (_ & _ & HS). inversion Hs; subst. auto. Qed.

Definition starts_ok (tr : list event) : Prop := forall b, In (EStart b) tr -> nonphony b.

Lemma run_inv : forall tr r d r',
  DInv r d -> PInv r -> accepts cf r tr = Some r' ->
  disp_ok d tr /\ starts_ok tr /\ DInv r' (disp_of d tr) /\ PInv r'.
Proof.
  induction tr as [|e rest IH]; intros r d r' HD HP Hacc.
  - cbn in Hacc. inversion Hacc; subst r'. cbn [disp_ok disp_of].
    split; [exact I|]. split; [intros b []|]. split; assumption.
  - cbn [accepts] in Hacc. destruct (accept1 cf r e) as [r1|] eqn:E1; [|discriminate Hacc].
    apply accept1_step in E1.
    pose proof (step_DInv _ _ _ _ E1 HD) as HD1.
    pose proof (step_PInv _ _ _ E1 HP) as HP1.
    destruct (IH r1 (disp_step d e) r' HD1 HP1 Hacc) as (Hok & Hst & HD' & HP').
    cbn [disp_ok disp_of]. split; [|split; [|split; assumption]].
    + split; [|exact Hok]. destruct e; try exact I. eapply step_finish_displayed; eassumption.
    + intros b [Hb|Hb]; [|now apply Hst]. subst e. eapply step_start_nonphony; eassumption.
Qed.

(* Part 1: the scheduler side *)
Theorem scheduler_display_discipline r0 tr r' :
  quiet r0 -> accepts cf r0 tr = Some r' ->
  disp_ok [] tr /\ starts_ok tr /\ DInv r' (disp_of [] tr).
Proof.
  intros Hq Hacc.
  destruct (run_inv tr r0 [] r' (quiet_DInv _ Hq) (quiet_PInv _ Hq) Hacc) as (H1 & H2 & H3 & _).
  auto.
Qed.

End Sched.

(* ------------------------------------------------------------------------------------ *)
(* Part 2: the bridge to the display model *)

(* what happens around the loop, in order: events of the scheduler, and display operations that
   do not come from an event (update, log, print_progress, task_output) *)
Inductive ditem := DSched (e : event) | DOther (o : fop).

Fixpoint sched_part (items : list ditem) : list event :=
  match items with
  | [] => []
  | DSched e :: r => e :: sched_part r
  | DOther _ :: r => sched_part r
  end.

(* progress_fancy.rs: Termination::Success / Interrupted / Failure as in Model/Fancy.v *)
Definition term_code (t : term) : N :=
  match t with TSuccess => 0%N | TInterrupted => 1%N | TFailure => 2%N end.

(* an operation that does not come from a scheduler event: output only for a build on display,
   frames only on a terminal of at least two columns, no start or completion *)
Definition other_ok (d : list nat) (o : fop) : Prop :=
  match o with
  | FOutput id _ => exists b, In b d /\ id = N.of_nat b
  | FPrint _ cols => (2 <= cols)%nat
  | FStart _ _ _ _ => False
  | FFinish _ _ _ _ _ _ => False
  | FUpdate _ => True
  | FLog _ => True
  end.

Fixpoint others_ok (d : list nat) (items : list ditem) : Prop :=
  match items with
  | [] => True
  | DSched e :: r => others_ok (disp_step d e) r
  | DOther o :: r => other_ok d o /\ others_ok d r
  end.

Lemma N_of_nat_eqb x b : (N.of_nat x =? N.of_nat b)%N = (x =? b)%nat.
Proof.
  destruct (Nat.eqb_spec x b) as [->|Hne]; [apply N.eqb_refl|].
  apply N.eqb_neq. intro H. apply Nat2N.inj in H. contradiction.
Qed.

Lemma map_remove_nat b : forall d, map N.of_nat (remove_nat b d) = remove_one (N.of_nat b) (map N.of_nat d).
Proof.
  induction d as [|x r IH]; [reflexivity|].
  cbn [remove_nat map remove_one]. rewrite N_of_nat_eqb.
  destruct (x =? b)%nat; [reflexivity|]. cbn [map]. now rewrite IH.
Qed.

Section Bridge.
Variable cf : config.
(* description and command line text of a step; the command line is present iff the step is not
   phony (graph.rs: Build.cmdline : Option<String>, None for phony) *)
Variable info : nat -> option bytes * bytes.
(* the clock, hide_success and the captured output, by position in the interleaving: arbitrary *)
Variable clk : nat -> N.
Variable hide : nat -> bool.
Variable outp : nat -> bytes.

Definition cmd_of (b : nat) : option bytes :=
  if b_phony (get_build (cf_graph cf) b) then None else Some (snd (info b)).

Definition fop_item (i : nat) (it : ditem) : list fop :=
  match it with
  | DSched (EStart b) => [FStart (N.of_nat b) (clk i) (fst (info b)) (cmd_of b)]
  | DSched (EFinish b t) =>
    [FFinish (N.of_nat b) (fst (info b)) (cmd_of b) (hide i) (term_code t) (outp i)]
  | DSched _ => []
  | DOther o => [o]
  end.

Fixpoint fop_from (i : nat) (items : list ditem) : list fop :=
  match items with
  | [] => []
  | it :: r => fop_item i it ++ fop_from (S i) r
  end.

Definition fop_part (items : list ditem) : list fop := fop_from 0 items.

Lemma cmd_of_nonphony b : nonphony cf b -> cmd_of b <> None.
Proof. unfold nonphony, cmd_of. intros ->. discriminate. Qed.

Lemma bridge : forall items i d,
  disp_ok d (sched_part items) -> starts_ok cf (sched_part items) ->
  (forall x, In x d -> nonphony cf x) -> others_ok d items ->
  proto_ok (map N.of_nat d) (fop_from i items) /\
  track (map N.of_nat d) (fop_from i items) = map N.of_nat (disp_of d (sched_part items)).
Proof.
  induction items as [|it r IH]; intros i d Hok Hst Hnp Hoth.
  - cbn. split; [exact I|reflexivity].
  - destruct it as [e|o].
    + cbn [sched_part] in Hok, Hst |- *. cbn [disp_ok] in Hok. destruct Hok as [He Hok].
      cbn [others_ok] in Hoth.
      assert (Hst' : starts_ok cf (sched_part r)) by (intros b Hb; apply Hst; now right).
      cbn [fop_from disp_of].
      destruct e as [c|b|b v|b p n|b|n|b t|b|o];
        cbn [fop_item app disp_step] in *; try (apply IH; assumption).
      * (* EStart b *)
        assert (Hb : nonphony cf b) by (apply Hst; now left).
        assert (Hnp' : forall x, In x (d ++ [b]) -> nonphony cf x).
        { intros x Hx. apply in_app_or in Hx. destruct Hx as [Hx|[<-|[]]]; [now apply Hnp|exact Hb]. }
        destruct (IH (S i) (d ++ [b]) Hok Hst' Hnp' Hoth) as [P T].
        rewrite map_app in P, T. cbn [map] in P, T.
        cbn [proto_ok track]. split; [split; [now apply cmd_of_nonphony | exact P] | exact T].
      * (* EFinish b t *)
        assert (Hnp' : forall x, In x (remove_nat b d) -> nonphony cf x).
        { intros x Hx. apply Hnp. eapply remove_nat_subset; eassumption. }
        destruct (IH (S i) (remove_nat b d) Hok Hst' Hnp' Hoth) as [P T].
        rewrite map_remove_nat in P, T.
        cbn [proto_ok track]. split; [|exact T].
        split; [now apply in_map|]. split; [apply cmd_of_nonphony; now apply Hnp | exact P].
    + cbn [sched_part] in Hok, Hst |- *. cbn [others_ok] in Hoth. destruct Hoth as [Ho Hoth].
      destruct (IH (S i) d Hok Hst Hnp Hoth) as [P T].
      cbn [fop_from fop_item app].
      destruct o as [c|id now ds c|id l|id ds c h t out|m|now cols]; cbn [other_ok] in Ho;
        cbn [proto_ok track]; try contradiction.
      * split; assumption.
      * destruct Ho as [b [Hb ->]]. split; [split; [now apply in_map|exact P]|exact T].
      * split; assumption.
      * split; [split; assumption|exact T].
Qed.

(* the operations that an accepted run of the scheduler loop performs on the display, with any
   admissible operations in between, satisfy the protocol of the display *)
Theorem scheduler_respects_display_protocol r0 items r' :
  quiet r0 -> accepts cf r0 (sched_part items) = Some r' -> others_ok [] items ->
  proto_ok [] (fop_part items).
Proof.
  intros Hq Hacc Hoth.
  destruct (scheduler_display_discipline cf r0 _ r' Hq Hacc) as (Hok & Hst & _).
  exact (proj1 (bridge items 0 [] Hok Hst (fun x H => match H with end) Hoth)).
Qed.

(* ... hence the display does not panic, and ends up showing exactly the builds started and not
   finished, oldest first; these cover every build in state Running when the run is at the top
   of the loop *)
Corollary scheduler_display_never_panics verbose r0 items r' :
  quiet r0 -> accepts cf r0 (sched_part items) = Some r' -> others_ok [] items ->
  exists frames st,
    f_run0 verbose (fop_part items) = Ok (frames, st) /\
    map ft_id (fs_tasks st) = map N.of_nat (disp_of [] (sched_part items)) /\
    length frames = nprints (fop_part items) /\ lasts_valid st /\
    DInv r' (disp_of [] (sched_part items)).
Proof.
  intros Hq Hacc Hoth.
  destruct (scheduler_display_discipline cf r0 _ r' Hq Hacc) as (Hok & Hst & HD).
  destruct (bridge items 0 [] Hok Hst (fun x H => match H with end) Hoth) as [P T].
  destruct (protocol_total verbose (fop_part items) P) as (frames & st & E & M & L & V).
  exists frames, st. split; [exact E|]. split; [|split; [exact L|split; [exact V|exact HD]]].
  rewrite M. exact T.
Qed.

End Bridge.

(* ------------------------------------------------------------------------------------ *)
(* Non-vacuity: two steps with a command line, two runner slots; both are started, step 1 writes
   a line, a frame is painted, step 0 succeeds, step 1 fails *)

Definition fs_graph : graph :=
  mkGraph [mkBuild [] 0 0 0 [0] false None; mkBuild [] 0 0 0 [1] false None]
          [mkFile (bs "f0") (Some 0) []; mkFile (bs "f1") (Some 1) []].
Definition fs_cf : config := mkConfig fs_graph 2 false.
Definition fs_s0 : bstates :=
  match want_targets fs_graph (bs_new 2 [], []) [0; 1] with
  | Ok (s, _) => s
  | _ => bs_new 2 []
  end.
Definition fs_r0 : rstate := run_init fs_s0 None.

Definition fs_info (b : nat) : option bytes * bytes :=
  match b with
  | O => (Some (bs "CC foo.o"), bs "cc -c foo.c")
  | _ => (None, bs "cc -c bar.c")
  end.

Definition fs_items : list ditem :=
  [DOther (FUpdate (mkCounts 0 0 2 0 0 0));
   DSched (EPopReady 0); DSched (EVerdict 0 VDirty); DSched (ESet 0 Ready Queued);
   DSched (ESet 0 Queued Running); DSched (EStart 0);
   DSched (EPopReady 1); DSched (EVerdict 1 VDirty); DSched (ESet 1 Ready Queued);
   DSched (ESet 1 Queued Running); DSched (EStart 1);
   DOther (FOutput 1 [119; 255; 33]%N); DOther (FPrint 3500 12);
   DSched (EFinish 0 TSuccess); DSched (ERecord 0); DSched (ESet 0 Running Done);
   DOther (FLog (bs "note")); DOther (FOutput 1 (bs "again"));
   DSched (EFinish 1 TFailure); DSched (ESet 1 Running Failed);
   DOther (FPrint 4000 12);
   DSched (EReturn (Some false))].

Lemma fs_quiet : quiet fs_r0.
Proof.
  split; [reflexivity|].
  intros b. destruct b as [|[|b]]; [vm_compute; split; discriminate ..|].
  change (get_state (rs_bs fs_r0) (S (S b))) with (nth b (@nil bstate) Unknown).
  destruct b; split; discriminate.
Qed.

Example fancy_sched_nonvacuous :
  exists r',
    (* the premises of the theorem *)
    quiet fs_r0 /\ accepts fs_cf fs_r0 (sched_part fs_items) = Some r' /\ others_ok [] fs_items /\
    (* the run is a whole run of the loop, with both commands on display at some point *)
    rs_ctl r' = CReturned (Some false) /\
    bs_states (rs_bs r') = [Done; Failed] /\
    disp_of [] (firstn 10 (sched_part fs_items)) = [0; 1] /\
    disp_of [] (sched_part fs_items) = [] /\
    (* the operations the display sees *)
    fop_part fs_cf fs_info (fun i => N.of_nat (100 * i)) (fun _ => false) (fun _ => bs "boom") fs_items =
      [FUpdate (mkCounts 0 0 2 0 0 0);
       FStart 0 500 (Some (bs "CC foo.o")) (Some (bs "cc -c foo.c"));
       FStart 1 1000 None (Some (bs "cc -c bar.c"));
       FOutput 1 [119; 255; 33]%N; FPrint 3500 12;
       FFinish 0 (Some (bs "CC foo.o")) (Some (bs "cc -c foo.c")) false 0%N (bs "boom");
       FLog (bs "note"); FOutput 1 (bs "again");
       FFinish 1 None (Some (bs "cc -c bar.c")) false 2%N (bs "boom");
       FPrint 4000 12] /\
    (* and the conclusion, obtained from the theorem *)
    proto_ok [] (fop_part fs_cf fs_info (fun i => N.of_nat (100 * i)) (fun _ => false) (fun _ => bs "boom") fs_items).
Proof.
  eexists.
  split; [exact fs_quiet|]. split; [vm_compute; reflexivity|].
  assert (Ho : others_ok [] fs_items).
  { cbn. repeat split; try lia; exists 1%nat; cbn; auto. }
  split; [exact Ho|].
  split; [reflexivity|]. split; [reflexivity|]. split; [reflexivity|]. split; [reflexivity|].
  split; [vm_compute; reflexivity|].
  eapply scheduler_respects_display_protocol; [exact fs_quiet | vm_compute; reflexivity | exact Ho].
Qed.

(* without the scheduler's discipline the display does panic: a completion for a build that was
   never started, and the start of a phony step (one without description) *)
Example fancy_sched_discipline_needed :
  f_run0 false (fop_part fs_cf fs_info (fun _ => 0%N) (fun _ => false) (fun _ => [])
                         [DSched (EFinish 0 TSuccess)]) = Panic 34%N /\
  f_run0 false (fop_part (mkConfig (mkGraph [mkBuild [] 0 0 0 [0] false None; mkBuild [0] 1 0 0 [] true None] []) 1 false)
                         fs_info (fun _ => 0%N) (fun _ => false) (fun _ => [])
                         [DSched (EStart 1)]) = Panic 32%N.
Proof. split; vm_compute; reflexivity. Qed.

Print Assumptions scheduler_display_discipline.
Print Assumptions scheduler_respects_display_protocol.
Print Assumptions scheduler_display_never_panics.
Print Assumptions fancy_sched_nonvacuous.

(* ---- a fresh Work is quiet: the premise of the theorems above holds when Work::run is entered ---- *)
From N2 Require Import Proofs.SchedWantInv Proofs.SchedRunCore.

Lemma fresh_work_quiet cf decls s fl :
  graph_wf (cf_graph cf) ->
  wanted (cf_graph cf) (bs_new (length (g_builds (cf_graph cf))) decls) s ->
  quiet (run_init s fl).
Proof.
  intros Hwf W. split; [reflexivity|]. intro b. cbn [run_init rs_bs].
  destruct (wanted_frame_holds (cf_graph cf) Hwf _ _ b W) as [E|(_ & [E|E])]; rewrite E;
    [rewrite get_state_bs_new|..]; split; discriminate.
Qed.
