(* C10 round trip, stage 3: whole statements and Parser::read. *)
From Coq Require Import String.
From N2 Require Import Model.All Proofs.ParseSpell Proofs.ParseRoundScan Proofs.ParseRound1 Proofs.ParseRound2.

(* what Parser::read does once it has read an identifier and the white space behind it
   (same text as the model, see [parser_read_ident]) *)
Definition pr_dispatch (fixed : bool) (fuel : nat) (ident : bytes) (s : scanner) (vs : vars)
  : sres (option statement * vars) :=
  if bytes_eqb ident (bs "rule") then sdo (st, s) <- read_rule fixed fuel s; SOk (Some st, vs) s
  else if bytes_eqb ident (bs "build") then sdo (st, s) <- read_build fixed fuel s; SOk (Some st, vs) s
  else if bytes_eqb ident (bs "default") then sdo (st, s) <- read_default fuel s; SOk (Some st, vs) s
  else if bytes_eqb ident (bs "include") then
    sdo (e, s) <- read_eval fuel false s; SOk (Some (SInclude e), vs) s
  else if bytes_eqb ident (bs "subninja") then
    sdo (e, s) <- read_eval fuel false s; SOk (Some (SSubninja e), vs) s
  else if bytes_eqb ident (bs "pool") then sdo (st, s) <- read_pool fixed fuel s; SOk (Some st, vs) s
  else
    sdo (v, s) <- read_vardef fixed fuel s;
    parser_read fixed fuel s (bind_step vs ident v).

Lemma ws_ne_head w Y : ws w -> w <> [] -> exists c r, w ++ Y = c :: r /\ is_ident_char c = false.
Proof.
  intros Hw Hne. destruct Hw; [contradiction| |]; cbn [app]; eexists _, _; (split; [reflexivity|]); reflexivity.
Qed.

Lemma ident_ws_stop k Y : ident k -> ws_stop (k ++ Y).
Proof.
  intro Hk. destruct (ident_head k Hk) as (c & r & -> & Hc).
  pose proof (ident_char_not c Hc) as (_ & _ & _ & H32 & _ & H36). cbn [app]. now apply ws_stop_of.
Qed.

Lemma is_keyword_false k :
  is_keyword k = false ->
  bytes_eqb k (bs "rule") = false /\ bytes_eqb k (bs "build") = false /\
  bytes_eqb k (bs "default") = false /\ bytes_eqb k (bs "include") = false /\
  bytes_eqb k (bs "subninja") = false /\ bytes_eqb k (bs "pool") = false.
Proof.
  unfold is_keyword. cbn [existsb]. intro H.
  repeat (apply orb_false_iff in H as [? H]). repeat split; assumption.
Qed.

Lemma spells_paths_nil ps : spells_paths ps [] -> ps = [].
Proof.
  intro H. remember (@nil N) as P eqn:EP. destruct H as [|e es t w r Ht Hw Hne Hr]; [reflexivity|].
  apply app_eq_nil in EP as [-> _]. destruct Ht as (_ & Htne & _). congruence.
Qed.

Ltac kw_eval :=
  repeat match goal with
  | |- context [bytes_eqb (bs ?a) (bs ?b)] =>
    let v := eval vm_compute in (bytes_eqb (bs a) (bs b)) in
    change (bytes_eqb (bs a) (bs b)) with v
  end; cbv iota.

Section R3.
  Variable buf : bytes.
  Variable L0 : Z.
  Hypothesis Hno13 : ~ In 13%N buf.

  Notation at_ := (at_ buf L0).

  Variable fixed : bool.

  (* -------------------------------------------------------------------------------- *)
  (* identifier, white space, dispatch *)

  Lemma parser_read_ident k w Y pre s f vs :
    ident k -> ws w -> (exists c r, w ++ Y = c :: r /\ is_ident_char c = false) -> ws_stop Y ->
    at_ s pre (k ++ w ++ Y) ->
    parser_read fixed (S f) s vs = SFuel \/
    exists s2, at_ s2 (pre ++ k ++ w) Y /\
               parser_read fixed (S f) s vs = pr_dispatch fixed f k s2 vs.
  Proof.
    intros Hk Hw (c & r & Ecr & Hc) HY Hat. cbn [parser_read].
    destruct (ident_head k Hk) as (kc & kr & Ek & Hkc).
    pose proof (ident_char_not kc Hkc) as (H0 & H9 & H10 & H32 & H35 & _).
    assert (Hat0 : at_ s pre (kc :: kr ++ w ++ Y)) by (rewrite Ek in Hat; exact Hat).
    rewrite (peek_at _ _ _ _ _ _ Hat0). cbn [sbind].
    apply N.eqb_neq in H0, H9, H10, H32, H35. rewrite H0, H10, H35, H32, H9. cbn [orb]. cbv iota.
    assert (Hat1 : at_ s pre (k ++ c :: r)) by (rewrite <- Ecr; exact Hat).
    destruct Hk as (Hkne & Hkall).
    destruct (read_ident_gen_at buf L0 Hno13 is_ident_char (bs "failed to scan ident") k pre c r s f
                                Hkne Hkall Hat1 Hc) as [E|(v & s1 & E & -> & H1)];
      unfold read_ident; rewrite E; [now left|]. cbn [sbind].
    assert (H1' : at_ s1 (pre ++ k) (w ++ Y)) by (rewrite Ecr; exact H1).
    destruct (p_skip_spaces_at buf L0 Hno13 w Hw _ _ s1 f H1' HY) as [E2|(u & s2 & E2 & H2)];
      rewrite E2; [now left|]. cbn [sbind].
    right. exists s2. split; [|reflexivity].
    eapply at_eq; [exact H2 | now norm_app | reflexivity].
  Qed.

  (* -------------------------------------------------------------------------------- *)
  (* what may stand in front of a statement *)

  Lemma skip_comment_at c : forallb comment_char c = true -> forall pre Y s f,
    at_ s pre (c ++ 10%N :: Y) ->
    pc (fun _ s' => at_ s' (pre ++ c ++ [10%N]) Y) (skip_comment f s).
  Proof.
    induction c as [|x c IH]; intros Hall pre Y s f Hat;
      (destruct f as [|f]; [apply pc_fuel|]); cbn [skip_comment app] in *.
    - destruct (read_at _ _ _ _ _ _ Hat) as (s1 & E1 & H1). rewrite E1. cbn [sbind].
      change (10 =? 0)%N with false. change (10 =? 10)%N with true. cbv iota.
      apply pc_ok. exact H1.
    - cbn [forallb] in Hall. apply andb_true_iff in Hall as [Hx Hall].
      unfold comment_char in Hx. apply negb_true_iff in Hx.
      apply orb_false_iff in Hx as [Hx _]. apply orb_false_iff in Hx as [Hx0 Hx10].
      destruct (read_at _ _ _ _ _ _ Hat) as (s1 & E1 & H1). rewrite E1. cbn [sbind].
      rewrite Hx0, Hx10.
      eapply pc_mono; [apply (IH Hall (pre ++ [x]) Y s1 f H1)|].
      intros ? s' Hs'. eapply at_eq; [exact Hs' | now norm_app | reflexivity].
  Qed.

  Lemma pre_at F vs vs' : spells_pre vs vs' F ->
    forall (P : sres (option statement * vars) -> Prop) Z, P SFuel ->
    forall pre s f, at_ s pre (F ++ Z) ->
    (forall s' f', at_ s' (pre ++ F) Z -> P (parser_read fixed f' s' vs')) ->
    P (parser_read fixed f s vs).
  Proof.
    induction 1 as [vs|vs vs' t Ht IH|c vs vs' t Hc Ht IH|k w1 w2 e v vs vs' t Hk Hkw Hw1 Hw2 Hv Ht IH];
      intros P Z HF pre s f Hat Hcont.
    - apply Hcont. now rewrite app_nil_r.
    - destruct f as [|f]; [exact HF|]. cbn [parser_read app] in *.
      rewrite (peek_at _ _ _ _ _ _ Hat). cbn [sbind].
      change (10 =? 0)%N with false. change (10 =? 10)%N with true. cbv iota.
      destruct (read_at _ _ _ _ _ _ Hat) as (s1 & E1 & H1). rewrite E1. cbn [sbind].
      apply (IH P Z HF _ s1 f H1). intros s' f' Hs'. apply Hcont.
      eapply at_eq; [exact Hs' | now norm_app | reflexivity].
    - destruct f as [|f]; [exact HF|]. cbn [parser_read app] in *.
      rewrite (peek_at _ _ _ _ _ _ Hat). cbn [sbind].
      change (35 =? 0)%N with false. change (35 =? 10)%N with false. change (35 =? 35)%N with true.
      cbv iota.
      assert (Hat' : at_ s pre ((35%N :: c) ++ 10%N :: t ++ Z))
        by (eapply at_eq; [exact Hat | reflexivity | now norm_app]).
      eapply pc_bind; [apply (skip_comment_at (35%N :: c) ltac:(cbn [forallb]; now rewrite Hc) pre _ s f Hat')
                      | exact HF|].
      intros ? s1 H1. cbv beta.
      apply (IH P Z HF _ s1 f H1). intros s' f' Hs'. apply Hcont.
      eapply at_eq; [exact Hs' | now norm_app | reflexivity].
    - destruct f as [|f]; [exact HF|].
      set (Y := 61%N :: w2 ++ v ++ 10%N :: t ++ Z).
      assert (Hat' : at_ s pre (k ++ w1 ++ Y))
        by (eapply at_eq; [exact Hat | reflexivity | subst Y; now norm_app]).
      destruct (parser_read_ident k w1 Y pre s f vs Hk Hw1
                  (ws_then_head w1 61%N _ Hw1 eq_refl) (ws_stop_of 61%N _ ltac:(discriminate) ltac:(discriminate)) Hat')
        as [E|(s2 & H2 & E)]; rewrite E; [exact HF|].
      unfold pr_dispatch.
      destruct (is_keyword_false k Hkw) as (K1 & K2 & K3 & K4 & K5 & K6).
      rewrite K1, K2, K3, K4, K5, K6.
      eapply pc_bind; [apply (vardef_at buf L0 Hno13 fixed e w2 v _ (t ++ Z) s2 f Hw2 Hv H2) | exact HF|].
      intros v' s3 (Hatoms & H3). cbv beta.
      replace (bind_step vs k v') with (bind_step vs k e)
        by (unfold bind_step; now rewrite (evaluate_atoms_eq _ _ _ Hatoms)).
      apply (IH P Z HF _ s3 f H3). intros s' f' Hs'. apply Hcont.
      eapply at_eq; [exact Hs' | now norm_app | reflexivity].
  Qed.

  (* -------------------------------------------------------------------------------- *)
  (* the statements *)

  Lemma rule_like_at valid name bl t pre X s f :
    ident name -> spells_block valid bl t -> no_space_head X -> at_ s pre (name ++ 10%N :: t ++ X) ->
    pc (fun r s' => at_ s' (pre ++ name ++ 10%N :: t) X /\ fst r = name /\
                    vl_atoms (snd r) = vl_atoms (block_vars bl))
       (sdo (name, s) <- read_ident f s;
        sdo (_, s) <- sc_expect 10%N s;
        sdo (vs, s) <- read_scoped_vars fixed f valid s [];
        SOk (name, vs) s).
  Proof.
    intros (Hne & Hall) Hbl HX Hat.
    eapply pc_bind;
      [apply (read_ident_gen_at buf L0 Hno13 is_ident_char (bs "failed to scan ident") name pre 10%N
                                (t ++ X) s f Hne Hall Hat eq_refl)
      | apply pc_fuel|].
    intros v s1 (-> & H1). cbv beta.
    destruct (expect_at _ _ _ _ _ _ H1) as (s2 & E2 & H2). rewrite E2. cbn [sbind].
    eapply pc_bind;
      [apply (block_at buf L0 Hno13 fixed valid bl t Hbl _ X s2 f [] [] HX H2 eq_refl) | apply pc_fuel|].
    intros vs s3 (H3 & Hvs). cbv beta. apply pc_ok. split; [|split; [reflexivity | exact Hvs]].
    eapply at_eq; [exact H3 | now norm_app | reflexivity].
  Qed.

  Lemma rule_at name bl t pre X s f :
    ident name -> spells_block rule_var_ok bl t -> no_space_head X ->
    at_ s pre (name ++ 10%N :: t ++ X) ->
    pc (fun st s' => at_ s' (pre ++ name ++ 10%N :: t) X /\
                     exists vs, st = SRule name vs /\ vl_atoms vs = vl_atoms (block_vars bl))
       (read_rule fixed f s).
  Proof.
    intros Hn Hbl HX Hat. unfold read_rule.
    pose proof (rule_like_at rule_var_ok name bl t pre X s f Hn Hbl HX Hat) as Hpc.
    destruct (read_ident f s) as [n1 s1| | | |]; cbn [sbind] in *;
      try (destruct Hpc as [E|(r & s' & E & _)]; discriminate E); [|apply pc_fuel].
    destruct (sc_expect 10%N s1) as [u s2| | | |]; cbn [sbind] in *;
      try (destruct Hpc as [E|(r & s' & E & _)]; discriminate E); [|apply pc_fuel].
    destruct (read_scoped_vars fixed f rule_var_ok s2 []) as [vs s3| | | |]; cbn [sbind] in *;
      try (destruct Hpc as [E|(r & s' & E & _)]; discriminate E); [|apply pc_fuel].
    destruct Hpc as [E|(r & s' & E & H' & Hn1 & Hvs)]; [discriminate E|].
    injection E as <- <-. cbn [fst snd] in *. subst n1.
    apply pc_ok. split; [exact H'|]. exists vs. auto.
  Qed.

  Lemma pool_at name bl t pre X s f :
    ident name -> spells_block depth_key bl t -> no_space_head X ->
    at_ s pre (name ++ 10%N :: t ++ X) ->
    read_pool fixed f s = SFuel \/
    exists vs s', at_ s' (pre ++ name ++ 10%N :: t) X /\ vl_atoms vs = vl_atoms (block_vars bl) /\
      read_pool fixed f s =
      match vs with
      | [] => SOk (SPool name 0) s'
      | (_, v) :: _ =>
        match parse_usize (evaluate [] v) with
        | inl d => SOk (SPool name d) s'
        | inr m => sc_parse_error (bs "pool depth: " ++ m) s'
        end
      end.
  Proof.
    intros Hn Hbl HX Hat. unfold read_pool.
    pose proof (rule_like_at depth_key name bl t pre X s f Hn Hbl HX Hat) as Hpc.
    unfold depth_key in Hpc.
    destruct (read_ident f s) as [n1 s1| | | |]; cbn [sbind] in *;
      try (destruct Hpc as [E|(r & s' & E & _)]; discriminate E); [|now left].
    destruct (sc_expect 10%N s1) as [u s2| | | |]; cbn [sbind] in *;
      try (destruct Hpc as [E|(r & s' & E & _)]; discriminate E); [|now left].
    destruct (read_scoped_vars fixed f (fun n => bytes_eqb n (bs "depth")) s2 []) as [vs s3| | | |];
      cbn [sbind] in *;
      try (destruct Hpc as [E|(r & s' & E & _)]; discriminate E); [|now left].
    destruct Hpc as [E|(r & s' & E & H' & Hn1 & Hvs)]; [discriminate E|].
    injection E as <- <-. cbn [fst snd] in *. subst n1.
    right. exists vs, s3. auto.
  Qed.

  Lemma default_at ps P pre X s f :
    ps <> [] -> spells_paths ps P -> at_ s pre (P ++ 10%N :: X) ->
    pc (fun st s' => at_ s' (pre ++ P ++ [10%N]) X /\
                     exists es', st = SDefault es' /\ map atoms es' = map atoms ps)
       (read_default f s).
  Proof.
    intros Hps HP Hat. unfold read_default.
    assert (Hat' : at_ s pre ([] ++ P ++ 10%N :: X)) by exact Hat.
    eapply pc_bind;
      [apply (upaths_at buf L0 Hno13 ps [] P _ _ s f [] ws_nil HP (paths_stop_10 _) Hat') | apply pc_fuel|].
    intros ds s3 (H3 & es' & -> & Hes'). cbv beta. cbn [app] in *.
    destruct es' as [|e1 es'].
    { apply map_atoms_length in Hes'. destruct ps; [contradiction | discriminate Hes']. }
    destruct (expect_at _ _ _ _ _ _ H3) as (s4 & E4 & H4). rewrite E4. cbn [sbind]. apply pc_ok. split.
    - eapply at_eq; [exact H4 | now norm_app | reflexivity].
    - eexists. split; [reflexivity | exact Hes'].
  Qed.

  Definition stmt_post (st : statement) (vs : vars) (pre txt X : bytes)
             (r : option statement * vars) (s' : scanner) : Prop :=
    at_ s' (pre ++ txt) X /\ exists st', r = (Some st', vs) /\ norm_stmt st' = norm_stmt st.

  Lemma stmt_at st txt pre X s f vs :
    spells_stmt (L0 + nlz pre) st txt -> follow_ok st X -> at_ s pre (txt ++ X) ->
    pc (stmt_post st vs pre txt X) (parser_read fixed f s vs).
  Proof.
    intros Hst HX Hat. destruct f as [|f]; [apply pc_fuel|].
    destruct Hst as [w name bl t Hw Hwne Hname Hbl
                    |w name Hw Hwne Hname
                    |w name e d t Hw Hwne Hname Hbl Hd
                    |w ps P Hw Hps HP Hnih
                    |w e v Hw Hv Hvne Hnih
                    |w e v Hw Hv Hvne Hnih
                    |w d L bl t Hw HL Hnih Hbl].
    - (* rule *)
      destruct HX as (xc & xr & -> & Hxc). cbv iota in Hxc.
      set (Y := name ++ 10%N :: t ++ xc :: xr).
      assert (Hat' : at_ s pre (bs "rule" ++ w ++ Y))
        by (eapply at_eq; [exact Hat | reflexivity | subst Y; now norm_app]).
      destruct (parser_read_ident (bs "rule") w Y pre s f vs ltac:(split; [discriminate | reflexivity]) Hw
                  (ws_ne_head w Y Hw Hwne) (ident_ws_stop name _ Hname) Hat')
        as [E|(s2 & H2 & E)]; rewrite E; [apply pc_fuel|].
      unfold pr_dispatch. kw_eval.
      eapply pc_bind;
        [apply (rule_at name bl t _ (xc :: xr) s2 f Hname Hbl ltac:(exists xc, xr; auto) H2) | apply pc_fuel|].
      intros st' s3 (H3 & vs' & -> & Hvs). cbv beta. apply pc_ok. split.
      + eapply at_eq; [exact H3 | now norm_app | reflexivity].
      + eexists. split; [reflexivity|]. cbn [norm_stmt]. now rewrite (norm_vars_of_atoms _ _ Hvs).
    - (* pool without depth *)
      destruct HX as (xc & xr & -> & Hxc). cbv iota in Hxc.
      set (Y := name ++ 10%N :: [] ++ xc :: xr).
      assert (Hat' : at_ s pre (bs "pool" ++ w ++ Y))
        by (eapply at_eq; [exact Hat | reflexivity | subst Y; now norm_app]).
      destruct (parser_read_ident (bs "pool") w Y pre s f vs ltac:(split; [discriminate | reflexivity]) Hw
                  (ws_ne_head w Y Hw Hwne) (ident_ws_stop name _ Hname) Hat')
        as [E|(s2 & H2 & E)]; rewrite E; [apply pc_fuel|].
      unfold pr_dispatch. kw_eval.
      destruct (pool_at name [] [] _ (xc :: xr) s2 f Hname (sb_nil _) ltac:(exists xc, xr; auto) H2)
        as [E2|(vs' & s3 & H3 & Hvs & E2)]; rewrite E2; [apply pc_fuel|].
      destruct vs' as [|kv vs']; [|discriminate Hvs]. cbn [sbind]. apply pc_ok. split.
      + eapply at_eq; [exact H3 | now norm_app | reflexivity].
      + eexists. split; reflexivity.
    - (* pool with depth *)
      destruct HX as (xc & xr & -> & Hxc). cbv iota in Hxc.
      set (Y := name ++ 10%N :: t ++ xc :: xr).
      assert (Hat' : at_ s pre (bs "pool" ++ w ++ Y))
        by (eapply at_eq; [exact Hat | reflexivity | subst Y; now norm_app]).
      destruct (parser_read_ident (bs "pool") w Y pre s f vs ltac:(split; [discriminate | reflexivity]) Hw
                  (ws_ne_head w Y Hw Hwne) (ident_ws_stop name _ Hname) Hat')
        as [E|(s2 & H2 & E)]; rewrite E; [apply pc_fuel|].
      unfold pr_dispatch. kw_eval.
      destruct (pool_at name _ t _ (xc :: xr) s2 f Hname Hbl ltac:(exists xc, xr; auto) H2)
        as [E2|(vs' & s3 & H3 & Hvs & E2)]; rewrite E2; [apply pc_fuel|].
      destruct vs' as [|[k1 v1] [|kv2 vs']]; cbn in Hvs; try discriminate Hvs.
      injection Hvs as _ Hv1.
      rewrite (evaluate_atoms_eq [] v1 e Hv1), Hd. cbn [sbind]. apply pc_ok. split.
      + eapply at_eq; [exact H3 | now norm_app | reflexivity].
      + eexists. split; reflexivity.
    - (* default *)
      destruct HX as (xc & xr & -> & Hxc). cbv iota in Hxc.
      set (Y := P ++ 10%N :: xc :: xr).
      assert (Hat' : at_ s pre (bs "default" ++ w ++ Y))
        by (eapply at_eq; [exact Hat | reflexivity | subst Y; now norm_app]).
      assert (Hhd : exists c r, w ++ Y = c :: r /\ is_ident_char c = false).
      { subst Y. destruct (w ++ P) as [|c r] eqn:E.
        - apply app_eq_nil in E as [_ ->]. apply spells_paths_nil in HP. contradiction.
        - exists c, (r ++ 10%N :: xc :: xr). split; [|exact Hnih].
          rewrite app_assoc, E. reflexivity. }
      destruct (parser_read_ident (bs "default") w Y pre s f vs ltac:(split; [discriminate | reflexivity]) Hw
                  Hhd (paths_ws_stop ps P _ HP (paths_stop_10 _)) Hat')
        as [E|(s2 & H2 & E)]; rewrite E; [apply pc_fuel|].
      unfold pr_dispatch. kw_eval.
      eapply pc_bind; [apply (default_at ps P _ (xc :: xr) s2 f Hps HP H2) | apply pc_fuel|].
      intros st' s3 (H3 & es' & -> & Hes'). cbv beta. apply pc_ok. split.
      + eapply at_eq; [exact H3 | now norm_app | reflexivity].
      + eexists. split; [reflexivity|]. cbn [norm_stmt]. now rewrite (map_norm_of_atoms _ _ Hes').
    - (* include *)
      destruct HX as (xc & xr & -> & Hxc). cbv iota in Hxc. subst xc.
      destruct (value_head e v Hv Hvne) as (c & r & Ecr & H32 & H10 & H36).
      set (Y := v ++ 10%N :: xr).
      assert (Hat' : at_ s pre (bs "include" ++ w ++ Y))
        by (eapply at_eq; [exact Hat | reflexivity | subst Y; now norm_app]).
      assert (Hhd : exists c r, w ++ Y = c :: r /\ is_ident_char c = false).
      { subst Y. destruct (w ++ v) as [|c' r'] eqn:E.
        - apply app_eq_nil in E as [_ ->]. contradiction.
        - exists c', (r' ++ 10%N :: xr). split; [|exact Hnih]. rewrite app_assoc, E. reflexivity. }
      destruct (parser_read_ident (bs "include") w Y pre s f vs ltac:(split; [discriminate | reflexivity]) Hw
                  Hhd (value_ws_stop e v xr Hv) Hat')
        as [E|(s2 & H2 & E)]; rewrite E; [apply pc_fuel|].
      unfold pr_dispatch. kw_eval.
      destruct Hv as (Hsp & _).
      eapply pc_bind;
        [apply (read_eval_spells buf L0 Hno13 false e v _ (10%N :: xr) s2 f Hsp Hvne
                                 ltac:(eexists _, _; split; [reflexivity | now left]) H2)
        | apply pc_fuel|].
      intros e' s3 (H3 & Hatoms & _). cbv beta. apply pc_ok. split.
      + eapply at_eq; [exact H3 | now norm_app | reflexivity].
      + eexists. split; [reflexivity|]. cbn [norm_stmt]. f_equal. now apply norm_eval_iff.
    - (* subninja *)
      destruct HX as (xc & xr & -> & Hxc). cbv iota in Hxc. subst xc.
      destruct (value_head e v Hv Hvne) as (c & r & Ecr & H32 & H10 & H36).
      set (Y := v ++ 10%N :: xr).
      assert (Hat' : at_ s pre (bs "subninja" ++ w ++ Y))
        by (eapply at_eq; [exact Hat | reflexivity | subst Y; now norm_app]).
      assert (Hhd : exists c r, w ++ Y = c :: r /\ is_ident_char c = false).
      { subst Y. destruct (w ++ v) as [|c' r'] eqn:E.
        - apply app_eq_nil in E as [_ ->]. contradiction.
        - exists c', (r' ++ 10%N :: xr). split; [|exact Hnih]. rewrite app_assoc, E. reflexivity. }
      destruct (parser_read_ident (bs "subninja") w Y pre s f vs ltac:(split; [discriminate | reflexivity]) Hw
                  Hhd (value_ws_stop e v xr Hv) Hat')
        as [E|(s2 & H2 & E)]; rewrite E; [apply pc_fuel|].
      unfold pr_dispatch. kw_eval.
      destruct Hv as (Hsp & _).
      eapply pc_bind;
        [apply (read_eval_spells buf L0 Hno13 false e v _ (10%N :: xr) s2 f Hsp Hvne
                                 ltac:(eexists _, _; split; [reflexivity | now left]) H2)
        | apply pc_fuel|].
      intros e' s3 (H3 & Hatoms & _). cbv beta. apply pc_ok. split.
      + eapply at_eq; [exact H3 | now norm_app | reflexivity].
      + eexists. split; [reflexivity|]. cbn [norm_stmt]. f_equal. now apply norm_eval_iff.
    - (* build *)
      destruct HX as (xc & xr & -> & Hxc). cbv iota in Hxc.
      set (Y := L ++ t ++ xc :: xr).
      assert (Hat' : at_ s pre (bs "build" ++ w ++ Y))
        by (eapply at_eq; [exact Hat | reflexivity | subst Y; now norm_app]).
      pose proof HL as (P & IO & w' & I1 & T & EL & HP & HIO & _).
      assert (HYstop : ws_stop Y).
      { subst Y. rewrite EL.
        replace ((P ++ IO ++ [58%N] ++ w' ++ d_rule d ++ I1 ++ T) ++ t ++ xc :: xr)
          with (P ++ IO ++ 58%N :: w' ++ d_rule d ++ I1 ++ T ++ t ++ xc :: xr) by now norm_app.
        apply (paths_ws_stop _ P _ HP). destruct HIO; [apply paths_stop_58 | apply paths_stop_124]. }
      assert (Hhd : exists c r, w ++ Y = c :: r /\ is_ident_char c = false).
      { subst Y. destruct (w ++ L) as [|c' r'] eqn:E.
        - apply app_eq_nil in E as [_ ->]. destruct P; destruct IO; discriminate EL.
        - exists c', (r' ++ t ++ xc :: xr). split; [|exact Hnih]. rewrite app_assoc, E. reflexivity. }
      destruct (parser_read_ident (bs "build") w Y pre s f vs ltac:(split; [discriminate | reflexivity]) Hw
                  Hhd HYstop Hat')
        as [E|(s2 & H2 & E)]; rewrite E; [apply pc_fuel|].
      unfold pr_dispatch. kw_eval.
      eapply pc_bind;
        [apply (build_at buf L0 Hno13 fixed d L bl t (xc :: xr) _ s2 f HL Hbl ltac:(exists xc, xr; auto) H2)
        | apply pc_fuel|].
      intros st' s3 (H3 & b & -> & Hb). cbv beta. apply pc_ok. split.
      + eapply at_eq; [exact H3 | now norm_app | reflexivity].
      + eexists. split; [reflexivity|]. cbn [norm_stmt]. f_equal. rewrite Hb. do 2 f_equal.
        rewrite !nlz_app. change (nlz (bs "build")) with 0%Z. lia.
  Qed.

  (* S3: filler and file-level bindings, then one statement *)
  Lemma read_stmt_at F st txt vs vs' pre X s f :
    spells_pre vs vs' F -> spells_stmt (L0 + nlz (pre ++ F)) st txt -> follow_ok st X ->
    at_ s pre (F ++ txt ++ X) ->
    pc (stmt_post st vs' pre (F ++ txt) X) (parser_read fixed f s vs).
  Proof.
    intros HF Hst HX Hat.
    apply (pre_at F vs vs' HF (pc (stmt_post st vs' pre (F ++ txt) X)) (txt ++ X) (pc_fuel _) pre s f Hat).
    intros s' f' Hs'.
    eapply pc_mono; [apply (stmt_at st txt (pre ++ F) X s' f' vs' Hst HX Hs')|].
    intros r s2 (H2 & Hr). split; [|exact Hr].
    eapply at_eq; [exact H2 | now norm_app | reflexivity].
  Qed.

  (* filler and file-level bindings, then the end of the file *)
  Lemma read_eof_at F vs vs' pre s f :
    spells_pre vs vs' F -> at_ s pre (F ++ [0%N]) ->
    pc (fun r s' => r = (None, vs') /\ at_ s' (pre ++ F) [0%N]) (parser_read fixed f s vs).
  Proof.
    intros HF Hat.
    apply (pre_at F vs vs' HF (pc (fun r s' => r = (None, vs') /\ at_ s' (pre ++ F) [0%N])) [0%N]
                  (pc_fuel _) pre s f Hat).
    intros s' f' Hs'. destruct f' as [|f']; [apply pc_fuel|]. cbn [parser_read].
    rewrite (peek_at _ _ _ _ _ _ Hs'). cbn [sbind]. change (0 =? 0)%N with true. cbv iota.
    apply pc_ok. auto.
  Qed.
End R3.
