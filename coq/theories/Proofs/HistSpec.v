(* Specification vocabulary for the capstone of C02: whole HISTORIES of edits and invocations.
   Definitions only.

   The premises of the property, as they are modelled here:

   H-mtime  every write of a file gives it an mtime it never had before.  Its only consequence
            that is ever used is "the same name with the same mtime at two points of the history
            has the same content"; that consequence is modelled directly: the content of a file
            is a function [stamp name mtime] that is fixed for the whole history (a Section
            variable, universally quantified in every theorem).  A tree (name -> option mtime)
            therefore determines its contents: [cont fs].
   H-cmd    commands are deterministic and hermetic.  The semantics of a command is an oracle
            [cmd cmdline rspfile tree-contents = (contents of the files it writes, names it reports)];
            [hermetic bd]: the result is the same on any two trees that agree on the declared
            dirtying inputs of the step and on the (canonical forms of the) names the command
            reports on the first one.
   H-quiet  [writes_ok] (Proofs/JointSpec.v).
   reported dependencies are source files: [rep_ok].
   no hash collision between the manifests compared: the theorems are parametrised by a set
            [GR b m] of manifests ("the manifests recorded for step b in this history"); every
            manifest that is recorded must be in it ([trace_ok], the JRecord clause), and every
            manifest that a clean verdict hashes must not collide with any member for the same
            step ([trace_ok], the JVerdict clause).  [GR] can be chosen as exactly the finite set
            of manifests recorded in the history, so this is a per-comparison premise, not the
            (false) global injectivity of the hash.
   the manifest / graph is fixed along the history: [g], [wg] are Section variables. *)
From Coq Require Import String.
From N2 Require Import Model.All Proofs.SchedSpec Proofs.DbSpec Proofs.WorldSpec Proofs.WorldDirty
     Proofs.JointSpec.

Section HistSpec.
Variable content : Type.
Variable stamp : bytes -> mtime -> content.
Variable cmd : bytes -> option (bytes * bytes) -> (bytes -> option content) -> (bytes -> content) * list bytes.
Variable GR : nat -> manifest -> Prop.
Variable g : graph.
Variable wg : wgraph.

(* ------------------------------------------------------------------------------------ *)
(* contents, commands, freshness *)

(* the contents of a tree (H-mtime) *)
Definition cont (fs : fsmap) (n : bytes) : option content := option_map (stamp n) (fs_get fs n).

Definition cmdline_of (bd : wbuild) : bytes := match wb_cmdline bd with Some c => c | None => [] end.

(* what the command of step [bd] does on a tree with contents [c] *)
Definition run (bd : wbuild) (c : bytes -> option content) : (bytes -> content) * list bytes :=
  cmd (cmdline_of bd) (wb_rsp bd) c.

(* H-cmd for one step *)
Definition hermetic (bd : wbuild) : Prop :=
  forall c1 c2 : bytes -> option content,
    (forall n, In n (wb_dirtying bd) -> c2 n = c1 n) ->
    (forall n d, In n (snd (run bd c1)) -> n <> [] -> canon n = Ok d -> c2 d = c1 d) ->
    run bd c2 = run bd c1.

(* every output of the step exists and holds what the step's command produces from the tree as it is *)
Definition fresh (fs : fsmap) (bd : wbuild) : Prop :=
  forall o, In o (wb_outs bd) -> cont fs o = Some (fst (run bd (cont fs)) o).

(* ... and [deps] is the dependency list n2 keeps of what the command reports on this tree *)
Definition fresh_at (fs : fsmap) (bd : wbuild) (deps : list bytes) : Prop :=
  keep_deps (wb_dirtying bd) (snd (run bd (cont fs))) [] = Ok deps /\ fresh fs bd.

(* every mtime in the tree fits the hashed representation *)
Definition fs_wf (fs : fsmap) : Prop := Forall (fun e : bytes * mtime => wf_mtime (snd e) = true) fs.

Definition mt_wf (t : option mtime) : Prop := match t with Some t => wf_mtime t = true | None => True end.

(* reported dependencies are source files (and their canonical names can be hashed injectively) *)
Definition rep_ok (rep : option (list bytes)) : Prop :=
  forall n d, In n (reported_names rep) -> n <> [] -> canon n = Ok d ->
              producer_of wg d = None /\ wf_name d = true.

(* a successful finish of step b, observed on tree [fs]: the report and the outputs are what the
   oracle says (the declared inputs and reported dependencies of a running step do not change
   while it runs - H-quiet - so "the tree at the finish" is as good as "the tree it read") *)
Definition finish_ok (fs : fsmap) (b : nat) (rep : option (list bytes)) : Prop :=
  rep_ok rep /\ reported_names rep = snd (run (get_wbuild wg b) (cont fs)) /\ fresh fs (get_wbuild wg b).

(* the premises about the items of one invocation, threaded along the trace like [writes_ok]:
   [fs] is the tree, [lf] the last successful finish; [NCc b fs] is the no-collision premise for a
   clean verdict of step b on tree fs *)
Fixpoint trace_gen (NCc : nat -> fsmap -> Prop) (fs : fsmap) (lf : option (nat * option (list bytes)))
         (tr : list jitem) : Prop :=
  match tr with
  | [] => True
  | JWrite n t :: rest => mt_wf t /\ trace_gen NCc (fs_set fs n t) lf rest
  | JFinish b TSuccess rep :: rest => finish_ok fs b rep /\ trace_gen NCc fs (Some (b, rep)) rest
  | JFinish b _ rep :: rest => rep_ok rep /\ trace_gen NCc fs lf rest
  | JRecord b h :: rest =>
    (forall rep deps m0, lf = Some (b, rep) ->
       keep_deps (wb_dirtying (get_wbuild wg b)) (reported_names rep) [] = Ok deps ->
       fs_manifest fs (get_wbuild wg b) deps = Some m0 -> GR b m0) /\
    trace_gen NCc fs lf rest
  | JVerdict b VClean :: rest => NCc b fs /\ trace_gen NCc fs lf rest
  | _ :: rest => trace_gen NCc fs lf rest
  end.

(* the manifest a clean verdict of step b hashes ([disc0]: the dependency lists loaded from the
   log) does not collide with a recorded manifest of the step *)
Definition nc_fixed (disc0 : nat -> list bytes) (b : nat) (fs : fsmap) : Prop :=
  forall m m0, fs_manifest fs (get_wbuild wg b) (disc0 b) = Some m -> GR b m0 -> no_collision m m0.

Definition trace_ok (disc0 : nat -> list bytes) : fsmap -> option (nat * option (list bytes)) -> list jitem -> Prop :=
  trace_gen (nc_fixed disc0).

(* the records the invocation appends to the log (ghost: the list of records written so far);
   [JRecord b h] writes the outputs of b, the dependencies kept of the report of the finish
   before it, and h *)
Definition hist_rec_of (lf : option (nat * option (list bytes))) (b : nat) (h : N) : list wr :=
  match lf with
  | Some (_, rep) =>
    match keep_deps (wb_dirtying (get_wbuild wg b)) (reported_names rep) [] with
    | Ok deps => [wr_of (get_wbuild wg b) deps h]
    | _ => []
    end
  | None => []
  end.

Fixpoint trace_ws (lf : option (nat * option (list bytes))) (ws : list wr) (tr : list jitem) : list wr :=
  match tr with
  | [] => ws
  | JFinish b TSuccess rep :: rest => trace_ws (Some (b, rep)) ws rest
  | JRecord b h :: rest => trace_ws lf (ws ++ hist_rec_of lf b h) rest
  | _ :: rest => trace_ws lf ws rest
  end.

(* ------------------------------------------------------------------------------------ *)
(* the project: what is fixed along the history *)

Record static_ok : Prop := {
  so_wf : graph_wf g;
  so_agree : graphs_agree g wg;
  so_outs : forall b, b < length (g_builds g) -> wb_outs (get_wbuild wg b) <> [];
  so_names : forall b n, b < length (g_builds g) ->
     In n (wb_dirtying (get_wbuild wg b) ++ wb_outs (get_wbuild wg b)) -> wf_name n = true;
  so_cmd255 : forall b, b < length (g_builds g) -> no255 (cmdline_of (get_wbuild wg b)) = true;
  so_hermetic : forall b, b < length (g_builds g) -> wb_cmdline (get_wbuild wg b) <> None ->
     hermetic (get_wbuild wg b);
}.

(* ------------------------------------------------------------------------------------ *)
(* histories *)

Record invocation := mkInv {
  i_cf : config; i_decls : list (bytes * nat); i_s : bstates; i_fl : option nat; i_tr : list jitem
}.

Inductive hitem :=
| HEdit (n : bytes) (t : option mtime)        (* between invocations the user writes / removes any file *)
| HInvoke (inv : invocation).

(* what persists between invocations: the tree and the content of .n2_db ([] = no file); and,
   as a ghost, the list of the records written to the log so far *)
Record hstate := mkH { h_fs : fsmap; h_log : bytes; h_ws : list wr }.

(* the limits of the record format (finding F7 is what happens outside them) *)
Definition log_limits (ws : list wr) : Prop := Forall in_bounds ws /\ table_small ws.

Inductive hstep : hstate -> hitem -> hstate -> Prop :=
| hs_edit st n t : mt_wf t -> hstep st (HEdit n t) (mkH (fs_set (h_fs st) n t) (h_log st) (h_ws st))
| hs_invoke st inv w0 r w1 :
    cf_graph (i_cf inv) = g -> cf_adopt (i_cf inv) = false ->
    load_state wg (h_fs st) (h_log st) = Ok w0 ->
    wanted g (bs_new (length (g_builds g)) (i_decls inv)) (i_s inv) ->
    jaccepted (i_cf inv) wg (run_init (i_s inv) (i_fl inv)) w0 (i_tr inv) r w1 ->
    writes_ok wg [] (i_tr inv) ->
    trace_ok (disc_of w0) (h_fs st) None (i_tr inv) ->
    log_limits (trace_ws None (h_ws st) (i_tr inv)) ->
    hstep st (HInvoke inv) (mkH (ws_fs w1) (ws_log w1) (trace_ws None (h_ws st) (i_tr inv))).

Inductive hsteps : hstate -> list hitem -> hstate -> Prop :=
| hss_nil st : hsteps st [] st
| hss_cons st it st1 H st2 : hstep st it st1 -> hsteps st1 H st2 -> hsteps st (it :: H) st2.

(* ------------------------------------------------------------------------------------ *)
(* the history invariant *)

(* the record (deps, h) of step b has a provenance: some tree on which the manifest of the step
   hashed to h (and is a member of GR), and on which the step was fresh with exactly these deps *)
Definition prov (b : nat) (deps : list bytes) (h : N) : Prop :=
  exists fs0 m0, fs_wf fs0 /\ fs_manifest fs0 (get_wbuild wg b) deps = Some m0 /\ hash_build m0 = h /\
                 GR b m0 /\ fresh_at fs0 (get_wbuild wg b) deps.

Definition srcs (deps : list bytes) : Prop :=
  forall d, In d deps -> producer_of wg d = None /\ wf_name d = true.

(* every record in effect has a provenance *)
Definition recs_ok (ws : list wr) : Prop :=
  forall b, b < length (g_builds g) -> forall deps h,
    last_applicable (producer_of wg) ws b None = Some (deps, h) ->
    srcs deps /\ (wb_cmdline (get_wbuild wg b) <> None -> prov b deps h).

(* the log file is absent, or what a crash-free writer produced for the records [ws] *)
Definition hlog_is (log : bytes) (ws : list wr) : Prop :=
  (log = [] /\ ws = []) \/ exists wp, log_is wp ws /\ ws_log wp = log.

Definition HInv (st : hstate) : Prop :=
  fs_wf (h_fs st) /\ hlog_is (h_log st) (h_ws st) /\ log_limits (h_ws st) /\ recs_ok (h_ws st).

(* ------------------------------------------------------------------------------------ *)
(* what a clean build of the present sources produces *)

(* the content of file n after a clean build on the tree contents [c]: source files and outputs
   of phony steps are as they are; an output of a step with a command is what the command
   produces on the clean contents (recursion on the depth of the graph) *)
Fixpoint clean_cont (fuel : nat) (c : bytes -> option content) (n : bytes) : option content :=
  match producer_of wg n with
  | None => c n
  | Some b =>
    match wb_cmdline (get_wbuild wg b) with
    | None => c n
    | Some _ =>
      match fuel with
      | O => None
      | S f => Some (fst (run (get_wbuild wg b) (clean_cont f c)) n)
      end
    end
  end.

End HistSpec.
