(* C15, independent specification of "the discovered dependencies of a depfile".
   DEFINITIONS ONLY.  Nothing here mentions Model/Depfile.v (no [smallmap_extend], no
   [bytes_eqb]): only [bytes = list N] from Base, the stdlib list functions [filter], [remove],
   [map], [concat], [flat_map], and the stdlib decision procedure [list_eq_dec N.eq_dec].

   A depfile, abstractly, is the list of its `target: prerequisite ...` entries exactly as written,
   top to bottom ([dep_entries]).  The same target may head several entries. *)
From Coq Require Import List NArith.
From N2 Require Import Base.Base.
Import ListNotations.

Definition dep_entries := list (bytes * list bytes).

Definition bytes_dec : forall a b : bytes, {a = b} + {a <> b} := list_eq_dec N.eq_dec.

(* [e] is an entry for target [t] (also used for prerequisite occurrences tagged by target) *)
Definition is_for {V} (t : bytes) (e : bytes * V) : bool :=
  if bytes_dec (fst e) t then true else false.

(* the entries written for target [t], top to bottom *)
Definition entries_of (t : bytes) (es : dep_entries) : dep_entries := filter (is_for t) es.

(* the prerequisites written for target [t], in textual order *)
Definition prereqs_of (t : bytes) (es : dep_entries) : list bytes :=
  concat (map snd (entries_of t es)).

(* the distinct targets, in order of FIRST appearance: the first entry's target, then the distinct
   targets of the rest without it *)
Fixpoint targets (es : dep_entries) : list bytes :=
  match es with
  | [] => []
  | e :: r => fst e :: remove bytes_dec (fst e) (targets r)
  end.

(* what a depfile means: each distinct target (first-appearance order) with all its prerequisites
   (textual order) *)
Definition grouped (es : dep_entries) : list (bytes * list bytes) :=
  map (fun t => (t, prereqs_of t es)) (targets es).

(* the discovered dependencies *)
Definition all_deps (es : dep_entries) : list bytes := concat (map snd (grouped es)).

(* ---- vocabulary for the ORDER statement ---- *)

(* the purely textual reading: every prerequisite, top to bottom, left to right *)
Definition textual (es : dep_entries) : list bytes := concat (map snd es).

(* the whole entries, stably regrouped by target: for each distinct target in first-appearance
   order, its entries top to bottom.  Entries are moved whole, never split or reversed. *)
Definition regroup (es : dep_entries) : dep_entries :=
  flat_map (fun t => entries_of t es) (targets es).

(* some occurrence of [x] stands before some occurrence of [y] in [l] *)
Definition before {A} (l : list A) (x y : A) : Prop :=
  exists l1 l2, l = l1 ++ l2 /\ In x l1 /\ In y l2.

(* [t1] appears in [ts] at a place before which [t2] has not appeared: the first appearance of [t1]
   precedes the first appearance (if any) of [t2] *)
Definition first_before (ts : list bytes) (t1 t2 : bytes) : Prop :=
  exists a b, ts = a ++ t1 :: b /\ ~ In t2 a.

(* every prerequisite occurrence tagged with the target it was written under, textual order *)
Definition tagged (es : dep_entries) : list (bytes * bytes) :=
  flat_map (fun e => map (pair (fst e)) (snd e)) es.

(* no target is interrupted by another one: if the target of an entry occurs again later, it
   heads the very next entry *)
Fixpoint clustered (es : dep_entries) : Prop :=
  match es with
  | [] => True
  | e :: r => (In (fst e) (map fst r) -> exists e' r', r = e' :: r' /\ fst e' = fst e) /\ clustered r
  end.
