(* Safety theorems of the run loop (C01 C04 C05 C19), from the invariant RInv.
   The two facts about the want traversal are Section hypotheses here; SchedRunFinal.v
   discharges them. *)
From Coq Require Import Lia ZArith List Bool Arith.
From N2 Require Import Model.All Proofs.SchedSpec Proofs.SchedInv Proofs.SchedRunBase
     Proofs.SchedRunStep Proofs.SchedRunCore Proofs.SchedRunAux Proofs.SchedRunRInv.
Import ListNotations.

(* number of successful task completions reported in a trace *)
Fixpoint succ_finishes (tr : list event) : nat :=
  match tr with
  | [] => 0
  | EFinish _ TSuccess :: r => S (succ_finishes r)
  | _ :: r => succ_finishes r
  end.

(* a successful completion whose ESet Running Done has not happened yet *)
Definition pending_success (c : ctl) : nat :=
  match c with CFinished _ TSuccess _ => 1 | _ => 0 end.

(* the step is past its start: Running/Done/Failed and not waiting for its EStart *)
Definition past_start (r : rstate) (b : nat) : Prop :=
  In (get_state (rs_bs r) b) [Running; Done; Failed] /\ rs_ctl r <> CStarting b.

Section RunThms.
Variable cf : config.
Variable decls : list (bytes * nat).
Notation g := (cf_graph cf).
Notation nb := (length (g_builds (cf_graph cf))).

(* ------------------------------------------------------------------------------------ *)
(* shape of one accepted event: at most one entry of the state vector changes, along one
   of the six transitions *)

Lemma set_shape s b st s' :
  length (bs_states s) = nb -> get_state s b <> Unknown ->
  bs_set s b (get_build g b) st = Ok s' ->
  b < nb /\ get_state s' b = st /\ upd_at s s' b.
Proof.
  intros Hl Hne Hs.
  assert (L : b < length (bs_states s)) by exact (get_state_range s b Hne).
  destruct (bs_set_spec s b _ st s' Hne Hs) as (Est & _).
  destruct (get_state_set s s' b st Est L) as [Gb U].
  rewrite Hl in L. auto.
Qed.

Ltac shape_tac r b st E Hl L :=
  match goal with Hs : bs_set ?s0 b _ st = Ok ?s' |- _ =>
    let Hne := fresh "Hne" in
    assert (Hne : get_state s0 b <> Unknown)
      by (let Hx := fresh in intro Hx; change (get_state s0 b) with (get_state (rs_bs r) b) in Hx; congruence);
    let Gb := fresh "Gb" in let U := fresh "U" in
    destruct (set_shape s0 b st s' Hl Hne Hs) as (L & Gb & U);
    change (upd_at s0 s' b) with (upd_at (rs_bs r) s' b) in U;
    rewrite E
  end.

Lemma step_shape r e r' :
  RInv cf decls r -> step cf r e r' ->
  (forall x, get_state (rs_bs r') x = get_state (rs_bs r) x) \/
  exists b st, b < nb /\ trans_ok (get_state (rs_bs r) b) st /\
               get_state (rs_bs r') b = st /\ upd_at (rs_bs r) (rs_bs r') b /\
               e = ESet b (get_state (rs_bs r) b) st.
Proof.
  intros Hinv Hstep. pose proof (ri_core _ _ _ Hinv) as C. pose proof (ri_ctl _ _ _ Hinv) as K.
  pose proof (bc_len _ _ _ C) as Hl.
  destruct Hstep;
    try (left; intro x; reflexivity);
    match goal with Hc : rs_ctl _ = _ |- _ => rewrite Hc in K; cbn [ctl_ok] in K end;
    right; cbn [with_bs rs_bs].
  - (* run *)
    exists b, Running.
    match goal with E0 : get_state _ b = _ |- _ => rename E0 into E end.
    shape_tac r b Running E Hl L.
    repeat split; auto. unfold trans_ok. tauto.
  - (* ready_done *)
    exists b, Done.
    destruct K as (L & _ & [(E & _)|(Ev & _)]);
      [|subst v; match goal with Hv : _ \/ _ |- _ => destruct Hv as [[? _]|[? _]]; discriminate end].
    shape_tac r b Done E Hl L2.
    repeat split; auto. unfold trans_ok. tauto.
  - (* enqueue *)
    exists b, Queued.
    destruct K as (L & _ & [(E & _)|(Ev & _)]); [|discriminate].
    shape_tac r b Queued E Hl L2.
    repeat split; auto. unfold trans_ok. tauto.
  - (* enqueue_fail *)
    exists b, Queued.
    destruct K as (L & _ & [(E & _)|(Ev & _)]); [|discriminate].
    shape_tac r b Queued E Hl L2.
    repeat split; auto. unfold trans_ok. tauto.
  - (* promote *)
    exists d, Ready.
    match goal with E0 : get_state _ d = _ |- _ => rename E0 into E end.
    shape_tac r d Ready E Hl L.
    repeat split; auto. unfold trans_ok. tauto.
  - (* done *)
    exists b, Done. destruct K as (_ & _ & L & E).
    shape_tac r b Done E Hl L2.
    repeat split; auto. unfold trans_ok. tauto.
  - (* failed *)
    exists b, Failed. destruct K as (_ & _ & L & E).
    shape_tac r b Failed E Hl L2.
    repeat split; auto. unfold trans_ok. tauto.
Qed.

(* ------------------------------------------------------------------------------------ *)
(* reachable states satisfy the invariant *)

Hypothesis wanted_preserves_BInv : wanted_preserves_BInv_stmt g decls.
Hypothesis wanted_frame : wanted_frame_stmt g.

Lemma wanted_start s0 s fl :
  BInv g decls s0 -> (forall b, get_state s0 b = Unknown \/ get_state s0 b = Done) ->
  wanted g s0 s -> RInv cf decls (run_init s fl).
Proof.
  intros B H W. apply RInv_init.
  - exact (wanted_preserves_BInv s0 s B W).
  - intro b. destruct (wanted_frame s0 s b W) as [E|[E [E'|E']]].
    + rewrite E. destruct (H b) as [X|X]; rewrite X; cbn; tauto.
    + rewrite E'. cbn. tauto.
    + rewrite E'. cbn. tauto.
Qed.

Theorem reachable_RInv r : reachable cf decls r -> RInv cf decls r.
Proof.
  induction 1 as [s fl W|r e r' Hr IH Ha|r s fl Hr IH Hc W].
  - apply (wanted_start (bs_new nb decls) s fl); [apply bs_new_BInv| |exact W].
    intro b. left. apply get_state_bs_new.
  - exact (accept1_RInv cf decls r e r' IH Ha).
  - pose proof (ri_core _ _ _ IH) as C. pose proof (ri_ctl _ _ _ IH) as K.
    rewrite Hc in K. cbn [ctl_ok] in K. destruct K as (RO & QO & AD).
    apply (wanted_start (rs_bs r) s fl); [apply BInv_split; auto|exact AD|exact W].
Qed.

(* the whole of BInv holds whenever no step is being examined and no enqueue has failed *)
Theorem reachable_BInv r :
  reachable cf decls r ->
  (rs_ctl r = CIdle \/ (exists b, rs_ctl r = CStarting b) \/
   (exists b t x, rs_ctl r = CFinished b t x) \/ (exists ok, rs_ctl r = CReturned (Some ok))) ->
  BInv g decls (rs_bs r).
Proof.
  intros Hr Hc. pose proof (reachable_RInv r Hr) as Hinv.
  pose proof (ri_core _ _ _ Hinv) as C. pose proof (ri_ctl _ _ _ Hinv) as K.
  apply BInv_split. split; [exact C|].
  destruct Hc as [E|[(b & E)|[(b & t & x & E)|(ok & E)]]]; rewrite E in K; cbn [ctl_ok] in K.
  - exact K.
  - destruct K as (RO & QO & _). auto.
  - destruct K as (RO & QO & _). auto.
  - destruct ok; [destruct K as (RO & QO & _); auto|exact K].
Qed.

(* ------------------------------------------------------------------------------------ *)
(* C01 *)

Theorem C01_started_after_producers r b r' :
  reachable cf decls r -> accept1 cf r (EStart b) = Some r' ->
  forall p, ord_reach g b p -> get_state (rs_bs r') p = Done.
Proof.
  intros Hr H p Hp. pose proof (reachable_RInv r Hr) as Hinv. apply accept1_step in H.
  pose proof (ri_ctl _ _ _ Hinv) as K.
  inversion H; subst. cbn [rs_bs].
  match goal with Hc : rs_ctl r = CStarting _ |- _ => rewrite Hc in K end.
  cbn [ctl_ok] in K. destruct K as (_ & _ & _ & E).
  apply (BCore_ord_reach g decls _ b p (ri_core _ _ _ Hinv) Hp). rewrite E. cbn. tauto.
Qed.

Lemma step_final r e r' p :
  RInv cf decls r -> step cf r e r' -> In (get_state (rs_bs r) p) [Done; Failed] ->
  get_state (rs_bs r') p = get_state (rs_bs r) p.
Proof.
  intros Hinv Hs Hp.
  destruct (step_shape r e r' Hinv Hs) as [Same|(b & st & L & T & Gb & U & _)]; [apply Same|].
  apply U. intros ->. unfold trans_ok in T. cbn [In] in Hp.
  destruct Hp as [Hp|[Hp|[]]]; rewrite <- Hp in T; intuition discriminate.
Qed.

Lemma accepts_final p st : st = Done \/ st = Failed ->
  forall tr r r', RInv cf decls r -> accepts cf r tr = Some r' ->
  get_state (rs_bs r) p = st -> get_state (rs_bs r') p = st.
Proof.
  intros Hst. induction tr as [|e tr IH]; intros r r' Hinv H E; cbn in H.
  - injection H as <-. exact E.
  - destruct (accept1 cf r e) as [r1|] eqn:E1; [|discriminate].
    apply (IH r1 r'); [exact (accept1_RInv cf decls r e r1 Hinv E1)|exact H|].
    rewrite (step_final r e r1 p Hinv (accept1_step cf r e r1 E1)); [exact E|].
    rewrite E. cbn. destruct Hst as [->| ->]; tauto.
Qed.

Theorem C01_done_is_final r tr r' p :
  reachable cf decls r -> accepts cf r tr = Some r' ->
  get_state (rs_bs r) p = Done -> get_state (rs_bs r') p = Done.
Proof.
  intros Hr. apply (accepts_final p Done); [now left|]. now apply reachable_RInv.
Qed.

Theorem C05_failed_is_final r tr r' p :
  reachable cf decls r -> accepts cf r tr = Some r' ->
  get_state (rs_bs r) p = Failed -> get_state (rs_bs r') p = Failed.
Proof.
  intros Hr. apply (accepts_final p Failed); [now right|]. now apply reachable_RInv.
Qed.

Lemma starts_of_cons_other b e tr : e <> EStart b -> starts_of b (e :: tr) = starts_of b tr.
Proof.
  intro H. destruct e; try reflexivity. cbn [starts_of].
  destruct (Nat.eqb_spec b b0) as [->|Ne]; [contradiction|reflexivity].
Qed.

Lemma past_start_step r e r' b :
  RInv cf decls r -> step cf r e r' -> past_start r b -> past_start r' b /\ e <> EStart b.
Proof.
  intros Hinv Hs [Hp Hc]. split; [split|].
  - destruct (step_shape r e r' Hinv Hs) as [Same|(b0 & st & L & T & Gb & U & _)];
      [rewrite Same; exact Hp|].
    destruct (Nat.eq_dec b b0) as [<-|Ne]; [|rewrite (U b Ne); exact Hp].
    rewrite Gb. unfold trans_ok in T. cbn [In] in Hp |- *.
    destruct Hp as [Hp|[Hp|[Hp|[]]]]; rewrite <- Hp in T;
      destruct T as [[? ?]|[[? ?]|[[? ?]|[[? ?]|[[? ?]|[? ?]]]]]]; subst; try discriminate; auto.
  - destruct Hs; cbn [with_bs with_ctl rs_ctl]; try discriminate; try exact Hc.
    intro Heq. inversion Heq; subst.
    match goal with E : get_state _ b = Queued |- _ => rewrite E in Hp end.
    cbn in Hp. intuition discriminate.
  - destruct Hs; try discriminate.
    intro Heq. inversion Heq; subst. contradiction.
Qed.

Lemma past_start_accepts b : forall tr r r',
  RInv cf decls r -> past_start r b -> accepts cf r tr = Some r' -> starts_of b tr = 0.
Proof.
  induction tr as [|e tr IH]; intros r r' Hinv Hp H; cbn in H; [reflexivity|].
  destruct (accept1 cf r e) as [r1|] eqn:E1; [|discriminate].
  pose proof (accept1_step cf r e r1 E1) as Hs.
  destruct (past_start_step r e r1 b Hinv Hs Hp) as [Hp1 Hne].
  rewrite (starts_of_cons_other b e tr Hne).
  exact (IH r1 r' (step_RInv cf decls r e r1 Hinv Hs) Hp1 H).
Qed.

Lemma at_most_once_gen b : forall tr r r',
  RInv cf decls r -> accepts cf r tr = Some r' -> starts_of b tr <= 1.
Proof.
  induction tr as [|e tr IH]; intros r r' Hinv H; cbn in H; [cbn; lia|].
  destruct (accept1 cf r e) as [r1|] eqn:E1; [|discriminate].
  pose proof (accept1_step cf r e r1 E1) as Hs.
  pose proof (step_RInv cf decls r e r1 Hinv Hs) as Hinv1.
  assert (D : e = EStart b \/ e <> EStart b).
  { destruct e; try (right; discriminate).
    destruct (Nat.eq_dec b0 b) as [->|Ne]; [left; reflexivity|right; congruence]. }
  destruct D as [->|Hne].
  - pose proof (ri_ctl _ _ _ Hinv) as K.
    inversion Hs; subst.
    match goal with Hc : rs_ctl r = CStarting _ |- _ => rewrite Hc in K end.
    cbn [ctl_ok] in K. destruct K as (_ & _ & _ & E).
    cbn [starts_of]. rewrite Nat.eqb_refl.
    rewrite (past_start_accepts b tr _ r' Hinv1); [lia| |exact H].
    split; cbn [rs_bs rs_ctl]; [rewrite E; cbn; tauto|discriminate].
  - rewrite (starts_of_cons_other b e tr Hne). exact (IH r1 r' Hinv1 H).
Qed.

Theorem C01_at_most_once s fl tr r b :
  wanted g (bs_new nb decls) s -> accepts cf (run_init s fl) tr = Some r -> starts_of b tr <= 1.
Proof.
  intros W H. apply (at_most_once_gen b tr (run_init s fl) r); [|exact H].
  apply reachable_RInv. now apply reach_init.
Qed.

(* within any run, from any reachable state *)
Theorem C01_at_most_once_reachable r tr r' b :
  reachable cf decls r -> accepts cf r tr = Some r' -> starts_of b tr <= 1.
Proof.
  intros Hr H. apply (at_most_once_gen b tr r r'); [now apply reachable_RInv|exact H].
Qed.

(* ------------------------------------------------------------------------------------ *)
(* C04 *)

Theorem C04_parallelism r : reachable cf decls r -> rs_running r <= cf_parallelism cf.
Proof. intro Hr. pose proof (ri_par _ _ _ (reachable_RInv r Hr)). lia. Qed.

Theorem C04_running_census r :
  reachable cf decls r ->
  run_count_ok (rs_ctl r) (rs_running r) (count_state g (rs_bs r) Running false).
Proof. intro Hr. exact (ri_running _ _ _ (reachable_RInv r Hr)). Qed.

Theorem C04_running_census_idle r :
  reachable cf decls r ->
  (rs_ctl r = CIdle \/ (exists b, rs_ctl r = CChecking b) \/ (exists b v x, rs_ctl r = CVerdict b v x)) ->
  Z.of_nat (rs_running r) = count_state g (rs_bs r) Running false.
Proof.
  intros Hr Hc. pose proof (C04_running_census r Hr) as H.
  destruct Hc as [E|[(b & E)|(b & v & x & E)]]; rewrite E in H; cbn [run_count_ok run_shift] in H; lia.
Qed.

Theorem C04_failed_census r :
  reachable cf decls r -> Z.of_nat (rs_failed r) = count_state g (rs_bs r) Failed false.
Proof. intro Hr. exact (ri_failed _ _ _ (reachable_RInv r Hr)). Qed.

Theorem C04_pool_depth r :
  reachable cf decls r -> forall p, In p (bs_pools (rs_bs r)) -> 0 < p_depth p ->
  (running_in_pool g (rs_bs r) (p_name p) <= Z.of_nat (p_depth p))%Z.
Proof. intro Hr. exact (ri_depth _ _ _ (reachable_RInv r Hr)). Qed.

(* ------------------------------------------------------------------------------------ *)
(* C05 *)

Lemma no_start_gen b f : ord_reach g b f -> forall tr r r',
  RInv cf decls r -> get_state (rs_bs r) f = Failed -> accepts cf r tr = Some r' ->
  starts_of b tr = 0.
Proof.
  intro Ho. induction tr as [|e tr IH]; intros r r' Hinv Ef H; cbn in H; [reflexivity|].
  destruct (accept1 cf r e) as [r1|] eqn:E1; [|discriminate].
  pose proof (accept1_step cf r e r1 E1) as Hs.
  pose proof (step_RInv cf decls r e r1 Hinv Hs) as Hinv1.
  assert (Ef1 : get_state (rs_bs r1) f = Failed).
  { rewrite (step_final r e r1 f Hinv Hs); [exact Ef|]. rewrite Ef. cbn. tauto. }
  assert (Hne : e <> EStart b).
  { intros ->. pose proof (ri_ctl _ _ _ Hinv) as K. inversion Hs; subst.
    match goal with Hc : rs_ctl r = CStarting _ |- _ => rewrite Hc in K end.
    cbn [ctl_ok] in K. destruct K as (_ & _ & _ & E).
    assert (D : get_state (rs_bs r) f = Done).
    { apply (BCore_ord_reach g decls _ b f (ri_core _ _ _ Hinv) Ho). rewrite E. cbn. tauto. }
    congruence. }
  rewrite (starts_of_cons_other b e tr Hne). exact (IH r1 r' Hinv1 Ef1 H).
Qed.

Theorem C05_no_start_downstream_of_failure r f b tr r' :
  reachable cf decls r -> get_state (rs_bs r) f = Failed -> ord_reach g b f ->
  accepts cf r tr = Some r' -> starts_of b tr = 0.
Proof.
  intros Hr Ef Ho H. exact (no_start_gen b f Ho tr r r' (reachable_RInv r Hr) Ef H).
Qed.

Theorem C05_record_only_after_success r b r' :
  reachable cf decls r -> accept1 cf r (ERecord b) = Some r' ->
  (rs_ctl r = CFinished b TSuccess false \/ (cf_adopt cf = true /\ rs_ctl r = CVerdict b VDirty false)).
Proof.
  intros _ H. apply accept1_step in H. inversion H; subst; auto.
Qed.

Theorem C05_budget r b x e r' :
  reachable cf decls r ->
  rs_ctl r = CFinished b TInterrupted x \/ (rs_ctl r = CFinished b TFailure x /\ rs_failures_left r = Some 1) ->
  accept1 cf r e = Some r' -> e = EReturn (Some false).
Proof.
  intros _ Hc H. apply accept1_step in H.
  destruct H; try reflexivity; destruct Hc as [Hc|[Hc Hf]]; congruence.
Qed.

Theorem C05_returned_is_final r o e : rs_ctl r = CReturned o -> accept1 cf r e = None.
Proof.
  intro Hc. destruct (accept1 cf r e) as [r'|] eqn:E; [|reflexivity].
  apply accept1_step in E. destruct E; congruence.
Qed.

Theorem C05_exit_status r r' :
  reachable cf decls r -> accept1 cf r (EReturn (Some true)) = Some r' ->
  forall b, get_state (rs_bs r) b <> Unknown -> b < nb -> get_state (rs_bs r) b = Done.
Proof.
  intros Hr H b Hb _. pose proof (reachable_RInv r Hr) as Hinv.
  pose proof (accept1_RInv cf decls r _ r' Hinv H) as Hinv'.
  apply accept1_step in H. pose proof (ri_ctl _ _ _ Hinv') as K.
  inversion H; subst; cbn [with_ctl with_bs rs_bs rs_ctl ctl_ok] in K.
  destruct K as (_ & _ & AD). destruct (AD b) as [X|X]; [contradiction|exact X].
Qed.

(* ------------------------------------------------------------------------------------ *)
(* C19 *)

Theorem C19_update_is_census r c r' :
  reachable cf decls r -> accept1 cf r (EUpdate c) = Some r' -> c = census g (rs_bs r).
Proof.
  intros Hr H. pose proof (reachable_RInv r Hr) as Hinv. apply accept1_step in H.
  inversion H; subst. exact (bc_counts _ _ _ (ri_core _ _ _ Hinv)).
Qed.

Theorem C19_running r :
  reachable cf decls r -> rs_ctl r = CIdle ->
  k_running (bs_counts (rs_bs r)) = Z.of_nat (rs_running r).
Proof.
  intros Hr Hc. pose proof (reachable_RInv r Hr) as Hinv.
  pose proof (ri_core _ _ _ Hinv) as C. pose proof (ri_running _ _ _ Hinv) as Rn.
  rewrite Hc in Rn. cbn [run_count_ok run_shift] in Rn.
  rewrite (bc_counts _ _ _ C). cbn [census k_running].
  rewrite (count_state_nonphony g (rs_bs r) Running).
  - lia.
  - intros b E. apply (bc_nonphony _ _ _ C b). rewrite E. cbn. tauto.
Qed.

Lemma step_finished_monotone r e r' :
  RInv cf decls r -> step cf r e r' ->
  (k_done (census g (rs_bs r)) + k_failed (census g (rs_bs r)) <=
   k_done (census g (rs_bs r')) + k_failed (census g (rs_bs r')))%Z.
Proof.
  intros Hinv Hs. cbn [census k_done k_failed].
  destruct (step_shape r e r' Hinv Hs) as [Same|(b & st & L & T & Gb & U & _)].
  - rewrite !(count_state_same g (rs_bs r) (rs_bs r') _ _ Same). lia.
  - rewrite (count_state_upd g _ _ b Done true L U), (count_state_upd g _ _ b Failed true L U), Gb.
    set (np := negb true || negb (b_phony (get_build g b))).
    unfold trans_ok in T.
    destruct T as [[E ->]|[[E ->]|[[E ->]|[[E ->]|[[E ->]|[E ->]]]]]]; rewrite E;
      cbn [bstate_eqb andb]; destruct np; cbn [Z.b2z]; lia.
Qed.

Theorem C19_finished_monotone r e r' :
  reachable cf decls r -> accept1 cf r e = Some r' ->
  (k_done (census g (rs_bs r)) + k_failed (census g (rs_bs r)) <=
   k_done (census g (rs_bs r')) + k_failed (census g (rs_bs r')))%Z.
Proof.
  intros Hr H. apply (step_finished_monotone r e r'); [now apply reachable_RInv|now apply accept1_step].
Qed.

End RunThms.

(* tasks_run: no invariant needed *)

Lemma succ_finishes_cons e tr : succ_finishes (e :: tr) = succ_finishes [e] + succ_finishes tr.
Proof. destruct e; try reflexivity. destruct t; reflexivity. Qed.

Lemma step_tasks cf r e r' :
  step cf r e r' ->
  rs_tasks_run r' + pending_success (rs_ctl r') =
  rs_tasks_run r + pending_success (rs_ctl r) + succ_finishes [e].
Proof.
  intro Hs. destruct Hs; try destruct t;
    cbn [with_bs with_ctl rs_tasks_run rs_ctl succ_finishes];
    repeat match goal with Hc : rs_ctl _ = _ |- _ => rewrite Hc; clear Hc end;
    cbn [pending_success]; lia.
Qed.

Lemma accepts_tasks cf : forall tr r r',
  accepts cf r tr = Some r' ->
  rs_tasks_run r' + pending_success (rs_ctl r') =
  rs_tasks_run r + pending_success (rs_ctl r) + succ_finishes tr.
Proof.
  induction tr as [|e tr IH]; intros r r' H; cbn in H.
  - inversion H; subst. cbn. lia.
  - destruct (accept1 cf r e) as [r1|] eqn:E1; [|discriminate].
    rewrite succ_finishes_cons, (IH r1 r' H), (step_tasks cf r e r1 (accept1_step cf r e r1 E1)). lia.
Qed.

Theorem C19_tasks_run cf s fl tr r :
  accepts cf (run_init s fl) tr = Some r ->
  rs_tasks_run r + pending_success (rs_ctl r) = succ_finishes tr.
Proof. intro H. rewrite (accepts_tasks cf tr _ r H). cbn. lia. Qed.

Theorem C19_tasks_run_le cf s fl tr r :
  accepts cf (run_init s fl) tr = Some r -> rs_tasks_run r <= succ_finishes tr.
Proof. intro H. pose proof (C19_tasks_run cf s fl tr r H). lia. Qed.

Theorem C19_tasks_run_eq cf s fl tr r :
  accepts cf (run_init s fl) tr = Some r ->
  (forall b x, rs_ctl r <> CFinished b TSuccess x) ->
  rs_tasks_run r = succ_finishes tr.
Proof.
  intros H Hc. pose proof (C19_tasks_run cf s fl tr r H) as E.
  destruct (rs_ctl r) as [| | | |b t x|]; cbn [pending_success] in E; try lia.
  destruct t; try lia. exfalso. exact (Hc b x eq_refl).
Qed.
