(* AUDIT - non-vacuity of the joint scheduler / World theorems (Props/C03Joint.v, J1 - J3).
   Two steps  o <- cc a ;  p <- ld o  so that step 1 has a GENERATED dirtying input (the
   one-step graph of JointExample.v makes J2 hold for the trivial reason "no generated input").
   Every Example instantiates ALL hypotheses of the named theorem. *)
From Coq Require Import String List NArith ZArith Lia Arith.
From N2 Require Import Model.All Proofs.SchedSpec Proofs.DbSpec Proofs.WorldSpec Proofs.JointSpec.
Import ListNotations.
Local Open Scope string_scope.

Definition j_g : graph :=
  mkGraph [mkBuild [0] 1 0 0 [1] false None; mkBuild [1] 1 0 0 [2] false None]
          [mkFile (bs "a") None [0]; mkFile (bs "o") (Some 0) [1]; mkFile (bs "p") (Some 1) []].
Definition j_wg : wgraph :=
  mkWGraph [mkWBuild [bs "a"] 1 0 0 [bs "o"] (Some (bs "cc")) None;
            mkWBuild [bs "o"] 1 0 0 [bs "p"] (Some (bs "ld")) None]
           [(bs "o", 0); (bs "p", 1)].
Definition j_cf : config := mkConfig j_g 1 false.

Lemma j_graph_wf : graph_wf j_g.
Proof.
  split.
  - intros f b H. destruct f as [|[|[|f]]]; cbn in H; try discriminate H; try (inversion H; subst; cbn; lia).
    unfold file_input in H. cbn in H. destruct f; discriminate H.
  - intros b f L I. destruct b as [|[|b]]; cbn in L, I |- *; try lia; destruct I as [<-|[]]; lia.
Qed.

Lemma j_agree : graphs_agree j_g j_wg.
Proof.
  constructor.
  - reflexivity.
  - intros i Hi. destruct i as [|[|i]]; [| |cbn in Hi; lia]; cbn;
      (repeat split; try reflexivity; intro H; discriminate H).
  - intros f1 f2 H1 H2 E.
    destruct f1 as [|[|[|f1]]]; [| | |cbn in H1; lia];
      (destruct f2 as [|[|[|f2]]]; [| | |cbn in H2; lia]); cbn in E; try discriminate E; reflexivity.
  - intros f Hf. destruct f as [|[|[|f]]]; [| | |cbn in Hf; lia]; reflexivity.
  - intros f b. split.
    + intro H. destruct f as [|[|[|f]]]; cbn in H; try discriminate H.
      * inversion H; subst. split; [cbn; lia|cbn; auto].
      * inversion H; subst. split; [cbn; lia|cbn; auto].
      * unfold file_input in H. cbn in H. destruct f; discriminate H.
    + intros [Hb Hin]. destruct b as [|[|b]]; [| |cbn in Hb; lia]; cbn in Hin;
        destruct Hin as [<-|[]]; reflexivity.
Qed.

Definition j_s : bstates :=
  match want_targets j_g (bs_new 2 [], []) [2] with Ok w => fst w | _ => bs_new 2 [] end.
Lemma j_wanted : wanted j_g (bs_new 2 []) j_s.
Proof. eapply w_step with (l := []) (f := 2); [constructor|]. vm_compute. reflexivity. Qed.

Definition j_fs0 : fsmap := [(bs "a", (1%N, 0%N))].
Definition j_w0 : wstate := mkW j_fs0 [] [] [] [] signature.
Lemma j_w0_loaded : load_state j_wg j_fs0 [] = Ok j_w0.
Proof. reflexivity. Qed.

(* step 0 examined (o is stat()ed: missing), started, and its command has written o *)
Definition t_a : list jitem :=
  [JUpdate (bs_counts j_s); JPop 0; JVerdict 0 VDirty; JSet 0 Ready Queued; JSet 0 Queued Running; JStart 0;
   JWrite (bs "o") (Some (2%N, 0%N))].

(* the hash the model computes is read off the mismatch report of a replay with a wrong hash *)
Definition hash_after (pre : list jitem) (b : nat) : N :=
  match replay j_wg j_w0 None (proj_w false None (pre ++ [JFinish b TSuccess None; JRecord b 0%N])) 0 with
  | WMismatch _ _ d => of_le d
  | _ => 0%N
  end.
Definition j_h0 : N := hash_after t_a 0.

(* ... finished, recorded, Done; step 1 promoted and popped: the scheduler is CChecking 1 *)
Definition t_b : list jitem :=
  t_a ++ [JFinish 0 TSuccess None; JRecord 0 j_h0; JSet 0 Running Done; JSet 1 Want Ready; JPop 1].

Definition t_c1 : list jitem :=
  [JSet 1 Ready Queued; JSet 1 Queued Running; JStart 1; JWrite (bs "p") (Some (3%N, 0%N))].
Definition j_h1 : N := hash_after (t_b ++ JVerdict 1 VDirty :: t_c1) 1.
Definition t_post : list jitem :=
  t_c1 ++ [JFinish 1 TSuccess None; JRecord 1 j_h1; JSet 1 Running Done; JReturn (Some true)].
Definition t_c : list jitem := t_b ++ JVerdict 1 VDirty :: t_post.

Lemma t_a_writes : writes_ok j_wg [] t_a.
Proof. cbn. split; [|exact I]. exists 0. split; left; reflexivity. Qed.
Lemma t_b_writes : writes_ok j_wg [] t_b.
Proof. cbn. split; [|exact I]. exists 0. split; left; reflexivity. Qed.
Lemma t_c_writes : writes_ok j_wg [] t_c.
Proof.
  cbn. split; [exists 0; split; left; reflexivity|].
  split; [exists 1; split; left; reflexivity|exact I].
Qed.

Definition jr (tr : list jitem) : rstate :=
  match accepts j_cf (run_init j_s None) (proj_s tr) with Some r => r | None => run_init j_s None end.
Definition jw (tr : list jitem) : wstate :=
  match replay j_wg j_w0 None (proj_w false None tr) 0 with WOk w => w | _ => j_w0 end.

Lemma j_acc_a : jaccepted j_cf j_wg (run_init j_s None) j_w0 t_a (jr t_a) (jw t_a).
Proof. split; vm_compute; reflexivity. Qed.
Lemma j_acc_b : jaccepted j_cf j_wg (run_init j_s None) j_w0 t_b (jr t_b) (jw t_b).
Proof. split; vm_compute; reflexivity. Qed.
Lemma j_acc_c : jaccepted j_cf j_wg (run_init j_s None) j_w0 t_c (jr t_c) (jw t_c).
Proof. split; vm_compute; reflexivity. Qed.

(* the whole run is a successful build: both steps ran *)
Lemma j_run_complete : rs_ctl (jr t_c) = CReturned (Some true) /\ rs_tasks_run (jr t_c) = 2.
Proof. split; vm_compute; reflexivity. Qed.

(* ------------------------------------------------------------------------------------ *)

Example joint_done_outputs_cached_nonvacuous :
  exists cf decls wg s fl w0 tr r w b o,
    graph_wf (cf_graph cf) /\ graphs_agree (cf_graph cf) wg /\
    wanted (cf_graph cf) (bs_new (length (g_builds (cf_graph cf))) decls) s /\ ws_cache w0 = [] /\
    jaccepted cf wg (run_init s fl) w0 tr r w /\ writes_ok wg [] tr /\
    get_state (rs_bs r) b = Done /\ In o (wb_outs (get_wbuild wg b)) /\
    (* the output did not exist when the Work started and was written during it *)
    fs_get (ws_fs w0) o = None /\ fs_get (ws_fs w) o = Some (2%N, 0%N).
Proof.
  exists j_cf, [], j_wg, j_s, None, j_w0, t_b, (jr t_b), (jw t_b), 0, (bs "o").
  split; [exact j_graph_wf|]. split; [exact j_agree|]. split; [exact j_wanted|]. split; [reflexivity|].
  split; [exact j_acc_b|]. split; [exact t_b_writes|]. split; [vm_compute; reflexivity|].
  split; [left; reflexivity|]. split; vm_compute; reflexivity.
Qed.

Lemma j_r0_reachable : reachable j_cf [] (run_init j_s None).
Proof. apply reach_init. exact j_wanted. Qed.

Lemma j_r0_no_done : forall b, get_state (rs_bs (run_init j_s None)) b <> Done.
Proof.
  intro b. assert (E : bs_states (rs_bs (run_init j_s None)) = [Ready; Want]) by (vm_compute; reflexivity).
  unfold get_state. rewrite E. destruct b as [|[|[|b]]]; cbn; discriminate.
Qed.

Example joint_done_outputs_cached_reachable_nonvacuous :
  exists cf decls wg r0 w0 tr r w b o,
    graph_wf (cf_graph cf) /\ graphs_agree (cf_graph cf) wg /\
    reachable cf decls r0 /\ rs_ctl r0 = CIdle /\ (forall b, get_state (rs_bs r0) b <> Done) /\ ws_cache w0 = [] /\
    jaccepted cf wg r0 w0 tr r w /\ writes_ok wg [] tr /\
    get_state (rs_bs r) b = Done /\ In o (wb_outs (get_wbuild wg b)) /\
    fs_get (ws_fs w) o = Some (3%N, 0%N).
Proof.
  exists j_cf, [], j_wg, (run_init j_s None), j_w0, t_c, (jr t_c), (jw t_c), 1, (bs "p").
  split; [exact j_graph_wf|]. split; [exact j_agree|]. split; [exact j_r0_reachable|]. split; [reflexivity|].
  split; [exact j_r0_no_done|]. split; [reflexivity|].
  split; [exact j_acc_c|]. split; [exact t_c_writes|]. split; [vm_compute; reflexivity|].
  split; [left; reflexivity|vm_compute; reflexivity].
Qed.

Example joint_stated_generated_nonvacuous :
  exists cf decls wg s fl w0 tr r w b,
    graph_wf (cf_graph cf) /\ graphs_agree (cf_graph cf) wg /\
    wanted (cf_graph cf) (bs_new (length (g_builds (cf_graph cf))) decls) s /\ ws_cache w0 = [] /\
    jaccepted cf wg (run_init s fl) w0 tr r w /\ writes_ok wg [] tr /\ rs_ctl r = CChecking b /\
    (* the checked step HAS a generated dirtying input *)
    In (bs "o") (wb_dirtying (get_wbuild wg b)) /\ producer_of wg (bs "o") = Some 0.
Proof.
  exists j_cf, [], j_wg, j_s, None, j_w0, t_b, (jr t_b), (jw t_b), 1.
  split; [exact j_graph_wf|]. split; [exact j_agree|]. split; [exact j_wanted|]. split; [reflexivity|].
  split; [exact j_acc_b|]. split; [exact t_b_writes|]. split; [vm_compute; reflexivity|].
  split; [left; reflexivity|reflexivity].
Qed.

Example joint_cache_stale_only_running_failed_nonvacuous :
  exists cf decls wg s fl w0 tr r w n v,
    graph_wf (cf_graph cf) /\ graphs_agree (cf_graph cf) wg /\
    wanted (cf_graph cf) (bs_new (length (g_builds (cf_graph cf))) decls) s /\ ws_cache w0 = [] /\
    jaccepted cf wg (run_init s fl) w0 tr r w /\ writes_ok wg [] tr /\ cache_get (ws_cache w) n = Some v /\
    (* the entry IS stale: only the second disjunct of the conclusion holds *)
    v <> fs_get (ws_fs w) n /\ get_state (rs_bs r) 0 = Running.
Proof.
  exists j_cf, [], j_wg, j_s, None, j_w0, t_a, (jr t_a), (jw t_a), (bs "o"), None.
  split; [exact j_graph_wf|]. split; [exact j_agree|]. split; [exact j_wanted|]. split; [reflexivity|].
  split; [exact j_acc_a|]. split; [exact t_a_writes|]. split; [vm_compute; reflexivity|].
  split; [vm_compute; discriminate|vm_compute; reflexivity].
Qed.

Example joint_cache_stale_only_running_failed_reachable_nonvacuous :
  exists cf decls wg r0 w0 tr r w n v,
    graph_wf (cf_graph cf) /\ graphs_agree (cf_graph cf) wg /\
    reachable cf decls r0 /\ rs_ctl r0 = CIdle /\ (forall b, get_state (rs_bs r0) b <> Done) /\ ws_cache w0 = [] /\
    jaccepted cf wg r0 w0 tr r w /\ writes_ok wg [] tr /\ cache_get (ws_cache w) n = Some v /\
    v <> fs_get (ws_fs w) n.
Proof.
  exists j_cf, [], j_wg, (run_init j_s None), j_w0, t_a, (jr t_a), (jw t_a), (bs "o"), None.
  split; [exact j_graph_wf|]. split; [exact j_agree|]. split; [exact j_r0_reachable|]. split; [reflexivity|].
  split; [exact j_r0_no_done|]. split; [reflexivity|].
  split; [exact j_acc_a|]. split; [exact t_a_writes|]. split; [vm_compute; reflexivity|vm_compute; discriminate].
Qed.

Example joint_cache_consistent_for_checked_nonvacuous :
  exists cf decls wg s fl w0 tr r w b n v,
    graph_wf (cf_graph cf) /\ graphs_agree (cf_graph cf) wg /\
    wanted (cf_graph cf) (bs_new (length (g_builds (cf_graph cf))) decls) s /\ ws_cache w0 = [] /\
    jaccepted cf wg (run_init s fl) w0 tr r w /\ writes_ok wg [] tr /\ rs_ctl r = CChecking b /\
    In n (wb_dirtying (get_wbuild wg b) ++ wb_outs (get_wbuild wg b)) /\ cache_get (ws_cache w) n = Some v /\
    (* a generated input whose cache entry WAS stale earlier in this Work (see the example above) *)
    v = Some (2%N, 0%N).
Proof.
  exists j_cf, [], j_wg, j_s, None, j_w0, t_b, (jr t_b), (jw t_b), 1, (bs "o"), (Some (2%N, 0%N)).
  split; [exact j_graph_wf|]. split; [exact j_agree|]. split; [exact j_wanted|]. split; [reflexivity|].
  split; [exact j_acc_b|]. split; [exact t_b_writes|]. split; [vm_compute; reflexivity|].
  split; [left; reflexivity|]. split; [vm_compute; reflexivity|reflexivity].
Qed.

Example joint_at_verdict_nonvacuous :
  exists cf decls wg s fl w0 pre b v post r w,
    graph_wf (cf_graph cf) /\ graphs_agree (cf_graph cf) wg /\
    wanted (cf_graph cf) (bs_new (length (g_builds (cf_graph cf))) decls) s /\ ws_cache w0 = [] /\
    jaccepted cf wg (run_init s fl) w0 (pre ++ JVerdict b v :: post) r w /\
    writes_ok wg [] (pre ++ JVerdict b v :: post) /\
    length pre = 12 /\ length post = 8 /\ v = VDirty /\ rs_ctl r = CReturned (Some true).
Proof.
  exists j_cf, [], j_wg, j_s, None, j_w0, t_b, 1, VDirty, t_post, (jr t_c), (jw t_c).
  split; [exact j_graph_wf|]. split; [exact j_agree|]. split; [exact j_wanted|]. split; [reflexivity|].
  split; [exact j_acc_c|]. split; [exact t_c_writes|]. repeat split; vm_compute; reflexivity.
Qed.
