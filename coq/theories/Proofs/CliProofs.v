(* Proofs about Model/Cli.v (run.rs parse_args over the lexopt parser, and the final summary). *)
From Coq Require Import String.
From Coq Require Import List NArith Arith Lia Bool.
From N2 Require Import Base.Base Model.Scanner Model.Render Model.Fancy Model.Cli.
Import ListNotations.

(* a word that is not an option: it does not start with `-` (the lone `-` is a value too, not covered here) *)
Definition plain (w : bytes) : Prop := match w with [] => True | c :: _ => c <> 45%N end.

Lemma lx_take_plain w rest : plain w -> lx_take (w :: rest) = Some (Some (AValue w), LNone, rest).
Proof.
  intros H. unfold lx_take.
  destruct w as [|c r]; [reflexivity|]. cbn [plain] in H. apply N.eqb_neq in H.
  assert (E1 : bytes_eqb (c :: r) dashdash = false).
  { unfold bytes_eqb, dashdash. cbn [list_eqb]. now rewrite N.eqb_sym in H; rewrite N.eqb_sym, H. }
  rewrite E1.
  assert (E2 : starts_dashdash (c :: r) = false).
  { unfold starts_dashdash. destruct r; [reflexivity|]. now rewrite H. }
  rewrite E2. cbn [hd]. rewrite H, andb_false_r. reflexivity.
Qed.

Section Loop.
Variable bad : list bytes -> bytes -> bool.

(* plain words become the targets, in order, whatever else has been parsed so far *)
Lemma parse_loop_plain : forall ws fuel a,
  Forall plain ws -> length ws < fuel ->
  parse_loop bad fuel a LNone ws = PArgs (fold_left (fun a w => add_target a (lossy w)) ws a).
Proof.
  induction ws as [|w r IH]; intros fuel a Hp Hf.
  - destruct fuel; [cbn in Hf; lia|]. reflexivity.
  - destruct fuel; [cbn in Hf; lia|]. inversion Hp; subst.
    cbn [parse_loop lx_next]. rewrite lx_take_plain by assumption. cbn [fold_left].
    apply IH; [assumption | cbn [length] in Hf; lia].
Qed.

(* one step of the loop for each option, in its spellings *)
Lemma step_f_separate fuel a v rest :
  parse_loop bad (S fuel) a LNone ([45; 102]%N :: v :: rest) = parse_loop bad fuel (set_file a (lossy v)) LNone rest.
Proof. reflexivity. Qed.

Lemma step_f_glued fuel a x xs rest :
  x <> 61%N ->
  parse_loop bad (S fuel) a LNone ((45 :: 102 :: x :: xs)%N :: rest) = parse_loop bad fuel (set_file a (lossy (x :: xs))) LNone rest.
Proof. intros H. apply N.eqb_neq in H. cbn. rewrite H. reflexivity. Qed.

Lemma step_f_equals fuel a v rest :
  parse_loop bad (S fuel) a LNone ((45 :: 102 :: 61 :: v)%N :: rest) = parse_loop bad fuel (set_file a (lossy v)) LNone rest.
Proof. reflexivity. Qed.

Lemma step_j_separate fuel a v rest :
  parse_loop bad (S fuel) a LNone ([45; 106]%N :: v :: rest) =
  match parse_usize v with Some n => parse_loop bad fuel (set_par a n) LNone rest | None => PErr end.
Proof. reflexivity. Qed.

Lemma step_j_glued fuel a x xs rest :
  x <> 61%N ->
  parse_loop bad (S fuel) a LNone ((45 :: 106 :: x :: xs)%N :: rest) =
  match parse_usize (x :: xs) with Some n => parse_loop bad fuel (set_par a n) LNone rest | None => PErr end.
Proof. intros H. apply N.eqb_neq in H. cbn -[parse_usize]. rewrite H. reflexivity. Qed.

Lemma step_j_equals fuel a v rest :
  parse_loop bad (S fuel) a LNone ((45 :: 106 :: 61 :: v)%N :: rest) =
  match parse_usize v with Some n => parse_loop bad fuel (set_par a n) LNone rest | None => PErr end.
Proof. reflexivity. Qed.

Lemma step_k_separate fuel a v rest :
  parse_loop bad (S fuel) a LNone ([45; 107]%N :: v :: rest) =
  match parse_usize v with Some n => parse_loop bad fuel (set_keep a n) LNone rest | None => PErr end.
Proof. reflexivity. Qed.

Lemma step_C_separate fuel a v rest :
  parse_loop bad (S fuel) a LNone ([45; 67]%N :: v :: rest) =
  if bad (ba_chdirs a) v then parse_loop bad fuel (add_chdir a v) LNone rest else PErr.
Proof. reflexivity. Qed.

Lemma step_dashdash fuel a v rest :
  parse_loop bad (S fuel) a LNone (dashdash :: v :: rest) = parse_loop bad fuel (add_target a (lossy v)) LFinished rest.
Proof. reflexivity. Qed.

(* after `--` every word is a target *)
Lemma parse_loop_finished : forall ws fuel a,
  length ws < fuel ->
  parse_loop bad fuel a LFinished ws = PArgs (fold_left (fun a w => add_target a (lossy w)) ws a).
Proof.
  induction ws as [|w r IH]; intros fuel a Hf; (destruct fuel; [cbn in Hf; lia|]); [reflexivity|].
  cbn [parse_loop lx_next fold_left]. apply IH. cbn [length] in Hf. lia.
Qed.
End Loop.

Lemma fold_targets ws : forall a,
  ba_targets (fold_left (fun a w => add_target a (lossy w)) ws a) = ba_targets a ++ map lossy ws.
Proof.
  induction ws as [|w r IH]; intros a; cbn [fold_left map]; [now rewrite app_nil_r|].
  rewrite IH. cbn [add_target ba_targets]. now rewrite <- app_assoc.
Qed.

Lemma fold_keeps ws : forall a,
  let a' := fold_left (fun a w => add_target a (lossy w)) ws a in
  ba_file a' = ba_file a /\ ba_par a' = ba_par a /\ ba_keep a' = ba_keep a /\ ba_chdirs a' = ba_chdirs a /\
  ba_adopt a' = ba_adopt a /\ ba_compat a' = ba_compat a /\ ba_verbose a' = ba_verbose a /\
  ba_explain a' = ba_explain a /\ ba_trace a' = ba_trace a.
Proof.
  induction ws as [|w r IH]; intros a; cbn [fold_left]; [repeat split|].
  destruct (IH (add_target a (lossy w))) as (H1 & H2 & H3 & H4 & H5 & H6 & H7 & H8 & H9). cbv zeta. repeat split; assumption.
Qed.

Lemma args_fuel_enough (ws : list bytes) : length ws < args_fuel ws.
Proof. unfold args_fuel. lia. Qed.

(* `n2 [-f FILE] [-C DIR] [-j N] [-k N] target...`: the canonical command line of the property's
   third sentence.  The manifest is FILE, the directory DIR, and the targets are exactly the words,
   in order - the options select manifest, directory, parallelism and budget and change nothing else *)
Theorem cli_canonical bad file dir j k ws n m :
  Forall plain ws -> bad [] dir = true -> parse_usize j = Some n -> parse_usize k = Some m ->
  exists a, parse_args bad (bs "n2") ([45; 102]%N :: file :: [45; 67]%N :: dir :: [45; 106]%N :: j :: [45; 107]%N :: k :: ws) = PArgs a /\
            ba_file a = Some (lossy file) /\ ba_chdirs a = [dir] /\ ba_par a = n /\ ba_keep a = Some m /\
            ba_targets a = map lossy ws /\ ba_adopt a = false /\ ba_compat a = false /\ ba_verbose a = false.
Proof.
  intros Hp Hd Hj Hk. unfold parse_args. change (file_name (bs "n2")) with (Some (bs "n2")). cbv iota beta.
  change (bytes_eqb (bs "n2") (bs "ninja")) with false.
  remember (args_fuel _) as fuel eqn:Ef.
  assert (Hf : 4 + length ws < fuel) by (subst fuel; unfold args_fuel; cbn [length]; lia).
  destruct fuel as [|[|[|[|fuel]]]]; try (cbn in Hf; lia).
  rewrite step_f_separate, step_C_separate. cbn [ba_chdirs set_file]. rewrite Hd, step_j_separate, Hj, step_k_separate, Hk.
  rewrite parse_loop_plain by (assumption || lia).
  eexists. split; [reflexivity|].
  match goal with |- context [fold_left ?f ws ?a0] => pose proof (fold_keeps ws a0) as K; pose proof (fold_targets ws a0) as T end.
  cbv zeta in K. destruct K as (K1 & K2 & K3 & K4 & K5 & K6 & K7 & _ & _).
  rewrite K1, K2, K3, K4, K5, K6, K7, T. cbn. repeat split.
Qed.

(* plain words only: everything is a target, nothing else is set *)
Theorem cli_targets_only bad ws :
  Forall plain ws ->
  parse_args bad (bs "n2") ws = PArgs (mkBA false false false false [] None (map lossy ws) 0 None false).
Proof.
  intros Hp. unfold parse_args. change (file_name (bs "n2")) with (Some (bs "n2")). cbv iota beta.
  change (bytes_eqb (bs "n2") (bs "ninja")) with false.
  rewrite parse_loop_plain by (assumption || apply args_fuel_enough).
  f_equal.
  match goal with |- fold_left ?f ws ?a0 = _ => pose proof (fold_keeps ws a0) as K; pose proof (fold_targets ws a0) as T;
    destruct (fold_left f ws a0) as [c ad ex tr ch fi ta pa ke ve] end.
  cbv zeta in K. cbn in K, T. destruct K as (K1 & K2 & K3 & K4 & K5 & K6 & K7 & K8 & K9). subst. reflexivity.
Qed.

(* everything after `--` is a target, whatever it looks like *)
Theorem cli_after_dashdash bad ws v :
  exists a, parse_args bad (bs "n2") (dashdash :: v :: ws) = PArgs a /\ ba_targets a = map lossy (v :: ws) /\ ba_file a = None /\ ba_chdirs a = [].
Proof.
  unfold parse_args. change (file_name (bs "n2")) with (Some (bs "n2")). cbv iota beta.
  remember (args_fuel _) as fuel eqn:Ef.
  assert (Hf : 1 + length ws < fuel) by (subst fuel; unfold args_fuel; cbn [length]; lia).
  destruct fuel as [|fuel]; [lia|]. rewrite step_dashdash, parse_loop_finished by lia.
  eexists. split; [reflexivity|].
  match goal with |- context [fold_left ?f ws ?a0] => pose proof (fold_keeps ws a0) as K; pose proof (fold_targets ws a0) as T end.
  cbv zeta in K. destruct K as (K1 & _ & _ & K4 & _). rewrite K1, K4, T. repeat split.
Qed.

(* the three spellings of `-j N` (and of `-f FILE`) are one *)
Theorem cli_j_spellings bad fuel a x xs rest :
  x <> 61%N ->
  parse_loop bad (S fuel) a LNone ([45; 106]%N :: (x :: xs) :: rest) = parse_loop bad (S fuel) a LNone ((45 :: 106 :: x :: xs)%N :: rest) /\
  parse_loop bad (S fuel) a LNone ([45; 106]%N :: (x :: xs) :: rest) = parse_loop bad (S fuel) a LNone ((45 :: 106 :: 61 :: x :: xs)%N :: rest).
Proof. intros H. rewrite step_j_separate, step_j_glued, step_j_equals by exact H. split; reflexivity. Qed.

Theorem cli_f_spellings bad fuel a x xs rest :
  x <> 61%N ->
  parse_loop bad (S fuel) a LNone ([45; 102]%N :: (x :: xs) :: rest) = parse_loop bad (S fuel) a LNone ((45 :: 102 :: x :: xs)%N :: rest) /\
  parse_loop bad (S fuel) a LNone ([45; 102]%N :: (x :: xs) :: rest) = parse_loop bad (S fuel) a LNone ((45 :: 102 :: 61 :: x :: xs)%N :: rest).
Proof. intros H. rewrite step_f_separate, step_f_glued, step_f_equals by exact H. split; reflexivity. Qed.

(* ---- the final summary ---- *)

Theorem summary_spec tasks :
  (snd (summary tasks) = 0%N <-> tasks <> None) /\
  (fst (summary tasks) = bs "n2: no work to do" ++ [10%N] <-> tasks = Some 0%N) /\
  (forall n, tasks = Some n -> n <> 0%N ->
     fst (summary tasks) = bs "n2: ran " ++ dec_of_N n ++ bs " task" ++ (if (n =? 1)%N then [] else bs "s") ++ bs ", now up to date" ++ [10%N]) /\
  (tasks = None -> summary tasks = ([], 1%N)).
Proof.
  split; [|split; [|split]].
  - destruct tasks as [[|p]|]; cbn; split; intro H; congruence.
  - destruct tasks as [[|p]|]; cbn [summary fst]; split; intro H; try reflexivity; try discriminate H.
  - intros n E Hn. subst. destruct n as [|p]; [contradiction|]. reflexivity.
  - intros E. subst. reflexivity.
Qed.

Example cli_examples :
  parse_args (fun _ d => negb (bytes_eqb d (bs "nope"))) (bs "n2") [bs "-C"; bs "d1"; bs "-f"; bs "alt.ninja"; bs "-j4"; bs "-k"; bs "0"; bs "a"; bs "b"] =
    PArgs (mkBA false false false false [bs "d1"] (Some (bs "alt.ninja")) [bs "a"; bs "b"] 4 (Some 0%N) false) /\
  parse_args (fun _ _ => true) (bs "/usr/bin/ninja") [bs "-t"; bs "restat"; bs "-vj=7"; bs "--"; bs "-x"] =
    PArgs (mkBA true true false false [] None [bs "-x"] 7 None true) /\
  parse_args (fun _ _ => true) (bs "n2") [bs "-t"; bs "restat"] = PErr /\
  parse_args (fun _ d => negb (bytes_eqb d (bs "nope"))) (bs "n2") [bs "-C"; bs "nope"] = PErr /\
  parse_args (fun _ _ => true) (bs "n2") [bs "-k18446744073709551616"] = PErr /\
  parse_args (fun _ _ => true) (bs "n2") [bs "-v=1"] = PErr /\
  parse_args (fun _ _ => true) (bs "n2") [bs "--help"; bs "-j"; bs "x"] = PExit 0 /\
  parse_args (fun _ _ => true) (bs "..") [bs "a"] = PPanic 70 /\
  fst (summary (Some 1%N)) = bs "n2: ran 1 task, now up to date" ++ [10%N] /\
  fst (summary (Some 12%N)) = bs "n2: ran 12 tasks, now up to date" ++ [10%N].
Proof. repeat split; vm_compute; reflexivity. Qed.
