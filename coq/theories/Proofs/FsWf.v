(* create_dir_all / create_parent_dirs succeed unless a regular file is in the way (Model/Fs.v),
   for names without "." and ".." components on a well-formed tree. *)
From N2 Require Import Base.Base Model.Fs Proofs.FsProofs.
From Coq Require Import Lia.

Definition plain (c : bytes) : bool := negb (fs_is_dotdot c) && negb (fs_is_dot c).
Definition nodots (cs : list bytes) : Prop := forallb plain cs = true.

(* every entry has a directory above it *)
Definition fs_wf (fs : fstree) : Prop :=
  forall q k, lookup fs q = Some k -> q <> [] /\ node_at fs (removelast q) = Some KDir.

Lemma removelast_snoc {A} (l : list A) (x : A) : removelast (l ++ [x]) = l.
Proof. apply removelast_last. Qed.

(* nothing exists below something that is not a directory *)
Lemma wf_below fs q c : fs_wf fs -> node_at fs q <> Some KDir -> node_at fs (q ++ [c]) = None.
Proof.
  intros W H. rewrite node_at_lookup by apply app_one_not_nil.
  destruct (lookup fs (q ++ [c])) as [k|] eqn:L; [|reflexivity].
  apply W in L as [_ L]. rewrite removelast_snoc in L. contradiction.
Qed.

Lemma firstn_snoc {A} (d : A) : forall (l : list A) k, k < length l -> firstn (S k) l = firstn k l ++ [nth k l d].
Proof.
  induction l as [|x l IH]; intros k H; simpl in H; [lia|].
  destruct k; [reflexivity|]. simpl. f_equal. apply IH. lia.
Qed.

Lemma split_last_snoc : forall (l : list bytes) c, split_last (l ++ [c]) = Some (l, c).
Proof.
  induction l as [|x l IH]; intros c; [reflexivity|].
  simpl. rewrite IH. destruct (l ++ [c]) eqn:E; [destruct l; discriminate|reflexivity].
Qed.

Lemma nodots_nth cs k : nodots cs -> k < length cs -> plain (nth k cs []) = true.
Proof.
  unfold nodots. intros H L. rewrite forallb_forall in H. apply H. now apply nth_In.
Qed.

Lemma in_firstn {A} (x : A) : forall k l, In x (firstn k l) -> In x l.
Proof.
  induction k as [|k IH]; intros l H; [destruct H|].
  destruct l as [|y l]; [destruct H|]. simpl in H. destruct H as [->|H]; [now left|right; now apply IH].
Qed.

Lemma nodots_firstn cs k : nodots cs -> nodots (firstn k cs).
Proof.
  unfold nodots. intros H. rewrite forallb_forall in *. intros x I. apply H. eapply in_firstn; eauto.
Qed.

Lemma step_plain fs cur c : plain c = true ->
  step_comp fs cur c = match node_at fs (cur ++ [c]) with
                       | Some KDir => inr (cur ++ [c])
                       | Some (KFile _) => inl ENOTDIR
                       | None => inl ENOENT
                       end.
Proof.
  unfold plain, step_comp. intros H. apply andb_true_iff in H as [H1 H2].
  apply negb_true_iff in H1. apply negb_true_iff in H2. now rewrite H1, H2.
Qed.

Lemma create_dir_all_unfold fs cwd p : lp_comps p <> [] ->
  create_dir_all fs cwd p =
  match cda_probe fs cwd p (length (lp_comps p)) 0 with
  | inl e => (Some e, fs)
  | inr (fs1, unc) => cda_fill fs1 cwd p (S (length (lp_comps p) - unc)) unc
  end.
Proof. unfold create_dir_all. destruct (lp_comps p); [contradiction|reflexivity]. Qed.

Section OnePath.
  Variables (s : path) (cs : list bytes).
  Hypothesis ND : nodots cs.
  Let n := length cs.
  Definition P (k : nat) : path := s ++ firstn k cs.

  Lemma P_S k : k < n -> P (S k) = P k ++ [nth k cs []].
  Proof. intros H. unfold P. rewrite (firstn_snoc ([] : bytes)) by exact H. now rewrite app_assoc. Qed.

  Lemma P_0 : P 0 = s.
  Proof. unfold P. simpl. apply app_nil_r. Qed.

  Lemma P_inj i j : i <= n -> j <= n -> P i = P j -> i = j.
  Proof.
    unfold P. intros Hi Hj E. apply app_inv_head in E.
    apply (f_equal (@length bytes)) in E. rewrite !firstn_length_le in E by (fold n; lia). exact E.
  Qed.

  (* the walk over the first k components succeeds when every prefix is a directory *)
  Lemma walk_dirs fs : forall k, k <= n -> (forall i, 1 <= i <= k -> node_at fs (P i) = Some KDir) ->
    walk fs s (firstn k cs) = inr (P k).
  Proof.
    induction k as [|k IH]; intros L H.
    - simpl. now rewrite P_0.
    - rewrite (firstn_snoc ([] : bytes)) by (fold n; lia). rewrite walk_app, IH by (try lia; intros; apply H; lia).
      simpl. rewrite step_plain by (apply nodots_nth; [exact ND|fold n; lia]).
      rewrite <- P_S by lia. now rewrite H by lia.
  Qed.

  (* ... and fails with ENOENT when the first prefix that is no directory is absent *)
  Lemma walk_absent fs j : forall k, j <= k -> k <= n -> 1 <= j ->
    (forall i, 1 <= i < j -> node_at fs (P i) = Some KDir) -> node_at fs (P j) = None ->
    walk fs s (firstn k cs) = inl ENOENT.
  Proof.
    intros k Hjk Hk Hj HD HN.
    replace (firstn k cs) with (firstn j (firstn k cs) ++ skipn j (firstn k cs)) by apply firstn_skipn.
    rewrite firstn_firstn, Nat.min_l by lia. rewrite walk_app.
    destruct j as [|j]; [lia|].
    rewrite (firstn_snoc ([] : bytes)) by (fold n; lia). rewrite walk_app.
    rewrite walk_dirs by (try lia; intros; apply HD; lia).
    simpl. rewrite step_plain by (apply nodots_nth; [exact ND|fold n; lia]).
    rewrite <- P_S by lia. now rewrite HN.
  Qed.

  Variables (cwd : path) (p : lpath).
  Hypothesis Hp : lp_comps p = cs.
  Hypothesis Hs : lp_start cwd p = s.

  Lemma anc_comps k : lp_comps (anc p k) = firstn k cs.
  Proof. unfold anc. simpl. now rewrite Hp. Qed.

  Lemma anc_start k : lp_start cwd (anc p k) = s.
  Proof. unfold anc, lp_start in *. simpl. exact Hs. Qed.

  Lemma mkdir_unfold fs k : k < n ->
    sys_mkdir fs cwd (anc p (S k)) =
    match walk fs s (firstn k cs) with
    | inl e => inl e
    | inr cur => match node_at fs (cur ++ [nth k cs []]) with
                 | Some _ => inl EEXIST
                 | None => inr ((cur ++ [nth k cs []], KDir) :: fs)
                 end
    end.
  Proof.
    intros H. unfold sys_mkdir. rewrite anc_comps, anc_start.
    rewrite (firstn_snoc ([] : bytes)) by exact H. rewrite split_last_snoc.
    destruct (walk fs s (firstn k cs)); [reflexivity|].
    pose proof (nodots_nth cs k ND H) as PL. unfold plain in PL.
    apply andb_true_iff in PL as [H1 H2]. apply negb_true_iff in H1. apply negb_true_iff in H2.
    now rewrite H1, H2.
  Qed.

  Lemma is_dir_unfold fs k : is_dir_l fs cwd (anc p k) = match walk fs s (firstn k cs) with inr _ => true | inl _ => false end.
  Proof. unfold is_dir_l. now rewrite anc_comps, anc_start. Qed.

  (* the shape of the tree along the path: directories up to m, nothing beyond *)
  Definition shape (fs : fstree) (m : nat) : Prop :=
    m <= n /\ (forall i, 1 <= i <= m -> node_at fs (P i) = Some KDir) /\ (forall i, m < i <= n -> node_at fs (P i) = None).

  Lemma shape_add fs m : shape fs m -> m < n -> shape ((P (S m), KDir) :: fs) (S m).
  Proof.
    intros (L & D & N) H. split; [lia|]. split.
    - intros i Hi. assert (NE : P i <> []) by (unfold P; destruct i; [lia|]; rewrite (firstn_snoc ([] : bytes)) by (fold n; lia); rewrite app_assoc; apply app_one_not_nil).
      rewrite node_at_lookup by exact NE. simpl.
      destruct (Nat.eq_dec i (S m)) as [->|Ne]; [now rewrite path_eqb_refl|].
      rewrite path_eqb_false by (intros E; apply P_inj in E; lia).
      rewrite <- node_at_lookup by exact NE. apply D. lia.
    - intros i Hi. assert (NE : P i <> []) by (unfold P; destruct i; [lia|]; rewrite (firstn_snoc ([] : bytes)) by (fold n; lia); rewrite app_assoc; apply app_one_not_nil).
      rewrite node_at_lookup by exact NE. simpl.
      rewrite path_eqb_false by (intros E; apply P_inj in E; lia).
      rewrite <- node_at_lookup by exact NE. apply N. lia.
  Qed.

  Lemma mkdir_next fs m : shape fs m -> m < n -> sys_mkdir fs cwd (anc p (S m)) = inr ((P (S m), KDir) :: fs).
  Proof.
    intros (L & D & N) H. rewrite mkdir_unfold by exact H.
    rewrite walk_dirs by (try lia; exact D). rewrite <- P_S by exact H. now rewrite N by lia.
  Qed.

  Lemma mkdir_beyond fs m k : shape fs m -> S m < S k -> k < n -> sys_mkdir fs cwd (anc p (S k)) = inl ENOENT.
  Proof.
    intros (L & D & N) H1 H2. rewrite mkdir_unfold by exact H2.
    rewrite (walk_absent fs (S m)); try lia; [reflexivity| |apply N; lia].
    intros i Hi. apply D. lia.
  Qed.

  Lemma probe_run fs m : shape fs m -> forall d unc, S m + d <= n ->
    cda_probe fs cwd p (S m + d) unc = inr ((P (S m), KDir) :: fs, unc + d).
  Proof.
    intros SH. induction d as [|d IH]; intros unc H.
    - rewrite Nat.add_0_r. simpl. rewrite mkdir_next by (try exact SH; lia). now rewrite Nat.add_0_r.
    - replace (S m + S d) with (S (S m + d)) by lia. cbn [cda_probe].
      rewrite (mkdir_beyond fs m) by (try exact SH; lia).
      rewrite IH by lia. f_equal. f_equal. lia.
  Qed.

  Lemma fill_run : forall d fs m, shape fs m -> m + d = n -> exists fs', cda_fill fs cwd p (S m) d = (None, fs') /\ shape fs' n.
  Proof.
    induction d as [|d IH]; intros fs m SH H.
    - exists fs. split; [reflexivity|]. replace n with m by lia. exact SH.
    - cbn [cda_fill]. rewrite mkdir_next by (try exact SH; lia).
      apply IH; [apply shape_add; [exact SH|lia]|lia].
  Qed.

  Lemma cda_from_shape fs m : cs <> [] -> shape fs m -> exists fs', create_dir_all fs cwd p = (None, fs') /\ shape fs' n.
  Proof.
    intros NE SH. rewrite create_dir_all_unfold by (rewrite Hp; exact NE). rewrite Hp. fold n.
    assert (Nz : n <> 0) by (unfold n; intros Z; apply length_zero_iff_nil in Z; contradiction).
    assert (Npos : exists n', n = S n') by (exists (pred n); lia).
    destruct Npos as [n' En].
    destruct SH as (L & D & N). destruct (Nat.eq_dec m n) as [Em|Ne].
    - (* everything is there already *)
      subst m.
      exists fs. split; [|now split].
      rewrite En at 1. cbn [cda_probe]. rewrite mkdir_unfold by lia.
      rewrite walk_dirs by (try lia; intros; apply D; lia).
      rewrite <- P_S by lia. rewrite D by lia.
      rewrite is_dir_unfold. rewrite <- En. rewrite walk_dirs by (try lia; exact D).
      replace (S (n - 0)) with (S n) by lia. reflexivity.
    - assert (SH : shape fs m) by now split.
      replace (cda_probe fs cwd p n 0) with (cda_probe fs cwd p (S m + (n - S m)) 0) by (f_equal; lia).
      rewrite (probe_run fs m SH) by lia. cbn [Nat.add].
      replace (S (n - (n - S m))) with (S (S m)) by lia.
      apply (fill_run (n - S m) _ (S m)); [apply shape_add; [exact SH|lia]|lia].
  Qed.

  (* from a well-formed tree with no regular file along the path, some shape holds *)
  Lemma shape_exists fs : fs_wf fs -> node_at fs s = Some KDir ->
    (forall i c, i <= n -> node_at fs (P i) <> Some (KFile c)) ->
    forall k, k <= n -> (forall i, 1 <= i <= k -> node_at fs (P i) = Some KDir) \/
                        exists m, m < k /\ (forall i, 1 <= i <= m -> node_at fs (P i) = Some KDir) /\ (forall i, m < i <= k -> node_at fs (P i) = None).
  Proof.
    intros W S0 NF. induction k as [|k IH]; intros Hk.
    - left. intros i Hi. lia.
    - destruct (IH ltac:(lia)) as [D|(m & Hm & D & N)].
      + destruct (node_at fs (P (S k))) as [[|c]|] eqn:E.
        * left. intros i Hi. destruct (Nat.eq_dec i (S k)) as [->|]; [exact E|apply D; lia].
        * exfalso. eapply NF; [|exact E]. lia.
        * right. exists k. split; [lia|]. split; [exact D|]. intros i Hi. replace i with (S k) by lia. exact E.
      + right. exists m. split; [lia|]. split; [exact D|]. intros i Hi.
        destruct (Nat.eq_dec i (S k)) as [->|]; [|apply N; lia].
        rewrite P_S by lia. apply wf_below; [exact W|]. rewrite N by lia. discriminate.
  Qed.

  Theorem cda_succeeds fs : fs_wf fs -> node_at fs s = Some KDir ->
    (forall i c, i <= n -> node_at fs (P i) <> Some (KFile c)) ->
    exists fs', create_dir_all fs cwd p = (None, fs').
  Proof.
    intros W S0 NF. destruct (list_eq_dec (list_eq_dec N.eq_dec) cs []) as [E0|NE].
    - exists fs. unfold create_dir_all. now rewrite Hp, E0.
    - destruct (shape_exists fs W S0 NF n ltac:(lia)) as [D|(m & Hm & D & N)].
      + destruct (cda_from_shape fs n) as (fs' & E & _); [exact NE| |eauto].
        split; [lia|]. split; [exact D|]. intros i Hi. lia.
      + destruct (cda_from_shape fs m) as (fs' & E & _); [exact NE| |eauto].
        split; [lia|]. split; [exact D|exact N].
  Qed.
End OnePath.

(* ---------------------------------------------------------------------------------------- *)
(* lifted to create_parent_dirs *)

Definition loc_prefix (cwd : path) (d : lpath) (i : nat) : path := lp_start cwd d ++ firstn i (lp_comps d).

(* no "." / ".." in the name and no regular file at the place of any of its directories *)
Definition clear_path (fs : fstree) (cwd : path) (d : lpath) : Prop :=
  nodots (lp_comps d) /\ forall i c, i <= length (lp_comps d) -> node_at fs (loc_prefix cwd d i) <> Some (KFile c).

Lemma start_is_dir fs cwd d : node_at fs cwd = Some KDir -> node_at fs (lp_start cwd d) = Some KDir.
Proof. unfold lp_start. destruct (lp_rooted d); [reflexivity|auto]. Qed.

Theorem create_dir_all_succeeds fs cwd d :
  fs_wf fs -> node_at fs cwd = Some KDir -> clear_path fs cwd d -> exists fs', create_dir_all fs cwd d = (None, fs').
Proof.
  intros W C [ND NF].
  eapply (cda_succeeds (lp_start cwd d) (lp_comps d) ND cwd d eq_refl eq_refl fs W); [now apply start_is_dir|exact NF].
Qed.

Lemma walk_dir fs : fs_wf fs -> forall cs cur q, node_at fs cur = Some KDir -> walk fs cur cs = inr q -> node_at fs q = Some KDir.
Proof.
  intros W. induction cs as [|c r IH]; intros cur q D H; simpl in H; [now inversion H; subst|].
  destruct (step_comp fs cur c) as [e|cur'] eqn:S; [discriminate|].
  apply (IH cur'); [|exact H]. unfold step_comp in S.
  destruct (fs_is_dotdot c).
  - inversion S; subst. destruct cur as [|x cur0]; [reflexivity|].
    change (node_at fs (x :: cur0)) with (lookup fs (x :: cur0)) in D. apply W in D as [_ D]. exact D.
  - destruct (fs_is_dot c); [now inversion S; subst|].
    destruct (node_at fs (cur ++ [c])) as [[|ct]|] eqn:N; try discriminate. now inversion S; subst.
Qed.

Lemma mkdir_wf fs cwd p fs' : fs_wf fs -> node_at fs cwd = Some KDir -> sys_mkdir fs cwd p = inr fs' -> fs_wf fs'.
Proof.
  intros W C H. pose proof (mkdir_extends _ _ _ _ H) as [E _]. revert H. unfold sys_mkdir.
  destruct (split_last (lp_comps p)) as [[pre c]|]; [|discriminate].
  destruct (walk fs (lp_start cwd p) pre) as [e|cur] eqn:Wk; [discriminate|].
  destruct (fs_is_dotdot c || fs_is_dot c); [discriminate|].
  destruct (node_at fs (cur ++ [c])) eqn:N; [discriminate|].
  intros H; inversion H; subst. clear H.
  pose proof (walk_dir fs W _ _ _ (start_is_dir fs cwd p C) Wk) as DC.
  intros q k L. simpl in L. destruct (path_eqb (cur ++ [c]) q) eqn:Q.
  - apply path_eqb_spec in Q. subst q. split; [apply app_one_not_nil|].
    rewrite removelast_snoc. eapply node_at_mono; eauto.
  - apply W in L as [NE D]. split; [exact NE|]. eapply node_at_mono; eauto.
Qed.

Lemma probe_wf fs cwd p : fs_wf fs -> node_at fs cwd = Some KDir -> forall k unc fs1 unc',
  cda_probe fs cwd p k unc = inr (fs1, unc') -> fs_wf fs1.
Proof.
  intros W C. induction k as [|k IH]; intros unc fs1 unc' H; simpl in H.
  - now inversion H; subst.
  - destruct (sys_mkdir fs cwd (anc p (S k))) as [e|fs'] eqn:M.
    + destruct e; try discriminate.
      * eapply IH; eauto.
      * destruct (is_dir_l fs cwd (anc p (S k))); [|discriminate]. now inversion H; subst.
    + inversion H; subst. eapply mkdir_wf; eauto.
Qed.

Lemma fill_wf cwd p : forall n fs j e fs', fs_wf fs -> node_at fs cwd = Some KDir ->
  cda_fill fs cwd p j n = (e, fs') -> fs_wf fs'.
Proof.
  induction n as [|n IH]; intros fs j e fs' W C H; simpl in H.
  - now inversion H; subst.
  - destruct (sys_mkdir fs cwd (anc p j)) as [er|fs1] eqn:M.
    + destruct (errno_eqb er EEXIST && is_dir_l fs cwd (anc p j)); [eapply IH; eauto|now inversion H; subst].
    + eapply (IH fs1); [eapply mkdir_wf; eauto| |exact H].
      destruct (mkdir_extends _ _ _ _ M) as [E _]. eapply node_at_mono; eauto.
Qed.

Lemma cda_wf fs cwd p e fs' : fs_wf fs -> node_at fs cwd = Some KDir -> create_dir_all fs cwd p = (e, fs') -> fs_wf fs'.
Proof.
  intros W C. unfold create_dir_all. destruct (lp_comps p) as [|c cs]; [now intros H; inversion H; subst|].
  destruct (cda_probe fs cwd p (length (c :: cs)) 0) as [er|[fs1 unc]] eqn:Pr; [now intros H; inversion H; subst|].
  intros H. pose proof (probe_wf _ _ _ W C _ _ _ _ Pr) as W1.
  apply probe_facts in Pr as (E & _). eapply fill_wf; [exact W1| |exact H]. eapply node_at_mono; eauto.
Qed.

Lemma file_was_there fs fs' q c : extends fs fs' -> only_dirs_added fs fs' ->
  node_at fs' q = Some (KFile c) -> node_at fs q = Some (KFile c).
Proof.
  intros E O H. destruct q as [|x q]; [discriminate|]. simpl in *.
  destruct (lookup fs (x :: q)) as [k|] eqn:L.
  - apply E in L. congruence.
  - specialize (O _ _ L H). discriminate.
Qed.

Lemma clear_path_mono fs fs' cwd d : extends fs fs' -> only_dirs_added fs fs' -> clear_path fs cwd d -> clear_path fs' cwd d.
Proof.
  intros E O [ND NF]. split; [exact ND|]. intros i c Hi H. eapply NF; [exact Hi|]. eapply file_was_there; eauto.
Qed.

Lemma cpd_succeeds cwd : forall outs fs dirs, fs_wf fs -> node_at fs cwd = Some KDir ->
  (forall o d, In o outs -> lp_parent (path_new o) = Some d -> clear_path fs cwd d) ->
  exists fs', cpd_loop fs cwd dirs outs = (None, fs').
Proof.
  induction outs as [|o r IH]; intros fs dirs W C H; [now exists fs|]. simpl.
  destruct (lp_parent (path_new o)) as [par|] eqn:Pp.
  - destruct (existsb (lp_eqb par) dirs).
    + apply IH; auto. intros o' d I. apply H. now right.
    + destruct (create_dir_all_succeeds fs cwd par W C) as [fs1 E1]; [eapply H; [now left|exact Pp]|].
      rewrite E1. pose proof (cda_extends _ _ _ _ _ E1) as [E O].
      apply IH; [eapply cda_wf; eauto|eapply node_at_mono; eauto|].
      intros o' d I Q. eapply clear_path_mono; eauto. apply (H o'); [now right|exact Q].
  - apply IH; auto. intros o' d I. apply H. now right.
Qed.

(* on a well-formed tree, from a working directory that exists: unless a regular file sits where a
   directory of some output has to be (or a name has "." / ".." left in it), it succeeds *)
Theorem create_parent_dirs_succeeds fs cwd outs : fs_wf fs -> node_at fs cwd = Some KDir ->
  (forall o d, In o outs -> lp_parent (path_new o) = Some d -> clear_path fs cwd d) ->
  exists fs', create_parent_dirs fs cwd outs = (None, fs').
Proof. apply cpd_succeeds. Qed.

(* the example tree of FsProofs is well-formed and the example outputs without ".." are clear *)
Example ex_wf : fs_wf ex_fs.
Proof.
  intros q k L. unfold ex_fs in L. cbn [lookup] in L.
  destruct (path_eqb [s [119]] q) eqn:E1; [apply path_eqb_spec in E1; subst; split; [discriminate|reflexivity]|].
  destruct (path_eqb [s [119]; s [99]] q) eqn:E2; [apply path_eqb_spec in E2; subst; split; [discriminate|reflexivity]|].
  destruct (path_eqb [s [102]] q) eqn:E3; [apply path_eqb_spec in E3; subst; split; [discriminate|reflexivity]|].
  discriminate L.
Qed.

Example ex_clear : clear_path ex_fs ex_cwd (mkL false [s [97]; s [98]]).
Proof.
  split; [reflexivity|]. intros i c Hi. simpl in Hi.
  destruct i as [|[|[|i]]]; [vm_compute; discriminate|vm_compute; discriminate|vm_compute; discriminate|lia].
Qed.

Theorem create_parent_dirs_failure_means_blocked fs cwd outs e fs' : fs_wf fs -> node_at fs cwd = Some KDir ->
  create_parent_dirs fs cwd outs = (Some e, fs') ->
  ~ (forall o d, In o outs -> lp_parent (path_new o) = Some d -> clear_path fs cwd d).
Proof.
  intros W C H A. destruct (create_parent_dirs_succeeds fs cwd outs W C A) as [fs2 E]. congruence.
Qed.

(* ---------------------------------------------------------------------------------------- *)
(* well-formedness is kept by every preparation, so the premises hold again for the next step *)

Lemma cpd_wf cwd : forall outs fs dirs e fs', fs_wf fs -> node_at fs cwd = Some KDir ->
  cpd_loop fs cwd dirs outs = (e, fs') -> fs_wf fs'.
Proof.
  induction outs as [|o r IH]; intros fs dirs e fs' W C H; simpl in H; [now inversion H; subst|].
  destruct (lp_parent (path_new o)) as [par|]; [|eapply IH; eauto].
  destruct (existsb (lp_eqb par) dirs); [eapply IH; eauto|].
  destruct (create_dir_all fs cwd par) as [[er|] fs1] eqn:CD.
  - inversion H; subst. eapply cda_wf; eauto.
  - eapply (IH fs1); [eapply cda_wf; eauto| |exact H].
    apply cda_extends in CD as [E _]. eapply node_at_mono; eauto.
Qed.

Lemma write_rspfile_wf fs cwd name content e fs' : fs_wf fs -> node_at fs cwd = Some KDir ->
  write_rspfile fs cwd name content = (e, fs') -> fs_wf fs'.
Proof.
  intros W C. unfold write_rspfile. set (p := path_new name).
  destruct (match lp_parent p with Some parent => create_dir_all fs cwd parent | None => (None, fs) end)
    as [[er|] fs1] eqn:CD.
  - intros H; inversion H; subst. destruct (lp_parent p); [eapply cda_wf; eauto|discriminate].
  - assert (W1 : fs_wf fs1 /\ node_at fs1 cwd = Some KDir).
    { destruct (lp_parent p).
      - split; [eapply cda_wf; eauto|]. apply cda_extends in CD as [E _]. eapply node_at_mono; eauto.
      - inversion CD; subst. now split. }
    destruct W1 as [W1 C1].
    destruct (sys_write fs1 cwd name content) as [er|fs2] eqn:Wr; intros H; inversion H; subst; [exact W1|].
    apply sys_write_ok in Wr. fold p in Wr. revert Wr. unfold sys_write_l.
    destruct (split_last (lp_comps p)) as [[pre c]|]; [|discriminate].
    destruct (walk fs1 (lp_start cwd p) pre) as [er|cur] eqn:Wk; [discriminate|].
    destruct (fs_is_dotdot c || fs_is_dot c); [discriminate|].
    pose proof (walk_dir fs1 W1 _ _ _ (start_is_dir fs1 cwd p C1) Wk) as DC.
    intros Wr.
    assert (Sh : fs' = (cur ++ [c], KFile content) :: fs1 /\ lookup fs1 (cur ++ [c]) <> Some KDir).
    { rewrite <- node_at_lookup by apply app_one_not_nil.
      destruct (node_at fs1 (cur ++ [c])) as [[|ct]|]; try discriminate; inversion Wr; split; congruence. }
    destruct Sh as [-> ND].
    (* directories of fs1 are still directories *)
    assert (KD : forall q, node_at fs1 q = Some KDir -> node_at ((cur ++ [c], KFile content) :: fs1) q = Some KDir).
    { intros q D. destruct q as [|x q]; [reflexivity|]. simpl in *.
      destruct (path_eqb (cur ++ [c]) (x :: q)) eqn:Q; [|exact D].
      apply path_eqb_spec in Q. rewrite Q in ND. contradiction. }
    intros q k L. simpl in L. destruct (path_eqb (cur ++ [c]) q) eqn:Q.
    + apply path_eqb_spec in Q. subst q. split; [apply app_one_not_nil|]. rewrite removelast_snoc. now apply KD.
    + apply W1 in L as [NE D]. split; [exact NE|now apply KD].
Qed.

Theorem prepare_step_wf fs cwd outs rsp e fs' : fs_wf fs -> node_at fs cwd = Some KDir ->
  prepare_step fs cwd outs rsp = (e, fs') -> fs_wf fs' /\ node_at fs' cwd = Some KDir.
Proof.
  intros W C. unfold prepare_step, create_parent_dirs.
  destruct (cpd_loop fs cwd [] outs) as [[er|] fs1] eqn:CP.
  - intros H; inversion H; subst. split; [eapply cpd_wf; eauto|].
    apply cpd_extends in CP as [E _]. eapply node_at_mono; eauto.
  - assert (W1 : fs_wf fs1) by (eapply cpd_wf; eauto).
    assert (C1 : node_at fs1 cwd = Some KDir) by (apply cpd_extends in CP as [E _]; eapply node_at_mono; eauto).
    destruct rsp as [[n c]|].
    + intros H. split; [eapply write_rspfile_wf; eauto|].
      apply write_rspfile_dirs_kept in H. destruct cwd as [|x cw]; [reflexivity|]. simpl in *. now apply H.
    + intros H; inversion H; subst. now split.
Qed.

(* ---------------------------------------------------------------------------------------- *)
(* a failure names its cause (audit W2): some regular file sits at a prefix of some output's directory *)

Definition file_at (fs : fstree) (q : path) : bool :=
  match node_at fs q with Some (KFile _) => true | _ => false end.

Definition path_blocked (fs : fstree) (cwd : path) (d : lpath) : bool :=
  existsb (fun i => file_at fs (loc_prefix cwd d i)) (seq 0 (S (length (lp_comps d)))).

Definition out_blocked (fs : fstree) (cwd : path) (o : bytes) : bool :=
  match lp_parent (path_new o) with Some d => path_blocked fs cwd d | None => false end.

Lemma not_blocked_clear fs cwd d : nodots (lp_comps d) -> path_blocked fs cwd d = false -> clear_path fs cwd d.
Proof.
  intros ND B. split; [exact ND|]. intros i c Hi H.
  unfold path_blocked in B. rewrite <- Bool.not_true_iff_false in B. apply B.
  apply existsb_exists. exists i. split; [apply in_seq; lia|]. unfold file_at. now rewrite H.
Qed.

Theorem create_parent_dirs_failure_names_a_file fs cwd outs e fs' :
  fs_wf fs -> node_at fs cwd = Some KDir ->
  (forall o d, In o outs -> lp_parent (path_new o) = Some d -> nodots (lp_comps d)) ->
  create_parent_dirs fs cwd outs = (Some e, fs') ->
  exists o d i c, In o outs /\ lp_parent (path_new o) = Some d /\ i <= length (lp_comps d) /\
                  node_at fs (loc_prefix cwd d i) = Some (KFile c).
Proof.
  intros W C ND H. destruct (existsb (out_blocked fs cwd) outs) eqn:B.
  - apply existsb_exists in B as (o & I & OB). unfold out_blocked in OB.
    destruct (lp_parent (path_new o)) as [d|] eqn:Pp; [|discriminate].
    unfold path_blocked in OB. apply existsb_exists in OB as (i & Ii & F).
    apply in_seq in Ii. unfold file_at in F.
    destruct (node_at fs (loc_prefix cwd d i)) as [[|c]|] eqn:N; try discriminate.
    exists o, d, i, c. repeat split; auto. lia.
  - exfalso. destruct (create_parent_dirs_succeeds fs cwd outs W C) as [fs2 E]; [|congruence].
    intros o d I Pp. apply not_blocked_clear; [eapply ND; eauto|].
    rewrite <- Bool.not_true_iff_false in B. rewrite <- Bool.not_true_iff_false. intros PB. apply B.
    apply existsb_exists. exists o. split; [exact I|]. unfold out_blocked. now rewrite Pp.
Qed.
