(* Joint scheduler / World reasoning, basic layer: consequences of [graphs_agree], tree and
   cache facts, inversion of [replay] event by event, and the decomposition of a jointly
   accepted trace into its first item and the rest. *)
From Coq Require Import Lia ZArith List Bool Arith.
From N2 Require Import Model.All Proofs.SchedSpec.
From N2 Require Import Proofs.DbSpec Proofs.WorldSpec Proofs.WorldBase Proofs.WorldDeps Proofs.WorldDirty
     Proofs.JointSpec.
Import ListNotations.

(* ------------------------------------------------------------------------------------ *)
(* lists *)

Lemma firstn_In_le {A} (l : list A) : forall n m x, n <= m -> In x (firstn n l) -> In x (firstn m l).
Proof.
  induction l as [|a l IH]; intros n m x L H.
  - rewrite firstn_nil in H. destruct H.
  - destruct n as [|n]; [destruct H|]. destruct m as [|m]; [lia|].
    cbn [firstn In] in *. destruct H as [H|H]; [now left|]. right. apply (IH n m); [lia|exact H].
Qed.

Lemma firstn_In_all {A} (l : list A) n x : In x (firstn n l) -> In x l.
Proof. intro H. rewrite <- (firstn_skipn n l). apply in_or_app. now left. Qed.

Lemma dirtying_in_ordering b f : In f (dirtying_ins b) -> In f (ordering_ins b).
Proof. unfold dirtying_ins, ordering_ins. apply firstn_In_le. lia. Qed.

Lemma ordering_in_ins b f : In f (ordering_ins b) -> In f (b_ins b).
Proof. apply firstn_In_all. Qed.

(* ------------------------------------------------------------------------------------ *)
(* the two graph views *)

Section Agree.
Variable g : graph.
Variable wg : wgraph.
Hypothesis Hwf : graph_wf g.
Hypothesis Hag : graphs_agree g wg.
Notation nb := (length (g_builds g)).

Lemma ga_outs b : b < nb -> wb_outs (get_wbuild wg b) = map (file_name g) (b_outs (get_build g b)).
Proof.
  intro L. pose proof (ga_build g wg Hag b L) as H. cbv zeta in H.
  destruct H as (_ & _ & _ & _ & H & _). exact H.
Qed.

Lemma ga_dirtying b :
  b < nb -> wb_dirtying (get_wbuild wg b) = map (file_name g) (dirtying_ins (get_build g b)).
Proof.
  intro L. pose proof (ga_build g wg Hag b L) as H. cbv zeta in H. destruct H as (H1 & H2 & H3 & _).
  unfold wb_dirtying, dirtying_ins. rewrite H1, H2, H3. unfold names_of_ids. apply firstn_map.
Qed.

Lemma ga_phony b : b < nb -> (wb_cmdline (get_wbuild wg b) = None <-> b_phony (get_build g b) = true).
Proof.
  intro L. pose proof (ga_build g wg Hag b L) as H. cbv zeta in H.
  destruct H as (_ & _ & _ & _ & _ & H). exact H.
Qed.

Lemma out_file b f :
  In f (b_outs (get_build g b)) -> b < nb -> file_input g f = Some b /\ f < length (g_files g).
Proof.
  intros I L. assert (E : file_input g f = Some b) by (apply (ga_producer_outs g wg Hag); auto).
  split; [exact E|]. unfold file_input in E.
  destruct (nth_error (g_files g) f) eqn:N; [|discriminate].
  apply nth_error_Some. congruence.
Qed.

Lemma outs_inv b n : b < nb -> In n (wb_outs (get_wbuild wg b)) ->
  exists f, n = file_name g f /\ f < length (g_files g) /\ In f (b_outs (get_build g b)) /\
            file_input g f = Some b.
Proof.
  intros L I. rewrite (ga_outs b L) in I. apply in_map_iff in I. destruct I as (f & <- & If).
  destruct (out_file b f If L). exists f; auto.
Qed.

Lemma outs_producer b n : b < nb -> In n (wb_outs (get_wbuild wg b)) -> producer_of wg n = Some b.
Proof.
  intros L I. destruct (outs_inv b n L I) as (f & -> & Lf & _ & E).
  rewrite (ga_producer g wg Hag f Lf). exact E.
Qed.

Lemma outs_disjoint b b' n : b < nb -> b' < nb ->
  In n (wb_outs (get_wbuild wg b)) -> In n (wb_outs (get_wbuild wg b')) -> b = b'.
Proof.
  intros L L' I I'. pose proof (outs_producer b n L I). pose proof (outs_producer b' n L' I'). congruence.
Qed.

Lemma dirtying_inv b n : b < nb -> In n (wb_dirtying (get_wbuild wg b)) ->
  exists f, n = file_name g f /\ f < length (g_files g) /\ In f (dirtying_ins (get_build g b)).
Proof.
  intros L I. rewrite (ga_dirtying b L) in I. apply in_map_iff in I. destruct I as (f & <- & If).
  exists f. split; [reflexivity|]. split; [|exact If].
  destruct Hwf as [_ W]. apply (W b f L). apply ordering_in_ins, dirtying_in_ordering, If.
Qed.

(* a generated dirtying input: its producer is an ordering producer, and lists it as an output *)
Lemma dirtying_producer b n p :
  b < nb -> In n (wb_dirtying (get_wbuild wg b)) -> producer_of wg n = Some p ->
  ordering_producer g b p /\ p < nb /\ In n (wb_outs (get_wbuild wg p)).
Proof.
  intros L I P. destruct (dirtying_inv b n L I) as (f & -> & Lf & If).
  rewrite (ga_producer g wg Hag f Lf) in P.
  split; [exists f; split; [now apply dirtying_in_ordering|exact P]|].
  destruct (proj1 (ga_producer_outs g wg Hag f p) P) as [Lp Io].
  split; [exact Lp|]. rewrite (ga_outs p Lp). now apply in_map.
Qed.

Lemma dirtying_out_producer b n p : b < nb -> p < nb ->
  In n (wb_dirtying (get_wbuild wg b)) -> In n (wb_outs (get_wbuild wg p)) -> ordering_producer g b p.
Proof. intros L Lp I Io. apply (dirtying_producer b n p L I). now apply outs_producer. Qed.

End Agree.

(* ------------------------------------------------------------------------------------ *)
(* the tree *)

Lemma fs_get_cons k t r n : fs_get ((k, t) :: r) n = if bytes_eqb k n then Some t else fs_get r n.
Proof. reflexivity. Qed.

Lemma fs_get_set_other : forall fs n v n', n' <> n -> fs_get (fs_set fs n v) n' = fs_get fs n'.
Proof.
  induction fs as [|[k t] fs IH]; intros n v n' Hne; cbn [fs_set].
  - destruct v as [t|]; [|reflexivity]. rewrite fs_get_cons, bytes_eqb_neq by congruence. reflexivity.
  - destruct (bytes_eqb k n) eqn:E.
    + apply bytes_eqb_spec in E. subst k.
      destruct v as [t'|]; rewrite ?fs_get_cons, bytes_eqb_neq by congruence; reflexivity.
    + rewrite !fs_get_cons. destruct (bytes_eqb k n'); [reflexivity|]. now apply IH.
Qed.

Definition set_fs (w : wstate) (n : bytes) (t : option mtime) : wstate :=
  mkW (fs_set (ws_fs w) n t) (ws_cache w) (ws_disc w) (ws_hashes w) (ws_tbl w) (ws_log w).

(* ------------------------------------------------------------------------------------ *)
(* check_build_dirty only stat()s *)

Lemma check_ext g w b bd w' r : check_build_dirty g w b bd = (w', r) -> cache_ext w w'.
Proof.
  intro E. destruct (wb_cmdline bd) as [c|] eqn:Hc.
  - destruct (check_inv _ _ _ _ _ _ _ Hc E) as (wa & r1 & E1 & H1).
    apply ensure_inputs_spec in E1 as (X1 & _ & _).
    destruct r1 as [[n|]|n].
    + destruct H1 as (-> & _). exact X1.
    + destruct H1 as (wb & r2 & E2 & H2). apply ensure_inputs_spec in E2 as (X2 & _ & _).
      pose proof (cache_ext_trans _ _ _ X1 X2) as X12.
      destruct r2 as [[n|]|n].
      * destruct H2 as (-> & _). exact X12.
      * destruct H2 as (mo & E3 & _). apply stat_all_spec in E3 as (X3 & _).
        eapply cache_ext_trans; eassumption.
      * destruct H2 as (-> & _). exact X12.
    + destruct H1 as (-> & _). exact X1.
  - unfold check_build_dirty in E. rewrite Hc in E.
    destruct (stat_all w (wb_outs bd) false) as [w1 m] eqn:Es.
    injection E as <- _. apply stat_all_spec in Es as (X & _). exact X.
Qed.

(* a clean verdict has stat()ed every output *)
Lemma check_clean_outs g w b bd w' : check_build_dirty g w b bd = (w', DClean) ->
  forall o, In o (wb_outs bd) -> cache_get (ws_cache w') o = Some (fs_get (ws_fs w) o).
Proof.
  intro E. destruct (wb_cmdline bd) as [c|] eqn:Hc.
  - destruct (check_inv _ _ _ _ _ _ _ Hc E) as (wa & r1 & E1 & H1).
    apply ensure_inputs_spec in E1 as (X1 & _ & _).
    destruct r1 as [[n|]|n].
    + destruct H1 as (_ & Hr). destruct (producer_of g n); discriminate.
    + destruct H1 as (wb & r2 & E2 & H2). apply ensure_inputs_spec in E2 as (X2 & _ & _).
      pose proof (cache_ext_trans _ _ _ X1 X2) as X12.
      destruct r2 as [[n|]|n]; [destruct H2; discriminate| |destruct H2; discriminate].
      destruct H2 as (mo & E3 & _). apply stat_all_spec in E3 as (_ & _ & S3).
      assert (F : ws_fs wb = ws_fs w) by apply X12. rewrite F in S3. exact S3.
    + destruct H1 as (_ & Hr). discriminate.
  - unfold check_build_dirty in E. rewrite Hc in E.
    destruct (stat_all w (wb_outs bd) false) as [w1 m] eqn:Es.
    injection E as <-. apply stat_all_spec in Es as (_ & _ & S). exact S.
Qed.

(* record_finished only stat()s and appends; it has stat()ed every output *)
Lemma record_ext w b bd rep w1 r : record_finished w b bd rep = Ok (w1, r) ->
  ws_fs w1 = ws_fs w /\ ws_hashes w1 = ws_hashes w /\
  (forall n, cache_get (ws_cache w1) n = cache_get (ws_cache w) n \/
             cache_get (ws_cache w1) n = Some (fs_get (ws_fs w) n)) /\
  (forall o, In o (wb_outs bd) -> cache_get (ws_cache w1) o = Some (fs_get (ws_fs w) o)).
Proof.
  intro E. destruct (record_finished_inv _ _ _ _ _ _ E) as (deps & wa & mi & wb & mo & _ & Ea & Eb & Hr).
  apply stat_all_spec in Ea as (Xa & _ & _). apply stat_all_spec in Eb as (Xb & _ & Sb).
  pose proof (cache_ext_trans _ _ _ Xa Xb) as X.
  assert (Fa : ws_fs wa = ws_fs w) by apply Xa. rewrite Fa in Sb.
  destruct X as (F & _ & Hh & _ & _ & C). cbn [with_disc ws_fs ws_cache ws_hashes] in F, Hh, C.
  assert (W : ws_fs w1 = ws_fs wb /\ ws_hashes w1 = ws_hashes wb /\ ws_cache w1 = ws_cache wb).
  { destruct Hr as [(_ & -> & _)|(_ & m & bytes & tbl & _ & _ & -> & _)]; cbn; auto. }
  destruct W as (W1 & W2 & W3). rewrite W1, W2, W3. auto.
Qed.

(* ------------------------------------------------------------------------------------ *)
(* replay, one event at a time *)

Definition pendt := option (nat * option (list bytes)).

Definition wev (wg : wgraph) (w : wstate) (pend : pendt) (e : wevent) (w1 : wstate) (pend1 : pendt) : Prop :=
  match e with
  | WWrite n t => w1 = set_fs w n t /\ pend1 = pend
  | WVerdict b v =>
    exists res, check_build_dirty wg w b (get_wbuild wg b) = (w1, res) /\ dr_code res = v /\ pend1 = pend
  | WFinish b term rep => w1 = w /\ pend1 = (if (term =? 0)%N then Some (b, rep) else None)
  | WAdopt b => w1 = w /\ pend1 = Some (b, Some (disc_of w b))
  | WRecord b h =>
    exists rep, pend = Some (b, rep) /\
                record_finished w b (get_wbuild wg b) rep = Ok (w1, Some h) /\ pend1 = None
  | WNoRecord b =>
    exists rep, pend = Some (b, rep) /\
                record_finished w b (get_wbuild wg b) rep = Ok (w1, None) /\ pend1 = None
  end.

Lemma replay_cons wg w pend e rest i w' :
  replay wg w pend (e :: rest) i = WOk w' ->
  exists w1 pend1, wev wg w pend e w1 pend1 /\ replay wg w1 pend1 rest (S i) = WOk w'.
Proof.
  intro H. cbn [replay] in H. destruct e as [b v|b term rep|b h|b|n t|b]; cbn [wev].
  - destruct (check_build_dirty wg w b (get_wbuild wg b)) as [wc res] eqn:E.
    change (match res with DClean => 0%N | DDirty _ => 1%N | DError _ => 2%N end) with (dr_code res) in H.
    destruct (dr_code res =? v)%N eqn:Ev; [|discriminate]. apply N.eqb_eq in Ev.
    exists wc, pend. split; [exists res; auto|exact H].
  - destruct (term =? 0)%N; eexists; eexists; (split; [split; reflexivity|exact H]).
  - destruct pend as [[b' rep]|]; [|discriminate].
    destruct (b =? b')%nat eqn:Eb; cbn [negb] in H; [|discriminate]. apply Nat.eqb_eq in Eb. subst b'.
    destruct (record_finished w b (get_wbuild wg b) rep) as [[w1 [h'|]]| | | |] eqn:Er; try discriminate.
    destruct (h =? h')%N eqn:Eh; [|discriminate]. apply N.eqb_eq in Eh. subst h'.
    exists w1, None. split; [exists rep; auto|exact H].
  - destruct pend as [[b' rep]|]; [|discriminate].
    destruct (b =? b')%nat eqn:Eb; cbn [negb] in H; [|discriminate]. apply Nat.eqb_eq in Eb. subst b'.
    destruct (record_finished w b (get_wbuild wg b) rep) as [[w1 [h'|]]| | | |] eqn:Er; try discriminate.
    exists w1, None. split; [exists rep; auto|exact H].
  - eexists; eexists. split; [split; reflexivity|exact H].
  - eexists; eexists. split; [split; reflexivity|exact H].
Qed.

Lemma replay_nil wg w pend i w' : replay wg w pend [] i = WOk w' -> w' = w.
Proof. cbn. congruence. Qed.

(* ------------------------------------------------------------------------------------ *)
(* the World effect of one item of the joint trace *)

Definition aw_is (aw : option nat) (b : nat) : bool :=
  match aw with Some a => (a =? b)%nat | None => false end.

Definition wstepP (wg : wgraph) (ad : bool) (w : wstate) (aw : option nat) (pend : pendt) (j : jitem)
           (w1 : wstate) (aw1 : option nat) (pend1 : pendt) : Prop :=
  match j with
  | JWrite n t => w1 = set_fs w n t /\ aw1 = aw /\ pend1 = pend
  | JVerdict b v =>
    exists res, check_build_dirty wg w b (get_wbuild wg b) = (w1, res) /\ dr_code res = verdict_code v /\
      match v with
      | VDirty => if ad then aw1 = Some b /\ pend1 = Some (b, Some (disc_of w1 b))
                  else aw1 = aw /\ pend1 = pend
      | _ => aw1 = aw /\ pend1 = pend
      end
  | JFinish b t rep =>
    w1 = w /\ match t with
              | TSuccess => aw1 = Some b /\ pend1 = Some (b, rep)
              | _ => aw1 = None /\ pend1 = None
              end
  | JRecord b h =>
    exists rep, pend = Some (b, rep) /\
                record_finished w b (get_wbuild wg b) rep = Ok (w1, Some h) /\ aw1 = None /\ pend1 = None
  | JSet b _ Done =>
    if aw_is aw b
    then exists rep, pend = Some (b, rep) /\
                     record_finished w b (get_wbuild wg b) rep = Ok (w1, None) /\ aw1 = None /\ pend1 = None
    else w1 = w /\ aw1 = aw /\ pend1 = pend
  | _ => w1 = w /\ aw1 = aw /\ pend1 = pend
  end.

Lemma proj_w_step wg ad w aw pend j tr i w' :
  replay wg w pend (proj_w ad aw (j :: tr)) i = WOk w' ->
  exists w1 aw1 pend1 i1,
    wstepP wg ad w aw pend j w1 aw1 pend1 /\ replay wg w1 pend1 (proj_w ad aw1 tr) i1 = WOk w'.
Proof.
  intro H. destruct j as [c|b|b v|b p n|b|n|n t|b t rep|b h|ok]; cbn [proj_w wstepP] in *;
    try (exists w, aw, pend, i; split; [auto|exact H]).
  - (* verdict *)
    destruct v; cbn [verdict_code].
    + apply replay_cons in H. destruct H as (w1 & p1 & (res & E & Ec & ->) & H).
      exists w1, aw, pend, (S i). split; [exists res; auto|exact H].
    + destruct ad.
      * apply replay_cons in H. destruct H as (w1 & p1 & (res & E & Ec & ->) & H).
        apply replay_cons in H. destruct H as (w2 & p2 & (-> & ->) & H).
        exists w1, (Some b), (Some (b, Some (disc_of w1 b))), (S (S i)). split; [exists res; auto|exact H].
      * apply replay_cons in H. destruct H as (w1 & p1 & (res & E & Ec & ->) & H).
        exists w1, aw, pend, (S i). split; [exists res; auto|exact H].
    + apply replay_cons in H. destruct H as (w1 & p1 & (res & E & Ec & ->) & H).
      exists w1, aw, pend, (S i). split; [exists res; auto|exact H].
  - (* set *)
    destruct n; try (exists w, aw, pend, i; split; [auto|exact H]).
    unfold aw_is. destruct aw as [a|]; [|exists w, None, pend, i; split; [auto|exact H]].
    destruct (a =? b)%nat; [|exists w, (Some a), pend, i; split; [auto|exact H]].
    apply replay_cons in H. destruct H as (w1 & p1 & (rep & -> & E & ->) & H).
    exists w1, None, None, (S i). split; [exists rep; auto|exact H].
  - (* write *)
    apply replay_cons in H. destruct H as (w1 & p1 & (-> & ->) & H).
    exists (set_fs w n t), aw, pend, (S i). split; [auto|exact H].
  - (* finish *)
    apply replay_cons in H. destruct H as (w1 & p1 & (-> & ->) & H).
    destruct t; cbn [term_code N.eqb] in H; eexists; eexists; eexists; eexists; (split; [|exact H]); auto.
  - (* record *)
    apply replay_cons in H. destruct H as (w1 & p1 & (rep & -> & E & ->) & H).
    exists w1, None, None, (S i). split; [exists rep; auto|exact H].
Qed.

(* ------------------------------------------------------------------------------------ *)
(* the scheduler side of one item *)

Lemma accepts_app cf : forall l1 l2 r r',
  accepts cf r (l1 ++ l2) = Some r' <-> exists r1, accepts cf r l1 = Some r1 /\ accepts cf r1 l2 = Some r'.
Proof.
  induction l1 as [|e l1 IH]; intros l2 r r'; cbn [app accepts].
  - split; [intro H; exists r; auto|intros (r1 & [= <-] & H); exact H].
  - destruct (accept1 cf r e) as [r1|]; [apply IH|].
    split; [discriminate|intros (r1 & H & _); discriminate].
Qed.

Lemma proj_s_cons j tr : proj_s (j :: tr) = proj_s1 j ++ proj_s tr.
Proof. reflexivity. Qed.

Lemma proj_s_app tr1 tr2 : proj_s (tr1 ++ tr2) = proj_s tr1 ++ proj_s tr2.
Proof. unfold proj_s. now rewrite map_app, concat_app. Qed.

(* the running set of [writes_ok] after one item *)
Definition run_after (run : list nat) (j : jitem) : list nat :=
  match j with
  | JStart b => b :: run
  | JFinish b _ _ => filter (fun x => negb (x =? b)%nat) run
  | _ => run
  end.

Definition write_ok (wg : wgraph) (run : list nat) (j : jitem) : Prop :=
  match j with
  | JWrite n _ => exists b, In b run /\ In n (wb_outs (get_wbuild wg b))
  | _ => True
  end.

Lemma writes_ok_cons wg run j tr :
  writes_ok wg run (j :: tr) <-> write_ok wg run j /\ writes_ok wg (run_after run j) tr.
Proof. destruct j; cbn [writes_ok write_ok run_after]; tauto. Qed.

(* ------------------------------------------------------------------------------------ *)
(* joint states and joint runs *)

Record jst := mkJ {
  j_r : rstate; j_w : wstate; j_aw : option nat; j_pend : pendt; j_run : list nat
}.

Definition jstep (cf : config) (wg : wgraph) (a : jst) (j : jitem) (b : jst) : Prop :=
  accepts cf (j_r a) (proj_s1 j) = Some (j_r b) /\
  wstepP wg (cf_adopt cf) (j_w a) (j_aw a) (j_pend a) j (j_w b) (j_aw b) (j_pend b) /\
  write_ok wg (j_run a) j /\ j_run b = run_after (j_run a) j.

Definition jrun (cf : config) (wg : wgraph) (a : jst) (tr : list jitem) (r' : rstate) (w' : wstate) : Prop :=
  accepts cf (j_r a) (proj_s tr) = Some r' /\
  (exists i, replay wg (j_w a) (j_pend a) (proj_w (cf_adopt cf) (j_aw a) tr) i = WOk w') /\
  writes_ok wg (j_run a) tr.

Lemma jrun_nil cf wg a r' w' : jrun cf wg a [] r' w' -> r' = j_r a /\ w' = j_w a.
Proof. intros ([= <-] & (i & H) & _). apply replay_nil in H. auto. Qed.

Lemma jrun_cons cf wg a j tr r' w' :
  jrun cf wg a (j :: tr) r' w' -> exists b, jstep cf wg a j b /\ jrun cf wg b tr r' w'.
Proof.
  intros (Hs & (i & Hw) & Ho).
  rewrite proj_s_cons in Hs. apply accepts_app in Hs. destruct Hs as (r1 & Hs1 & Hs).
  apply proj_w_step in Hw. destruct Hw as (w1 & aw1 & pend1 & i1 & Hw1 & Hw).
  apply writes_ok_cons in Ho. destruct Ho as [Ho1 Ho].
  exists (mkJ r1 w1 aw1 pend1 (run_after (j_run a) j)). unfold jstep, jrun. cbn [j_r j_w j_aw j_pend j_run].
  repeat split; eauto.
Qed.

(* states reached from [a] along a prefix of an accepted trace *)
Inductive jreach (cf : config) (wg : wgraph) (a : jst) : list jitem -> jst -> Prop :=
| jr_nil : jreach cf wg a [] a
| jr_snoc tr b j c : jreach cf wg a tr b -> jstep cf wg b j c -> jreach cf wg a (tr ++ [j]) c.

Lemma jreach_cons cf wg a j b : jstep cf wg a j b -> forall tr c, jreach cf wg b tr c -> jreach cf wg a (j :: tr) c.
Proof.
  intros Hs tr c H. induction H as [|tr b' j' c' H IH Hs'].
  - apply (jr_snoc cf wg a [] a j b); [constructor|exact Hs].
  - change (j :: tr ++ [j']) with ((j :: tr) ++ [j']). eapply jr_snoc; eassumption.
Qed.

(* every split of a jointly accepted trace passes through a joint state *)
Lemma jrun_split cf wg : forall pre a post r' w',
  jrun cf wg a (pre ++ post) r' w' -> exists b, jreach cf wg a pre b /\ jrun cf wg b post r' w'.
Proof.
  induction pre as [|j pre IH]; intros a post r' w' H; cbn [app] in H.
  - exists a. split; [constructor|exact H].
  - apply jrun_cons in H. destruct H as (b & Hs & H). apply IH in H. destruct H as (c & Hr & H).
    exists c. split; [|exact H]. eapply jreach_cons; eassumption.
Qed.

Lemma jreach_inv cf wg (P : jst -> Prop) :
  (forall a j b, P a -> jstep cf wg a j b -> P b) ->
  forall a tr b, P a -> jreach cf wg a tr b -> P b.
Proof. intros Hstep a tr b Pa H. induction H; eauto. Qed.

(* [jaccepted] is a joint run from the initial joint state *)
Definition jinit (r0 : rstate) (w0 : wstate) : jst := mkJ r0 w0 None None [].

Lemma jaccepted_jrun cf wg r0 w0 tr r w :
  jaccepted cf wg r0 w0 tr r w -> writes_ok wg [] tr -> jrun cf wg (jinit r0 w0) tr r w.
Proof. intros (Hs & Hw) Ho. unfold jrun, jinit. cbn [j_r j_w j_aw j_pend j_run]. eauto. Qed.

(* ------------------------------------------------------------------------------------ *)
(* the converse direction: a joint step followed by a joint run is a joint run; hence the
   prefix of a jointly accepted trace is jointly accepted, and ends in the reached state *)

Lemma replay_index wg : forall evs w pend i i' w',
  replay wg w pend evs i = WOk w' -> replay wg w pend evs i' = WOk w'.
Proof.
  induction evs as [|e evs IH]; intros w pend i i' w' H; [exact H|].
  apply replay_cons in H. destruct H as (w1 & pend1 & He & H). apply (IH _ _ _ (S i')) in H.
  cbn [replay]. destruct e as [b v|b term rep|b h|b|n t|b]; cbn [wev] in He.
  - destruct He as (res & -> & <- & ->). unfold dr_code. rewrite N.eqb_refl. exact H.
  - destruct He as (-> & ->). destruct (term =? 0)%N; exact H.
  - destruct He as (rep & -> & -> & ->). rewrite Nat.eqb_refl. cbn [negb]. rewrite N.eqb_refl. exact H.
  - destruct He as (rep & -> & -> & ->). rewrite Nat.eqb_refl. cbn [negb]. exact H.
  - destruct He as (-> & ->). exact H.
  - destruct He as (-> & ->). exact H.
Qed.

Lemma replay_cons_conv wg w pend e rest i w1 pend1 w' :
  wev wg w pend e w1 pend1 -> replay wg w1 pend1 rest (S i) = WOk w' ->
  replay wg w pend (e :: rest) i = WOk w'.
Proof.
  intros He H. cbn [replay]. destruct e as [b v|b term rep|b h|b|n t|b]; cbn [wev] in He.
  - destruct He as (res & -> & <- & ->). unfold dr_code. rewrite N.eqb_refl. exact H.
  - destruct He as (-> & ->). destruct (term =? 0)%N; exact H.
  - destruct He as (rep & -> & -> & ->). rewrite Nat.eqb_refl. cbn [negb]. rewrite N.eqb_refl. exact H.
  - destruct He as (rep & -> & -> & ->). rewrite Nat.eqb_refl. cbn [negb]. exact H.
  - destruct He as (-> & ->). exact H.
  - destruct He as (-> & ->). exact H.
Qed.

Lemma proj_w_step_conv wg ad w aw pend j tr w1 aw1 pend1 i1 w' :
  wstepP wg ad w aw pend j w1 aw1 pend1 -> replay wg w1 pend1 (proj_w ad aw1 tr) i1 = WOk w' ->
  replay wg w pend (proj_w ad aw (j :: tr)) 0 = WOk w'.
Proof.
  intros Hw H.
  destruct j as [c|b|b v|b p n|b|n|n t|b t rep|b h|ok]; cbn [proj_w wstepP] in *;
    try (destruct Hw as (-> & -> & ->); exact (replay_index _ _ _ _ _ _ _ H)).
  - (* verdict *)
    destruct Hw as (res & Ec & Hcode & Haw).
    destruct v; cbn [verdict_code] in *.
    + destruct Haw as (-> & ->). apply (replay_cons_conv wg w pend _ _ 0 w1 pend); [exists res; auto|].
      exact (replay_index _ _ _ _ _ _ _ H).
    + destruct ad.
      * destruct Haw as (-> & ->). apply (replay_cons_conv wg w pend _ _ 0 w1 pend); [exists res; auto|].
        apply (replay_cons_conv wg w1 pend _ _ 1 w1 (Some (b, Some (disc_of w1 b)))); [split; reflexivity|].
        exact (replay_index _ _ _ _ _ _ _ H).
      * destruct Haw as (-> & ->). apply (replay_cons_conv wg w pend _ _ 0 w1 pend); [exists res; auto|].
        exact (replay_index _ _ _ _ _ _ _ H).
    + destruct Haw as (-> & ->). apply (replay_cons_conv wg w pend _ _ 0 w1 pend); [exists res; auto|].
      exact (replay_index _ _ _ _ _ _ _ H).
  - (* set *)
    destruct n; try (destruct Hw as (-> & -> & ->); exact (replay_index _ _ _ _ _ _ _ H)).
    unfold aw_is in Hw. destruct aw as [a|]; [|destruct Hw as (-> & -> & ->); exact (replay_index _ _ _ _ _ _ _ H)].
    destruct (a =? b)%nat; [|destruct Hw as (-> & -> & ->); exact (replay_index _ _ _ _ _ _ _ H)].
    destruct Hw as (rep & Hp & Er & -> & ->).
    apply (replay_cons_conv wg w pend _ _ 0 w1 None); [exists rep; auto|].
    exact (replay_index _ _ _ _ _ _ _ H).
  - (* finish *)
    destruct Hw as (-> & Haw).
    apply (replay_cons_conv wg w pend _ _ 0 w pend1).
    + cbn [wev]. split; [reflexivity|]. destruct t; cbn [term_code N.eqb]; destruct Haw as (_ & ->); reflexivity.
    + destruct t; destruct Haw as (-> & _); exact (replay_index _ _ _ _ _ _ _ H).
  - (* record *)
    destruct Hw as (rep & Hp & Er & -> & ->).
    apply (replay_cons_conv wg w pend _ _ 0 w1 None); [exists rep; auto|].
    exact (replay_index _ _ _ _ _ _ _ H).
Qed.

Lemma jrun_cons_conv cf wg a j b tr r' w' :
  jstep cf wg a j b -> jrun cf wg b tr r' w' -> jrun cf wg a (j :: tr) r' w'.
Proof.
  intros (Hs & Hw & Hwr & Hrun) (Hs' & (i & Hw') & Ho'). unfold jrun. split; [|split].
  - rewrite proj_s_cons. apply accepts_app. eauto.
  - exists 0. exact (proj_w_step_conv _ _ _ _ _ _ _ _ _ _ _ _ Hw Hw').
  - apply writes_ok_cons. split; [exact Hwr|]. now rewrite <- Hrun.
Qed.

(* every split of a jointly accepted trace: the prefix is jointly accepted and ends in a reached
   joint state, from which the rest is accepted *)
Lemma jrun_prefix cf wg : forall pre a post r' w',
  jrun cf wg a (pre ++ post) r' w' ->
  exists b, jreach cf wg a pre b /\ jrun cf wg a pre (j_r b) (j_w b) /\ jrun cf wg b post r' w'.
Proof.
  induction pre as [|j pre IH]; intros a post r' w' H; cbn [app] in H.
  - exists a. split; [constructor|]. split; [|exact H].
    unfold jrun. cbn. split; [reflexivity|]. split; [exists 0; reflexivity|exact I].
  - apply jrun_cons in H. destruct H as (b & Hs & H). apply IH in H. destruct H as (c & Hr & Hp & H).
    exists c. split; [eapply jreach_cons; eassumption|]. split; [|exact H].
    eapply jrun_cons_conv; eassumption.
Qed.

Lemma jrun_jaccepted cf wg r0 w0 tr r w :
  jrun cf wg (jinit r0 w0) tr r w -> jaccepted cf wg r0 w0 tr r w /\ writes_ok wg [] tr.
Proof.
  intros (Hs & (i & Hw) & Ho). cbn [jinit j_r j_w j_aw j_pend j_run] in *.
  split; [|exact Ho]. split; [exact Hs|]. exact (replay_index _ _ _ _ _ _ _ Hw).
Qed.
