(* C15: non-vacuity examples for the specification vocabulary of DepfileSpec.v, and the
   refutation witness for the pinned tree (F13). *)
From Coq Require Import String.
From N2 Require Import Model.All Proofs.DepfileSpec.


Lemma spells_eq d t t' : spells_d d t -> t = t' -> spells_d d t'.
Proof. intros H E; subst; exact H. Qed.

Ltac gp :=
  split; [discriminate |
  split; [vm_compute; reflexivity |
  split; vm_compute; discriminate]].
Ltac gt := split; [gp | vm_compute; discriminate].

Lemma filler_nil : filler [].
Proof.
  exists [], []. split; [intros c []|]. split; [constructor | reflexivity].
Qed.

Lemma blank_filler b : blank b -> filler b.
Proof.
  intro H. exists b, []. split; [exact H|]. split; [constructor | now rewrite app_nil_r].
Qed.

Lemma seps_spaces2 : seps [32; 32]%N.
Proof. apply (seps_cons [32%N] [32%N]); [constructor|]. apply (seps_cons [32%N] []); constructor. Qed.

(* "out/a.o: src/a.c \\\n  src/b.c\n\nout/b.o :\n" *)
Definition ex1_text : bytes :=
  bs "out/a.o: src/a.c \" ++ [10%N] ++ bs "  src/b.c" ++ [10; 10]%N ++ bs "out/b.o :" ++ [10%N].
Definition ex1_d : list (bytes * list bytes) :=
  [(bs "out/a.o", [bs "src/a.c"; bs "src/b.c"]); (bs "out/b.o", [])].

Example ex1_spells : spells_d ex1_d ex1_text.
Proof.
  eapply spells_eq.
  - eapply (sd_cons (bs "out/a.o", [bs "src/a.c"; bs "src/b.c"]) _ [] _ _ filler_nil).
    + eapply (et_attached (bs "out/a.o") _ _ []); [gt | | constructor].
      apply (dt0_cons false (bs "src/a.c") [bs "src/b.c"] [32%N]).
      * apply (seps_cons [32%N] []); constructor.
      * intros _; discriminate.
      * gp.
      * apply (dt_cons (bs "src/b.c") [] ([32%N] ++ [92; 10]%N ++ [32; 32]%N)).
        -- exists [32%N], ([92; 10]%N ++ [32; 32]%N). split; [constructor|]. split; [|reflexivity].
           apply seps_cons; [constructor | exact seps_spaces2].
        -- gp.
        -- constructor.
    + eapply (sd_cons (bs "out/b.o", []) [] [10%N] _ []).
      * apply blank_filler. intros c [<-|[]]; now right.
      * eapply (et_detached (bs "out/b.o") [] [32%N] [] []); [gt | | discriminate | constructor | constructor].
        intros c [<-|[]]; reflexivity.
      * apply sd_nil, filler_nil.
  - vm_compute. reflexivity.
Qed.

Example ex1_parse : depfile_parse ex1_text = Ok (merge_targets ex1_d).
Proof. vm_compute. reflexivity. Qed.

Example ex1_deps : depfile_deps ex1_text = Ok [bs "src/a.c"; bs "src/b.c"].
Proof. vm_compute. reflexivity. Qed.

(* no final newline, "t :x" form, leading blank lines, continuation before the first target,
   repeated target, trailing separators *)
Definition ex2_text : bytes :=
  [10; 32; 10; 92; 10]%N ++ bs "a :x" ++ [92; 10]%N ++ bs "y  " ++ [10%N] ++ bs "b:" ++ [10%N] ++ bs "a: c:\z \".
Definition ex2_d : list (bytes * list bytes) :=
  [(bs "a", [bs "x"; bs "y"]); (bs "b", []); (bs "a", [bs "c:\z"])].

Example ex2_spells : spells_d ex2_d (ex2_text ++ [10%N]).
Proof.
  eapply spells_eq.
  - eapply (sd_cons (bs "a", [bs "x"; bs "y"]) _ ([10; 32; 10]%N ++ [92; 10]%N)).
    + exists [10; 32; 10]%N, [92; 10]%N. split.
      * intros c [<-|[<-|[<-|[]]]]; auto.
      * split; [|reflexivity]. apply (seps_cons [92; 10]%N []); constructor.
    + eapply (et_detached (bs "a") _ [32%N] _ [32; 32]%N); [gt | | discriminate | | exact seps_spaces2].
      * intros c [<-|[]]; reflexivity.
      * apply (dt0_cons true (bs "x") [bs "y"] []); [constructor | discriminate | gp |].
        apply (dt_cons (bs "y") [] [92; 10]%N).
        -- exists [92; 10]%N, []. split; [constructor|]. split; [constructor | reflexivity].
        -- gp.
        -- constructor.
    + eapply (sd_cons (bs "b", []) _ [] _ _ filler_nil).
      * eapply (et_attached (bs "b") [] [] []); [gt | constructor | constructor].
      * eapply (sd_last (bs "a", [bs "c:\z"]) [] _ filler_nil).
        -- eapply (et_attached (bs "a") _ _ ([32%N] ++ [92; 10]%N)); [gt | |].
           ++ apply (dt0_cons false (bs "c:\z") [] [32%N]).
              ** apply (seps_cons [32%N] []); constructor.
              ** intros _; discriminate.
              ** gp.
              ** constructor.
           ++ apply seps_cons; [constructor|]. apply (seps_cons [92; 10]%N []); constructor.
  - vm_compute. reflexivity.
Qed.

Example ex2_parse : depfile_parse (ex2_text ++ [10%N]) = Ok (merge_targets ex2_d).
Proof. vm_compute. reflexivity. Qed.

Example ex2_merge : merge_targets ex2_d = [(bs "a", [bs "x"; bs "y"; bs "c:\z"]); (bs "b", [])].
Proof. vm_compute. reflexivity. Qed.

(* the pinned tree (smallmap insert replaces): F13 *)
Definition f13_d : list (bytes * list bytes) := [(bs "a", [bs "x"]); (bs "a", [bs "y"])].
Definition f13_text : bytes := bs "a: x" ++ [10%N] ++ bs "a: y" ++ [10%N].

Lemma f13_spells : spells_d f13_d f13_text.
Proof.
  assert (E : forall v, good_path (bs v) -> entry_text (bs "a", [bs v]) (bs "a" ++ [58%N] ++ ([32%N] ++ bs v ++ []) ++ [])).
  { intros v Hv. apply et_attached; [gt | | constructor].
    apply dt0_cons; [apply (seps_cons [32%N] []); constructor | intros _; discriminate | exact Hv | constructor]. }
  eapply spells_eq.
  - eapply (sd_cons _ _ [] _ _ filler_nil (E "x"%string ltac:(gp))).
    eapply (sd_cons _ [] [] _ [] filler_nil (E "y"%string ltac:(gp))).
    apply sd_nil, filler_nil.
  - vm_compute. reflexivity.
Qed.

Lemma pinned_refuted :
  exists d t, spells_d d t /\ depfile_deps_pinned t <> Ok (concat (map snd d)) /\
              exists l, depfile_deps_pinned t = Ok l /\ ~ Permutation l (concat (map snd d)).
Proof.
  exists f13_d, f13_text. split; [exact f13_spells|]. split.
  - vm_compute. intro HH; discriminate HH.
  - exists [bs "y"]. split; [vm_compute; reflexivity|].
    intro P. apply Permutation_length in P. vm_compute in P. discriminate P.
Qed.
