(* Repair of audit finding M4 (Props/C08Image.v): renumbering the steps, with the redundant premise
   dropped and the steps outside the image of the renumbering accounted for. *)
From Coq Require Import String Lia.
From N2 Require Import Model.All Proofs.DbSpec Proofs.DbCodec Proofs.DbWriter Proofs.DbReader Proofs.DbMain Proofs.DbRenumber.
From N2 Require Import Proofs.AuditNonVacuousDb Proofs.AuditFindingsMisc.

Theorem renumbering_exact : forall producer sigma log st1 f,
  (forall x y : nat, sigma x = sigma y -> x = y) ->
  db_open true producer log = OpenOk st1 f ->
  exists st2, db_open true (fun n => option_map sigma (producer n)) log = OpenOk st2 f /\
    ld_tbl st2 = ld_tbl st1 /\
    (forall b, loaded_for st2 (sigma b) = loaded_for st1 b) /\
    (forall c, (forall b, sigma b <> c) -> loaded_for st2 c = None).
Proof.
  intros producer sigma log st1 f Hinj H1.
  destruct (db_renumbering_opens producer sigma log st1 f Hinj H1) as (st2 & H2 & Ht & Hl).
  exists st2. split; [exact H2|]. split; [exact Ht|]. split; [exact Hl|].
  intros c Hc. exact (M4_outside_image_empty producer sigma log st1 st2 f Hinj H1 H2 c Hc).
Qed.

(* C08_renumbering_invariant with its two independent premises only *)
Theorem renumbering_invariant_two_premises : forall producer sigma log st1,
  (forall x y : nat, sigma x = sigma y -> x = y) ->
  db_open true producer log = OpenOk st1 log ->
  exists st2, db_open true (fun n => option_map sigma (producer n)) log = OpenOk st2 log /\
    (forall b, loaded_for st2 (sigma b) = loaded_for st1 b) /\
    (forall c, (forall b, sigma b <> c) -> loaded_for st2 c = None).
Proof.
  intros producer sigma log st1 Hinj H1.
  destruct (renumbering_exact producer sigma log st1 log Hinj H1) as (st2 & H2 & _ & Hl & Ho).
  exists st2. repeat split; assumption.
Qed.

(* a renumbering that is not onto: every step id is shifted by five *)
Definition shift5 (n : nat) : nat := n + 5.
Lemma shift5_inj : forall x y : nat, shift5 x = shift5 y -> x = y.
Proof. unfold shift5. intros x y H. lia. Qed.

Example renumbering_exact_example :
  exists producer sigma log st1 f,
    (forall x y : nat, sigma x = sigma y -> x = y) /\ db_open true producer log = OpenOk st1 f /\
    (forall b, sigma b <> 0) /\ (forall b, sigma b <> 1) /\
    loaded_for st1 0 = Some ([bs "y"], 22%N) /\ loaded_for st1 1 = Some ([bs "x"], 33%N) /\
    exists st2, db_open true (fun n => option_map sigma (producer n)) log = OpenOk st2 f /\
      loaded_for st2 5 = Some ([bs "y"], 22%N) /\ loaded_for st2 6 = Some ([bs "x"], 33%N) /\
      loaded_for st2 0 = None /\ loaded_for st2 1 = None.
Proof.
  exists nv_prod, shift5, nv_log, (open_st (db_open true nv_prod nv_log)), nv_log.
  split; [exact shift5_inj|]. split; [vm_compute; reflexivity|].
  split; [unfold shift5; intro b; lia|]. split; [unfold shift5; intro b; lia|].
  split; [vm_compute; reflexivity|]. split; [vm_compute; reflexivity|].
  exists (open_st (db_open true (fun n => option_map shift5 (nv_prod n)) nv_log)).
  repeat split; vm_compute; reflexivity.
Qed.
