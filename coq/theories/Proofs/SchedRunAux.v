(* Helper lemmas for the preservation proof: ready queue, pool queues, counters, depths. *)
From Coq Require Import Lia ZArith List Bool Arith.
From N2 Require Import Model.All Proofs.SchedSpec Proofs.SchedInv Proofs.SchedRunBase
     Proofs.SchedRunStep Proofs.SchedRunCore.
Import ListNotations.

Lemma NoDup_snoc {A} (l : list A) x : NoDup l -> ~ In x l -> NoDup (l ++ [x]).
Proof.
  induction l as [|a l IH]; cbn; intros N H.
  - constructor; [intros []|constructor].
  - inversion N as [|? ? N1 N2]; subst. constructor.
    + rewrite in_app_iff. cbn. intros [I|[I|[]]]; [contradiction|]. apply H. left. now symmetry.
    + apply IH; [exact N2|]. intro I. apply H. right. exact I.
Qed.

Lemma BCore_set_ready g decls s q : BCore g decls s -> BCore g decls (set_ready s q).
Proof. intros [H1 H2 H3 H4 H5 H6 H7 H8 H9 H10 H11]. constructor; assumption. Qed.

(* ------------------------------------------------------------------------------------ *)
(* ready queue *)

Lemma ReadyOk_pop g s b q :
  ReadyOk g s None -> remove_first b (bs_ready s) = Some q -> ReadyOk g (set_ready s q) (Some b).
Proof.
  intros [N E] H. destruct (remove_first_NoDup b _ q N H) as (Nq & _ & Hq).
  split; [exact Nq|]. intro x. cbn [set_ready bs_ready]. rewrite Hq, E.
  change (get_state (set_ready s q) x) with (get_state s x). split.
  - intros ((L & S & _) & Ne). repeat split; auto; try congruence.
  - intros (L & S & Ne). repeat split; auto; try discriminate; try congruence.
Qed.

Lemma ReadyOk_close g s s' b :
  ReadyOk g s (Some b) -> upd_at s s' b -> get_state s' b <> Ready -> bs_ready s' = bs_ready s ->
  ReadyOk g s' None.
Proof.
  intros [N E] U Hb Hr. split; [rewrite Hr; exact N|]. intro x. rewrite Hr, E. split.
  - intros (L & S & Ne). assert (x <> b) by congruence. rewrite (U x) by assumption.
    repeat split; auto. discriminate.
  - intros (L & S & _). assert (Nx : x <> b) by (intros ->; contradiction).
    rewrite (U x Nx) in S. repeat split; auto. congruence.
Qed.

Lemma ReadyOk_other g s s' b h :
  ReadyOk g s h -> upd_at s s' b -> get_state s b <> Ready -> get_state s' b <> Ready ->
  bs_ready s' = bs_ready s -> ReadyOk g s' h.
Proof.
  intros [N E] U Hb Hb' Hr. split; [rewrite Hr; exact N|]. intro x. rewrite Hr, E. split.
  - intros (L & S & Ne). assert (Nx : x <> b) by (intros ->; contradiction).
    rewrite (U x Nx). auto.
  - intros (L & S & Ne). assert (Nx : x <> b) by (intros ->; contradiction).
    rewrite (U x Nx) in S. auto.
Qed.

Lemma ReadyOk_push g s s' d :
  ReadyOk g s None -> upd_at s s' d -> d < length (g_builds g) ->
  get_state s d <> Ready -> get_state s' d = Ready -> bs_ready s' = bs_ready s ++ [d] ->
  ReadyOk g s' None.
Proof.
  intros [N E] U L Hd Hd' Hr. split.
  - rewrite Hr. apply NoDup_snoc; [exact N|]. intro I. apply E in I. tauto.
  - intro x. rewrite Hr, in_app_iff, E. cbn [In]. split.
    + intros [(Lx & S & Ne)|[<-|[]]].
      * assert (Nx : x <> d) by (intros ->; contradiction). rewrite (U x Nx). auto.
      * repeat split; auto. discriminate.
    + intros (Lx & S & Ne). destruct (Nat.eq_dec x d) as [->|Nx]; [right; left; reflexivity|].
      left. rewrite (U x Nx) in S. auto.
Qed.

(* ------------------------------------------------------------------------------------ *)
(* pool queues *)

(* every queue entry other than b survives from ps to ps' *)
Definition queues_sub_except (b : nat) (ps ps' : list pool) : Prop :=
  map p_name ps' = map p_name ps /\
  forall p, In p ps -> exists p', In p' ps' /\ p_name p' = p_name p /\
                                  forall x, x <> b -> In x (p_queued p) -> In x (p_queued p').

Lemma queues_sub_refl b ps : queues_sub_except b ps ps.
Proof. split; [reflexivity|]. intros p I. exists p. auto. Qed.

Lemma queues_sub_trans b ps1 ps2 ps3 :
  queues_sub_except b ps1 ps2 -> queues_sub_except b ps2 ps3 -> queues_sub_except b ps1 ps3.
Proof.
  intros [M1 H1] [M2 H2]. split; [congruence|].
  intros p I. destruct (H1 p I) as (p2 & I2 & N2 & S2). destruct (H2 p2 I2) as (p3 & I3 & N3 & S3).
  exists p3. split; [exact I3|]. split; [congruence|]. auto.
Qed.

Lemma same_queues_sub b ps ps' : same_queues ps ps' -> queues_sub_except b ps ps'.
Proof.
  intros (M & F & _). split; [exact M|]. intros p I. destruct (F p I) as (p' & I' & N' & Q').
  exists p'. split; [exact I'|]. split; [exact N'|]. intros x _ Ix. now rewrite Q'.
Qed.

Lemma set_queue_sub b ps nm (fq : list nat -> list nat) ps' :
  NoDup (map p_name ps) ->
  pool_update ps nm (fun p => mkPool (p_name p) (fq (p_queued p)) (p_running p) (p_depth p)) = Some ps' ->
  (forall p, In p ps -> p_name p = nm -> forall x, x <> b -> In x (p_queued p) -> In x (fq (p_queued p))) ->
  queues_sub_except b ps ps'.
Proof.
  intros N U H.
  set (f := fun p => mkPool (p_name p) (fq (p_queued p)) (p_running p) (p_depth p)) in *.
  destruct (pool_update_In ps nm f ps' (fun _ => eq_refl) N U) as (p0 & I0 & Hn & _ & Hm & Hin).
  split; [exact Hm|]. intros p I.
  destruct (list_eq_dec N.eq_dec (p_name p) nm) as [E|E].
  - exists (f p0). split; [apply Hin; now left|].
    assert (p = p0).
    { pose proof (pool_find_of_In ps p N I) as F1. pose proof (pool_find_of_In ps p0 N I0) as F2.
      rewrite E in F1. rewrite Hn in F2. congruence. }
    subst p. split; [reflexivity|]. unfold f. cbn [p_queued]. apply H; assumption.
  - exists p. split; [apply Hin; right; auto|]. auto.
Qed.

Lemma QueueOk_upd g s s' b :
  QueueOk g s -> upd_at s s' b -> queues_sub_except b (bs_pools s) (bs_pools s') ->
  (In (get_state s' b) [Queued; Running] ->
   pool_find (bs_pools s') (pool_name (get_build g b)) <> None) ->
  (get_state s' b = Queued ->
   exists p, In p (bs_pools s') /\ p_name p = pool_name (get_build g b) /\ In b (p_queued p)) ->
  QueueOk g s'.
Proof.
  intros Q U [M S] Hb1 Hb2 x L.
  destruct (Nat.eq_dec x b) as [->|Nx]; [split; assumption|].
  rewrite (U x Nx). destruct (Q x L) as [Q1 Q2]. split.
  - intro I. apply (pool_find_names (bs_pools s)); [exact M|]. exact (Q1 I).
  - intro E. destruct (Q2 E) as (p & Ip & Np & Ix).
    destruct (S p Ip) as (p' & Ip' & Np' & Sx). exists p'. split; [exact Ip'|]. split; [congruence|].
    apply Sx; assumption.
Qed.

Lemma QueueOk_set_ready g s q : QueueOk g s -> QueueOk g (set_ready s q).
Proof. intro Q. exact Q. Qed.

(* ------------------------------------------------------------------------------------ *)
(* counters *)

Lemma upd_counts g s s' b st :
  b < length (g_builds g) -> upd_at s s' b ->
  count_state g s' st false =
  (count_state g s st false - Z.b2z (bstate_eqb (get_state s b) st) + Z.b2z (bstate_eqb (get_state s' b) st))%Z.
Proof.
  intros L U. rewrite (count_state_upd g s s' b st false L U).
  cbn [negb orb]. now rewrite !andb_true_r.
Qed.

Lemma producers_done_spec g s d :
  producers_done g s (get_build g d) = true ->
  forall p, ordering_producer g d p -> get_state s p = Done.
Proof.
  unfold producers_done. intros H p (f & If & Ef).
  rewrite forallb_forall in H. specialize (H f If). rewrite Ef in H. now apply bstate_eqb_eq in H.
Qed.

(* ------------------------------------------------------------------------------------ *)
(* pool depths *)

Definition depth_ok (g : graph) (s : bstates) : Prop :=
  forall p, In p (bs_pools s) -> 0 < p_depth p ->
            (running_in_pool g s (p_name p) <= Z.of_nat (p_depth p))%Z.

Lemma pool_nd_transfer g decls s s' p' :
  BCore g decls s -> BCore g decls s' -> In p' (bs_pools s') ->
  exists p, In p (bs_pools s) /\ p_name p = p_name p' /\ p_depth p = p_depth p'.
Proof.
  intros C C' I.
  assert (I2 : In (p_name p', p_depth p') (map (fun p => (p_name p, p_depth p)) (bs_pools s'))).
  { apply in_map_iff. exists p'. auto. }
  rewrite (bc_pool_names _ _ _ C'), <- (bc_pool_names _ _ _ C) in I2.
  apply in_map_iff in I2. destruct I2 as (p & E & Ip). inversion E. exists p. auto.
Qed.

Lemma depth_ok_mono g decls s s' :
  BCore g decls s -> BCore g decls s' ->
  (forall n, (running_in_pool g s' n <= running_in_pool g s n)%Z) ->
  depth_ok g s -> depth_ok g s'.
Proof.
  intros C C' M D p' I' Hd.
  destruct (pool_nd_transfer g decls s s' p' C C' I') as (p & Ip & En & Ed).
  rewrite <- En, <- Ed. rewrite <- Ed in Hd. specialize (D p Ip Hd). specialize (M (p_name p)). lia.
Qed.
