(* Vocabulary for the universal half of C06 termination (Props/C06Term.v): who makes a move,
   maximal traces, infinite runs, the fairness premises on the two stuttering events, and
   what a returned state guarantees.  Definitions only. *)
From Coq Require Import List Arith ZArith.
From N2 Require Import Model.All Proofs.SchedSpec Proofs.SchedBoundSpec.
Import ListNotations.

(* ---- who moves ---- *)

(* events the scheduler emits of its own accord: examining a ready step, every change of a
   step's state, handing a command to the runner, writing the log record, leaving the loop *)
Definition sched_move (e : event) : bool :=
  match e with
  | EPopReady _ | ESet _ _ _ | EStart _ | ERecord _ | EReturn _ => true
  | _ => false
  end.

(* events that carry an answer of the environment: the verdict of the dirtiness check on the
   step being examined, the termination of a running command *)
Definition env_move (e : event) : bool :=
  match e with
  | EVerdict _ _ | EFinish _ _ => true
  | _ => false
  end.

(* the states in which the acceptor takes an answer of the environment: a step is being
   examined, or the loop is at its top with a command running *)
Definition awaits_env (r : rstate) : Prop :=
  (exists b, rs_ctl r = CChecking b) \/ (rs_ctl r = CIdle /\ 0 < rs_running r).

(* ---- maximal traces, infinite runs ---- *)

(* an accepted trace after which only the stuttering events (if any) are accepted *)
Definition maximal (cf : config) (r : rstate) (evs : list event) (r' : rstate) : Prop :=
  accepts cf r evs = Some r' /\ forall e, is_stutter e = false -> accept1 cf r' e = None.

(* the first n events of an infinite sequence *)
Definition prefix (f : nat -> event) (n : nat) : list event := map f (seq 0 n).

(* an infinite sequence of events every finite prefix of which is accepted *)
Definition infinite_run (cf : config) (r : rstate) (f : nat -> event) : Prop :=
  forall n, accepts cf r (prefix f n) <> None.

(* ---- fairness ---- *)

(* between any two events of class p there is one of class q *)
Definition separated (p q : event -> bool) (evs : list event) : Prop :=
  forall l1 e1 l2 e2 l3, evs = l1 ++ e1 :: l2 ++ e2 :: l3 -> p e1 = true -> p e2 = true ->
    exists e, In e l2 /\ q e = true.

(* the same, as a check: [armed] = an event of class p has been seen since the last of class q *)
Fixpoint sep_b (p q : event -> bool) (armed : bool) (evs : list event) : bool :=
  match evs with
  | [] => true
  | e :: rest =>
    if p e then negb armed && sep_b p q true rest
    else if q e then sep_b p q false rest
    else sep_b p q armed rest
  end.

(* the runner's wait returns: between two EQuiesce events some command terminates *)
Definition quiesce_fair (evs : list event) : Prop := separated is_quiesce is_finish evs.

(* the progress display is refreshed once per iteration: no two EUpdate events in a row *)
Definition update_fair (evs : list event) : Prop :=
  separated is_update (fun e => negb (is_update e)) evs.

(* some function of the graph bounds a measure of every accepted trace that satisfies P *)
Definition bounded_by_graph_if (P : list event -> Prop) (measure : list event -> nat) : Prop :=
  exists f : graph -> nat, forall cf decls r evs r',
    graph_wf (cf_graph cf) -> reachable cf decls r -> accepts cf r evs = Some r' -> P evs ->
    measure evs <= f (cf_graph cf).

(* ---- what a returned state guarantees ---- *)

(* every step with a state is Done *)
Definition all_done (g : graph) (s : bstates) : Prop :=
  forall b, b < length (g_builds g) -> get_state s b <> Unknown -> get_state s b = Done.

(* the step waits, directly or transitively, for a failed one *)
Definition blocked (g : graph) (s : bstates) (b : nat) : Prop :=
  get_state s b = Want /\ exists f, get_state s f = Failed /\ ord_reach g b f.

(* every step with a state is Done, Failed, or blocked by a failed one: nothing more can be done *)
Definition settled (g : graph) (s : bstates) : Prop :=
  forall b, b < length (g_builds g) -> get_state s b <> Unknown ->
    get_state s b = Done \/ get_state s b = Failed \/ blocked g s b.

(* [r1] is the state from which [EReturn ok] was accepted *)
Definition return_guarantee (cf : config) (r1 : rstate) (ok : option bool) : Prop :=
  let g := cf_graph cf in
  let s := rs_bs r1 in
  match ok with
  | Some true =>
    (* the loop ran out of work: nothing failed, nothing runs, every wanted step is Done *)
    rs_ctl r1 = CIdle /\ rs_failed r1 = 0 /\ rs_running r1 = 0 /\ bs_pending s = 0%Z /\ all_done g s
  | Some false =>
    (* keep-going exhausted: something failed, nothing runs, and nothing more can be done *)
    (rs_ctl r1 = CIdle /\ 0 < rs_failed r1 /\ rs_running r1 = 0 /\
     (exists f, f < length (g_builds g) /\ get_state s f = Failed) /\ settled g s) \/
    (* the failure budget is spent by the command that has just failed *)
    (exists b rec, rs_ctl r1 = CFinished b TFailure rec /\ rs_failures_left r1 = Some 1 /\
                   b < length (g_builds g) /\ get_state s b = Running) \/
    (* a command was interrupted *)
    (exists b rec, rs_ctl r1 = CFinished b TInterrupted rec /\
                   b < length (g_builds g) /\ get_state s b = Running)
  | None =>
    (* a build-file error on step b: its dirtiness check failed (missing input, stat error),
       or it names a pool that is not declared *)
    exists b rec, rs_ctl r1 = CVerdict b VError rec /\ b < length (g_builds g) /\
      (get_state s b = Ready \/
       (get_state s b = Queued /\ pool_find (bs_pools s) (pool_name (get_build g b)) = None))
  end.
