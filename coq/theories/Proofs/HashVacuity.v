(* Two facts about the model's hash, recorded while repairing the log premise of
   C03_null_build_invocation (see Proofs/JointVacuity.v):

   1. [siphash13_lt]: the hash of a stream of real bytes (every element < 256) is below 2^64.
      Without the byte condition this is not true of the model: [bytes] are unbounded numbers and
      an element >= 2^64 makes the state words, hence the result, exceed 64 bits.  This is why
      "the recorded hash is < 2^64" is a premise ([in_bounds]) and not derived.

   2. [hash_build_not_injective]: the premise of C02_clean_implies_recorded_manifest,
        forall m1 m2, hash_build m1 = hash_build m2 -> manifest_stream m1 = manifest_stream m2,
      is false (pigeonhole on 2^64 + 1 manifests with pairwise different streams of real bytes),
      so that theorem is vacuous; its pairwise versions (C02_clean_means_identical,
      C02_never_skips_changed*, with [no_collision m m0] for the two manifests compared) are
      the meaningful ones.  Proofs/WorldSpec.v already says so in a comment; here it is checked. *)
From Coq Require Import Lia NArith List Arith.
From N2 Require Import Model.All Proofs.DbCodec Proofs.WorldHash.
Import ListNotations.
Local Open Scope N_scope.

(* ------------------------------------------------------------------------------------ *)
(* 64-bit words *)

Definition B (x : N) : Prop := x < two64.

Lemma B_iff x : B x <-> N.shiftr x 64 = 0.
Proof.
  unfold B. rewrite N.shiftr_div_pow2. change (2 ^ 64) with two64.
  symmetry. apply N.div_small_iff. discriminate.
Qed.

Lemma B_lor a b : B a -> B b -> B (N.lor a b).
Proof. rewrite !B_iff, N.shiftr_lor. now intros -> ->. Qed.

Lemma B_lxor a b : B a -> B b -> B (N.lxor a b).
Proof. rewrite !B_iff, N.shiftr_lxor. now intros -> ->. Qed.

Lemma B_m64 x : B (m64 x).
Proof. unfold B, m64. apply N.mod_lt. discriminate. Qed.

Lemma B_shiftr x k : B x -> B (N.shiftr x k).
Proof.
  rewrite !B_iff. intro H. rewrite N.shiftr_shiftr, N.add_comm, <- N.shiftr_shiftr, H.
  apply N.shiftr_0_l.
Qed.

Lemma B_rotl x b : B x -> B (rotl x b).
Proof. intro H. unfold rotl. apply B_lor; [apply B_m64|now apply B_shiftr]. Qed.

Definition SB (s : sipstate) : Prop := B (v0 s) /\ B (v1 s) /\ B (v2 s) /\ B (v3 s).

Lemma sipround_SB s : SB s -> SB (sipround s).
Proof.
  intros (H0 & H1 & H2 & H3). unfold sipround, SB. cbv zeta. cbn [v0 v1 v2 v3].
  repeat split; repeat (apply B_m64 || apply B_lxor || apply B_rotl || assumption).
Qed.

Lemma sip_absorb_SB s m : SB s -> B m -> SB (sip_absorb s m).
Proof.
  intros (H0 & H1 & H2 & H3) Hm. unfold sip_absorb. cbv zeta.
  assert (S1 : SB (sipround (mkSip (v0 s) (v1 s) (v2 s) (N.lxor (v3 s) m)))).
  { apply sipround_SB. unfold SB. cbn [v0 v1 v2 v3]. repeat split; try assumption. now apply B_lxor. }
  destruct S1 as (A0 & A1 & A2 & A3). unfold SB. cbn [v0 v1 v2 v3].
  repeat split; try assumption. now apply B_lxor.
Qed.

(* ------------------------------------------------------------------------------------ *)
(* little-endian numbers of real bytes *)

Definition is_byte (c : N) : Prop := c < 256.

Lemma of_le_lt : forall l, Forall is_byte l -> of_le l < 256 ^ N.of_nat (length l).
Proof.
  induction l as [|c l IH]; intro H; [cbn; lia|].
  inversion H as [|? ? Hc Hl]; subst. specialize (IH Hl). unfold is_byte in Hc.
  cbn [of_le length]. rewrite Nat2N.inj_succ, N.pow_succ_r by lia. lia.
Qed.

Lemma of_le_B l : Forall is_byte l -> (length l <= 8)%nat -> B (of_le l).
Proof.
  intros H L. pose proof (of_le_lt l H) as H1. unfold B.
  apply (N.lt_le_trans _ _ _ H1). change two64 with (256 ^ 8).
  apply N.pow_le_mono_r; lia.
Qed.

(* ------------------------------------------------------------------------------------ *)
(* the hasher *)

Lemma sip_words_SB : forall fuel s l, SB s -> Forall is_byte l -> (length l < fuel)%nat ->
  SB (fst (sip_words fuel s l)) /\ Forall is_byte (snd (sip_words fuel s l)) /\
  (length (snd (sip_words fuel s l)) < 8)%nat.
Proof.
  induction fuel as [|fuel IH]; intros s l Hs Hl Lf; [lia|].
  cbn [sip_words].
  destruct l as [|a [|b [|c [|d [|e [|f [|g [|h rest]]]]]]]];
    try (cbn [fst snd]; split; [exact Hs|split; [exact Hl|cbn [length]; lia]]).
  assert (Hw : Forall is_byte [a; b; c; d; e; f; g; h] /\ Forall is_byte rest).
  { repeat match goal with H : Forall is_byte (_ :: _) |- _ => inversion H; subst; clear H end.
    split; [repeat constructor|]; assumption. }
  destruct Hw as (Hw & Hr).
  apply IH; [|exact Hr|cbn [length] in Lf; lia].
  apply sip_absorb_SB; [exact Hs|]. apply of_le_B; [exact Hw|cbn; lia].
Qed.

Theorem siphash13_lt : forall msg, Forall is_byte msg -> siphash13 msg < two64.
Proof.
  intros msg H. unfold siphash13.
  destruct (sip_words_SB (S (length msg)) sip_init msg) as (Hs & Ht & Ll); [|exact H|lia|].
  { unfold SB, B, sip_init, two64. cbn [v0 v1 v2 v3]. repeat split; reflexivity. }
  destruct (sip_words (S (length msg)) sip_init msg) as [s tail]. cbn [fst snd] in Hs, Ht, Ll.
  cbv zeta.
  assert (Hb : B (N.lor (N.shiftl (N.of_nat (length msg) mod 256) 56) (of_le tail))).
  { apply B_lor; [|apply of_le_B; [exact Ht|lia]].
    unfold B. rewrite N.shiftl_mul_pow2.
    pose proof (N.mod_lt (N.of_nat (length msg)) 256 ltac:(discriminate)) as Hm.
    change two64 with (256 * 2 ^ 56). apply N.mul_lt_mono_pos_r; [reflexivity|exact Hm]. }
  pose proof (sip_absorb_SB s _ Hs Hb) as (A0 & A1 & A2 & A3).
  set (s1 := sip_absorb s _) in *.
  assert (S2 : SB (mkSip (v0 s1) (v1 s1) (N.lxor (v2 s1) 255) (v3 s1))).
  { unfold SB. cbn [v0 v1 v2 v3]. repeat split; try assumption. apply B_lxor; [assumption|reflexivity]. }
  pose proof (sipround_SB _ (sipround_SB _ (sipround_SB _ S2))) as (F0 & F1 & F2 & F3).
  apply B_lxor; apply B_lxor; assumption.
Qed.
Print Assumptions siphash13_lt.

(* ------------------------------------------------------------------------------------ *)
(* pigeonhole *)

Lemma bounded_search (P : nat -> Prop) (dec : forall i, {P i} + {~ P i}) :
  forall n, (exists i, (i <= n)%nat /\ P i) \/ (forall i, (i <= n)%nat -> ~ P i).
Proof.
  induction n as [|n IH].
  - destruct (dec O) as [H|H]; [left; exists O; split; [lia|exact H]|].
    right. intros i Li. assert (i = O) by lia. now subst.
  - destruct IH as [(i & Li & Hi)|IH]; [left; exists i; split; [lia|exact Hi]|].
    destruct (dec (S n)) as [H|H]; [left; exists (S n); split; [lia|exact H]|].
    right. intros i Li. destruct (Nat.eq_dec i (S n)) as [->|Ne]; [exact H|apply IH; lia].
Qed.

Lemma pigeonhole_nat : forall n (g : nat -> nat), (forall i, (i <= n)%nat -> (g i < n)%nat) ->
  exists i j, (i < j <= n)%nat /\ g i = g j.
Proof.
  induction n as [|n IH]; intros g Hg; [specialize (Hg O (le_n _)); lia|].
  destruct (bounded_search (fun i => g i = g (S n)) (fun i => Nat.eq_dec (g i) (g (S n))) n)
    as [(i & Li & Hi)|Hno].
  - exists i, (S n). split; [lia|exact Hi].
  - set (g' := fun i => if (g i <? g (S n))%nat then g i else (g i - 1)%nat).
    destruct (IH g') as (i & j & Lij & E).
    + intros i Li. unfold g'. pose proof (Hg i ltac:(lia)). pose proof (Hg (S n) ltac:(lia)).
      pose proof (Hno i Li). destruct (Nat.ltb_spec (g i) (g (S n))); lia.
    + exists i, j. split; [lia|]. unfold g' in E.
      pose proof (Hno i ltac:(lia)). pose proof (Hno j ltac:(lia)).
      destruct (Nat.ltb_spec (g i) (g (S n))); destruct (Nat.ltb_spec (g j) (g (S n))); lia.
Qed.

Lemma pigeonhole_N (f : N -> N) (M : N) : (forall k, k <= M -> f k < M) ->
  exists i j, i < j /\ j <= M /\ f i = f j.
Proof.
  intro Hf.
  destruct (pigeonhole_nat (N.to_nat M) (fun i => N.to_nat (f (N.of_nat i)))) as (i & j & Lij & E).
  - intros i Li. pose proof (Hf (N.of_nat i) ltac:(lia)). lia.
  - exists (N.of_nat i), (N.of_nat j). split; [lia|]. split; [lia|]. lia.
Qed.

(* ------------------------------------------------------------------------------------ *)
(* 2^64 + 1 manifests with pairwise different streams of real bytes *)

Definition mk (k : N) : manifest := mkManifest [] [] (le_bytes 9 k) None [].

Lemma mk_stream k : manifest_stream (mk k) = [31; 31] ++ le_bytes 9 k ++ [255; 31; 31].
Proof. reflexivity. Qed.

Lemma le_bytes_is_byte : forall n k, Forall is_byte (le_bytes n k).
Proof.
  induction n as [|n IH]; intro k; cbn [le_bytes]; constructor; [|apply IH].
  apply N.mod_lt. discriminate.
Qed.

Lemma mk_hash_lt k : hash_build (mk k) < two64.
Proof.
  unfold hash_build. apply siphash13_lt. rewrite mk_stream.
  apply Forall_app. split; [repeat constructor|].
  apply Forall_app. split; [apply le_bytes_is_byte|repeat constructor].
Qed.

Theorem hash_build_not_injective :
  ~ (forall m1 m2, hash_build m1 = hash_build m2 -> manifest_stream m1 = manifest_stream m2).
Proof.
  intro Hinj.
  destruct (pigeonhole_N (fun k => hash_build (mk k)) two64 (fun k _ => mk_hash_lt k))
    as (i & j & Lij & Lj & E).
  apply Hinj in E. rewrite !mk_stream in E. apply app_inv_head in E.
  apply app_inv_tail in E.
  assert (Hj : j < 256 ^ N.of_nat 9).
  { apply (N.le_lt_trans _ _ _ Lj). unfold two64. reflexivity. }
  apply le_bytes_inj in E; [lia| |exact Hj]. lia.
Qed.
Print Assumptions hash_build_not_injective.
