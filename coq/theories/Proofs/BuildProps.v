(* C17: properties of the orchestration model (Model/Build.v). *)
From N2 Require Import Base.Base Model.Build.

Section P.
  Context {W G : Type}.
  Variable load : W -> outcome G.
  Variable regen : G -> W -> W * option bool * nat.
  Variable main : G -> bool -> W -> W * option bool * nat.

  (* if bringing the manifest up to date does not succeed, nothing else runs and the exit is non-zero *)
  Lemma regen_failure_stops w0 g0 w1 r1 t1 :
    load w0 = Ok g0 -> regen g0 w0 = (w1, r1, t1) -> r1 <> Some true ->
    bt_main_on (build load regen main w0) = None /\ bt_world (build load regen main w0) = w1 /\
    (forall n, bt_result (build load regen main w0) <> BOk n).
  Proof.
    intros Hl Hr Hne. unfold build. rewrite Hl, Hr.
    destruct r1 as [[|]|]; [congruence| |]; cbn; repeat split; intros; discriminate.
  Qed.

  (* if a command ran for the manifest, the main phase uses a state loaded from the world AFTER the
     regeneration, and nothing of the old loaded state *)
  Lemma reload_uses_new_world w0 g0 w1 t1 gm reuse :
    load w0 = Ok g0 -> regen g0 w0 = (w1, Some true, S t1) ->
    bt_main_on (build load regen main w0) = Some (gm, reuse) ->
    load w1 = Ok gm /\ reuse = false.
  Proof.
    intros Hl Hr. unfold build. rewrite Hl, Hr.
    destruct (load w1) as [g1| | | |] eqn:E; cbn; try discriminate.
    unfold finish_main. destruct (main g1 false w1) as [[w2 r2] t2].
    destruct r2 as [[|]|]; cbn; intro H; inversion H; subst; auto.
  Qed.

  (* a manifest that no longer loads after regeneration fails the invocation before anything else runs *)
  Lemma reload_error_stops w0 g0 w1 t1 :
    load w0 = Ok g0 -> regen g0 w0 = (w1, Some true, S t1) -> (forall g, load w1 <> Ok g) ->
    bt_result (build load regen main w0) = BError /\ bt_main_on (build load regen main w0) = None.
  Proof.
    intros Hl Hr Hn. unfold build. rewrite Hl, Hr.
    destruct (load w1) as [g1| | | |] eqn:E; cbn; auto. exfalso. now apply (Hn g1).
  Qed.

  (* an up-to-date manifest: no reload, the main phase continues on the same loaded state and scheduler *)
  Lemma no_regen_reuses w0 g0 w1 :
    load w0 = Ok g0 -> regen g0 w0 = (w1, Some true, 0) ->
    bt_main_on (build load regen main w0) = Some (g0, true).
  Proof.
    intros Hl Hr. unfold build. rewrite Hl, Hr. unfold finish_main.
    destruct (main g0 true w1) as [[w2 r2] t2]. destruct r2 as [[|]|]; reflexivity.
  Qed.

  (* the reported number of tasks is the sum over both phases; success only if both succeeded *)
  Lemma tasks_sum w0 n :
    bt_result (build load regen main w0) = BOk n ->
    exists g0 w1 t1 gm reuse w2 t2,
      load w0 = Ok g0 /\ regen g0 w0 = (w1, Some true, t1) /\
      bt_main_on (build load regen main w0) = Some (gm, reuse) /\
      main gm reuse w1 = (w2, Some true, t2) /\ n = t1 + t2.
  Proof.
    unfold build. destruct (load w0) as [g0| | | |] eqn:Hl; cbn; try discriminate.
    destruct (regen g0 w0) as [[w1 r1] t1] eqn:Hr.
    destruct r1 as [[|]|]; cbn; try discriminate.
    destruct t1 as [|t1].
    - unfold finish_main. destruct (main g0 true w1) as [[w2 r2] t2] eqn:Hm.
      destruct r2 as [[|]|]; cbn; try discriminate. intro H. injection H as Hn.
      exists g0, w1, 0, g0, true, w2, t2. repeat split; auto.
    - destruct (load w1) as [g1| | | |] eqn:Hl1; cbn; try discriminate.
      unfold finish_main. destruct (main g1 false w1) as [[w2 r2] t2] eqn:Hm.
      destruct r2 as [[|]|]; cbn; try discriminate. intro H. injection H as Hn.
      exists g0, w1, (S t1), g1, false, w2, t2. repeat split; auto.
  Qed.
End P.
