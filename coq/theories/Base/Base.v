(* Base definitions shared by every model file: bytes, outcomes, small list helpers.
   Executable definitions only, stdlib only. *)
From Coq Require Export List NArith ZArith Bool Lia.
Export ListNotations.

(* A byte is an [N] below 256; strings are [list N]. *)
Definition byte := N.
Definition bytes := list N.

(* Every place where the Rust code can panic, read out of bounds or run for ever is an
   explicit outcome.  [Panic site]: the numeric site codes are listed beside each model. *)
Inductive outcome (A : Type) : Type :=
| Ok (a : A)
| Err (msg : bytes)
| Panic (site : N)
| OutOfBounds (site : N)
| OutOfFuel.
Arguments Ok {A} a.
Arguments Err {A} msg.
Arguments Panic {A} site.
Arguments OutOfBounds {A} site.
Arguments OutOfFuel {A}.

Definition bind {A B} (o : outcome A) (f : A -> outcome B) : outcome B :=
  match o with
  | Ok a => f a
  | Err m => Err m
  | Panic s => Panic s
  | OutOfBounds s => OutOfBounds s
  | OutOfFuel => OutOfFuel
  end.

Definition is_ok {A} (o : outcome A) : bool :=
  match o with Ok _ => true | _ => false end.

Notation "'do' x <- e ; f" := (bind e (fun x => f))
  (at level 200, x pattern, e at level 100, f at level 200, right associativity).

Fixpoint list_eqb {A} (eqb : A -> A -> bool) (l1 l2 : list A) : bool :=
  match l1, l2 with
  | [], [] => true
  | x :: l1', y :: l2' => eqb x y && list_eqb eqb l1' l2'
  | _, _ => false
  end.

Definition bytes_eqb : bytes -> bytes -> bool := list_eqb N.eqb.

Lemma list_eqb_spec {A} (eqb : A -> A -> bool)
      (H : forall x y, eqb x y = true <-> x = y) :
  forall l1 l2, list_eqb eqb l1 l2 = true <-> l1 = l2.
Proof.
  induction l1 as [|x l1 IH]; intros [|y l2]; simpl; split; intro E;
    try reflexivity; try discriminate.
  - apply andb_true_iff in E as [E1 E2]. apply H in E1. apply IH in E2. now subst.
  - inversion E; subst. apply andb_true_iff. split; [now apply H | now apply IH].
Qed.

Lemma bytes_eqb_spec l1 l2 : bytes_eqb l1 l2 = true <-> l1 = l2.
Proof. apply list_eqb_spec. intros; apply N.eqb_eq. Qed.

(* ASCII codes used across the models. *)
Definition c_nul : N := 0.
Definition c_tab : N := 9.
Definition c_nl : N := 10.
Definition c_cr : N := 13.
Definition c_space : N := 32.
Definition c_hash : N := 35.
Definition c_dollar : N := 36.
Definition c_dot : N := 46.
Definition c_slash : N := 47.
Definition c_colon : N := 58.
Definition c_eq : N := 61.
Definition c_at : N := 64.
Definition c_bslash : N := 92.
Definition c_lbrace : N := 123.
Definition c_pipe : N := 124.
Definition c_rbrace : N := 125.
