(* The single extraction file.  Only ExtrOcamlBasic's directives are in force:
   bool, option, unit, list, prod, sumbool, sumor mapped to the OCaml types; andb/orb inlined.
   nat, positive, N, Z are extracted as the Coq inductives. *)
From Coq Require Import Extraction ExtrOcamlBasic.
From N2 Require Import Model.All.
Extraction "n2model.ml" canon_impl canon sem ends_dirlike normal_form uses_only f17_class.
