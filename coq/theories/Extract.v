(* The single extraction file.  Only ExtrOcamlBasic's directives are in force:
   bool, option, unit, list, prod, sumbool, sumor mapped to the OCaml types; andb/orb inlined.
   nat, positive, N, Z are extracted as the Coq inductives. *)
From Coq Require Import Extraction ExtrOcamlBasic.
From N2 Require Import Model.All Model.Build Model.Fancy Model.Task Model.Dumb Model.Cli Model.Fs Model.Explain Model.Terminal.
Extraction "n2model.ml" canon_impl canon sem ends_dirlike normal_form uses_only f17_class
  depfile_parse depfile_parse_pinned depfile_deps depfile_deps_pinned format_parse_error
  truncate task_message task_message_pinned progress_bar mkCounts utf8_ok
  extract_showincludes extract_showincludes_pinned find_last_line decode_status
  load_manifest remove_duplicates evaluate parser_read
  replay load_state hash_build siphash13 manifest_stream
  db_open write_build loaded_for signature
  run_phase run_phase_main select_targets bs_new want_targets accepts first_rejected get_state
  build_tape f_run0 lossy utf8_strict run_task d_run0 printed parse_args summary fs_run fs_listing explain_trace get_cols max_cols path_new lp_parent.
