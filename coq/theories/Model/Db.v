(* Model of src/db.rs: the append-only build log.

   File = "n2db" ++ u32le(1) ++ records.
     path record : u16le(len)          name                      (len < 0x8000)
     build record: u16le(nouts|0x8000) nouts * u24le(id)  u16le(ndeps) ndeps * u24le(id)  u64le(hash)
   Db ids number the path records in file order.

   [fixed = true]  : the code after the fix for F5/F6 (a torn tail is dropped and the file is
                     truncated to the last whole record; a file shorter than the signature is
                     re-initialised) and for F9 (an output that lost its producer voids the record).
   [fixed = false] : the pinned tree.

   Panic sites: 50 = "too many fileids"   51 = "filename too long"
                52 = db id out of range while reading (index out of bounds) *)
From Coq Require Import String.
From N2 Require Import Base.Base Model.Scanner.

Definition u16le (n : N) : bytes := [(n mod 256)%N; ((n / 256) mod 256)%N].
Definition u24le (n : N) : bytes := [(n mod 256)%N; ((n / 256) mod 256)%N; ((n / 65536) mod 256)%N].
Fixpoint le_bytes (k : nat) (n : N) : bytes :=
  match k with O => [] | S k => (n mod 256)%N :: le_bytes k (n / 256)%N end.
Definition u64le (n : N) : bytes := le_bytes 8 n.
Fixpoint of_le (l : bytes) : N :=
  match l with [] => 0%N | c :: r => (c + 256 * of_le r)%N end.

Definition signature : bytes := bs "n2db" ++ [1; 0; 0; 0]%N.

(* ------------------------------------------------------------------------------------ *)
(* writer *)

Definition enc_path (name : bytes) : outcome bytes :=
  if (32768 <=? N.of_nat (length name))%N then Panic 51%N
  else Ok (u16le (N.of_nat (length name)) ++ name).

Definition enc_id (id : N) : outcome bytes :=
  if (16777216 <? id)%N then Panic 50%N else Ok (u24le id).

Fixpoint enc_ids (ids : list N) : outcome bytes :=
  match ids with
  | [] => Ok []
  | i :: r => do a <- enc_id i; do b <- enc_ids r; Ok (a ++ b)
  end.

(* outs.len() as u16 | 0x8000 ; deps.len() as u16 : the narrowing is written as in the code *)
Definition enc_build (outs deps : list N) (hash : N) : outcome bytes :=
  do o <- enc_ids outs;
  do d <- enc_ids deps;
  let mark := N.lor ((N.of_nat (length outs)) mod 65536) 32768 in
  Ok (u16le mark ++ o ++ u16le ((N.of_nat (length deps)) mod 65536) ++ d ++ u64le (hash mod 18446744073709551616)).

(* writer state: the names that have a db id, in id order *)
Fixpoint index_of (name : bytes) (ids : list bytes) (i : N) : option N :=
  match ids with
  | [] => None
  | n :: r => if bytes_eqb n name then Some i else index_of name r (i + 1)%N
  end.

(* ensure_id for each name in turn: returns the ids, the path records written, the new table *)
Fixpoint ensure_ids (names : list bytes) (tbl : list bytes) (n : N)
  : outcome (list N * bytes * list bytes * N) :=
  match names with
  | [] => Ok ([], [], tbl, n)
  | nm :: rest =>
    match index_of nm tbl 0 with
    | Some i =>
      do r <- ensure_ids rest tbl n;
      let '(ids, out, tbl', n') := r in Ok (i :: ids, out, tbl', n')
    | None =>
      do p <- enc_path nm;
      do r <- ensure_ids rest (tbl ++ [nm]) (n + 1)%N;
      let '(ids, out, tbl', n') := r in Ok (n :: ids, p ++ out, tbl', n')
    end
  end.

(* Writer::write_build: path records for new names go to the file first (outs, then deps),
   then the build record.  Returns the bytes appended and the new id table. *)
Definition write_build (tbl : list bytes) (outs deps : list bytes) (hash : N)
  : outcome (bytes * list bytes) :=
  do r1 <- ensure_ids outs tbl (N.of_nat (length tbl));
  let '(oids, paths1, tbl1, n1) := r1 in
  do r2 <- ensure_ids deps tbl1 n1;
  let '(dids, paths2, tbl2, _) := r2 in
  do rec <- enc_build oids dids hash;
  Ok (paths1 ++ paths2 ++ rec, tbl2).

(* ------------------------------------------------------------------------------------ *)
(* reader *)

Inductive dbrec :=
| DPath (name : bytes)
| DBuild (outs deps : list N) (hash : N).

Definition take (n : nat) (l : bytes) : option (bytes * bytes) :=
  if (length l <? n)%nat then None else Some (firstn n l, skipn n l).

Fixpoint take_ids (k : nat) (l : bytes) : option (list N * bytes) :=
  match k with
  | O => Some ([], l)
  | S k =>
    match take 3 l with
    | None => None
    | Some (a, r) =>
      match take_ids k r with
      | None => None
      | Some (ids, r') => Some (of_le a :: ids, r')
      end
    end
  end.

(* one record; None = the input ends inside it (or before it) *)
Definition parse_record (l : bytes) : option (dbrec * bytes) :=
  match take 2 l with
  | None => None
  | Some (h, r) =>
    let len := of_le h in
    if (len <? 32768)%N then
      match take (N.to_nat len) r with
      | None => None
      | Some (name, r') => Some (DPath name, r')
      end
    else
      match take_ids (N.to_nat (len - 32768)) r with
      | None => None
      | Some (outs, r1) =>
        match take 2 r1 with
        | None => None
        | Some (h2, r2) =>
          match take_ids (N.to_nat (of_le h2)) r2 with
          | None => None
          | Some (deps, r3) =>
            match take 8 r3 with
            | None => None
            | Some (hb, r4) => Some (DBuild outs deps (of_le hb), r4)
            end
          end
        end
      end
  end.

(* all whole records and the unread tail *)
Fixpoint parse_records (fuel : nat) (l : bytes) : list dbrec * bytes :=
  match fuel with
  | O => ([], l)
  | S fuel =>
    match parse_record l with
    | None => ([], l)
    | Some (r, rest) => let '(rs, tail) := parse_records fuel rest in (r :: rs, tail)
    end
  end.

(* loaded state: id table and, per build index, the (deps as names, hash) of the last applied record *)
Record loaded := mkLoaded {
  ld_tbl : list bytes;
  ld_builds : list (nat * (list bytes * N));     (* association list, latest first *)
}.

(* read_build's decision whether the record belongs to one current build *)
Fixpoint unique_build (fixed : bool) (producer : bytes -> option nat) (tbl : list bytes)
         (outs : list N) (unique : option nat) (obsolete : bool) : outcome (option nat) :=
  match outs with
  | [] => Ok unique
  | id :: rest =>
    if obsolete then unique_build fixed producer tbl rest unique true else
    match nth_error tbl (N.to_nat id) with
    | None => Panic 52%N
    | Some name =>
      match producer name with
      | None => unique_build fixed producer tbl rest (if fixed then None else unique) true
      | Some b =>
        match unique with
        | None => unique_build fixed producer tbl rest (Some b) false
        | Some u => if (u =? b)%nat then unique_build fixed producer tbl rest unique false
                    else unique_build fixed producer tbl rest None true
        end
      end
    end
  end.

Fixpoint names_of (tbl : list bytes) (ids : list N) : outcome (list bytes) :=
  match ids with
  | [] => Ok []
  | i :: r =>
    match nth_error tbl (N.to_nat i) with
    | None => Panic 52%N
    | Some n => do rest <- names_of tbl r; Ok (n :: rest)
    end
  end.

Fixpoint apply_records (fixed : bool) (producer : bytes -> option nat) (rs : list dbrec) (st : loaded)
  : outcome loaded :=
  match rs with
  | [] => Ok st
  | DPath name :: rest => apply_records fixed producer rest (mkLoaded (ld_tbl st ++ [name]) (ld_builds st))
  | DBuild outs deps hash :: rest =>
    do u <- unique_build fixed producer (ld_tbl st) outs None false;
    do dn <- names_of (ld_tbl st) deps;
    match u with
    | Some b => apply_records fixed producer rest (mkLoaded (ld_tbl st) ((b, (dn, hash)) :: ld_builds st))
    | None => apply_records fixed producer rest st
    end
  end.

Inductive open_result :=
| OpenOk (st : loaded) (file : bytes)        (* loaded state and the file content after open *)
| OpenErr (msg : bytes)
| OpenPanic (site : N).

(* db::open on an existing file *)
Definition db_open (fixed : bool) (producer : bytes -> option nat) (file : bytes) : open_result :=
  if fixed && (length file <? 8)%nat then OpenOk (mkLoaded [] []) signature else
  match take 4 file with
  | None => OpenErr (bs "failed to fill whole buffer")
  | Some (sig, r) =>
    if negb (bytes_eqb sig (bs "n2db")) then OpenErr (bs "invalid db signature") else
    match take 4 r with
    | None => OpenErr (bs "failed to fill whole buffer")
    | Some (v, body) =>
      if negb (of_le v =? 1)%N then OpenErr (bs "db version mismatch") else
      let '(rs, tail) := parse_records (S (length body)) body in
      match apply_records fixed producer rs (mkLoaded [] []) with
      | Ok st =>
        if fixed then OpenOk st (firstn (length file - length tail) file)
        else if (length tail <=? 1)%nat then OpenOk st file
        else OpenErr (bs "failed to fill whole buffer")
      | Panic s => OpenPanic s
      | _ => OpenPanic 0%N
      end
    end
  end.

Fixpoint assoc_nat {V} (k : nat) (l : list (nat * V)) : option V :=
  match l with
  | [] => None
  | (k', v) :: r => if (k =? k')%nat then Some v else assoc_nat k r
  end.

(* what is loaded for build b: the latest applicable record *)
Definition loaded_for (st : loaded) (b : nat) : option (list bytes * N) := assoc_nat b (ld_builds st).
