(* Model of task::Runner (src/task.rs): the worker threads and the channel between them and the
   main loop.  A worker is started per command; it sends the "last line" of its output as it
   changes ([ROut]) and finally its result ([RDone]); the main loop's [wait] receives messages,
   hands output lines to the display, and returns at the first result.

   std::sync::mpsc keeps the messages of one sender in order and says nothing about the order
   between senders: the channel is modelled as one FIFO per worker, and which worker's message is
   received next is the environment's choice (an index into the workers that have something
   pending).  What a worker sends comes from Model/Task.v.

   Panic site 80 = `running -= 1` below zero (debug build), 81 = recv() on a channel that can
   never deliver (every worker has been drained): in the code this is an endless wait, because
   the Runner keeps a Sender of its own. *)
From Coq Require Import String.
From N2 Require Import Base.Base Model.Scanner Model.Depfile Model.Proc Model.Task.

Inductive rmsg := ROut (id : nat) (line : bytes) | RDone (id : nat) (r : task_result).

Record runner := mkRunner {
  rn_running : nat;
  rn_par : nat;
  rn_chan : list (nat * list rmsg) }.      (* per worker, oldest worker first: what it has sent or will send, not yet received *)

Definition rn_new (parallelism : nat) : runner := mkRunner 0 parallelism [].

Definition rn_can_start_more (rn : runner) : bool := (rn_running rn <? rn_par rn)%nat.
Definition rn_is_running (rn : runner) : bool := (0 <? rn_running rn)%nat.

(* everything one worker sends, in order *)
Definition worker_msgs (id : nat) (hide_progress showinc : bool) (depfile : option (bytes * option bytes))
           (run : cmd_run) : outcome (list rmsg) :=
  do r <- worker_result showinc depfile run;
  Ok (map (ROut id) (worker_outputs hide_progress run) ++ [RDone id r]).

Definition rn_start (rn : runner) (id : nat) (msgs : list rmsg) : runner :=
  mkRunner (S (rn_running rn)) (rn_par rn) (rn_chan rn ++ [(id, msgs)]).

(* the workers that still have something to deliver *)
Definition pending (rn : runner) : list (nat * list rmsg) :=
  filter (fun w => match snd w with [] => false | _ => true end) (rn_chan rn).

(* take the head of the k-th pending worker's queue (k modulo their number) *)
Fixpoint take_from (ch : list (nat * list rmsg)) (k : nat) : option (rmsg * list (nat * list rmsg)) :=
  match ch with
  | [] => None
  | (id, []) :: r => match take_from r k with Some (m, r') => Some (m, (id, []) :: r') | None => None end
  | (id, m :: q) :: r =>
    match k with
    | O => Some (m, (id, q) :: r)
    | S k' => match take_from r k' with Some (m', r') => Some (m', (id, m :: q) :: r') | None => None end
    end
  end.

Definition rn_recv (rn : runner) (k : nat) : option (rmsg * runner) :=
  match length (pending rn) with
  | O => None
  | S n => match take_from (rn_chan rn) (k mod S n) with
           | Some (m, ch) => Some (m, mkRunner (rn_running rn) (rn_par rn) ch)
           | None => None
           end
  end.

(* Runner::wait: receive until a result arrives; [choices] = which pending worker is heard next.
   Returns the output lines handed to the callback, the finished task and the runner afterwards. *)
Fixpoint rn_wait (fuel : nat) (rn : runner) (choices : nat -> nat) (outs : list (nat * bytes))
  : outcome (list (nat * bytes) * (nat * task_result) * runner) :=
  match fuel with
  | O => OutOfFuel
  | S fuel =>
    match rn_recv rn (choices fuel) with
    | None => Panic 81%N
    | Some (ROut id line, rn') => rn_wait fuel rn' choices (outs ++ [(id, line)])
    | Some (RDone id r, rn') =>
      match rn_running rn' with
      | O => Panic 80%N
      | S n => Ok (outs, (id, r), mkRunner n (rn_par rn') (rn_chan rn'))
      end
    end
  end.

(* enough fuel for any order: every message still in the channel, plus one *)
Definition chan_size (rn : runner) : nat := length (concat (map snd (rn_chan rn))).
Definition wait_fuel (rn : runner) : nat := S (chan_size rn).
