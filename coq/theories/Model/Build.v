(* Model of the orchestration in run::build (src/run.rs): load, bring the manifest up to date,
   reload if any command ran for that, then the requested targets.  The world [W] (tree + log),
   the loaded state [G] and the two building blocks are parameters:
     load  : W -> outcome G                       load::read (manifest + log) on the current world
     regen : G -> W -> W * option bool * nat      want the manifest's target and Work::run:
                                                  new world, Ok(success) or None for Err, tasks run
     main  : G -> bool -> W -> W * option bool * nat   target selection + Work::run; the flag says
                                                  whether the scheduler state of the first phase is reused *)
From N2 Require Import Base.Base.

Inductive build_result :=
| BOk (tasks : nat)          (* exit 0, "ran N tasks" / "no work to do" when N = 0 *)
| BFailed                    (* exit 1 without a message: a command failed or was interrupted *)
| BError.                    (* exit 1 with "n2: error: ..." *)

Section Build.
  Context {W G : Type}.
  Variable load : W -> outcome G.
  Variable regen : G -> W -> W * option bool * nat.
  Variable main : G -> bool -> W -> W * option bool * nat.

  (* what happened, for the statements: which loaded state the main phase used (None = it did not run) *)
  Record build_trace := mkBT { bt_world : W; bt_result : build_result; bt_main_on : option (G * bool) }.

  Definition finish_main (g : G) (reuse : bool) (w : W) (tasks1 : nat) : build_trace :=
    let '(w2, r2, t2) := main g reuse w in
    match r2 with
    | Some true => mkBT w2 (BOk (tasks1 + t2)) (Some (g, reuse))
    | Some false => mkBT w2 BFailed (Some (g, reuse))
    | None => mkBT w2 BError (Some (g, reuse))
    end.

  Definition build (w0 : W) : build_trace :=
    match load w0 with
    | Ok g0 =>
      let '(w1, r1, t1) := regen g0 w0 in
      match r1 with
      | None => mkBT w1 BError None
      | Some false => mkBT w1 BFailed None
      | Some true =>
        match t1 with
        | O => finish_main g0 true w1 0            (* manifest already up to date: same Work *)
        | S _ =>
          match load w1 with                       (* regenerated: start over from the new text *)
          | Ok g1 => finish_main g1 false w1 t1
          | _ => mkBT w1 BError None
          end
        end
      end
    | _ => mkBT w0 BError None
    end.
End Build.

(* ---- executable instance for the correspondence check ----------------------------------------
   The building blocks replay what was observed in one invocation of the real run::build (a
   "tape"), so that [build] itself - the part of run.rs that sits above Work::run and that the
   scheduler acceptor does not see - is compared with the code on every observed invocation.
   Worlds are stage numbers (0 before the regeneration phase, 1 after it, 2 after the main phase);
   loaded states are [false] (first load) / [true] (reload). *)
Record tape := mkTape {
  tp_load0 : bool;                (* did load::read succeed on the initial world *)
  tp_regen : option bool;         (* Work::run of the regeneration phase: Ok(success) / None = Err *)
  tp_tasks1 : nat;                (* commands that completed successfully in it *)
  tp_load1 : bool;                (* did the reload succeed (consulted only if it happens) *)
  tp_main : option bool;          (* target selection + Work::run of the main phase *)
  tp_tasks2 : nat }.

Definition tape_load (tp : tape) (w : nat) : outcome bool :=
  match w with
  | O => if tp_load0 tp then Ok false else Err []
  | S _ => if tp_load1 tp then Ok true else Err []
  end.
Definition tape_regen (tp : tape) (g : bool) (w : nat) : nat * option bool * nat := (1, tp_regen tp, tp_tasks1 tp).
Definition tape_main (tp : tape) (g : bool) (reuse : bool) (w : nat) : nat * option bool * nat := (2, tp_main tp, tp_tasks2 tp).

Definition build_tape (tp : tape) : build_trace (W:=nat) (G:=bool) :=
  build (tape_load tp) (tape_regen tp) (tape_main tp) 0.
