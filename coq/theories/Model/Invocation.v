(* Glue used by the correspondence check: target selection of run::build and the replay of
   one phase (want traversal + run loop) against the observed events. *)
From Coq Require Import String.
From N2 Require Import Base.Base Model.Scanner Model.Canon Model.Sched.

Fixpoint lookup_file_from (fs : list file) (name : bytes) (i : nat) : option nat :=
  match fs with
  | [] => None
  | f :: r => if bytes_eqb (f_name f) name then Some i else lookup_file_from r name (S i)
  end.
Definition lookup_file (g : graph) (name : bytes) : option nat := lookup_file_from (g_files g) name 0.

(* Work::lookup: canonicalise, then look the name up *)
Definition resolve_target (g : graph) (name : bytes) : outcome (option nat) :=
  match name with
  | [] => Ok None                      (* after the fix for F3: an empty name is an unknown path *)
  | _ => do c <- canon name; Ok (lookup_file g c)
  end.

Definition opt_nat_eqb (a b : option nat) : bool :=
  match a, b with
  | Some x, Some y => (x =? y)%nat
  | None, None => true
  | _, _ => false
  end.

(* target selection of run::build: named targets, else defaults, else every file except the
   manifest.  [Err] carries "unknown path requested: " ++ the name as given. *)
Fixpoint select_named (g : graph) (manifest : option nat) (adopt : bool) (names : list bytes)
  : outcome (list nat) :=
  match names with
  | [] => Ok []
  | n :: rest =>
    do t <- resolve_target g n;
    match t with
    | None => if adopt then select_named g manifest adopt rest
              else Err (bs "unknown path requested: " ++ n)
    | Some f =>
      do r <- select_named g manifest adopt rest;
      Ok (if opt_nat_eqb (Some f) manifest then r else f :: r)
    end
  end.

Definition select_targets (g : graph) (defaults : list nat) (manifest : option nat) (adopt : bool)
           (names : list bytes) : outcome (list nat) :=
  match names with
  | _ :: _ => select_named g manifest adopt names
  | [] =>
    match defaults with
    | _ :: _ => Ok defaults
    | [] => Ok (filter (fun f => negb (opt_nat_eqb (Some f) manifest)) (indices (g_files g)))
    end
  end.

(* the main phase of run::build: each named target is looked up and wanted in turn (so an
   earlier target's cycle error precedes a later unknown name); without names, the defaults
   or every file but the manifest *)
Fixpoint want_named (g : graph) (manifest : option nat) (adopt : bool) (names : list bytes) (w : wst)
  : outcome wst :=
  match names with
  | [] => Ok w
  | n :: rest =>
    do t <- resolve_target g n;
    match t with
    | None => if adopt then want_named g manifest adopt rest w
              else Err (bs "unknown path requested: " ++ n)
    | Some f =>
      if opt_nat_eqb (Some f) manifest then want_named g manifest adopt rest w
      else do r <- want_file (want_fuel g) g w [] f;
           want_named g manifest adopt rest (fst r)
    end
  end.

Definition want_main (g : graph) (defaults : list nat) (manifest : option nat) (adopt : bool)
           (names : list bytes) (w : wst) : outcome wst :=
  match names with
  | _ :: _ => want_named g manifest adopt names w
  | [] => do ts <- select_targets g defaults manifest adopt [];
          want_targets g w ts
  end.

Inductive phase_result :=
| PWantErr (msg : bytes)                  (* the traversal reports a cycle *)
| PWantMismatch (model : list (nat * bstate))
| PReject (i : nat)                       (* index of the first event that is not accepted *)
| PAccept (r : rstate)
| PBroken (o : outcome unit).             (* fuel / panic inside the model *)

Definition log_eqb (a b : list (nat * bstate)) : bool :=
  list_eqb (fun x y => (fst x =? fst y)%nat && bstate_eqb (snd x) (snd y)) a b.

Definition run_phase_gen (cf : config) (fl : option nat) (wanted : outcome wst)
           (want_log : list (nat * bstate)) (events : list event) : phase_result :=
  match wanted with
  | Err m => PWantErr m
  | Panic x => PBroken (Panic x)
  | OutOfBounds x => PBroken (OutOfBounds x)
  | OutOfFuel => PBroken OutOfFuel
  | Ok (s1, log) =>
    if negb (log_eqb log want_log) then PWantMismatch log else
    match first_rejected cf (run_init s1 fl) events 0 with
    | Some i => PReject i
    | None =>
      match accepts cf (run_init s1 fl) events with
      | Some r => PAccept r
      | None => PReject 0
      end
    end
  end.

Definition run_phase (cf : config) (s0 : bstates) (fl : option nat) (targets : list nat)
           (want_log : list (nat * bstate)) (events : list event) : phase_result :=
  run_phase_gen cf fl (want_targets (cf_graph cf) (s0, []) targets) want_log events.

Definition run_phase_main (cf : config) (s0 : bstates) (fl : option nat) (defaults : list nat)
           (manifest : option nat) (names : list bytes)
           (want_log : list (nat * bstate)) (events : list event) : phase_result :=
  run_phase_gen cf fl (want_main (cf_graph cf) defaults manifest (cf_adopt cf) names (s0, []))
                want_log events.
