(* Model of src/load.rs (Loader) and graph.rs (Graph::add_build, BuildOuts::remove_duplicates).

   The file system is an oracle [fs : list (name * content)].  include/subninja recursion is
   bounded by [depth] fuel (finding F20: the real code has no bound).

   Panic sites: 0/1 = canon (empty path / too many components)   60 = include depth exhausted *)
From Coq Require Import String.
From N2 Require Import Base.Base Model.Scanner Model.Canon Model.Parse.

Record lfile := mkLFile { lf_name : bytes; lf_input : option nat; lf_dependents : list nat }.

Record lbuild := mkLBuild {
  lb_file : bytes; lb_line : Z;
  lb_ins : list nat; lb_explicit_ins : nat; lb_implicit_ins : nat; lb_order_only_ins : nat;
  lb_outs : list nat; lb_explicit_outs : nat;
  lb_cmdline : option bytes; lb_desc : option bytes; lb_depfile : option bytes;
  lb_showincludes : bool; lb_rspfile : option (bytes * bytes); lb_pool : option bytes;
  lb_hide_success : bool; lb_hide_progress : bool;
}.

Record loader := mkLoader {
  l_files : list lfile;
  l_builds : list lbuild;
  l_defaults : list nat;
  l_rules : list (bytes * varlist);
  l_pools : list (bytes * N);
  l_builddir : option bytes;
  l_warnings : list bytes;
}.

Definition loader_new : loader := mkLoader [] [] [] [(bs "phony", [])] [] None [].

Fixpoint find_file (fs : list lfile) (name : bytes) (i : nat) : option nat :=
  match fs with
  | [] => None
  | f :: r => if bytes_eqb (lf_name f) name then Some i else find_file r name (S i)
  end.

(* GraphFiles::id_from_canonical *)
Definition id_from_canonical (l : loader) (name : bytes) : loader * nat :=
  match find_file (l_files l) name 0 with
  | Some i => (l, i)
  | None => (mkLoader (l_files l ++ [mkLFile name None []]) (l_builds l) (l_defaults l) (l_rules l)
                      (l_pools l) (l_builddir l) (l_warnings l), length (l_files l))
  end.

(* Loader::path: canonicalise then intern *)
Definition load_path (l : loader) (p : bytes) : outcome (loader * nat) :=
  do c <- canon p; Ok (id_from_canonical l c).

(* Loader::evaluate_path: after the fix for F3 an empty expansion is an error *)
Definition evaluate_path (l : loader) (p : evalstring) (envs : list env) : outcome (loader * nat) :=
  match evaluate envs p with
  | [] => Err (bs "empty path")
  | path => load_path l path
  end.

Fixpoint evaluate_paths (l : loader) (ps : list evalstring) (envs : list env) : outcome (loader * list nat) :=
  match ps with
  | [] => Ok (l, [])
  | p :: rest =>
    do r <- evaluate_path l p envs;
    let '(l, id) := r in
    do r2 <- evaluate_paths l rest envs;
    let '(l, ids) := r2 in
    Ok (l, id :: ids)
  end.

Definition file_nm (l : loader) (id : nat) : bytes :=
  match nth_error (l_files l) id with Some f => lf_name f | None => [] end.

Fixpoint join_names (l : loader) (ids : list nat) (sep : N) : bytes :=
  match ids with
  | [] => []
  | [i] => file_nm l i
  | i :: r => file_nm l i ++ [sep] ++ join_names l r sep
  end.

(* BuildOuts::remove_duplicates.  [fixed = false] is the pinned code, which compares the index
   with the bound it is decrementing (finding F12). *)
Fixpoint mem_nat (x : nat) (l : list nat) : bool :=
  match l with [] => false | y :: r => (x =? y)%nat || mem_nat x r end.

Fixpoint remove_dups_loop (fixed : bool) (ids : list nat) (i : nat) (seen : list nat)
         (explicit0 explicit : nat) (acc : list nat) : list nat * nat :=
  match ids with
  | [] => (rev acc, explicit)
  | id :: rest =>
    if mem_nat id seen then
      let bound := if fixed then explicit0 else explicit in
      remove_dups_loop fixed rest (S i) (seen ++ [id]) explicit0
                       (if (i <? bound)%nat then pred explicit else explicit) acc
    else remove_dups_loop fixed rest (S i) (seen ++ [id]) explicit0 explicit (id :: acc)
  end.

Definition remove_duplicates (fixed : bool) (ids : list nat) (explicit : nat) : list nat * nat :=
  remove_dups_loop fixed ids 0 [] explicit explicit [].

Fixpoint update_file (fs : list lfile) (i : nat) (f : lfile -> lfile) : list lfile :=
  match fs, i with
  | [], _ => []
  | x :: r, O => f x :: r
  | x :: r, S i' => x :: update_file r i' f
  end.

Definition loc_text (file : bytes) (line : Z) : bytes :=
  file ++ bs ":" ++ dec_of_N (Z.to_N line).

(* Graph::add_build *)
Definition graph_add_build (fixed : bool) (l : loader) (b : lbuild) : outcome loader :=
  let new_id := length (l_builds l) in
  let files := fold_left (fun fs id => update_file fs id
                            (fun f => mkLFile (lf_name f) (lf_input f) (lf_dependents f ++ [new_id])))
                         (lb_ins b) (l_files l) in
  let step := fun (st : outcome (list lfile * bool * list bytes)) (id : nat) =>
    do s <- st;
    let '(fs, dups, warns) := s in
    match nth_error fs id with
    | None => Panic 61%N
    | Some f =>
      match lf_input f with
      | Some prev =>
        if (prev =? new_id)%nat then
          Ok (fs, true, warns ++ [bs "n2: warn: " ++ loc_text (lb_file b) (lb_line b) ++ bs ": " ++
                                  str_debug (lf_name f) ++ bs " is repeated in output list"])
        else
          let pb := nth prev (l_builds l) b in
          Err (loc_text (lb_file b) (lb_line b) ++ bs ": " ++ str_debug (lf_name f) ++
               bs " is already an output at " ++ loc_text (lb_file pb) (lb_line pb))
      | None => Ok (update_file fs id (fun f => mkLFile (lf_name f) (Some new_id) (lf_dependents f)), dups, warns)
      end
    end in
  do r <- fold_left step (lb_outs b) (Ok (files, false, []));
  let '(files, dups, warns) := r in
  let '(outs, eo) := if dups then remove_duplicates fixed (lb_outs b) (lb_explicit_outs b)
                     else (lb_outs b, lb_explicit_outs b) in
  let b' := mkLBuild (lb_file b) (lb_line b) (lb_ins b) (lb_explicit_ins b) (lb_implicit_ins b)
                     (lb_order_only_ins b) outs eo (lb_cmdline b) (lb_desc b) (lb_depfile b)
                     (lb_showincludes b) (lb_rspfile b) (lb_pool b) (lb_hide_success b) (lb_hide_progress b) in
  Ok (mkLoader files (l_builds l ++ [b']) (l_defaults l) (l_rules l) (l_pools l) (l_builddir l)
               (l_warnings l ++ warns)).

(* the magic $in/$out variables of a build (explicit inputs/outputs, as listed before
   duplicate outputs are dropped) *)
Definition implicit_env (l : loader) (pb : pbuild) (ins outs : list nat) : env :=
  [ (bs "in", [Lit (join_names l (firstn (pb_explicit_ins pb) ins) 32%N)]);
    (bs "in_newline", [Lit (join_names l (firstn (pb_explicit_ins pb) ins) 10%N)]);
    (bs "out", [Lit (join_names l (firstn (pb_explicit_outs pb) outs) 32%N)]);
    (bs "out_newline", [Lit (join_names l (firstn (pb_explicit_outs pb) outs) 10%N)]) ].

(* the `lookup` closure of Loader::add_build: a binding in the build block is expanded in file
   scope only; otherwise the rule's binding is expanded with $in/$out, then the build block,
   then file scope *)
Definition attr_lookup (bvars rule : varlist) (implicit fenv : env) (key : bytes) : option bytes :=
  match assoc_b key bvars with
  | Some v => Some (evaluate [fenv] v)
  | None => match assoc_b key rule with
            | Some v => Some (evaluate [implicit; bvars; fenv] v)
            | None => None
            end
  end.

(* Loader::add_build *)
Definition loader_add_build (fixed : bool) (l : loader) (filename : bytes) (fvars : vars) (pb : pbuild)
  : outcome loader :=
  let fenv := vars_env fvars in
  do r <- evaluate_paths l (pb_ins pb) [pb_vars pb; fenv];
  let '(l, ins) := r in
  do r <- evaluate_paths l (pb_outs pb) [pb_vars pb; fenv];
  let '(l, outs) := r in
  match assoc_b (pb_rule pb) (l_rules l) with
  | None => Err (bs "unknown rule " ++ str_debug (pb_rule pb))
  | Some rule =>
    let implicit := implicit_env l pb ins outs in
    let lookup := attr_lookup (pb_vars pb) rule implicit fenv in
    do showinc <- (match lookup (bs "deps") with
                   | None => Ok false
                   | Some d => if bytes_eqb d (bs "gcc") then Ok false
                               else if bytes_eqb d (bs "msvc") then Ok true
                               else Err (bs "invalid deps attribute " ++ str_debug d)
                   end);
    do rsp <- (match lookup (bs "rspfile"), lookup (bs "rspfile_content") with
               | None, None => Ok None
               | Some p, Some c => Ok (Some (p, c))
               | _, _ => Err (bs "rspfile and rspfile_content need to be both specified")
               end);
    let b := mkLBuild filename (pb_line pb) ins (pb_explicit_ins pb) (pb_implicit_ins pb) (pb_order_only_ins pb)
                      outs (pb_explicit_outs pb)
                      (lookup (bs "command")) (lookup (bs "description")) (lookup (bs "depfile"))
                      showinc rsp (lookup (bs "pool"))
                      (match lookup (bs "hide_success") with Some _ => true | None => false end)
                      (match lookup (bs "hide_progress") with Some _ => true | None => false end) in
    graph_add_build fixed l b
  end.

Definition with_defaults (l : loader) (d : list nat) : loader :=
  mkLoader (l_files l) (l_builds l) d (l_rules l) (l_pools l) (l_builddir l) (l_warnings l).
Definition with_rules (l : loader) (r : list (bytes * varlist)) : loader :=
  mkLoader (l_files l) (l_builds l) (l_defaults l) r (l_pools l) (l_builddir l) (l_warnings l).
Definition with_pools (l : loader) (p : list (bytes * N)) : loader :=
  mkLoader (l_files l) (l_builds l) (l_defaults l) (l_rules l) p (l_builddir l) (l_warnings l).
Definition with_builddir (l : loader) (b : option bytes) : loader :=
  mkLoader (l_files l) (l_builds l) (l_defaults l) (l_rules l) (l_pools l) b (l_warnings l).

(* Loader::parse_with_parser.  [depth] bounds include nesting; the statement loop is bounded by
   the parse fuel of the file. *)
Fixpoint parse_file_r (fixed : bool) (depth : nat) (fs : list (bytes * bytes)) (reading : list bytes) (l : loader)
         (filename : bytes) (text : bytes) (inherited : vars) : outcome loader :=
  match depth with
  | O => Panic 60%N
  | S depth =>
    let buf := text ++ [0%N] in
    do s0 <- sc_new buf;
    (fix stmts (n : nat) (l : loader) (s : scanner) (vs : vars) : outcome loader :=
       match n with
       | O => OutOfFuel
       | S n =>
         match parser_read fixed (parse_fuel buf) s vs with
         | SErr m o => do txt <- format_parse_error buf filename m o; Err txt
         | SPanic x => Panic x
         | SOob x => OutOfBounds x
         | SFuel => OutOfFuel
         | SOk (None, vs) _ => Ok (with_builddir l (assoc_b (bs "builddir") vs))
         | SOk (Some st, vs) s =>
           match st with
           | SInclude p | SSubninja p =>
             do r <- evaluate_path l p [vars_env vs];
             let '(l, id) := r in
             let path := file_nm l id in
             if existsb (bytes_eqb path) reading
             then Err (filename ++ bs ": " ++ path ++ bs " includes itself")     (* fix for F20 *)
             else
             match assoc_b path fs with
             | None => Err (bs "read " ++ path ++ bs ": No such file or directory (os error 2)")
             | Some content =>
               do l <- parse_file_r fixed depth fs (reading ++ [path]) l path content vs;
               stmts n l s vs
             end
           | SDefault ds =>
             do r <- evaluate_paths l ds [vars_env vs];
             let '(l, ids) := r in
             stmts n (with_defaults l (l_defaults l ++ ids)) s vs
           | SRule name rv => stmts n (with_rules l (insert_b name rv (l_rules l))) s vs
           | SBuild pb =>
             do l <- loader_add_build fixed l filename vs pb;
             stmts n l s vs
           | SPool name depth => stmts n (with_pools l (insert_b name depth (l_pools l))) s vs
           end
         end
       end) (S (length buf)) l s0 inherited
  end.

Definition parse_file (fixed : bool) (depth : nat) (fs : list (bytes * bytes)) (l : loader)
           (filename : bytes) (text : bytes) (inherited : vars) : outcome loader :=
  parse_file_r fixed depth fs [] l filename text inherited.

(* load::read up to (not including) the build log: the manifest is file 0 *)
Definition load_manifest (fixed : bool) (depth : nat) (fs : list (bytes * bytes)) (name : bytes) (text : bytes)
  : outcome loader :=
  do c <- canon name;
  let '(l, _) := id_from_canonical loader_new c in
  parse_file fixed depth fs l name text [].
