(* Model of src/canon.rs: canonicalize_path.

   Two executable forms:
   - [canon_impl]: the index machine exactly as written in Rust (one buffer [data] mutated in
     place, read index [src], write index [dst], the stack of component offsets with capacity
     60, [copy_within] as memmove).  Every [assert_unchecked] / [set_len] precondition is an
     explicit [OutOfBounds site] outcome, the two panics are [Panic site].
   - [canon]: the functional form (separate output list), on which the properties are proved.
   Proofs/CanonRefine.v proves [canon_impl p = canon p] for every [p].

   Panic sites:        0 = assert!(!path.is_empty())        1 = "too many path components"
   OutOfBounds sites:  1,2,3 = assert_unchecked(dst < len) in the ".." branch
                       4 = assert_unchecked(dst <= src && src <= stop && stop <= len)
                       5 = set_len(dst) with dst > len       6 = data[0] on an empty buffer *)
From N2 Require Import Base.Base.

Definition is_sep (c : N) : bool := (c =? 47)%N || (c =? 92)%N.

Definition stack_cap : nat := 60.

(* position of the first separator *)
Fixpoint find_sep (l : bytes) : option nat :=
  match l with
  | [] => None
  | c :: r => if is_sep c then Some O else option_map S (find_sep r)
  end.

Fixpoint set_nth (l : bytes) (i : nat) (v : N) : bytes :=
  match l, i with
  | [], _ => []
  | _ :: r, O => v :: r
  | c :: r, S i' => c :: set_nth r i' v
  end.

(* data.copy_within(s..e, d) for s <= e <= len, d + (e - s) <= len *)
Definition copy_within (data : bytes) (s e d : nat) : bytes :=
  let chunk := firstn (e - s) (skipn s data) in
  firstn d data ++ chunk ++ skipn (d + (e - s)) data.

Definition is_sep_or_end (o : option N) : bool :=
  match o with None => true | Some c => is_sep c end.

Fixpoint impl_loop (fuel : nat) (data : bytes) (dst src : nat) (stack : list nat)
  : outcome (bytes * nat) :=
  match fuel with
  | O => OutOfFuel
  | S fuel =>
    match nth_error data src with
    | None => Ok (data, dst)
    | Some cur =>
      let ordinary (_ : unit) :=
        if (stack_cap <=? length stack)%nat then Panic 1%N else
        let stop := match find_sep (skipn src data) with
                    | Some pos => (src + pos + 1)%nat
                    | None => length data
                    end in
        if negb ((dst <=? src)%nat && (src <=? stop)%nat && (stop <=? length data)%nat)
        then OutOfBounds 4%N
        else impl_loop fuel (copy_within data src stop dst) (dst + (stop - src))%nat stop
                       (dst :: stack) in
      if is_sep cur then impl_loop fuel data dst (S src) stack
      else if (cur =? 46)%N then
        match nth_error data (S src) with
        | None => Ok (data, dst)
        | Some next =>
          if is_sep next then impl_loop fuel data dst (S (S src)) stack
          else if (next =? 46)%N then
            let third := nth_error data (S (S src)) in
            if is_sep_or_end third then
              match stack with
              | ofs :: st => impl_loop fuel data ofs (S (S (S src))) st
              | [] =>
                if negb (dst <? length data)%nat then OutOfBounds 1%N else
                let data := set_nth data dst 46%N in
                let dst := S dst in
                if negb (dst <? length data)%nat then OutOfBounds 2%N else
                let data := set_nth data dst 46%N in
                let dst := S dst in
                match third with
                | Some sep =>
                  if negb (dst <? length data)%nat then OutOfBounds 3%N else
                  impl_loop fuel (set_nth data dst sep) (S dst) (S (S (S src))) []
                | None => impl_loop fuel data dst (S (S (S src))) []
                end
              end
            else ordinary tt
          else ordinary tt
        end
      else ordinary tt
    end
  end.

Definition canon_impl (p : bytes) : outcome bytes :=
  match p with
  | [] => Panic 0%N
  | c0 :: _ =>
    let start := if is_sep c0 then 1%nat else 0%nat in
    do r <- impl_loop (S (length p)) p start start [];
    let '(data, dst) := r in
    match dst with
    | O => match data with
           | [] => OutOfBounds 6%N
           | _ :: _ => Ok [46%N]
           end
    | S _ => if (dst <=? length data)%nat then Ok (firstn dst data) else OutOfBounds 5%N
    end
  end.

(* ---------------------------------------------------------------------------------- *)
(* Functional form. *)

(* split at the first separator, the separator included in the first half *)
Fixpoint take_comp (l : bytes) : bytes * bytes :=
  match l with
  | [] => ([], [])
  | c :: r => if is_sep c then ([c], r)
              else let '(a, b) := take_comp r in (c :: a, b)
  end.

Fixpoint go (fuel : nat) (out : bytes) (stack : list nat) (src : bytes) : outcome bytes :=
  match fuel with
  | O => OutOfFuel
  | S fuel =>
    match src with
    | [] => Ok out
    | cur :: rest =>
      let ordinary (_ : unit) :=
        if (stack_cap <=? length stack)%nat then Panic 1%N else
        let '(comp, rest') := take_comp src in
        go fuel (out ++ comp) (length out :: stack) rest' in
      if is_sep cur then go fuel out stack rest
      else if (cur =? 46)%N then
        match rest with
        | [] => Ok out
        | next :: rest2 =>
          if is_sep next then go fuel out stack rest2
          else if (next =? 46)%N then
            match rest2 with
            | [] =>
              match stack with
              | ofs :: st => go fuel (firstn ofs out) st []
              | [] => go fuel (out ++ [46; 46]%N) [] []
              end
            | third :: rest3 =>
              if is_sep third then
                match stack with
                | ofs :: st => go fuel (firstn ofs out) st rest3
                | [] => go fuel (out ++ [46; 46; third]%N) [] rest3
                end
              else ordinary tt
            end
          else ordinary tt
        end
      else ordinary tt
    end
  end.

Definition canon (p : bytes) : outcome bytes :=
  match p with
  | [] => Panic 0%N
  | c0 :: r =>
    let '(out0, src0) := if is_sep c0 then ([c0], r) else ([], p) in
    do out <- go (S (length p)) out0 [] src0;
    Ok (match out with [] => [46%N] | _ => out end)
  end.

(* ---------------------------------------------------------------------------------- *)
(* Path semantics used by the property statements: a path denotes
   (rooted?, number of leading "..", list of ordinary component names). *)

(* split into components on separators, dropping empty ones *)
Fixpoint comps_aux (cur : bytes) (l : bytes) : list bytes :=
  match l with
  | [] => match cur with [] => [] | _ => [rev cur] end
  | c :: r => if is_sep c
              then match cur with [] => comps_aux [] r | _ => rev cur :: comps_aux [] r end
              else comps_aux (c :: cur) r
  end.
Definition comps (p : bytes) : list bytes := comps_aux [] p.

Definition is_dot (c : bytes) : bool := bytes_eqb c [46%N].
Definition is_dotdot (c : bytes) : bool := bytes_eqb c [46; 46]%N.

(* resolve "." and "..": returns (ups, names) with names in reverse order *)
Fixpoint resolve (cs : list bytes) (ups : nat) (names : list bytes) : nat * list bytes :=
  match cs with
  | [] => (ups, names)
  | c :: r =>
    if is_dot c then resolve r ups names
    else if is_dotdot c then
      match names with
      | _ :: names' => resolve r ups names'
      | [] => resolve r (S ups) []
      end
    else resolve r ups (c :: names)
  end.

Definition rooted (p : bytes) : bool :=
  match p with c :: _ => is_sep c | [] => false end.

Definition sem (p : bytes) : bool * (nat * list bytes) :=
  (rooted p, resolve (comps p) O []).

(* "ends in a separator, or in a '.' or '..' component" *)
Definition ends_dirlike (p : bytes) : bool :=
  match rev p with
  | [] => false
  | c :: _ =>
    is_sep c ||
    match rev (comps p) with
    | l :: _ => is_dot l || is_dotdot l
    | [] => false
    end
  end.

(* ---------------------------------------------------------------------------------- *)
(* Vocabulary of the normal-form and same-node statements. *)

(* every separator in [p] is the byte [s] *)
Definition uses_only (s : N) (p : bytes) : bool :=
  forallb (fun c => negb (is_sep c) || (c =? s)%N) p.

(* no empty component: no two adjacent separators *)
Fixpoint no_double_sep (p : bytes) : bool :=
  match p with
  | a :: ((b :: _) as r) => negb (is_sep a && is_sep b) && no_double_sep r
  | _ => true
  end.

Fixpoint drop_dotdots (cs : list bytes) : list bytes :=
  match cs with
  | c :: r => if is_dotdot c then drop_dotdots r else cs
  | [] => []
  end.

(* [q] is "." or: non-empty, no empty component, no "." component, ".." only as a leading
   run (hence no "name/..") *)
Definition normal_form (q : bytes) : bool :=
  bytes_eqb q [46%N] ||
  (match q with [] => false | _ => true end
   && no_double_sep q
   && forallb (fun c => negb (is_dot c) && negb (is_dotdot c)) (drop_dotdots (comps q))).

(* the class of finding F17: the path denotes only a run of ".." (no name survives) *)
Definition f17_class (p : bytes) : bool :=
  match resolve (comps p) O [] with
  | (S _, []) => true
  | _ => false
  end.
