(* Model of the scheduler of src/work.rs: BuildStates (set, want_build / want_file, pools,
   counters) as executable functions, and Work::run as a *trace acceptor*: the instrumented
   implementation emits its events, [accept] replays them against this state and checks at
   every event the guard the code is supposed to have established.  The acceptor leaves open
   which ready build is examined next, which queued build starts next, and in which order
   dependents are promoted.

   Panic sites: 40 = get_pool(build).unwrap() on an unknown pool
                41 = "BUG: no work to do and runner not running"
                42 = build id out of range *)
From Coq Require Import String.
From N2 Require Import Base.Base Model.Scanner.

Inductive bstate := Unknown | Want | Ready | Queued | Running | Done | Failed.

Definition bstate_eqb (a b : bstate) : bool :=
  match a, b with
  | Unknown, Unknown | Want, Want | Ready, Ready | Queued, Queued
  | Running, Running | Done, Done | Failed, Failed => true
  | _, _ => false
  end.

Record build := mkBuild {
  b_ins : list nat;            (* file ids: explicit, implicit, order-only, validation *)
  b_explicit : nat;
  b_implicit : nat;
  b_order_only : nat;
  b_outs : list nat;
  b_phony : bool;              (* cmdline is None *)
  b_pool : option bytes;
}.

Record file := mkFile {
  f_name : bytes;
  f_input : option nat;        (* producing build *)
  f_dependents : list nat;
}.

Record graph := mkGraph { g_builds : list build; g_files : list file }.

Definition ordering_ins (b : build) : list nat :=
  firstn (b_order_only b + b_explicit b + b_implicit b) (b_ins b).
Definition dirtying_ins (b : build) : list nat :=
  firstn (b_explicit b + b_implicit b) (b_ins b).
Definition validation_ins (b : build) : list nat :=
  skipn (b_order_only b + b_explicit b + b_implicit b) (b_ins b).

Definition dummy_build : build := mkBuild [] 0 0 0 [] true None.
Definition get_build (g : graph) (i : nat) : build := nth i (g_builds g) dummy_build.
Definition file_input (g : graph) (f : nat) : option nat :=
  match nth_error (g_files g) f with Some x => f_input x | None => None end.
Definition file_name (g : graph) (f : nat) : bytes :=
  match nth_error (g_files g) f with Some x => f_name x | None => [] end.
Definition file_dependents (g : graph) (f : nat) : list nat :=
  match nth_error (g_files g) f with Some x => f_dependents x | None => [] end.

(* ------------------------------------------------------------------------------------ *)
(* BuildStates *)

Record pool := mkPool { p_name : bytes; p_queued : list nat; p_running : Z; p_depth : nat }.

(* counters in the order want, ready, queued, running, done, failed *)
Record counts6 := mkC6 { k_want : Z; k_ready : Z; k_queued : Z; k_running : Z; k_done : Z; k_failed : Z }.
Definition c6_zero := mkC6 0 0 0 0 0 0.
Definition c6_add (c : counts6) (s : bstate) (d : Z) : counts6 :=
  match s with
  | Unknown => c
  | Want => mkC6 (k_want c + d) (k_ready c) (k_queued c) (k_running c) (k_done c) (k_failed c)
  | Ready => mkC6 (k_want c) (k_ready c + d) (k_queued c) (k_running c) (k_done c) (k_failed c)
  | Queued => mkC6 (k_want c) (k_ready c) (k_queued c + d) (k_running c) (k_done c) (k_failed c)
  | Running => mkC6 (k_want c) (k_ready c) (k_queued c) (k_running c + d) (k_done c) (k_failed c)
  | Done => mkC6 (k_want c) (k_ready c) (k_queued c) (k_running c) (k_done c + d) (k_failed c)
  | Failed => mkC6 (k_want c) (k_ready c) (k_queued c) (k_running c) (k_done c) (k_failed c + d)
  end.
Definition c6_eqb (a b : counts6) : bool :=
  ((k_want a =? k_want b) && (k_ready a =? k_ready b) && (k_queued a =? k_queued b) &&
   (k_running a =? k_running b) && (k_done a =? k_done b) && (k_failed a =? k_failed b))%Z.

Record bstates := mkBS {
  bs_states : list bstate;
  bs_counts : counts6;
  bs_pending : Z;
  bs_ready : list nat;          (* front first *)
  bs_pools : list pool;
}.

Definition get_state (s : bstates) (i : nat) : bstate := nth i (bs_states s) Unknown.

Fixpoint set_nth_state (l : list bstate) (i : nat) (v : bstate) : list bstate :=
  match l, i with
  | [], _ => []
  | _ :: r, O => v :: r
  | c :: r, S i' => c :: set_nth_state r i' v
  end.

Definition pool_name (b : build) : bytes := match b_pool b with Some n => n | None => [] end.

Fixpoint pool_update (ps : list pool) (name : bytes) (f : pool -> pool) : option (list pool) :=
  match ps with
  | [] => None
  | p :: r => if bytes_eqb (p_name p) name then Some (f p :: r)
              else option_map (cons p) (pool_update r name f)
  end.

Fixpoint pool_find (ps : list pool) (name : bytes) : option pool :=
  match ps with
  | [] => None
  | p :: r => if bytes_eqb (p_name p) name then Some p else pool_find r name
  end.

(* SmallMap::insert over pool declarations: the built-in "" (depth 0) and "console" (depth 1),
   then the manifest's pools in order, a later declaration replacing an earlier one *)
Fixpoint pools_insert (ps : list pool) (name : bytes) (depth : nat) : list pool :=
  match ps with
  | [] => [mkPool name [] 0 depth]
  | p :: r => if bytes_eqb (p_name p) name then mkPool name [] 0 depth :: r
              else p :: pools_insert r name depth
  end.
Definition init_pools (decls : list (bytes * nat)) : list pool :=
  fold_left (fun ps d => pools_insert ps (fst d) (snd d)) decls
            [mkPool [] [] 0 0; mkPool (bs "console") [] 0 1].

Definition bs_new (nbuilds : nat) (decls : list (bytes * nat)) : bstates :=
  mkBS (repeat Unknown nbuilds) c6_zero 0 [] (init_pools decls).

(* BuildStates::set *)
Definition bs_set (s : bstates) (id : nat) (b : build) (st : bstate) : outcome bstates :=
  let prev := get_state s id in
  let states := set_nth_state (bs_states s) id st in
  let skip := b_phony b in
  (* leaving prev *)
  do r1 <- (if bstate_eqb prev Unknown then Ok (bs_counts s, (bs_pending s + 1)%Z, bs_pools s)
            else
              do pools <- (if bstate_eqb prev Running then
                             match pool_update (bs_pools s) (pool_name b)
                                     (fun p => mkPool (p_name p) (p_queued p) (p_running p - 1) (p_depth p)) with
                             | Some ps => Ok ps
                             | None => Panic 40%N
                             end
                           else Ok (bs_pools s));
              Ok (if skip then bs_counts s else c6_add (bs_counts s) prev (-1), bs_pending s, pools));
  let '(cnt, pending, pools) := r1 in
  (* entering st *)
  do r2 <- (match st with
            | Ready => Ok (bs_ready s ++ [id], pending, pools)
            | Running =>
              match pool_update pools (pool_name b)
                      (fun p => mkPool (p_name p) (p_queued p) (p_running p + 1) (p_depth p)) with
              | Some ps => Ok (bs_ready s, pending, ps)
              | None => Panic 40%N
              end
            | Done | Failed => Ok (bs_ready s, (pending - 1)%Z, pools)
            | _ => Ok (bs_ready s, pending, pools)
            end);
  let '(ready, pending, pools) := r2 in
  let cnt := if skip then cnt else c6_add cnt st 1 in
  Ok (mkBS states cnt pending ready pools).

(* ------------------------------------------------------------------------------------ *)
(* want_build / want_file.  Errors carry the "dependency cycle: a -> b -> a" text.  The
   emitted [set] events are collected so that the implementation's trace can be compared. *)

Fixpoint position (x : nat) (l : list nat) : option nat :=
  match l with
  | [] => None
  | y :: r => if (x =? y)%nat then Some O else option_map S (position x r)
  end.

Definition cycle_message (g : graph) (cyc : list nat) (id : nat) : bytes :=
  bs "dependency cycle: " ++
  concat (map (fun f => file_name g f ++ bs " -> ") cyc) ++ file_name g id.

(* state threaded through the traversal: the BuildStates and the log of (build, new state) *)
Definition wst := (bstates * list (nat * bstate))%type.

Fixpoint want_build (fuel : nat) (g : graph) (w : wst) (stack : list nat) (id : nat)
  : outcome (wst * bstate) :=
  match fuel with
  | O => OutOfFuel
  | S fuel =>
    let st0 := get_state (fst w) id in
    if negb (bstate_eqb st0 Unknown) then Ok (w, st0) else
    let b := get_build g id in
    (* ordering inputs *)
    do r <- (fix loop (ins : list nat) (w : wst) (ready : bool) : outcome (wst * bool) :=
               match ins with
               | [] => Ok (w, ready)
               | f :: rest =>
                 do r <- want_file fuel g w stack f;
                 let '(w, ok) := r in
                 loop rest w (ready && ok)
               end) (ordering_ins b) w true;
    let '(w, ready) := r in
    let st := if ready then Ready else Want in
    do s' <- bs_set (fst w) id b st;
    let w := (s', snd w ++ [(id, st)]) in
    (* validation inputs: fresh stack each *)
    do w <- (fix vloop (ins : list nat) (w : wst) : outcome wst :=
               match ins with
               | [] => Ok w
               | f :: rest =>
                 do r <- want_file fuel g w [] f;
                 vloop rest (fst r)
               end) (validation_ins b) w;
    Ok (w, st)
  end

with want_file (fuel : nat) (g : graph) (w : wst) (stack : list nat) (id : nat)
  : outcome (wst * bool) :=
  match fuel with
  | O => OutOfFuel
  | S fuel =>
    (* stack is kept oldest first, like the Vec *)
    match position id stack with
    | Some c => Err (cycle_message g (skipn c stack) id)
    | None =>
      match file_input g id with
      | None => Ok (w, true)
      | Some bid =>
        do r <- want_build fuel g w (stack ++ [id]) bid;
        let '(w, st) := r in
        Ok (w, bstate_eqb st Done)
      end
    end
  end.

Definition want_fuel (g : graph) : nat :=
  (2 * (length (g_builds g) + 1) * (length (g_files g) + 1) + 2)%nat.

(* Work::want_file on a list of targets, in order *)
Fixpoint want_targets (g : graph) (w : wst) (targets : list nat) : outcome wst :=
  match targets with
  | [] => Ok w
  | t :: rest =>
    do r <- want_file (want_fuel g) g w [] t;
    want_targets g (fst r) rest
  end.

(* ------------------------------------------------------------------------------------ *)
(* The run loop as an acceptor. *)

Inductive term := TSuccess | TFailure | TInterrupted.
Inductive verdict := VClean | VDirty | VError.

Inductive event :=
| EUpdate (c : counts6)
| EPopReady (b : nat)
| EVerdict (b : nat) (v : verdict)
| ESet (b : nat) (prev new : bstate)
| EStart (b : nat)
| EQuiesce (running : nat)
| EFinish (b : nat) (t : term)
| ERecord (b : nat)
| EReturn (ok : option bool).       (* Some true/false = Ok(true/false); None = Err *)

Inductive ctl :=
| CIdle
| CChecking (b : nat)
| CVerdict (b : nat) (v : verdict) (recorded : bool)
| CStarting (b : nat)
| CFinished (b : nat) (t : term) (recorded : bool)
| CReturned (ok : option bool).

Record config := mkConfig {
  cf_graph : graph;
  cf_parallelism : nat;
  cf_adopt : bool;
}.

Record rstate := mkRS {
  rs_bs : bstates;
  rs_running : nat;                 (* runner.running *)
  rs_failed : nat;                  (* tasks_failed *)
  rs_failures_left : option nat;    (* options.failures_left *)
  rs_tasks_run : nat;
  rs_ctl : ctl;
}.

Definition producers_done (g : graph) (s : bstates) (b : build) : bool :=
  forallb (fun f => match file_input g f with
                    | None => true
                    | Some p => bstate_eqb (get_state s p) Done
                    end) (ordering_ins b).

Fixpoint remove_first (x : nat) (l : list nat) : option (list nat) :=
  match l with
  | [] => None
  | y :: r => if (x =? y)%nat then Some r else option_map (cons y) (remove_first x r)
  end.

Definition pool_has_room (p : pool) : bool :=
  (p_depth p =? 0)%nat || (p_running p <? Z.of_nat (p_depth p))%Z.

(* is there anything the loop could still do without waiting? *)
Definition some_startable (s : bstates) : bool :=
  existsb (fun p => pool_has_room p && match p_queued p with [] => false | _ => true end) (bs_pools s).

Definition indices {A} (l : list A) : list nat := seq 0 (length l).

Definition some_promotable (g : graph) (s : bstates) : bool :=
  existsb (fun i => bstate_eqb (get_state s i) Want && producers_done g s (get_build g i))
          (indices (g_builds g)).

Definition with_bs (r : rstate) (s : bstates) (c : ctl) : rstate :=
  mkRS s (rs_running r) (rs_failed r) (rs_failures_left r) (rs_tasks_run r) c.
Definition with_ctl (r : rstate) (c : ctl) : rstate := with_bs r (rs_bs r) c.

(* [None] = the event is not acceptable in this state *)
Definition accept1 (cf : config) (r : rstate) (e : event) : option rstate :=
  let g := cf_graph cf in
  let s := rs_bs r in
  match rs_ctl r, e with
  (* ---- top of the loop ---- *)
  | CIdle, EUpdate c =>
    if c6_eqb c (bs_counts s) && (0 <? bs_pending s)%Z then Some r else None
  | CIdle, ESet b Queued Running =>
    (* start a queued build: runner slot, pool room, queued in its pool *)
    let bd := get_build g b in
    if negb (bstate_eqb (get_state s b) Queued) then None else
    if negb (rs_running r <? cf_parallelism cf)%nat then None else
    match pool_find (bs_pools s) (pool_name bd) with
    | None => None
    | Some p =>
      if negb (pool_has_room p) then None else
      match remove_first b (p_queued p) with
      | None => None
      | Some q =>
        match pool_update (bs_pools s) (pool_name bd)
                (fun p => mkPool (p_name p) q (p_running p) (p_depth p)) with
        | None => None
        | Some ps =>
          match bs_set (mkBS (bs_states s) (bs_counts s) (bs_pending s) (bs_ready s) ps) b bd Running with
          | Ok s' => Some (with_bs r s' (CStarting b))
          | _ => None
          end
        end
      end
    end
  | CStarting b, EStart b' =>
    if (b =? b')%nat
    then Some (mkRS s (S (rs_running r)) (rs_failed r) (rs_failures_left r) (rs_tasks_run r) CIdle)
    else None
  | CIdle, EPopReady b =>
    if negb (bstate_eqb (get_state s b) Ready) then None else
    match remove_first b (bs_ready s) with
    | None => None
    | Some q =>
      Some (with_bs r (mkBS (bs_states s) (bs_counts s) (bs_pending s) q (bs_pools s)) (CChecking b))
    end
  | CChecking b, EVerdict b' v =>
    if (b =? b')%nat then
      (* a phony build is never dirty *)
      if b_phony (get_build g b) && negb (match v with VClean => true | VError => true | VDirty => false end)
      then None else Some (with_ctl r (CVerdict b v false))
    else None
  | CVerdict b VDirty false, ERecord b' =>
    (* adopt mode: the present state is recorded without running *)
    if (b =? b')%nat && cf_adopt cf then Some (with_ctl r (CVerdict b VDirty true)) else None
  | CVerdict b v recorded, ESet b' Ready Done =>
    let ok := match v with
              | VClean => negb recorded
              | VDirty => cf_adopt cf          (* recorded or not (missing files: no record) *)
              | VError => false
              end in
    if (b =? b')%nat && ok then
      match bs_set s b (get_build g b) Done with
      | Ok s' => Some (with_bs r s' CIdle)
      | _ => None
      end
    else None
  | CVerdict b VDirty false, ESet b' Ready Queued =>
    if (b =? b')%nat && negb (cf_adopt cf) then
      let bd := get_build g b in
      match bs_set s b bd Queued with
      | Ok s' =>
        match pool_update (bs_pools s') (pool_name bd)
                (fun p => mkPool (p_name p) (p_queued p ++ [b]) (p_running p) (p_depth p)) with
        | Some ps => Some (with_bs r (mkBS (bs_states s') (bs_counts s') (bs_pending s') (bs_ready s') ps) CIdle)
        | None =>
          (* unknown pool: the state is set, then enqueue fails *)
          Some (with_bs r s' (CVerdict b VError false))
        end
      | _ => None
      end
    else None
  | CVerdict b VError _, EReturn None => Some (with_ctl r (CReturned None))
  (* promotion of a dependent whose ordering producers are all done *)
  | CIdle, ESet d Want Ready =>
    let bd := get_build g d in
    if bstate_eqb (get_state s d) Want && producers_done g s bd then
      match bs_set s d bd Ready with
      | Ok s' => Some (with_bs r s' CIdle)
      | _ => None
      end
    else None
  (* ---- nothing made progress ---- *)
  | CIdle, EQuiesce n =>
    if (n =? rs_running r)%nat
       && match bs_ready s with [] => true | _ => false end
       && negb ((rs_running r <? cf_parallelism cf)%nat && some_startable s)
       && negb (some_promotable g s)
       && (0 <? bs_pending s)%Z
       && ((0 <? rs_running r)%nat || (0 <? rs_failed r)%nat)
    then Some r else None
  | CIdle, EFinish b t =>
    if bstate_eqb (get_state s b) Running && (0 <? rs_running r)%nat then
      Some (mkRS s (pred (rs_running r)) (rs_failed r) (rs_failures_left r) (rs_tasks_run r)
                 (CFinished b t false))
    else None
  | CFinished b TSuccess false, ERecord b' =>
    if (b =? b')%nat then Some (with_ctl r (CFinished b TSuccess true)) else None
  | CFinished b TSuccess _, ESet b' Running Done =>
    if (b =? b')%nat then
      match bs_set s b (get_build g b) Done with
      | Ok s' => Some (mkRS s' (rs_running r) (rs_failed r) (rs_failures_left r) (S (rs_tasks_run r)) CIdle)
      | _ => None
      end
    else None
  | CFinished b TFailure _, ESet b' Running Failed =>
    if (b =? b')%nat then
      match rs_failures_left r with
      | Some 1%nat => None                    (* budget exhausted: must return instead *)
      | fl =>
        match bs_set s b (get_build g b) Failed with
        | Ok s' => Some (mkRS s' (rs_running r) (S (rs_failed r)) (option_map pred fl) (rs_tasks_run r) CIdle)
        | _ => None
        end
      end
    else None
  | CFinished b TFailure _, EReturn (Some false) =>
    match rs_failures_left r with
    | Some 1%nat => Some (with_ctl r (CReturned (Some false)))
    | _ => None
    end
  | CFinished b TInterrupted _, EReturn (Some false) => Some (with_ctl r (CReturned (Some false)))
  (* ---- leaving the loop ---- *)
  | CIdle, EReturn (Some ok) =>
    (* either everything is finished, or nothing runs, nothing can progress and something failed *)
    let stuck := (rs_running r =? 0)%nat && (0 <? rs_failed r)%nat
                 && match bs_ready s with [] => true | _ => false end
                 && negb (some_startable s) && negb (some_promotable g s) in
    if ((bs_pending s =? 0)%Z || stuck) && Bool.eqb ok (rs_failed r =? 0)%nat
    then Some (with_ctl r (CReturned (Some ok))) else None
  | _, _ => None
  end.

Fixpoint accepts (cf : config) (r : rstate) (tr : list event) : option rstate :=
  match tr with
  | [] => Some r
  | e :: rest => match accept1 cf r e with
                 | Some r' => accepts cf r' rest
                 | None => None
                 end
  end.

(* index of the first event that is not accepted (for diagnostics) *)
Fixpoint first_rejected (cf : config) (r : rstate) (tr : list event) (i : nat) : option nat :=
  match tr with
  | [] => None
  | e :: rest => match accept1 cf r e with
                 | Some r' => first_rejected cf r' rest (S i)
                 | None => Some i
                 end
  end.

Definition run_init (s : bstates) (failures_left : option nat) : rstate :=
  mkRS s 0 0 failures_left 0 CIdle.
