(* Everything executable, for extraction and for cases.v files. *)
From N2 Require Export Base.Base Model.Canon Model.Scanner Model.Depfile Model.Render Model.Proc Model.Sched Model.Invocation Model.Db Model.Parse Model.Load Model.Hash Model.World.
