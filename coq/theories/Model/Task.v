(* Model of task::run_task and task::read_depfile (src/task.rs): the composition of the pieces
   modelled in Proc.v / Depfile.v / Scanner.v around one command execution.

   The command itself is an oracle: [cmd_run] is what process::run_command reports - the output
   in the pieces in which it was read from the pipe, and the termination (0 success, 1 failure,
   2 interrupted, as Proc.decode_status) - and [depfile] is what the depfile path holds when the
   command has ended ([None] = no such file).

   run_task returns the TaskResult and, beside it, the arguments of the successive calls of the
   last-line callback (what the fancy console shows under a running command). *)
From Coq Require Import String.
From N2 Require Import Base.Base Model.Scanner Model.Depfile Model.Proc.

Record cmd_run := mkRun { cr_chunks : list bytes; cr_term : N }.

Record task_result := mkTR { tr_term : N; tr_output : bytes; tr_deps : option (list bytes) }.

(* depfile::parse with errors formatted for [path] (Depfile.depfile_parse fixes the name "d") *)
Definition depfile_parse_named (path text : bytes) : outcome (list (bytes * list bytes)) :=
  let buf := text ++ [0%N] in
  do s <- sc_new buf;
  finish_sres buf path (df_parse_loop true (df_fuel text) s []).

(* read_depfile: a missing file counts as empty; the prerequisites of all targets in map order *)
Definition read_depfile (path : bytes) (file : option bytes) : outcome (list bytes) :=
  match file with
  | None => Ok []
  | Some text => do m <- depfile_parse_named path text; Ok (concat (map snd m))
  end.

(* the callback is called after every chunk with find_last_line of everything read so far *)
Fixpoint last_lines (acc : bytes) (chunks : list bytes) : list bytes :=
  match chunks with
  | [] => []
  | c :: r => find_last_line (acc ++ c) :: last_lines (acc ++ c) r
  end.

Definition run_task (showinc : bool) (depfile : option (bytes * option bytes)) (run : cmd_run)
  : outcome (task_result * list bytes) :=
  let raw := accumulate (cr_chunks run) in
  let filtered := if showinc then (snd (extract_showincludes raw), Some (fst (extract_showincludes raw)))
                  else (raw, None) in
  do deps <- (if (cr_term run =? 0)%N then
                match depfile with
                | Some (path, file) => do d <- read_depfile path file; Ok (Some d)
                | None => Ok (snd filtered)
                end
              else Ok (snd filtered));
  Ok (mkTR (cr_term run) (fst filtered) deps, last_lines [] (cr_chunks run)).

(* what the worker thread of task::Runner::start sends as the step's result: an error of run_task
   (a malformed depfile) becomes a failed task whose output is the error text and a newline *)
Definition worker_result (showinc : bool) (depfile : option (bytes * option bytes)) (run : cmd_run) : outcome task_result :=
  match run_task showinc depfile run with
  | Ok (r, _) => Ok r
  | Err e => Ok (mkTR 1%N (e ++ [10%N]) None)
  | Panic s => Panic s
  | OutOfBounds s => OutOfBounds s
  | OutOfFuel => OutOfFuel
  end.

(* the Output messages the worker sends before its result (none for a hide_progress step) *)
Definition worker_outputs (hide_progress : bool) (run : cmd_run) : list bytes :=
  if hide_progress then [] else last_lines [] (cr_chunks run).
