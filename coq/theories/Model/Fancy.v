(* Model of the state behind the fancy console (src/progress_fancy.rs, struct FancyState) and of the
   frame it paints: update, task_started, task_output, task_finished, log, print_progress; of
   progress::build_message; and of String::from_utf8_lossy as task_output uses it (std's
   Utf8Chunks: every maximal invalid part becomes one U+FFFD).

   Time is a number of milliseconds (the code keeps an Instant per task and shows whole seconds of
   [now - start], saturating at 0).  The terminal width is an argument of [f_print] (the code asks
   terminal::get_cols() at every frame and falls back to 80).

   Panic sites: 31 = usize subtraction underflow (max_cols - 2)
                32 = build.cmdline.unwrap() on a step without a command (build_message)
                33 = task_output for an id that is not being displayed (find(..).unwrap())
                34 = task_finished for an id that is not being displayed (position(..).unwrap()) *)
From Coq Require Import String.
From N2 Require Import Base.Base Model.Scanner Model.Render.

(* ---- String::from_utf8_lossy ---- *)

Definition u_cont (c : N) : bool := ((128 <=? c) && (c <? 192))%N.
Definition u_repl : bytes := [239; 191; 189]%N.          (* U+FFFD *)

(* second byte admissible after a three-byte lead (no overlong forms, no surrogates) *)
Definition second3 (b c : N) : bool :=
  if (b =? 224)%N then ((160 <=? c) && (c <=? 191))%N
  else if (b =? 237)%N then ((128 <=? c) && (c <=? 159))%N
  else u_cont c.
(* second byte admissible after a four-byte lead (no overlong forms, nothing above U+10FFFF) *)
Definition second4 (b c : N) : bool :=
  if (b =? 240)%N then ((144 <=? c) && (c <=? 191))%N
  else if (b =? 244)%N then ((128 <=? c) && (c <=? 143))%N
  else u_cont c.

Fixpoint lossy (s : bytes) : bytes :=
  match s with
  | [] => []
  | b :: r =>
    if (b <? 128)%N then b :: lossy r
    else if ((194 <=? b) && (b <=? 223))%N then
      match r with
      | c1 :: r1 => if u_cont c1 then b :: c1 :: lossy r1 else u_repl ++ lossy r
      | [] => u_repl
      end
    else if ((224 <=? b) && (b <=? 239))%N then
      match r with
      | c1 :: r1 =>
        if second3 b c1 then
          match r1 with
          | c2 :: r2 => if u_cont c2 then b :: c1 :: c2 :: lossy r2 else u_repl ++ lossy r1
          | [] => u_repl
          end
        else u_repl ++ lossy r
      | [] => u_repl
      end
    else if ((240 <=? b) && (b <=? 244))%N then
      match r with
      | c1 :: r1 =>
        if second4 b c1 then
          match r1 with
          | c2 :: r2 =>
            if u_cont c2 then
              match r2 with
              | c3 :: r3 => if u_cont c3 then b :: c1 :: c2 :: c3 :: lossy r3 else u_repl ++ lossy r2
              | [] => u_repl
              end
            else u_repl ++ lossy r1
          | [] => u_repl
          end
        else u_repl ++ lossy r
      | [] => u_repl
      end
    else u_repl ++ lossy r
  end.

(* well-formed UTF-8 as std::str::from_utf8 accepts it *)
Fixpoint utf8_strict (s : bytes) : bool :=
  match s with
  | [] => true
  | b :: r =>
    if (b <? 128)%N then utf8_strict r
    else if ((194 <=? b) && (b <=? 223))%N then
      match r with c1 :: r1 => u_cont c1 && utf8_strict r1 | [] => false end
    else if ((224 <=? b) && (b <=? 239))%N then
      match r with
      | c1 :: c2 :: r2 => second3 b c1 && u_cont c2 && utf8_strict r2
      | _ => false
      end
    else if ((240 <=? b) && (b <=? 244))%N then
      match r with
      | c1 :: c2 :: c3 :: r3 => second4 b c1 && u_cont c2 && u_cont c3 && utf8_strict r3
      | _ => false
      end
    else false
  end.

(* ---- progress::build_message ---- *)

Definition build_message (desc cmdline : option bytes) : outcome bytes :=
  match desc with
  | Some (c :: d) => Ok (c :: d)
  | _ => match cmdline with Some c => Ok c | None => Panic 32%N end
  end.

(* ---- FancyState ---- *)

Record ftask := mkFTask { ft_id : N; ft_start : N; ft_msg : bytes; ft_last : option bytes }.

Record fstate := mkFState {
  fs_pending : bytes;        (* text to print with the next frame *)
  fs_counts : counts;
  fs_tasks : list ftask;     (* commands being displayed, oldest first *)
  fs_verbose : bool }.

Definition clear_seq : bytes := 13%N :: 27%N :: bs "[J".        (* "\r\x1b[J" *)

Definition f_new (verbose : bool) : fstate :=
  mkFState [] (mkCounts 0 0 0 0 0 0) [] verbose.

Definition f_update (st : fstate) (c : counts) : fstate :=
  mkFState (fs_pending st) c (fs_tasks st) (fs_verbose st).

Definition f_task_started (st : fstate) (id now : N) (desc cmdline : option bytes) : outcome fstate :=
  do pending <- (if fs_verbose st then
                   match cmdline with
                   | Some c => Ok (fs_pending st ++ c ++ [10%N])
                   | None => Panic 32%N
                   end
                 else Ok (fs_pending st));
  do msg <- build_message desc cmdline;
  Ok (mkFState pending (fs_counts st) (fs_tasks st ++ [mkFTask id now msg None]) (fs_verbose st)).

Fixpoint set_last (ts : list ftask) (id : N) (line : bytes) : option (list ftask) :=
  match ts with
  | [] => None
  | t :: r =>
    if (ft_id t =? id)%N then Some (mkFTask (ft_id t) (ft_start t) (ft_msg t) (Some line) :: r)
    else match set_last r id line with Some r' => Some (t :: r') | None => None end
  end.

Definition f_task_output (st : fstate) (id : N) (line : bytes) : outcome fstate :=
  match set_last (fs_tasks st) id (lossy line) with
  | Some ts => Ok (mkFState (fs_pending st) (fs_counts st) ts (fs_verbose st))
  | None => Panic 33%N
  end.

Fixpoint remove_task (ts : list ftask) (id : N) : option (list ftask) :=
  match ts with
  | [] => None
  | t :: r =>
    if (ft_id t =? id)%N then Some r
    else match remove_task r id with Some r' => Some (t :: r') | None => None end
  end.

(* termination: 0 = Success, 1 = Interrupted, 2 = Failure *)
Definition ends_with_nl (o : bytes) : bool :=
  match rev o with c :: _ => (c =? 10)%N | [] => false end.

Definition f_task_finished (st : fstate) (id : N) (desc cmdline : option bytes) (hide_success : bool)
           (term : N) (output : bytes) : outcome fstate :=
  match remove_task (fs_tasks st) id with
  | None => Panic 34%N
  | Some ts =>
    let quiet := ((term =? 0)%N && (match output with [] => true | _ => false end || hide_success))%bool in
    if quiet then Ok (mkFState (fs_pending st) (fs_counts st) ts (fs_verbose st))
    else
      do msg <- build_message desc cmdline;
      let head := if (term =? 0)%N then msg ++ [10%N]
                  else if (term =? 1)%N then bs "interrupted: " ++ msg ++ [10%N]
                  else bs "failed: " ++ msg ++ [10%N] in
      let tail := if ends_with_nl output then output else output ++ [10%N] in
      Ok (mkFState (fs_pending st ++ head ++ tail) (fs_counts st) ts (fs_verbose st))
  end.

Definition f_log (st : fstate) (msg : bytes) : fstate :=
  mkFState (fs_pending st ++ msg ++ [10%N]) (fs_counts st) (fs_tasks st) (fs_verbose st).

(* ---- print_progress ---- *)

Definition max_tasks : nat := 8.

Definition status_line (c : counts) (ntasks : nat) : bytes :=
  let failed := c_failed c in
  bs "[" ++ progress_bar c 40%N ++ bs "] " ++ dec_of_N (c_done c + failed)%N ++ bs "/" ++ dec_of_N (counts_total c)
     ++ bs " done, "
     ++ (if (0 <? failed)%N then dec_of_N failed ++ bs " failed, " else [])
     ++ dec_of_nat ntasks ++ bs "/" ++ dec_of_N (c_queued c + c_running c + c_ready c)%N ++ bs " running" ++ [10%N].

(* the lines of one displayed task, without their newlines *)
Definition task_lines (now : N) (cols : nat) (t : ftask) : outcome (list bytes) :=
  let delta := ((now - ft_start t) / 1000)%N in
  do m <- task_message (ft_msg t) delta cols;
  match ft_last t with
  | None => Ok [m]
  | Some l => if (cols <? 2)%nat then Panic 31%N else Ok [m; bs "  " ++ truncate l (cols - 2)]
  end.

Fixpoint body_lines (now : N) (cols : nat) (ts : list ftask) : outcome (list bytes) :=
  match ts with
  | [] => Ok []
  | t :: r => do a <- task_lines now cols t; do b <- body_lines now cols r; Ok (a ++ b)
  end.

Definition more_line (ntasks : nat) : list bytes :=
  if (max_tasks <? ntasks)%nat then [bs "...and " ++ dec_of_nat (ntasks - max_tasks) ++ bs " more"] else [].

Definition cursor_up (lines : nat) : bytes := 27%N :: bs "[" ++ dec_of_nat lines ++ bs "A".

Definition with_nl (l : bytes) : bytes := l ++ [10%N].

(* what one call writes to the terminal, and the state afterwards *)
Definition f_print (st : fstate) (now : N) (cols : nat) : outcome (bytes * fstate) :=
  let n := length (fs_tasks st) in
  do body <- body_lines now cols (firstn max_tasks (fs_tasks st));
  let lines := body ++ more_line n in
  Ok (fs_pending st ++ status_line (fs_counts st) n ++ concat (map with_nl lines) ++ cursor_up (1 + length lines),
      mkFState clear_seq (fs_counts st) (fs_tasks st) (fs_verbose st)).

(* ---- operation sequences (what the harness drives) ---- *)

Inductive fop :=
| FUpdate (c : counts)
| FStart (id now : N) (desc cmdline : option bytes)
| FOutput (id : N) (line : bytes)
| FFinish (id : N) (desc cmdline : option bytes) (hide : bool) (term : N) (output : bytes)
| FLog (msg : bytes)
| FPrint (now : N) (cols : nat).

(* returns the frames painted, oldest first, and the final state *)
Definition f_step (acc : list bytes * fstate) (o : fop) : outcome (list bytes * fstate) :=
  let '(frames, st) := acc in
  match o with
  | FUpdate c => Ok (frames, f_update st c)
  | FStart id now d c => do st' <- f_task_started st id now d c; Ok (frames, st')
  | FOutput id l => do st' <- f_task_output st id l; Ok (frames, st')
  | FFinish id d c h t o => do st' <- f_task_finished st id d c h t o; Ok (frames, st')
  | FLog m => Ok (frames, f_log st m)
  | FPrint now cols => do r <- f_print st now cols; Ok (frames ++ [fst r], snd r)
  end.

Fixpoint f_run (acc : list bytes * fstate) (ops : list fop) : outcome (list bytes * fstate) :=
  match ops with
  | [] => Ok acc
  | o :: r => do acc' <- f_step acc o; f_run acc' r
  end.

Definition f_run0 (verbose : bool) (ops : list fop) : outcome (list bytes * fstate) :=
  f_run ([], f_new verbose) ops.
