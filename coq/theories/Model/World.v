(* Model of the file-state side of src/work.rs (check_build_dirty, record_finished), of the build
   log's role in it, and of the two phases of run::build.  It replays the events of one
   invocation — verdicts, finishes with what the command reported, records — against a model
   of the tree (name -> mtime), of the per-Work stat cache and of the log, and checks every
   dirty/clean verdict and every recorded hash against its own computation.

   Steps are identified by index into [w_builds]; files by canonical name. *)
From Coq Require Import String.
From N2 Require Import Base.Base Model.Scanner Model.Canon Model.Db Model.Hash.

Record wbuild := mkWBuild {
  wb_ins : list bytes;                  (* names: explicit, implicit, order-only, validation *)
  wb_explicit : nat; wb_implicit : nat; wb_order_only : nat;
  wb_outs : list bytes;
  wb_cmdline : option bytes;
  wb_rsp : option (bytes * bytes);
}.

Definition wb_dirtying (b : wbuild) : list bytes := firstn (wb_explicit b + wb_implicit b) (wb_ins b).

Record wgraph := mkWGraph {
  w_builds : list wbuild;
  w_producer : list (bytes * nat);      (* output name -> step *)
}.

Definition producer_of (g : wgraph) (name : bytes) : option nat :=
  (fix go (l : list (bytes * nat)) :=
     match l with
     | [] => None
     | (n, b) :: r => if bytes_eqb n name then Some b else go r
     end) (w_producer g).

Definition fsmap := list (bytes * mtime).           (* absent = missing *)
Definition fs_get (fs : fsmap) (n : bytes) : option mtime :=
  (fix go (l : fsmap) := match l with
                         | [] => None
                         | (k, v) :: r => if bytes_eqb k n then Some v else go r
                         end) fs.
Fixpoint fs_set (fs : fsmap) (n : bytes) (v : option mtime) : fsmap :=
  match fs with
  | [] => match v with Some t => [(n, t)] | None => [] end
  | (k, t) :: r => if bytes_eqb k n then match v with Some t' => (k, t') :: r | None => r end
                   else (k, t) :: fs_set r n v
  end.

(* FileState: None = not stat()ed yet; Some None = Missing *)
Definition cache := list (bytes * option mtime).
Definition cache_get (c : cache) (n : bytes) : option (option mtime) :=
  (fix go (l : cache) := match l with
                         | [] => None
                         | (k, v) :: r => if bytes_eqb k n then Some v else go r
                         end) c.
Fixpoint cache_set (c : cache) (n : bytes) (v : option mtime) : cache :=
  match c with
  | [] => [(n, v)]
  | (k, x) :: r => if bytes_eqb k n then (k, v) :: r else (k, x) :: cache_set r n v
  end.

Record wstate := mkW {
  ws_fs : fsmap;
  ws_cache : cache;
  ws_disc : list (nat * list bytes);            (* discovered inputs per step (latest first) *)
  ws_hashes : list (nat * N);                   (* last_hashes *)
  ws_tbl : list bytes;                          (* db id table of the writer *)
  ws_log : bytes;                               (* .n2_db content *)
}.

Definition disc_of (w : wstate) (b : nat) : list bytes :=
  match assoc_nat b (ws_disc w) with Some l => l | None => [] end.

Definition stat (w : wstate) (n : bytes) : wstate * option mtime :=
  let v := fs_get (ws_fs w) n in
  (mkW (ws_fs w) (cache_set (ws_cache w) n v) (ws_disc w) (ws_hashes w) (ws_tbl w) (ws_log w), v).

Inductive dirty_result :=
| DClean
| DDirty (why : N)          (* 1 missing input/dep/output, 2 no record, 3 manifest changed *)
| DError (msg : bytes).

(* ensure_input_files: first missing name, or an error for a generated file nobody stat()ed *)
Fixpoint ensure_inputs (g : wgraph) (w : wstate) (names : list bytes) : wstate * (option bytes + bytes) :=
  match names with
  | [] => (w, inl None)
  | n :: rest =>
    match cache_get (ws_cache w) n with
    | Some (Some _) => ensure_inputs g w rest
    | Some None => (w, inl (Some n))
    | None =>
      match producer_of g n with
      | Some _ => (w, inr n)
      | None =>
        let '(w, v) := stat w n in
        match v with
        | Some _ => ensure_inputs g w rest
        | None => (w, inl (Some n))
        end
      end
    end
  end.

(* stat_all_outputs: stats every output; is one missing? *)
Fixpoint stat_all (w : wstate) (names : list bytes) (missing : bool) : wstate * bool :=
  match names with
  | [] => (w, missing)
  | n :: rest =>
    let '(w, v) := stat w n in
    stat_all w rest (missing || match v with None => true | Some _ => false end)
  end.

Fixpoint with_mtimes (c : cache) (names : list bytes) : option (list (bytes * mtime)) :=
  match names with
  | [] => Some []
  | n :: rest =>
    match cache_get c n, with_mtimes c rest with
    | Some (Some t), Some l => Some ((n, t) :: l)
    | _, _ => None
    end
  end.

(* the manifest of step b from the stat cache (None if some file has no state or is missing:
   get_fileid_status would panic) *)
Definition manifest_of (w : wstate) (bd : wbuild) (disc : list bytes) : option manifest :=
  match with_mtimes (ws_cache w) (wb_dirtying bd), with_mtimes (ws_cache w) disc, with_mtimes (ws_cache w) (wb_outs bd) with
  | Some i, Some d, Some o =>
    Some (mkManifest i d (match wb_cmdline bd with Some c => c | None => [] end) (wb_rsp bd) o)
  | _, _, _ => None
  end.

Definition check_build_dirty (g : wgraph) (w : wstate) (b : nat) (bd : wbuild) : wstate * dirty_result :=
  match wb_cmdline bd with
  | None => let '(w, _) := stat_all w (wb_outs bd) false in (w, DClean)
  | Some _ =>
    let '(w, r1) := ensure_inputs g w (wb_dirtying bd) in
    match r1 with
    | inr n => (w, DError (bs "used generated file " ++ n))
    | inl (Some n) =>
      match producer_of g n with
      | None => (w, DError (bs "input " ++ n ++ bs " missing"))
      | Some _ => (w, DDirty 1)
      end
    | inl None =>
      let '(w, r2) := ensure_inputs g w (disc_of w b) in
      match r2 with
      | inr n => (w, DError (bs "used generated file " ++ n))
      | inl (Some _) => (w, DDirty 1)
      | inl None =>
        let '(w, missing) := stat_all w (wb_outs bd) false in
        if missing then (w, DDirty 1) else
        match assoc_nat b (ws_hashes w) with
        | None => (w, DDirty 2)
        | Some prev =>
          match manifest_of w bd (disc_of w b) with
          | None => (w, DError (bs "no state"))
          | Some m => if (hash_build m =? prev)%N then (w, DClean) else (w, DDirty 3)
          end
        end
      end
    end
  end.

(* the dependency list record_finished keeps: non-empty names, canonicalised, first occurrence
   only, minus the declared dirtying inputs *)
Fixpoint keep_deps (dirtying : list bytes) (names : list bytes) (acc : list bytes) : outcome (list bytes) :=
  match names with
  | [] => Ok (rev acc)
  | [] :: rest => keep_deps dirtying rest acc
  | n :: rest =>
    do c <- canon n;
    if existsb (bytes_eqb c) acc || existsb (bytes_eqb c) dirtying then keep_deps dirtying rest acc
    else keep_deps dirtying rest (c :: acc)
  end.

(* record_finished: returns the new state and the hash written (None: nothing recorded) *)
Definition record_finished (w : wstate) (b : nat) (bd : wbuild) (reported : option (list bytes))
  : outcome (wstate * option N) :=
  do deps <- keep_deps (wb_dirtying bd) (match reported with Some l => l | None => [] end) [];
  let w := mkW (ws_fs w) (ws_cache w) ((b, deps) :: ws_disc w) (ws_hashes w) (ws_tbl w) (ws_log w) in
  let '(w, miss_in) := stat_all w (wb_dirtying bd ++ deps) false in
  let '(w, miss_out) := stat_all w (wb_outs bd) false in
  if miss_in || miss_out then Ok (w, None) else
  match manifest_of w bd deps with
  | None => Panic 70%N
  | Some m =>
    let h := hash_build m in
    do r <- write_build (ws_tbl w) (wb_outs bd) deps h;
    let '(bytes, tbl) := r in
    Ok (mkW (ws_fs w) (ws_cache w) (ws_disc w) (ws_hashes w) tbl (ws_log w ++ bytes), Some h)
  end.

(* a fresh Work after load::read: empty stat cache; discovered inputs and hashes from the log *)
Definition load_state (g : wgraph) (fs : fsmap) (log : bytes) : outcome wstate :=
  match log with
  | [] => Ok (mkW fs [] [] [] [] signature)           (* no file: Writer::create *)
  | _ =>
    match db_open true (producer_of g) log with
    | OpenOk st file =>
      Ok (mkW fs [] (map (fun e => (fst e, fst (snd e))) (ld_builds st))
              (map (fun e => (fst e, snd (snd e))) (ld_builds st)) (ld_tbl st) file)
    | OpenErr m => Err (bs "load .n2_db: " ++ m)
    | OpenPanic s => Panic s
    end
  end.

(* ------------------------------------------------------------------------------------ *)
(* replay *)

Inductive wevent :=
| WVerdict (b : nat) (v : N)              (* 0 clean, 1 dirty, 2 error *)
| WFinish (b : nat) (term : N) (reported : option (list bytes))
| WRecord (b : nat) (h : N)
| WNoRecord (b : nat)                     (* a successful finish / adopt not followed by a record *)
| WWrite (name : bytes) (t : option mtime)   (* a command (or the user) wrote / removed a file *)
| WAdopt (b : nat).                        (* adopt mode: record_finished with the deps already known *)

Inductive wcheck :=
| WOk (w : wstate)
| WMismatch (i : nat) (what : N) (detail : bytes)   (* 1 verdict, 2 record hash, 3 record presence *)
| WBroken (i : nat) (o : outcome unit).

Definition get_wbuild (g : wgraph) (b : nat) : wbuild := nth b (w_builds g) (mkWBuild [] 0 0 0 [] None None).

(* pending: the last finish (step, reported deps) waiting for its Record/NoRecord *)
Fixpoint replay (g : wgraph) (w : wstate) (pend : option (nat * option (list bytes))) (evs : list wevent) (i : nat) : wcheck :=
  match evs with
  | [] => WOk w
  | e :: rest =>
    match e with
    | WWrite n t => replay g (mkW (fs_set (ws_fs w) n t) (ws_cache w) (ws_disc w) (ws_hashes w) (ws_tbl w) (ws_log w)) pend rest (S i)
    | WVerdict b v =>
      let '(w', r) := check_build_dirty g w b (get_wbuild g b) in
      let got := match r with DClean => 0%N | DDirty _ => 1%N | DError _ => 2%N end in
      if (got =? v)%N then replay g w' pend rest (S i)
      else WMismatch i 1 (match r with DDirty why => [why] | DError m => m | DClean => [] end)
    | WFinish b term reported =>
      if (term =? 0)%N then replay g w (Some (b, reported)) rest (S i) else replay g w None rest (S i)
    | WAdopt b => replay g w (Some (b, Some (disc_of w b))) rest (S i)   (* after the fix for F10 *)
    | WRecord b h =>
      match pend with
      | Some (b', reported) =>
        if negb (b =? b')%nat then WMismatch i 3 [] else
        match record_finished w b (get_wbuild g b) reported with
        | Ok (w', Some h') => if (h =? h')%N then replay g w' None rest (S i) else WMismatch i 2 (le_bytes 8 h')
        | Ok (_, None) => WMismatch i 3 []
        | Err m => WBroken i (Err m)
        | Panic s => WBroken i (Panic s)
        | OutOfBounds s => WBroken i (OutOfBounds s)
        | OutOfFuel => WBroken i OutOfFuel
        end
      | None => WMismatch i 3 []
      end
    | WNoRecord b =>
      match pend with
      | Some (b', reported) =>
        if negb (b =? b')%nat then WMismatch i 3 [] else
        match record_finished w b (get_wbuild g b) reported with
        | Ok (w', None) => replay g w' None rest (S i)
        | Ok (_, Some _) => WMismatch i 3 [1%N]
        | Err m => WBroken i (Err m)
        | Panic s => WBroken i (Panic s)
        | OutOfBounds s => WBroken i (OutOfBounds s)
        | OutOfFuel => WBroken i OutOfFuel
        end
      | None => WMismatch i 3 []
      end
    end
  end.
