(* Model of src/hash.rs: the byte stream hash_build feeds the hasher, and the hasher itself
   (std's DefaultHasher = SipHash-1-3 with zero keys, as a streaming byte hash).

   str::hash      = bytes ++ [0xFF]
   SystemTime     = i64le seconds ++ u32le nanoseconds
   separator      = 0x1F after each file list and after the command line
   RspFile        = Path::hash (component bytes, then usize chunk_bits) then content as str *)
From N2 Require Import Base.Base Model.Db.

Definition two64 : N := 18446744073709551616.
Definition m64 (x : N) : N := (x mod two64)%N.
Definition rotl (x : N) (b : N) : N := N.lor (m64 (N.shiftl x b)) (N.shiftr x (64 - b)).
Definition rotr (x : N) (b : N) : N := N.lor (N.shiftr x b) (m64 (N.shiftl x (64 - b))).

Record sipstate := mkSip { v0 : N; v1 : N; v2 : N; v3 : N }.

Definition sipround (s : sipstate) : sipstate :=
  let v0 := m64 (v0 s + v1 s) in
  let v1 := rotl (v1 s) 13 in
  let v1 := N.lxor v1 v0 in
  let v0 := rotl v0 32 in
  let v2 := m64 (v2 s + v3 s) in
  let v3 := rotl (v3 s) 16 in
  let v3 := N.lxor v3 v2 in
  let v0 := m64 (v0 + v3) in
  let v3 := rotl v3 21 in
  let v3 := N.lxor v3 v0 in
  let v2 := m64 (v2 + v1) in
  let v1 := rotl v1 17 in
  let v1 := N.lxor v1 v2 in
  let v2 := rotl v2 32 in
  mkSip v0 v1 v2 v3.

Definition sip_init : sipstate :=
  mkSip 8317987319222330741 7237128888997146477 7816392313619706465 8387220255154660723.

Definition sip_absorb (s : sipstate) (m : N) : sipstate :=
  let s := mkSip (v0 s) (v1 s) (v2 s) (N.lxor (v3 s) m) in
  let s := sipround s in
  mkSip (N.lxor (v0 s) m) (v1 s) (v2 s) (v3 s).

(* absorb whole 8-byte words; returns the state and the (< 8 byte) tail *)
Fixpoint sip_words (fuel : nat) (s : sipstate) (l : bytes) : sipstate * bytes :=
  match fuel with
  | O => (s, l)
  | S fuel =>
    match l with
    | a :: b :: c :: d :: e :: f :: g :: h :: rest =>
      sip_words fuel (sip_absorb s (of_le [a; b; c; d; e; f; g; h])) rest
    | _ => (s, l)
    end
  end.

Definition siphash13 (msg : bytes) : N :=
  let '(s, tail) := sip_words (S (length msg)) sip_init msg in
  let b := N.lor (N.shiftl (N.of_nat (length msg) mod 256) 56) (of_le tail) in
  let s := sip_absorb s b in
  let s := mkSip (v0 s) (v1 s) (N.lxor (v2 s) 255) (v3 s) in
  let s := sipround (sipround (sipround s)) in
  N.lxor (N.lxor (v0 s) (v1 s)) (N.lxor (v2 s) (v3 s)).

(* ------------------------------------------------------------------------------------ *)
(* the manifest *)

(* an mtime: seconds (i64, here non-negative) and nanoseconds *)
Definition mtime := (N * N)%type.

Definition hash_str (s : bytes) : bytes := s ++ [255%N].
Definition hash_mtime (t : mtime) : bytes := le_bytes 8 (fst t) ++ le_bytes 4 (snd t).

Definition hash_files (fs : list (bytes * mtime)) : bytes :=
  concat (map (fun f => hash_str (fst f) ++ hash_mtime (snd f)) fs) ++ [31%N].

(* std::path::Path::hash on unix (no prefix): components are written without separators, a
   "." component after a separator is skipped, then chunk_bits as usize *)
Fixpoint path_hash_loop (fuel : nat) (l : bytes) (cur : bytes) (chunk : N) (acc : bytes) : bytes * N :=
  match fuel with
  | O => (acc, chunk)
  | S fuel =>
    match l with
    | [] =>
      match cur with
      | [] => (acc, chunk)
      | _ => (acc ++ rev cur, rotr (m64 (chunk + N.of_nat (length cur))) 2)
      end
    | c :: rest =>
      if (c =? 47)%N then
        let '(acc, chunk) := match cur with
                             | [] => (acc, chunk)
                             | _ => (acc ++ rev cur, rotr (m64 (chunk + N.of_nat (length cur))) 2)
                             end in
        (* skip a following "." component *)
        let rest := match rest with
                    | [46%N] => []
                    | 46%N :: 47%N :: r => 47%N :: r
                    | _ => rest
                    end in
        path_hash_loop fuel rest [] chunk acc
      else path_hash_loop fuel rest (c :: cur) chunk acc
    end
  end.

Definition hash_path (p : bytes) : bytes :=
  let '(acc, chunk) := path_hash_loop (S (length p)) p [] 0 [] in
  acc ++ le_bytes 8 chunk.

Record manifest := mkManifest {
  mf_ins : list (bytes * mtime);          (* dirtying inputs *)
  mf_discovered : list (bytes * mtime);
  mf_cmdline : bytes;                      (* "" for a phony step *)
  mf_rsp : option (bytes * bytes);
  mf_outs : list (bytes * mtime);
}.

Definition manifest_stream (m : manifest) : bytes :=
  hash_files (mf_ins m) ++ hash_files (mf_discovered m) ++
  hash_str (mf_cmdline m) ++ [31%N] ++
  match mf_rsp m with
  | Some (p, c) => hash_path p ++ hash_str c
  | None => []
  end ++
  hash_files (mf_outs m).

Definition hash_build (m : manifest) : N := siphash13 (manifest_stream m).
