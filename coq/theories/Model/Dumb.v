(* Model of the plain console (src/progress_dumb.rs, DumbConsoleProgress): what is written to
   stdout when a command starts and when it finishes.  Used whenever stdout is not a terminal.
   What is printed is kept as a list of segments so that "the output of a command is printed
   once, contiguously" can be stated: [SLine] = a line n2 prints itself (message + newline),
   [SBlock] = the captured output of a finished command, verbatim.

   Termination codes as in Model/Fancy.v: 0 success, 1 interrupted, 2 failure.
   Panic site 32 = build.cmdline.unwrap() on a step without a command. *)
From Coq Require Import String.
From N2 Require Import Base.Base Model.Scanner Model.Render Model.Fancy.

Inductive seg := SLine (l : bytes) | SBlock (b : bytes).

Definition seg_bytes (s : seg) : bytes :=
  match s with SLine l => l ++ [10%N] | SBlock b => b end.

Definition printed (segs : list seg) : bytes := concat (map seg_bytes segs).

Record dstate := mkDState { ds_verbose : bool; ds_last : option N }.

Definition d_new (verbose : bool) : dstate := mkDState verbose None.

Definition d_task_started (st : dstate) (id : N) (desc cmdline : option bytes) : outcome (list seg * dstate) :=
  do m <- (if ds_verbose st then match cmdline with Some c => Ok c | None => Panic 32%N end
           else build_message desc cmdline);
  Ok ([SLine m], mkDState (ds_verbose st) (Some id)).

Definition is_empty (b : bytes) : bool := match b with [] => true | _ => false end.

Definition opt_N_eqb (a : option N) (b : N) : bool :=
  match a with Some x => (x =? b)%N | None => false end.

Definition d_task_finished (st : dstate) (id : N) (desc cmdline : option bytes) (hide_success : bool)
           (term : N) (output : bytes) : outcome (list seg * dstate) :=
  do head <- (if (term =? 0)%N then
                if is_empty output || opt_N_eqb (ds_last st) id then Ok []
                else do m <- build_message desc cmdline; Ok [SLine m]
              else if (term =? 1)%N then do m <- build_message desc cmdline; Ok [SLine (bs "interrupted: " ++ m)]
              else do m <- build_message desc cmdline; Ok [SLine (bs "failed: " ++ m)]);
  let hide := is_empty output || ((term =? 0)%N && hide_success) in
  Ok (head ++ (if hide then [] else [SBlock output]), st).

Inductive dop :=
| DStart (id : N) (desc cmdline : option bytes)
| DFinish (id : N) (desc cmdline : option bytes) (hide : bool) (term : N) (output : bytes).

Definition d_step (st : dstate) (o : dop) : outcome (list seg * dstate) :=
  match o with
  | DStart id d c => d_task_started st id d c
  | DFinish id d c h t out => d_task_finished st id d c h t out
  end.

Fixpoint d_run (st : dstate) (ops : list dop) : outcome (list seg * dstate) :=
  match ops with
  | [] => Ok ([], st)
  | o :: r => do a <- d_step st o; do b <- d_run (snd a) r; Ok (fst a ++ fst b, snd b)
  end.

Definition d_run0 (verbose : bool) (ops : list dop) : outcome (list seg * dstate) := d_run (d_new verbose) ops.
