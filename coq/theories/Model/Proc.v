(* Model of the pure parts of src/task.rs and src/process_posix.rs:
   extract_showincludes, find_last_line, decoding of the wait status, output accumulation. *)
From Coq Require Import String.
From N2 Require Import Base.Base Model.Scanner.

Definition note_prefix : bytes := (bs "Note: including file: ").

Fixpoint strip_prefix (pre l : bytes) : option bytes :=
  match pre, l with
  | [], _ => Some l
  | p :: pre', c :: l' => if (p =? c)%N then strip_prefix pre' l' else None
  | _ :: _, [] => None
  end.

Fixpoint drop_spaces (l : bytes) : bytes :=
  match l with
  | 32%N :: r => drop_spaces r
  | _ => l
  end.

(* include[start..end]: start = first non-space (0 if there is none), end drops one final CR *)
Definition include_payload (inc : bytes) : bytes :=
  let body := match rev inc with
              | 13%N :: r => rev r
              | _ => inc
              end in
  match drop_spaces inc with
  | [] => body                         (* all spaces (or empty): position() is None, start = 0 *)
  | _ => match rev inc with
         | 13%N :: _ => removelast (drop_spaces inc)
         | _ => drop_spaces inc
         end
  end.

(* state: (includes reversed, filtered output, seen a kept line) *)
Definition si_step (fixed : bool) (st : list bytes * bytes * bool) (line : bytes)
  : list bytes * bytes * bool :=
  let '(incs, out, seen) := st in
  match strip_prefix note_prefix line with
  | Some inc => (include_payload inc :: incs, out, seen)
  | None =>
    let sep := if fixed then seen else match out with [] => false | _ => true end in
    (incs, out ++ (if sep then [10%N] else []) ++ line, true)
  end.

Definition extract_showincludes_gen (fixed : bool) (output : bytes) : list bytes * bytes :=
  let '(incs, out, _) := fold_left (si_step fixed) (split_on 10%N [] output) ([], [], false) in
  (rev incs, out).

(* the code after the fix for F16 / as in the pinned tree *)
Definition extract_showincludes := extract_showincludes_gen true.
Definition extract_showincludes_pinned := extract_showincludes_gen false.

(* find_last_line *)
Definition is_nl (c : N) : bool := ((c =? 13) || (c =? 10))%N.
Fixpoint drop_while_nl (l : bytes) : bytes :=
  match l with
  | c :: r => if is_nl c then drop_while_nl r else l
  | [] => []
  end.
Fixpoint take_until_nl (l : bytes) : bytes :=
  match l with
  | c :: r => if is_nl c then [] else c :: take_until_nl r
  | [] => []
  end.
Definition find_last_line (buf : bytes) : bytes :=
  match drop_while_nl (rev buf) with
  | [] => []   (* rposition None: end = len; start = after the last newline = len *)
  | r => rev (take_until_nl r)
  end.

(* wait status -> termination: 0 success, 1 failure, 2 interrupted *)
Definition decode_status (status : N) : N :=
  let low := (status mod 128)%N in            (* WTERMSIG *)
  if (low =? 0)%N then                        (* WIFEXITED *)
    if ((status / 256) mod 256 =? 0)%N then 0%N else 1%N
  else if ((low =? 127)%N) then 1%N           (* stopped: not exited, no signal() *)
  else if (low =? 2)%N then 2%N else 1%N.

(* the read loop: output is the concatenation of the chunks, whatever the chunking *)
Definition accumulate (chunks : list bytes) : bytes := fold_left (fun acc c => acc ++ c) chunks [].
