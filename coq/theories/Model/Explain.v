(* Model of `-d explain` (src/work.rs check_build_dirty_inner's explain arms, src/hash.rs
   ExplainHash / explain_hash_build): what n2 logs when it finds a step out of date.
   The verdict itself is World.check_build_dirty; this file computes, on the same state, the
   reason and its rendering.  A reason is computed from the state *before* the check; the check's
   own stat() calls are re-done here (they only fill the cache). *)
From Coq Require Import String.
From N2 Require Import Base.Base Model.Scanner Model.Db Model.Hash Model.Fancy Model.World.

Inductive reason :=
| RMissing (n : bytes)          (* "input N missing": a dirtying input, discovered dependency or output *)
| RNoRecord                     (* "no previous state known" *)
| RChanged (m : manifest).      (* "manifest changed" + the manifest as text *)

Fixpoint first_missing_fs (fs : fsmap) (names : list bytes) : option bytes :=
  match names with
  | [] => None
  | n :: r => match fs_get fs n with None => Some n | Some _ => first_missing_fs fs r end
  end.

Definition explain_reason (g : wgraph) (w : wstate) (b : nat) (bd : wbuild) : option reason :=
  match wb_cmdline bd with
  | None => None
  | Some _ =>
    let '(w, r1) := ensure_inputs g w (wb_dirtying bd) in
    match r1 with
    | inr _ => None
    | inl (Some n) => match producer_of g n with None => None | Some _ => Some (RMissing n) end
    | inl None =>
      let '(w, r2) := ensure_inputs g w (disc_of w b) in
      match r2 with
      | inr _ => None
      | inl (Some n) => Some (RMissing n)
      | inl None =>
        let '(w, missing) := stat_all w (wb_outs bd) false in
        if missing then option_map RMissing (first_missing_fs (ws_fs w) (wb_outs bd)) else
        match assoc_nat b (ws_hashes w) with
        | None => Some RNoRecord
        | Some prev =>
          match manifest_of w bd (disc_of w b) with
          | None => None
          | Some m => if (hash_build m =? prev)%N then None else Some (RChanged m)
          end
        end
      end
    end
  end.

(* ------------------------------------------------------------------------------------ *)
(* rendering *)

(* SystemTime::duration_since(UNIX_EPOCH).as_millis() *)
Definition millis (t : mtime) : N := (fst t * 1000 + snd t / 1000000)%N.

Fixpoint hex_digits (fuel : nat) (n : N) (acc : bytes) : bytes :=
  match fuel with
  | O => acc
  | S fuel =>
    let d := (n mod 16)%N in
    let acc := (if (d <? 10)%N then 48 + d else 87 + d)%N :: acc in
    if (n <? 16)%N then acc else hex_digits fuel (n / 16)%N acc
  end.
(* "{:x}" *)
Definition hex_of_N (n : N) : bytes := hex_digits (S (N.to_nat (N.log2 n))) n [].

Definition explain_files (desc : bytes) (fs : list (bytes * mtime)) : bytes :=
  desc ++ bs ":" ++ [10%N] ++
  concat (map (fun f => bs "  " ++ dec_of_N (millis (snd f)) ++ bs " " ++ fst f ++ [10%N]) fs).

(* hash::explain_hash_build: the manifest in the order in which it is hashed *)
Definition explain_manifest (m : manifest) : bytes :=
  explain_files (bs "in") (mf_ins m) ++
  explain_files (bs "discovered") (mf_discovered m) ++
  bs "cmdline: " ++ mf_cmdline m ++ [10%N] ++
  match mf_rsp m with
  | Some (p, c) => bs "rspfile path: " ++ lossy p ++ [10%N] ++
                   bs "rspfile hash: " ++ hex_of_N (siphash13 c) ++ [10%N]
  | None => []
  end ++
  explain_files (bs "out") (mf_outs m).

(* the messages passed to Progress::log, in order; [loc] is the step's `file:line` *)
Definition render_reason (loc : bytes) (r : reason) : list bytes :=
  let pre := bs "explain: " ++ loc ++ bs ": " in
  match r with
  | RMissing n => [pre ++ bs "input " ++ n ++ bs " missing"]
  | RNoRecord => [pre ++ bs "no previous state known"]
  | RChanged m => [pre ++ bs "manifest changed"; explain_manifest m]
  end.

Definition explain_verdict (g : wgraph) (w : wstate) (b : nat) (bd : wbuild) (loc : bytes) : list bytes :=
  match explain_reason g w b bd with
  | Some r => render_reason loc r
  | None => []
  end.

(* ------------------------------------------------------------------------------------ *)
(* along a trace: the messages logged at every verdict of an invocation (the state evolves as in
   World.replay; an event the replay would reject ends the list) *)
Fixpoint explain_trace (g : wgraph) (locs : list bytes) (w : wstate) (pend : option (nat * option (list bytes)))
         (evs : list wevent) : list (nat * list bytes) :=
  match evs with
  | [] => []
  | e :: rest =>
    match e with
    | WWrite n t => explain_trace g locs (mkW (fs_set (ws_fs w) n t) (ws_cache w) (ws_disc w) (ws_hashes w) (ws_tbl w) (ws_log w)) pend rest
    | WVerdict b v =>
      let bd := get_wbuild g b in
      (b, explain_verdict g w b bd (nth b locs [])) :: explain_trace g locs (fst (check_build_dirty g w b bd)) pend rest
    | WFinish b term reported =>
      if (term =? 0)%N then explain_trace g locs w (Some (b, reported)) rest else explain_trace g locs w None rest
    | WAdopt b => explain_trace g locs w (Some (b, Some (disc_of w b))) rest
    | WRecord b _ | WNoRecord b =>
      match pend with
      | Some (b', reported) =>
        match record_finished w b (get_wbuild g b) reported with
        | Ok (w', _) => explain_trace g locs w' None rest
        | _ => []
        end
      | None => []
      end
    end
  end.
