(* Model of src/scanner.rs: the byte scanner over a NUL-terminated buffer, its error type,
   and format_parse_error.

   [get] is [get_unchecked]: an offset outside the buffer is [SOob] (debug builds abort on the
   UB check, release builds read whatever is there).

   Panic sites:  20 = "back at start"   21 = "scanned past end"
                 22 = "Scanner requires nul-terminated buf"
                 23 = byte-index slice off a char boundary in format_parse_error
                 24 = "invalid offset when formatting error"
                 25 = subtraction overflow in format_parse_error
   OOB sites:    20 = get_unchecked(ofs) with ofs >= len     21 = slice(start,end) out of range *)
From Coq Require Import String Ascii.
From N2 Require Import Base.Base.

Definition bytes_of_string (s : string) : bytes :=
  List.map N_of_ascii (list_ascii_of_string s).
Definition bs (s : string) : bytes := bytes_of_string s.
Arguments bs s%string.

Record scanner := mkScanner { sbuf : bytes; sofs : nat; sline : Z }.

Inductive sres (A : Type) : Type :=
| SOk (a : A) (s : scanner)
| SErr (msg : bytes) (ofs : nat)
| SPanic (site : N)
| SOob (site : N)
| SFuel.
Arguments SOk {A} a s.
Arguments SErr {A} msg ofs.
Arguments SPanic {A} site.
Arguments SOob {A} site.
Arguments SFuel {A}.

Definition sbind {A B} (r : sres A) (f : A -> scanner -> sres B) : sres B :=
  match r with
  | SOk a s => f a s
  | SErr m o => SErr m o
  | SPanic x => SPanic x
  | SOob x => SOob x
  | SFuel => SFuel
  end.

Notation "'sdo' ( x , s ) <- e ; f" := (sbind e (fun x s => f))
  (at level 200, x pattern, s name, e at level 100, f at level 200, right associativity).

Definition sc_new (buf : bytes) : outcome scanner :=
  match rev buf with
  | 0%N :: _ => Ok (mkScanner buf 0 1)
  | _ => Panic 22%N
  end.

Definition sc_get (s : scanner) : sres N :=
  match nth_error (sbuf s) (sofs s) with
  | Some c => SOk c s
  | None => SOob 20%N
  end.

Definition sc_peek := sc_get.

Definition sc_read (s : scanner) : sres N :=
  sdo (c, s) <- sc_get s;
  let line' := if (c =? 10)%N then (sline s + 1)%Z else sline s in
  if (sofs s =? length (sbuf s))%nat then SPanic 21%N
  else SOk c (mkScanner (sbuf s) (S (sofs s)) line').

Definition sc_back (s : scanner) : sres unit :=
  match sofs s with
  | O => SPanic 20%N
  | S o =>
    match nth_error (sbuf s) o with
    | None => SOob 20%N
    | Some c =>
      if (c =? 10)%N then
        let o' := match o with
                  | S o1 => match nth_error (sbuf s) o1 with
                            | Some 13%N => o1
                            | _ => o
                            end
                  | O => o
                  end in
        SOk tt (mkScanner (sbuf s) o' (sline s - 1)%Z)
      else SOk tt (mkScanner (sbuf s) o (sline s))
    end
  end.

Definition sc_skip (ch : N) (s : scanner) : sres bool :=
  sdo (c, s) <- sc_read s;
  if (c =? ch)%N then SOk true s
  else sdo (_, s) <- sc_back s; SOk false s.

Fixpoint sc_skip_spaces (fuel : nat) (s : scanner) : sres unit :=
  match fuel with
  | O => SFuel
  | S fuel =>
    sdo (b, s) <- sc_skip 32%N s;
    if b then sc_skip_spaces fuel s else SOk tt s
  end.

(* Rust's {:?} of a byte cast to char *)
Definition hex_digit (d : N) : N := if (d <? 10)%N then (48 + d)%N else (87 + d)%N.
Definition hex_of_byte (c : N) : bytes :=
  if (c <? 16)%N then [hex_digit c] else [hex_digit (c / 16)%N; hex_digit (c mod 16)%N].

Definition char_debug (c : N) : bytes :=
  let q := 39%N in
  if (c =? 0)%N then [q; 92; 48; q]%N
  else if (c =? 9)%N then [q; 92; 116; q]%N
  else if (c =? 10)%N then [q; 92; 110; q]%N
  else if (c =? 13)%N then [q; 92; 114; q]%N
  else if (c =? 39)%N then [q; 92; 39; q]%N
  else if (c =? 92)%N then [q; 92; 92; q]%N
  else if ((c <? 32) || ((127 <=? c) && (c <=? 160)) || (c =? 173))%N
       then [q; 92; 117; 123]%N ++ hex_of_byte c ++ [125; q]%N
  else if (c <? 128)%N then [q; c; q]
  else if (c <? 192)%N then [q; 194%N; c; q]
  else [q; 195%N; (c - 64)%N; q].

Definition sc_parse_error {A} (msg : bytes) (s : scanner) : sres A := SErr msg (sofs s).

Definition sc_expect (ch : N) (s : scanner) : sres unit :=
  sdo (r, s) <- sc_read s;
  if (r =? ch)%N then SOk tt s
  else sdo (_, s) <- sc_back s;
       sc_parse_error ((bs "expected ") ++ char_debug ch ++ (bs ", got ") ++ char_debug r) s.

Definition sc_slice (s : scanner) (a b : nat) : sres bytes :=
  if ((a <=? b) && (b <=? length (sbuf s)))%nat
  then SOk (firstn (b - a) (skipn a (sbuf s))) s
  else SOob 21%N.

(* ------------------------------------------------------------------------------------ *)
(* format_parse_error *)

Fixpoint split_on (sep : N) (cur : bytes) (l : bytes) : list bytes :=
  match l with
  | [] => [rev cur]
  | c :: r => if (c =? sep)%N then rev cur :: split_on sep [] r else split_on sep (c :: cur) r
  end.

Fixpoint dec_digits (fuel : nat) (n : N) (acc : bytes) : bytes :=
  match fuel with
  | O => acc
  | S fuel =>
    let acc := (48 + n mod 10)%N :: acc in
    if (n <? 10)%N then acc else dec_digits fuel (n / 10)%N acc
  end.
Definition dec_of_N (n : N) : bytes := dec_digits (S (N.to_nat (N.log2 n))) n [].
Definition dec_of_nat (n : nat) : bytes := dec_of_N (N.of_nat n).

(* is index [i] a char boundary of the (assumed valid UTF-8) byte string [s]? *)
Definition is_char_boundary (s : bytes) (i : nat) : bool :=
  if (i =? 0)%nat then true
  else if (i =? length s)%nat then true
  else match nth_error s i with
       | None => false
       | Some c => negb ((128 <=? c) && (c <? 192))%N
       end.

Fixpoint repeat_byte (c : N) (n : nat) : bytes :=
  match n with O => [] | S n => c :: repeat_byte c n end.

(* move a cut point back to the previous char boundary (fix for F2) *)
Fixpoint floor_boundary (s : bytes) (i : nat) : nat :=
  if is_char_boundary s i then i
  else match i with
       | O => O
       | S j => floor_boundary s j
       end.

(* [fixed = true]: the code after the fix for F2; [false]: the pinned tree, where the two cuts
   are byte-index slices that panic off a char boundary *)
Fixpoint fpe_lines (fixed : bool) (filename : bytes) (msg : bytes) (eofs : nat)
         (lines : list bytes) (line_number : nat) (ofs : nat) : outcome bytes :=
  match lines with
  | [] => Panic 24%N
  | line :: rest =>
    if (eofs <=? ofs + length line)%nat then
      let prefix := filename ++ (bs ":") ++ dec_of_nat (S line_number) ++ (bs ": ") in
      let col := (eofs - ofs)%nat in
      if (eofs <? ofs)%nat then Panic 25%N else
      let head := (bs "parse error: ") ++ msg ++ [10%N] ++ prefix in
      (* optional trimming of the beginning *)
      let trimmed : outcome (bytes * bytes * nat) :=
        if (40 <? col)%nat then
          if fixed then
            let start := floor_boundary line (col - 20) in
            Ok ((bs "..."), skipn start line, (3 + (col - start))%nat)
          else if is_char_boundary line (col - 20) then Ok ((bs "..."), skipn (col - 20) line, 23%nat)
          else Panic 23%N
        else Ok ([], line, col) in
      do t <- trimmed;
      let '(dots, context, col) := t in
      do shown <- (if (40 <? length context)%nat then
                     if fixed then Ok (firstn (floor_boundary context 40) context ++ (bs "..."))
                     else if is_char_boundary context 40 then Ok (firstn 40 context ++ (bs "..."))
                     else Panic 23%N
                   else Ok context);
      Ok (head ++ dots ++ shown ++ [10%N] ++ repeat_byte 32%N (length prefix + col) ++ (bs "^") ++ [10%N])
    else fpe_lines fixed filename msg eofs rest (S line_number) (ofs + length line + 1)
  end.

Definition format_parse_error_gen (fixed : bool) (buf : bytes) (filename : bytes) (msg : bytes) (eofs : nat)
  : outcome bytes :=
  fpe_lines fixed filename msg eofs (split_on 10%N [] buf) 0 0.

Definition format_parse_error := format_parse_error_gen true.
Definition format_parse_error_pinned := format_parse_error_gen false.

(* turn a scanner-level result into a Base outcome, formatting the error *)
Definition finish_sres {A} (buf filename : bytes) (r : sres A) : outcome A :=
  match r with
  | SOk a _ => Ok a
  | SErr m o => do txt <- format_parse_error buf filename m o; Err txt
  | SPanic x => Panic x
  | SOob x => OutOfBounds x
  | SFuel => OutOfFuel
  end.
