(* Model of src/parse.rs (character-level transcription) and src/eval.rs.

   [fixed = true]: read_vardef propagates read_eval's error before expecting the newline
   (fix for F1); [fixed = false]: the pinned tree, where a binding on the last line without a
   newline reads one byte past the buffer. *)
From Coq Require Import String.
From N2 Require Import Base.Base Model.Scanner.

Inductive epart := Lit (s : bytes) | Var (s : bytes).
Definition evalstring := list epart.
Definition varlist := list (bytes * evalstring).       (* SmallMap<&str, EvalString> *)

Record pbuild := mkPBuild {
  pb_rule : bytes;
  pb_line : Z;
  pb_outs : list evalstring;
  pb_explicit_outs : nat;
  pb_ins : list evalstring;
  pb_explicit_ins : nat;
  pb_implicit_ins : nat;
  pb_order_only_ins : nat;
  pb_validation_ins : nat;
  pb_vars : varlist;
}.

Inductive statement :=
| SRule (name : bytes) (vars : varlist)
| SBuild (b : pbuild)
| SDefault (paths : list evalstring)
| SInclude (path : evalstring)
| SSubninja (path : evalstring)
| SPool (name : bytes) (depth : N).

(* ------------------------------------------------------------------------------------ *)
(* eval.rs *)

Definition env := list (bytes * evalstring).

Fixpoint assoc_b {V} (k : bytes) (l : list (bytes * V)) : option V :=
  match l with
  | [] => None
  | (k', v) :: r => if bytes_eqb k' k then Some v else assoc_b k r
  end.

(* SmallMap::insert / HashMap::insert: replace or append *)
Fixpoint insert_b {V} (k : bytes) (v : V) (l : list (bytes * V)) : list (bytes * V) :=
  match l with
  | [] => [(k, v)]
  | (k', v') :: r => if bytes_eqb k' k then (k', v) :: r else (k', v') :: insert_b k v r
  end.

(* a reference found in env i is expanded in envs i+1.. only *)
Fixpoint eval_var (envs : list env) (v : bytes) {struct envs} : bytes :=
  match envs with
  | [] => []
  | e :: rest =>
    match assoc_b v e with
    | Some es => concat (map (fun p => match p with Lit s => s | Var v' => eval_var rest v' end) es)
    | None => eval_var rest v
    end
  end.

Definition evaluate (envs : list env) (es : evalstring) : bytes :=
  concat (map (fun p => match p with Lit s => s | Var v => eval_var envs v end) es).

(* file-level variables hold plain strings *)
Definition vars := list (bytes * bytes).
Definition vars_env (vs : vars) : env := map (fun kv => (fst kv, [Lit (snd kv)])) vs.

(* ------------------------------------------------------------------------------------ *)
(* parse.rs *)

Definition is_ident_char (c : N) : bool :=
  ((97 <=? c) && (c <=? 122) || (65 <=? c) && (c <=? 90) || (48 <=? c) && (c <=? 57)
   || (c =? 95) || (c =? 45) || (c =? 46))%N.
Definition is_simple_var_char (c : N) : bool :=
  ((97 <=? c) && (c <=? 122) || (65 <=? c) && (c <=? 90) || (48 <=? c) && (c <=? 57)
   || (c =? 95) || (c =? 45))%N.

(* Parser::skip_spaces: spaces and "$\n" continuations *)
Fixpoint p_skip_spaces (fuel : nat) (s : scanner) : sres unit :=
  match fuel with
  | O => SFuel
  | S fuel =>
    sdo (c, s) <- sc_read s;
    if (c =? 32)%N then p_skip_spaces fuel s
    else if (c =? 36)%N then
      sdo (p, s) <- sc_peek s;
      if negb (p =? 10)%N then sc_back s
      else sdo (_, s) <- sc_skip 10%N s; p_skip_spaces fuel s
    else sc_back s
  end.

Fixpoint read_while (fuel : nat) (ok : N -> bool) (s : scanner) : sres unit :=
  match fuel with
  | O => SFuel
  | S fuel =>
    sdo (c, s) <- sc_read s;
    if ok c then read_while fuel ok s else sc_back s
  end.

Definition read_ident_gen (fuel : nat) (ok : N -> bool) (msg : bytes) (s : scanner) : sres bytes :=
  let start := sofs s in
  sdo (_, s) <- read_while fuel ok s;
  let stop := sofs s in
  if (stop =? start)%nat then sc_parse_error msg s
  else sc_slice s start stop.

Definition read_ident (fuel : nat) := read_ident_gen fuel is_ident_char (bs "failed to scan ident").
Definition read_simple_varname (fuel : nat) :=
  read_ident_gen fuel is_simple_var_char (bs "failed to scan variable name").

Fixpoint read_until_rbrace (fuel : nat) (s : scanner) : sres unit :=
  match fuel with
  | O => SFuel
  | S fuel =>
    sdo (c, s) <- sc_read s;
    if (c =? 0)%N then sc_parse_error (bs "unexpected EOF") s
    else if (c =? 125)%N then SOk tt s
    else read_until_rbrace fuel s
  end.

Definition read_escape (fuel : nat) (s : scanner) : sres epart :=
  sdo (c, s) <- sc_read s;
  if (c =? 10)%N then
    sdo (_, s) <- sc_skip_spaces fuel s; SOk (Lit []) s
  else if ((c =? 32) || (c =? 36) || (c =? 58))%N then SOk (Lit [c]) s
  else if (c =? 123)%N then
    let start := sofs s in
    sdo (_, s) <- read_until_rbrace fuel s;
    sdo (v, s) <- sc_slice s start (sofs s - 1);
    SOk (Var v) s
  else
    sdo (_, s) <- sc_back s;
    sdo (v, s) <- read_simple_varname fuel s;
    SOk (Var v) s.

(* the loop of read_eval; [ofs0] = start of the pending literal; parts accumulated in reverse *)
Fixpoint read_eval_loop (fuel : nat) (path : bool) (s : scanner) (ofs0 : nat) (acc : list epart)
  : sres (list epart * nat * nat) :=
  match fuel with
  | O => SFuel
  | S fuel =>
    sdo (c, s) <- sc_read s;
    if (c =? 0)%N then sc_parse_error (bs "unexpected EOF") s
    else if ((c =? 10) || (path && ((c =? 32) || (c =? 58) || (c =? 124))))%N then
      sdo (_, s) <- sc_back s;
      SOk (acc, ofs0, sofs s) s
    else if (c =? 36)%N then
      let stop := (sofs s - 1)%nat in
      sdo (acc, s) <- (if (ofs0 <? stop)%nat
                       then sdo (l, s) <- sc_slice s ofs0 stop; SOk (Lit l :: acc) s
                       else SOk acc s);
      sdo (e, s) <- read_escape fuel s;
      read_eval_loop fuel path s (sofs s) (e :: acc)
    else read_eval_loop fuel path s ofs0 acc
  end.

Definition read_eval (fuel : nat) (path : bool) (s : scanner) : sres evalstring :=
  sdo (r, s) <- read_eval_loop fuel path s (sofs s) [];
  let '(acc, ofs0, stop) := r in
  sdo (acc, s) <- (if (ofs0 <? stop)%nat
                   then sdo (l, s) <- sc_slice s ofs0 stop; SOk (Lit l :: acc) s
                   else SOk acc s);
  match acc with
  | [] => sc_parse_error (bs "Expected a string") s
  | _ => SOk (rev acc) s
  end.

Definition read_vardef (fixed : bool) (fuel : nat) (s : scanner) : sres evalstring :=
  sdo (_, s) <- p_skip_spaces fuel s;
  sdo (_, s) <- sc_expect 61%N s;
  sdo (_, s) <- p_skip_spaces fuel s;
  sdo (p, s) <- sc_peek s;
  if (p =? 10)%N then
    sdo (_, s) <- sc_expect 10%N s; SOk [] s
  else
    match read_eval fuel false s with
    | SOk v s => sdo (_, s) <- sc_expect 10%N s; SOk v s
    | SErr m o =>
      if fixed then SErr m o
      else
        (* the scanner is where read_eval left it: at the offset of the error *)
        sdo (_, s') <- sc_expect 10%N (mkScanner (sbuf s) o (sline s)); SErr m o
    | SPanic x => SPanic x
    | SOob x => SOob x
    | SFuel => SFuel
    end.

(* Rust's {:?} of a &str: ASCII is exact (quote, backslash and control characters escaped);
   bytes >= 0x80 are passed through, which is right for printable non-ASCII characters *)
Definition str_debug_char (c : N) : bytes :=
  if (c =? 34)%N then [92; 34]%N
  else if (c =? 92)%N then [92; 92]%N
  else if (c =? 10)%N then [92; 110]%N
  else if (c =? 13)%N then [92; 114]%N
  else if (c =? 9)%N then [92; 116]%N
  else if (c =? 0)%N then [92; 48]%N
  else if ((c <? 32) || (c =? 127))%N then [92; 117; 123]%N ++ hex_of_byte c ++ [125%N]
  else [c].
Definition str_debug (s : bytes) : bytes := [34%N] ++ concat (map str_debug_char s) ++ [34%N].

Fixpoint read_scoped_vars (fixed : bool) (fuel : nat) (valid : bytes -> bool) (s : scanner) (acc : varlist)
  : sres varlist :=
  match fuel with
  | O => SFuel
  | S fuel =>
    sdo (p, s) <- sc_peek s;
    if negb (p =? 32)%N then SOk acc s else
    sdo (_, s) <- sc_skip_spaces fuel s;
    sdo (name, s) <- read_ident fuel s;
    if negb (valid name) then sc_parse_error (bs "unexpected variable " ++ str_debug name) s else
    sdo (_, s) <- p_skip_spaces fuel s;
    sdo (v, s) <- read_vardef fixed fuel s;
    read_scoped_vars fixed fuel valid s (insert_b name v acc)
  end.

Definition rule_var_ok (n : bytes) : bool :=
  existsb (bytes_eqb n)
    [bs "command"; bs "depfile"; bs "dyndep"; bs "description"; bs "deps"; bs "generator"; bs "pool";
     bs "restat"; bs "rspfile"; bs "rspfile_content"; bs "msvc_deps_prefix"; bs "hide_success"; bs "hide_progress"].

(* str::parse::<usize>() on a 64-bit target: Ok n, or Err message *)
Fixpoint parse_digits (l : bytes) (acc : N) : option N :=
  match l with
  | [] => Some acc
  | c :: r => if ((48 <=? c) && (c <=? 57))%N then parse_digits r (acc * 10 + (c - 48))%N else None
  end.
Definition parse_usize (s : bytes) : N + bytes :=
  match s with
  | [] => inr (bs "cannot parse integer from empty string")
  | _ =>
    let digits := match s with 43%N :: r => r | _ => s end in
    match digits with
    | [] => inr (bs "invalid digit found in string")
    | _ =>
      match parse_digits digits 0 with
      | None => inr (bs "invalid digit found in string")
      | Some n => if (n <? 18446744073709551616)%N then inl n
                  else inr (bs "number too large to fit in target type")
      end
    end
  end.

Definition read_rule (fixed : bool) (fuel : nat) (s : scanner) : sres statement :=
  sdo (name, s) <- read_ident fuel s;
  sdo (_, s) <- sc_expect 10%N s;
  sdo (vs, s) <- read_scoped_vars fixed fuel rule_var_ok s [];
  SOk (SRule name vs) s.

Definition read_pool (fixed : bool) (fuel : nat) (s : scanner) : sres statement :=
  sdo (name, s) <- read_ident fuel s;
  sdo (_, s) <- sc_expect 10%N s;
  sdo (vs, s) <- read_scoped_vars fixed fuel (fun n => bytes_eqb n (bs "depth")) s [];
  match vs with
  | [] => SOk (SPool name 0) s
  | (_, v) :: _ =>
    match parse_usize (evaluate [] v) with
    | inl d => SOk (SPool name d) s
    | inr m => sc_parse_error (bs "pool depth: " ++ m) s
    end
  end.

Fixpoint read_paths_to (fuel : nat) (s : scanner) (acc : list evalstring) : sres (list evalstring) :=
  match fuel with
  | O => SFuel
  | S fuel =>
    sdo (p, s) <- sc_peek s;
    if ((p =? 58) || (p =? 124) || (p =? 10))%N then SOk acc s else
    sdo (e, s) <- read_eval fuel true s;
    sdo (_, s) <- p_skip_spaces fuel s;
    read_paths_to fuel s (acc ++ [e])
  end.

Definition read_unevaluated_paths_to (fuel : nat) (s : scanner) (acc : list evalstring)
  : sres (list evalstring) :=
  sdo (_, s) <- p_skip_spaces fuel s;
  read_paths_to fuel s acc.

Definition read_build (fixed : bool) (fuel : nat) (s : scanner) : sres statement :=
  let line := sline s in
  sdo (outs, s) <- read_unevaluated_paths_to fuel s [];
  let explicit_outs := length outs in
  sdo (p, s) <- sc_peek s;
  sdo (outs, s) <- (if (p =? 124)%N
                    then sdo (_, s) <- sc_read s; read_unevaluated_paths_to fuel s outs
                    else SOk outs s);
  sdo (_, s) <- sc_expect 58%N s;
  sdo (_, s) <- p_skip_spaces fuel s;
  sdo (rule, s) <- read_ident fuel s;
  sdo (ins, s) <- read_unevaluated_paths_to fuel s [];
  let explicit_ins := length ins in
  (* implicit *)
  sdo (p, s) <- sc_peek s;
  sdo (ins, s) <- (if (p =? 124)%N then
                     sdo (_, s) <- sc_read s;
                     sdo (p2, s) <- sc_peek s;
                     if ((p2 =? 124) || (p2 =? 64))%N then sdo (_, s) <- sc_back s; SOk ins s
                     else read_unevaluated_paths_to fuel s ins
                   else SOk ins s);
  let implicit_ins := (length ins - explicit_ins)%nat in
  (* order-only *)
  sdo (p, s) <- sc_peek s;
  sdo (ins, s) <- (if (p =? 124)%N then
                     sdo (_, s) <- sc_read s;
                     sdo (p2, s) <- sc_peek s;
                     if (p2 =? 64)%N then sdo (_, s) <- sc_back s; SOk ins s
                     else sdo (_, s) <- sc_expect 124%N s; read_unevaluated_paths_to fuel s ins
                   else SOk ins s);
  let order_only_ins := (length ins - implicit_ins - explicit_ins)%nat in
  (* validation *)
  sdo (p, s) <- sc_peek s;
  sdo (ins, s) <- (if (p =? 124)%N then
                     sdo (_, s) <- sc_read s;
                     sdo (_, s) <- sc_expect 64%N s;
                     read_unevaluated_paths_to fuel s ins
                   else SOk ins s);
  let validation_ins := (length ins - order_only_ins - implicit_ins - explicit_ins)%nat in
  sdo (_, s) <- sc_expect 10%N s;
  sdo (vs, s) <- read_scoped_vars fixed fuel (fun _ => true) s [];
  SOk (SBuild (mkPBuild rule line outs explicit_outs ins explicit_ins implicit_ins order_only_ins
                        validation_ins vs)) s.

Definition read_default (fuel : nat) (s : scanner) : sres statement :=
  sdo (ds, s) <- read_unevaluated_paths_to fuel s [];
  match ds with
  | [] => sc_parse_error (bs "expected path") s
  | _ => sdo (_, s) <- sc_expect 10%N s; SOk (SDefault ds) s
  end.

Fixpoint skip_comment (fuel : nat) (s : scanner) : sres unit :=
  match fuel with
  | O => SFuel
  | S fuel =>
    sdo (c, s) <- sc_read s;
    if (c =? 0)%N then sc_back s
    else if (c =? 10)%N then SOk tt s
    else skip_comment fuel s
  end.

(* a file-level binding `ident = v`: the value is expanded now, in the scope as it is *)
Definition bind_step (vs : vars) (ident : bytes) (v : evalstring) : vars :=
  insert_b ident (evaluate [vars_env vs] v) vs.

(* Parser::read: next statement, or None at the end; file-level bindings are evaluated and
   stored as they are met *)
Fixpoint parser_read (fixed : bool) (fuel : nat) (s : scanner) (vs : vars)
  : sres (option statement * vars) :=
  match fuel with
  | O => SFuel
  | S fuel =>
    sdo (c, s) <- sc_peek s;
    if (c =? 0)%N then SOk (None, vs) s
    else if (c =? 10)%N then sdo (_, s) <- sc_read s; parser_read fixed fuel s vs
    else if (c =? 35)%N then sdo (_, s) <- skip_comment fuel s; parser_read fixed fuel s vs
    else if ((c =? 32) || (c =? 9))%N then sc_parse_error (bs "unexpected whitespace") s
    else
      sdo (ident, s) <- read_ident fuel s;
      sdo (_, s) <- p_skip_spaces fuel s;
      if bytes_eqb ident (bs "rule") then sdo (st, s) <- read_rule fixed fuel s; SOk (Some st, vs) s
      else if bytes_eqb ident (bs "build") then sdo (st, s) <- read_build fixed fuel s; SOk (Some st, vs) s
      else if bytes_eqb ident (bs "default") then sdo (st, s) <- read_default fuel s; SOk (Some st, vs) s
      else if bytes_eqb ident (bs "include") then
        sdo (e, s) <- read_eval fuel false s; SOk (Some (SInclude e), vs) s
      else if bytes_eqb ident (bs "subninja") then
        sdo (e, s) <- read_eval fuel false s; SOk (Some (SSubninja e), vs) s
      else if bytes_eqb ident (bs "pool") then sdo (st, s) <- read_pool fixed fuel s; SOk (Some st, vs) s
      else
        sdo (v, s) <- read_vardef fixed fuel s;
        parser_read fixed fuel s (bind_step vs ident v)
  end.

Definition parse_fuel (buf : bytes) : nat := (4 * length buf + 8)%nat.
