(* Model of src/terminal.rs (unix) get_cols and of the line in FancyState::print_progress that
   uses it: the width of the terminal is what ioctl(0, TIOCGWINSZ) reports in ws_col (a u16), unless
   the call fails or reports fewer than 10 columns (n2 issue 63); then 80 columns are assumed.
   [ioctl] : None = the call failed (stdin is not a terminal), Some c = ws_col. *)
From N2 Require Import Base.Base.

Definition get_cols (ioctl : option N) : option N :=
  match ioctl with
  | None => None
  | Some c => if (c <? 10)%N then None else Some c
  end.

(* print_progress: terminal::get_cols().unwrap_or(80) *)
Definition max_cols (ioctl : option N) : N :=
  match get_cols ioctl with Some c => c | None => 80%N end.
