(* Model of the two places where n2 prepares the file system for a command:
     Work::create_parent_dirs (src/work.rs)  - the parent directory of every output is created
     task::write_rspfile      (src/task.rs)  - the response file's directory is created and the
                                               file written with the evaluated content
   together with the parts of std they are made of: std::path::Path (components, parent, ==) on
   unix, std::fs::create_dir_all (the iterative form: probe the ancestors from the longest to the
   shortest until one can be created or is a directory, then create the missing ones from the
   shortest to the longest), std::fs::write, and the mkdir / stat / open system calls on a tree of
   directories and regular files.

   The file system is an association list from absolute component lists to nodes (first match
   wins); the root [] is a directory.  Not modelled: permissions, symbolic links, a full disk,
   other processes changing the tree between two system calls (the model is one process on a
   quiet tree); name length limits.  errno values are the four that can occur then. *)
From N2 Require Import Base.Base.

Inductive kind := KDir | KFile (content : bytes).
Definition path := list bytes.
Definition fstree := list (path * kind).

Inductive errno := ENOENT | ENOTDIR | EEXIST | EISDIR.

Definition errno_eqb (a b : errno) : bool :=
  match a, b with
  | ENOENT, ENOENT | ENOTDIR, ENOTDIR | EEXIST, EEXIST | EISDIR, EISDIR => true
  | _, _ => false
  end.

Definition path_eqb : path -> path -> bool := list_eqb bytes_eqb.

Fixpoint lookup (fs : fstree) (p : path) : option kind :=
  match fs with
  | [] => None
  | (q, k) :: r => if path_eqb q p then Some k else lookup r p
  end.

(* what is at an absolute location; the root always is a directory *)
Definition node_at (fs : fstree) (p : path) : option kind :=
  match p with [] => Some KDir | _ => lookup fs p end.

(* ---------------------------------------------------------------------------------------- *)
(* std::path::Path on unix, lexically: has_root and the components.  Empty components and "."
   are dropped, except a "." at the very start of a relative path (Component::CurDir). *)

Record lpath := mkL { lp_rooted : bool; lp_comps : list bytes }.

Fixpoint split_slash (cur : bytes) (l : bytes) : list bytes :=
  match l with
  | [] => [rev cur]
  | c :: r => if (c =? 47)%N then rev cur :: split_slash [] r else split_slash (c :: cur) r
  end.

Definition fs_is_dot (c : bytes) : bool := bytes_eqb c [46%N].
Definition fs_is_dotdot (c : bytes) : bool := bytes_eqb c [46; 46]%N.
Definition is_nil (c : bytes) : bool := match c with [] => true | _ => false end.

Definition path_new (s : bytes) : lpath :=
  let rooted := match s with c :: _ => (c =? 47)%N | [] => false end in
  let raw := split_slash [] s in
  let keep := filter (fun c => negb (is_nil c) && negb (fs_is_dot c)) raw in
  let lead := match raw with c :: _ => negb rooted && fs_is_dot c | [] => false end in
  mkL rooted (if lead then [46%N] :: keep else keep).

(* Path::parent: None for "" and "/" *)
Definition lp_parent (p : lpath) : option lpath :=
  match lp_comps p with
  | [] => None
  | cs => Some (mkL (lp_rooted p) (removelast cs))
  end.

(* Path == Path compares has_root and the components *)
Definition lp_eqb (a b : lpath) : bool :=
  Bool.eqb (lp_rooted a) (lp_rooted b) && path_eqb (lp_comps a) (lp_comps b).

(* ---------------------------------------------------------------------------------------- *)
(* system calls.  [cwd] is the absolute location of the working directory, assumed to exist and to be a directory: n2 has chdir()ed into it. *)

Definition step_comp (fs : fstree) (cur : path) (c : bytes) : errno + path :=
  if fs_is_dotdot c then inr (removelast cur)
  else if fs_is_dot c then inr cur
  else match node_at fs (cur ++ [c]) with
       | Some KDir => inr (cur ++ [c])
       | Some (KFile _) => inl ENOTDIR
       | None => inl ENOENT
       end.

Fixpoint walk (fs : fstree) (cur : path) (cs : list bytes) : errno + path :=
  match cs with
  | [] => inr cur
  | c :: r => match step_comp fs cur c with
              | inl e => inl e
              | inr cur' => walk fs cur' r
              end
  end.

Definition lp_start (cwd : path) (p : lpath) : path := if lp_rooted p then [] else cwd.

(* the last component and what precedes it *)
Fixpoint split_last (cs : list bytes) : option (list bytes * bytes) :=
  match cs with
  | [] => None
  | [c] => Some ([], c)
  | c :: r => match split_last r with
              | Some (pre, l) => Some (c :: pre, l)
              | None => None
              end
  end.

(* mkdir(2) *)
Definition sys_mkdir (fs : fstree) (cwd : path) (p : lpath) : errno + fstree :=
  match split_last (lp_comps p) with
  | None => inl (if lp_rooted p then EEXIST else ENOENT)
  | Some (pre, c) =>
    match walk fs (lp_start cwd p) pre with
    | inl e => inl e
    | inr cur =>
      if fs_is_dotdot c || fs_is_dot c then inl EEXIST
      else match node_at fs (cur ++ [c]) with
           | Some _ => inl EEXIST
           | None => inr ((cur ++ [c], KDir) :: fs)
           end
    end
  end.

(* Path::is_dir: stat succeeds and the node is a directory *)
Definition is_dir_l (fs : fstree) (cwd : path) (p : lpath) : bool :=
  match walk fs (lp_start cwd p) (lp_comps p) with
  | inr _ => true
  | inl _ => false
  end.

(* open(O_WRONLY|O_CREAT|O_TRUNC) + write_all on a path whose last component is an ordinary name *)
Definition sys_write_l (fs : fstree) (cwd : path) (p : lpath) (content : bytes) : errno + fstree :=
  match split_last (lp_comps p) with
  | None => inl (if lp_rooted p then EISDIR else ENOENT)
  | Some (pre, c) =>
    match walk fs (lp_start cwd p) pre with
    | inl e => inl e
    | inr cur =>
      if fs_is_dotdot c || fs_is_dot c then inl EISDIR
      else match node_at fs (cur ++ [c]) with
           | Some KDir => inl EISDIR
           | _ => inr ((cur ++ [c], KFile content) :: fs)
           end
    end
  end.

(* std::fs::write gets the name as written.  With O_CREAT the kernel refuses a name that ends in a
   separator once the directories before the last component are resolved (EISDIR, the last component
   is not looked up), and a name whose last component is "." after resolving all of it. *)
Definition name_last_dot (name : bytes) : bool :=
  match rev (filter (fun c => negb (is_nil c)) (split_slash [] name)) with
  | c :: _ => fs_is_dot c
  | [] => false
  end.
Definition name_trailing_sep (name : bytes) : bool :=
  match rev name with c :: _ => (c =? 47)%N | [] => false end.

Definition sys_write (fs : fstree) (cwd : path) (name content : bytes) : errno + fstree :=
  let p := path_new name in
  if name_last_dot name then
    match walk fs (lp_start cwd p) (lp_comps p) with inl e => inl e | inr _ => inl EISDIR end
  else if name_trailing_sep name then
    match split_last (lp_comps p) with
    | None => inl EISDIR
    | Some (pre, _) => match walk fs (lp_start cwd p) pre with inl e => inl e | inr _ => inl EISDIR end
    end
  else sys_write_l fs cwd p content.

(* what a reader finds at a lexical path *)
Definition read_l (fs : fstree) (cwd : path) (p : lpath) : option kind :=
  match split_last (lp_comps p) with
  | None => if lp_rooted p then Some KDir else None
  | Some (pre, c) =>
    match walk fs (lp_start cwd p) pre with
    | inl _ => None
    | inr cur => if fs_is_dotdot c || fs_is_dot c then Some KDir else node_at fs (cur ++ [c])
    end
  end.

(* ---------------------------------------------------------------------------------------- *)
(* std::fs::create_dir_all (DirBuilder::create_dir_all, recursive = true) *)

Definition anc (p : lpath) (k : nat) : lpath := mkL (lp_rooted p) (firstn k (lp_comps p)).

(* first loop: ancestors with k, k-1, ..., 1 components; returns the number not yet created *)
Fixpoint cda_probe (fs : fstree) (cwd : path) (p : lpath) (k unc : nat) : errno + (fstree * nat) :=
  match k with
  | O => inr (fs, unc)
  | S k' =>
    match sys_mkdir fs cwd (anc p k) with
    | inr fs' => inr (fs', unc)
    | inl ENOENT => cda_probe fs cwd p k' (S unc)
    | inl EEXIST => if is_dir_l fs cwd (anc p k) then inr (fs, unc) else inl EEXIST
    | inl e => inl e
    end
  end.

(* A result is the error (None = Ok) and the tree as it is afterwards: a failing operation may
   have created some directories already. *)
Definition fsres := (option errno * fstree)%type.

(* second loop: the [n] longest ancestors, shortest first, starting with [j] components *)
Fixpoint cda_fill (fs : fstree) (cwd : path) (p : lpath) (j n : nat) : fsres :=
  match n with
  | O => (None, fs)
  | S n' =>
    match sys_mkdir fs cwd (anc p j) with
    | inr fs' => cda_fill fs' cwd p (S j) n'
    | inl e => if errno_eqb e EEXIST && is_dir_l fs cwd (anc p j)
               then cda_fill fs cwd p (S j) n' else (Some e, fs)
    end
  end.

Definition create_dir_all (fs : fstree) (cwd : path) (p : lpath) : fsres :=
  match lp_comps p with
  | [] => (None, fs)
  | cs =>
    match cda_probe fs cwd p (length cs) O with
    | inl e => (Some e, fs)
    | inr (fs1, unc) => cda_fill fs1 cwd p (S (length cs - unc)) unc
    end
  end.

(* ---------------------------------------------------------------------------------------- *)
(* Work::create_parent_dirs over the names of a step's outputs (as the graph holds them) *)

Fixpoint cpd_loop (fs : fstree) (cwd : path) (dirs : list lpath) (outs : list bytes) : fsres :=
  match outs with
  | [] => (None, fs)
  | o :: r =>
    match lp_parent (path_new o) with
    | None => cpd_loop fs cwd dirs r
    | Some parent =>
      if existsb (lp_eqb parent) dirs then cpd_loop fs cwd dirs r
      else match create_dir_all fs cwd parent with
           | (Some e, fs') => (Some e, fs')
           | (None, fs') => cpd_loop fs' cwd (dirs ++ [parent]) r
           end
    end
  end.

Definition create_parent_dirs (fs : fstree) (cwd : path) (outs : list bytes) : fsres :=
  cpd_loop fs cwd [] outs.

(* task::write_rspfile *)
Definition write_rspfile (fs : fstree) (cwd : path) (name content : bytes) : fsres :=
  let p := path_new name in
  match (match lp_parent p with
         | Some parent => create_dir_all fs cwd parent
         | None => (None, fs)
         end) with
  | (Some e, fs1) => (Some e, fs1)
  | (None, fs1) => match sys_write fs1 cwd name content with
                   | inl e => (Some e, fs1)
                   | inr fs2 => (None, fs2)
                   end
  end.

(* what happens between a step leaving the queue and its command being spawned: Work::run creates
   the directories of the outputs, the worker thread writes the response file (task::run_task) *)
Definition prepare_step (fs : fstree) (cwd : path) (outs : list bytes) (rsp : option (bytes * bytes)) : fsres :=
  match create_parent_dirs fs cwd outs with
  | (Some e, fs1) => (Some e, fs1)
  | (None, fs1) => match rsp with
                   | None => (None, fs1)
                   | Some (n, c) => write_rspfile fs1 cwd n c
                   end
  end.

(* ---------------------------------------------------------------------------------------- *)
(* scripts for the correspondence check: the operations n2 performs before a command runs *)

Inductive fsop :=
| OpDirs (outs : list bytes)              (* create_parent_dirs(build.outs()) *)
| OpRsp (name content : bytes).           (* write_rspfile *)

Definition fs_apply (fs : fstree) (cwd : path) (o : fsop) : fsres :=
  match o with
  | OpDirs outs => create_parent_dirs fs cwd outs
  | OpRsp n c => write_rspfile fs cwd n c
  end.

(* every operation is attempted; the result of each is kept *)
Fixpoint fs_run (fs : fstree) (cwd : path) (ops : list fsop) : list (option errno) * fstree :=
  match ops with
  | [] => ([], fs)
  | o :: r =>
    let '(e, fs1) := fs_apply fs cwd o in
    let '(res, fs') := fs_run fs1 cwd r in (e :: res, fs')
  end.

(* the distinct locations of a map with what is found there, for printing *)
Fixpoint fs_listing_aux (seen : list path) (fs : fstree) : list (path * kind) :=
  match fs with
  | [] => []
  | (q, k) :: r => if existsb (path_eqb q) seen then fs_listing_aux seen r
                   else (q, k) :: fs_listing_aux (q :: seen) r
  end.
Definition fs_listing (fs : fstree) : list (path * kind) := fs_listing_aux [] fs.
