(* Model of the command line handling in src/run.rs: parse_args (with the lexopt 0.3.0 parser it
   drives: Parser::next / Parser::value on unix), subtool, debugtool, and the final summary of
   run_impl.

   Arguments are byte strings.  The outside world enters in three places, all explicit:
   [dir_ok] = whether `-C` can change to a directory after the earlier ones, the name of the executable (argv[0], for
   the `ninja` compatibility switch), and the default parallelism (left symbolic: [ba_par = 0]
   means "use the system's thread count").

   Results: [PExit code] (help, version, `-t list`, ...: nothing is built), [PErr] (an
   `n2: error:` diagnostic and exit status 1), [PArgs a] (go on and build).
   Panic site 70 = Path::file_name().unwrap() on an argv[0] without a file name. *)
From Coq Require Import String.
From N2 Require Import Base.Base Model.Scanner Model.Render Model.Fancy.

(* ---- lexopt ---- *)

Inductive lstate := LNone | LShorts (arg : bytes) (pos : nat) | LPending (v : bytes) | LFinished.
Inductive larg := AShort (c : N) | ALong (name : bytes) | AValue (v : bytes).

Definition c_dash : N := 45.
Definition dashdash : bytes := [45; 45]%N.

Fixpoint index_of_byte (c : N) (l : bytes) : option nat :=
  match l with
  | [] => None
  | x :: r => if (x =? c)%N then Some 0%nat else option_map S (index_of_byte c r)
  end.

Definition starts_dashdash (a : bytes) : bool :=
  match a with x :: y :: _ => ((x =? 45) && (y =? 45))%N | _ => false end.

(* one option character out of a `-abc` cluster; `-o=...` after at least one option is an error *)
Definition lx_shorts (arg : bytes) (pos : nat) (src : list bytes) : option (option larg * lstate * list bytes) :=
  match nth_error arg pos with
  | None => None      (* not called at the end of the cluster *)
  | Some c => if ((c =? 61)%N && (1 <? pos)%nat)%bool then None
              else Some (Some (AShort c), LShorts arg (S pos), src)
  end.

(* Parser::next in state None: take the next command-line word *)
Definition lx_take (src : list bytes) : option (option larg * lstate * list bytes) :=
  match src with
  | [] => Some (None, LNone, [])
  | arg :: rest =>
    if bytes_eqb arg dashdash then
      match rest with
      | [] => Some (None, LFinished, [])
      | v :: r => Some (Some (AValue v), LFinished, r)
      end
    else if starts_dashdash arg then
      match index_of_byte 61%N arg with
      | Some i => Some (Some (ALong (skipn 2 (firstn i arg))), LPending (skipn (S i) arg), rest)
      | None => Some (Some (ALong (skipn 2 arg)), LNone, rest)
      end
    else if ((1 <? length arg)%nat && (hd 0%N arg =? 45)%N)%bool then lx_shorts arg 1 rest
    else Some (Some (AValue arg), LNone, rest)
  end.

(* Parser::next; [None] = a lexopt error (unexpected value) *)
Definition lx_next (st : lstate) (src : list bytes) : option (option larg * lstate * list bytes) :=
  match st with
  | LPending _ => None
  | LShorts arg pos => if (length arg <=? pos)%nat then lx_take src else lx_shorts arg pos src
  | LFinished => match src with
                 | [] => Some (None, LFinished, [])
                 | v :: r => Some (Some (AValue v), LFinished, r)
                 end
  | LNone => lx_take src
  end.

(* Parser::value; [None] = missing value *)
Definition lx_value (st : lstate) (src : list bytes) : option (bytes * lstate * list bytes) :=
  let from_src (st' : lstate) :=
      match src with v :: r => Some (v, st', r) | [] => None end in
  match st with
  | LPending v => Some (v, LNone, src)
  | LShorts arg pos =>
    if (length arg <=? pos)%nat then from_src LNone
    else let pos' := match nth_error arg pos with Some c => if (c =? 61)%N then S pos else pos | None => pos end in
         Some (skipn pos' arg, LNone, src)
  | LFinished => from_src LFinished
  | LNone => from_src LNone
  end.

(* ---- n2 ---- *)

Record build_args := mkBA {
  ba_compat : bool;                (* fake_ninja_compat *)
  ba_adopt : bool;                 (* -t restat in compat mode *)
  ba_explain : bool;
  ba_trace : bool;                 (* -d trace opened trace.json *)
  ba_chdirs : list bytes;          (* -C arguments, in order (each already carried out) *)
  ba_file : option bytes;          (* -f *)
  ba_targets : list bytes;
  ba_par : N;                      (* -j; 0 = system default *)
  ba_keep : option N;              (* -k *)
  ba_verbose : bool }.

Inductive presult := PExit (code : N) | PErr | PArgs (a : build_args) | PPanic (site : N) | PFuel.

Definition is_digit_b (c : N) : bool := ((48 <=? c) && (c <=? 57))%N.

Fixpoint dec_val (acc : N) (l : bytes) : option N :=
  match l with
  | [] => Some acc
  | c :: r => if is_digit_b c then dec_val (acc * 10 + (c - 48))%N r else None
  end.

(* str::parse::<usize>: an optional `+`, at least one digit, below 2^64 *)
Definition parse_usize (v : bytes) : option N :=
  let digits := match v with 43%N :: r => r | _ => v end in
  match digits with
  | [] => None
  | _ => match dec_val 0 digits with
         | Some n => if (n <? 18446744073709551616)%N then Some n else None
         | None => None
         end
  end.

(* Path::file_name: the last component that is not "." or empty; None when there is none or it is ".." *)
Definition file_name (p : bytes) : option bytes :=
  let comps := filter (fun c => negb (bytes_eqb c [] || bytes_eqb c [46]%N)) (split_on 47%N [] p) in
  match rev comps with
  | [] => None
  | last :: _ => if bytes_eqb last [46; 46]%N then None else Some last
  end.

Definition set_adopt (a : build_args) : build_args :=
  mkBA (ba_compat a) true (ba_explain a) (ba_trace a) (ba_chdirs a) (ba_file a) (ba_targets a) (ba_par a) (ba_keep a) (ba_verbose a).
Definition set_compat (a : build_args) : build_args :=
  mkBA true (ba_adopt a) (ba_explain a) (ba_trace a) (ba_chdirs a) (ba_file a) (ba_targets a) (ba_par a) (ba_keep a) (ba_verbose a).
Definition set_explain (a : build_args) : build_args :=
  mkBA (ba_compat a) (ba_adopt a) true (ba_trace a) (ba_chdirs a) (ba_file a) (ba_targets a) (ba_par a) (ba_keep a) (ba_verbose a).
Definition set_trace (a : build_args) : build_args :=
  mkBA (ba_compat a) (ba_adopt a) (ba_explain a) true (ba_chdirs a) (ba_file a) (ba_targets a) (ba_par a) (ba_keep a) (ba_verbose a).
Definition add_chdir (a : build_args) (d : bytes) : build_args :=
  mkBA (ba_compat a) (ba_adopt a) (ba_explain a) (ba_trace a) (ba_chdirs a ++ [d]) (ba_file a) (ba_targets a) (ba_par a) (ba_keep a) (ba_verbose a).
Definition set_file (a : build_args) (f : bytes) : build_args :=
  mkBA (ba_compat a) (ba_adopt a) (ba_explain a) (ba_trace a) (ba_chdirs a) (Some f) (ba_targets a) (ba_par a) (ba_keep a) (ba_verbose a).
Definition add_target (a : build_args) (t : bytes) : build_args :=
  mkBA (ba_compat a) (ba_adopt a) (ba_explain a) (ba_trace a) (ba_chdirs a) (ba_file a) (ba_targets a ++ [t]) (ba_par a) (ba_keep a) (ba_verbose a).
Definition set_par (a : build_args) (n : N) : build_args :=
  mkBA (ba_compat a) (ba_adopt a) (ba_explain a) (ba_trace a) (ba_chdirs a) (ba_file a) (ba_targets a) n (ba_keep a) (ba_verbose a).
Definition set_keep (a : build_args) (n : N) : build_args :=
  mkBA (ba_compat a) (ba_adopt a) (ba_explain a) (ba_trace a) (ba_chdirs a) (ba_file a) (ba_targets a) (ba_par a) (Some n) (ba_verbose a).
Definition set_verbose (a : build_args) : build_args :=
  mkBA (ba_compat a) (ba_adopt a) (ba_explain a) (ba_trace a) (ba_chdirs a) (ba_file a) (ba_targets a) (ba_par a) (ba_keep a) true.

(* subtool / debugtool: [inl a] = go on, [inr r] = stop with r *)
Definition subtool (a : build_args) (tool : bytes) : build_args + presult :=
  if bytes_eqb tool (bs "list") then inr (PExit 1)
  else if (bytes_eqb tool (bs "recompact") && ba_compat a)%bool then inr (PExit 0)
  else if (bytes_eqb tool (bs "restat") && ba_compat a)%bool then inl (set_adopt a)
  else inr PErr.

Definition debugtool (a : build_args) (tool : bytes) : build_args + presult :=
  if bytes_eqb tool (bs "list") then inr (PExit 1)
  else if bytes_eqb tool (bs "ninja_compat") then inl (set_compat a)
  else if bytes_eqb tool (bs "explain") then inl (set_explain a)
  else if bytes_eqb tool (bs "trace") then inl (set_trace a)
  else inr PErr.

Section Parse.
(* the file system as `-C` sees it: can the process, having carried out the earlier `-C`s in this
   order, change to this directory? *)
Variable dir_ok : list bytes -> bytes -> bool.

Fixpoint parse_loop (fuel : nat) (a : build_args) (st : lstate) (src : list bytes) : presult :=
  match fuel with
  | O => PFuel
  | S fuel =>
    match lx_next st src with
    | None => PErr
    | Some (None, _, _) => PArgs a
    | Some (Some arg, st, src) =>
      let with_value (k : bytes -> lstate -> list bytes -> presult) : presult :=
          match lx_value st src with
          | None => PErr
          | Some (v, st', src') => k v st' src'
          end in
      match arg with
      | AValue v => parse_loop fuel (add_target a (lossy v)) st src
      | ALong name =>
        if bytes_eqb name (bs "help") then PExit 0
        else if bytes_eqb name (bs "version") then PExit 0
        else PErr
      | AShort c =>
        if (c =? 104)%N then PExit 0                                          (* -h *)
        else if (c =? 67)%N then                                              (* -C dir *)
          with_value (fun v st' src' => if dir_ok (ba_chdirs a) v then parse_loop fuel (add_chdir a v) st' src' else PErr)
        else if (c =? 102)%N then                                             (* -f file *)
          with_value (fun v st' src' => parse_loop fuel (set_file a (lossy v)) st' src')
        else if (c =? 116)%N then                                             (* -t tool *)
          with_value (fun v st' src' => match subtool a (lossy v) with inl a' => parse_loop fuel a' st' src' | inr r => r end)
        else if (c =? 100)%N then                                             (* -d tool *)
          with_value (fun v st' src' => match debugtool a (lossy v) with inl a' => parse_loop fuel a' st' src' | inr r => r end)
        else if (c =? 106)%N then                                             (* -j N *)
          with_value (fun v st' src' => match parse_usize v with Some n => parse_loop fuel (set_par a n) st' src' | None => PErr end)
        else if (c =? 107)%N then                                             (* -k N *)
          with_value (fun v st' src' => match parse_usize v with Some n => parse_loop fuel (set_keep a n) st' src' | None => PErr end)
        else if (c =? 118)%N then parse_loop fuel (set_verbose a) st src      (* -v *)
        else PErr
      end
    end
  end.

Definition args_fuel (args : list bytes) : nat := (2 * (length (concat args) + length args) + 4)%nat.

Definition parse_args (argv0 : bytes) (args : list bytes) : presult :=
  match file_name argv0 with
  | None => PPanic 70
  | Some name =>
    let a0 := mkBA (bytes_eqb name (bs "ninja")) false false false [] None [] 0 None false in
    parse_loop (args_fuel args) a0 LNone args
  end.
End Parse.

(* ---- run_impl: what is printed at the end and the exit status ---- *)

(* [None] = the build failed (the failing task is enough information) *)
Definition summary (tasks : option N) : bytes * N :=
  match tasks with
  | None => ([], 1%N)
  | Some 0%N => (bs "n2: no work to do" ++ [10%N], 0%N)
  | Some n => (bs "n2: ran " ++ dec_of_N n ++ bs " task" ++ (if (n =? 1)%N then [] else bs "s") ++ bs ", now up to date" ++ [10%N], 0%N)
  end.
