(* Model of src/depfile.rs (parse) and of task.rs read_depfile's flattening. *)
From Coq Require Import String.
From N2 Require Import Base.Base Model.Scanner.

(* depfile.rs skip_spaces: spaces and backslash-newline *)
Fixpoint df_skip_spaces (fuel : nat) (s : scanner) : sres unit :=
  match fuel with
  | O => SFuel
  | S fuel =>
    sdo (c, s) <- sc_read s;
    if (c =? 32)%N then df_skip_spaces fuel s
    else if (c =? 92)%N then
      sdo (c2, s) <- sc_read s;
      if (c2 =? 10)%N then df_skip_spaces fuel s
      else sc_parse_error ((bs "invalid backslash escape")) s
    else sdo (_, s) <- sc_back s; SOk tt s
  end.

Fixpoint df_read_path_loop (fuel : nat) (s : scanner) : sres unit :=
  match fuel with
  | O => SFuel
  | S fuel =>
    sdo (c, s) <- sc_read s;
    if ((c =? 0) || (c =? 32) || (c =? 10))%N then sc_back s
    else if (c =? 92)%N then
      sdo (p, s) <- sc_peek s;
      if (p =? 10)%N then sc_back s else df_read_path_loop fuel s
    else df_read_path_loop fuel s
  end.

Definition df_read_path (fuel : nat) (s : scanner) : sres (option bytes) :=
  sdo (_, s) <- df_skip_spaces fuel s;
  let start := sofs s in
  sdo (_, s) <- df_read_path_loop fuel s;
  let stop := sofs s in
  if (stop =? start)%nat then SOk None s
  else sdo (p, s) <- sc_slice s start stop; SOk (Some p) s.

Fixpoint df_skip_blank (fuel : nat) (s : scanner) : sres unit :=
  match fuel with
  | O => SFuel
  | S fuel =>
    sdo (c, s) <- sc_peek s;
    if ((c =? 32) || (c =? 10))%N then sdo (_, s) <- sc_read s; df_skip_blank fuel s
    else SOk tt s
  end.

Fixpoint df_read_deps (fuel : nat) (s : scanner) (acc : list bytes) : sres (list bytes) :=
  match fuel with
  | O => SFuel
  | S fuel =>
    sdo (p, s) <- df_read_path fuel s;
    match p with
    | None => SOk (rev acc) s
    | Some p => df_read_deps fuel s (p :: acc)
    end
  end.

(* SmallMap::insert: replace the value of an existing key, else push *)
Fixpoint smallmap_insert {V} (k : bytes) (v : V) (m : list (bytes * V)) : list (bytes * V) :=
  match m with
  | [] => [(k, v)]
  | (k', v') :: r => if bytes_eqb k' k then (k', v) :: r else (k', v') :: smallmap_insert k v r
  end.

(* the repaired code (fix for F13): a repeated target accumulates its prerequisites *)
Fixpoint smallmap_extend (k : bytes) (v : list bytes) (m : list (bytes * list bytes))
  : list (bytes * list bytes) :=
  match m with
  | [] => [(k, v)]
  | (k', v') :: r => if bytes_eqb k' k then (k', v' ++ v) :: r else (k', v') :: smallmap_extend k v r
  end.

Definition strip_colon (t : bytes) : option bytes :=
  match rev t with
  | 58%N :: r => Some (rev r)
  | _ => None
  end.

Fixpoint df_parse_loop (fixed : bool) (fuel : nat) (s : scanner) (acc : list (bytes * list bytes))
  : sres (list (bytes * list bytes)) :=
  match fuel with
  | O => SFuel
  | S fuel =>
    sdo (_, s) <- df_skip_blank fuel s;
    sdo (t, s) <- df_read_path fuel s;
    match t with
    | None => sdo (_, s) <- sc_expect 0%N s; SOk acc s
    | Some target =>
      sdo (_, s) <- sc_skip_spaces fuel s;
      sdo (target, s) <- match strip_colon target with
                         | Some t' => SOk t' s
                         | None => sdo (_, s) <- sc_expect 58%N s; SOk target s
                         end;
      sdo (deps, s) <- df_read_deps fuel s [];
      df_parse_loop fixed fuel s (if fixed then smallmap_extend target deps acc else smallmap_insert target deps acc)
    end
  end.

Definition df_fuel (text : bytes) : nat := (2 * length text + 8)%nat.

(* depfile::parse on [text] ++ [0]; errors formatted with file name "d" *)
Definition depfile_parse_gen (fixed : bool) (text : bytes) : outcome (list (bytes * list bytes)) :=
  let buf := text ++ [0%N] in
  do s <- sc_new buf;
  finish_sres buf ((bs "d")) (df_parse_loop fixed (df_fuel text) s []).

(* the code after the fix for F13 / as in the pinned tree *)
Definition depfile_parse := depfile_parse_gen true.
Definition depfile_parse_pinned := depfile_parse_gen false.

(* read_depfile: values flattened in map order *)
Definition depfile_deps (text : bytes) : outcome (list bytes) :=
  do m <- depfile_parse text;
  Ok (concat (map snd m)).
Definition depfile_deps_pinned (text : bytes) : outcome (list bytes) :=
  do m <- depfile_parse_pinned text;
  Ok (concat (map snd m)).
