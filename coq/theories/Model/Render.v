(* Model of the pure rendering helpers of src/progress_fancy.rs: task_message, truncate,
   progress_bar.  Strings are byte lists (valid UTF-8 is a premise of the theorems, not of
   the model); [String::truncate] and [&s[..n]] panic off a char boundary, [usize]
   subtraction panics on underflow (debug profile).

   Panic sites: 30 = String::truncate / slice not on a char boundary
                31 = usize subtraction underflow *)
From Coq Require Import String.
From N2 Require Import Base.Base Model.Scanner.

(* truncate(s, max): longest prefix of at most [max] bytes that ends on a char boundary *)
Fixpoint trunc_boundary (s : bytes) (max : nat) : nat :=
  if is_char_boundary s max then max
  else match max with
       | O => O
       | S m => trunc_boundary s m
       end.

Definition truncate (s : bytes) (max : nat) : bytes :=
  if (length s <=? max)%nat then s
  else firstn (trunc_boundary s max) s.

Definition time_note (seconds : N) : bytes :=
  if (2 <? seconds)%N then (bs " (") ++ dec_of_N seconds ++ (bs "s)") else [].

(* task_message as repaired by the fix for finding F15 *)
Definition task_message (message : bytes) (seconds : N) (max_cols : nat) : outcome bytes :=
  let note := time_note seconds in
  let out :=
    if (max_cols <=? length message + length note)%nat
    then truncate message (max_cols - (length note + 3)) ++ (bs "...")
    else message in
  Ok (truncate (out ++ note) max_cols).

(* task_message as in the pinned tree (kept to state the refutation witness) *)
Definition task_message_pinned (message : bytes) (seconds : N) (max_cols : nat) : outcome bytes :=
  let note := time_note seconds in
  if (max_cols <=? length message + length note)%nat then
    if (max_cols <? length note + 3)%nat then Panic 31%N else
    let n := (max_cols - length note - 3)%nat in
    if (n <=? length message)%nat then
      if is_char_boundary message n then Ok (firstn n message ++ (bs "...") ++ note)
      else Panic 30%N
    else Ok (message ++ (bs "...") ++ note)
  else Ok (message ++ note).

(* progress_bar: counts in the order want, ready, queued, running, done, failed *)
Record counts := mkCounts { c_want : N; c_ready : N; c_queued : N; c_running : N; c_done : N; c_failed : N }.

Definition counts_total (c : counts) : N :=
  (c_want c + c_ready c + c_queued c + c_running c + c_done c + c_failed c)%N.

Definition bar_step (bar_size total : N) (st : bytes * N) (grp : N * N) : bytes * N :=
  let '(bar, sum) := st in
  let '(count, ch) := grp in
  let sum := (sum + count)%N in
  let target := (sum * bar_size / total)%N in
  let len := N.of_nat (length bar) in
  let target := if ((0 <? count) && (target =? len) && (target <? bar_size))%N then (target + 1)%N else target in
  (bar ++ repeat_byte ch (N.to_nat (target - len)), sum).

Definition progress_bar (c : counts) (bar_size : N) : bytes :=
  let total := counts_total c in
  if (total =? 0)%N then repeat_byte 32%N (N.to_nat bar_size)
  else fst (fold_left (bar_step bar_size total)
                      [ ((c_done c + c_failed c)%N, 61%N);
                        ((c_queued c + c_running c + c_ready c)%N, 45%N);
                        (c_want c, 32%N) ]
                      ([], 0%N)).

(* valid UTF-8 (shortest-form not required; what matters is lead/continuation structure) *)
Fixpoint utf8_ok_aux (need : nat) (s : bytes) : bool :=
  match s with
  | [] => (need =? 0)%nat
  | c :: r =>
    match need with
    | O => if (c <? 128)%N then utf8_ok_aux 0 r
           else if ((192 <=? c) && (c <? 224))%N then utf8_ok_aux 1 r
           else if ((224 <=? c) && (c <? 240))%N then utf8_ok_aux 2 r
           else if ((240 <=? c) && (c <? 248))%N then utf8_ok_aux 3 r
           else false
    | S n => if ((128 <=? c) && (c <? 192))%N then utf8_ok_aux n r else false
    end
  end.
Definition utf8_ok (s : bytes) : bool := utf8_ok_aux 0 s.
