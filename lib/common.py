"""Shared machinery of the checks: proof gate, builds, line-oriented runners, evidence,
known findings, verdict.  Python 3 stdlib only."""
import hashlib
import json
import os
import re
import subprocess
import sys
import time

VERIF = os.path.dirname(os.path.dirname(os.path.abspath(__file__)))
REPO = os.environ.get("N2_REPO", "/repo")
CACHE = os.path.join(VERIF, ".cache")
COQ = os.path.join(VERIF, "coq")
NCPU = os.cpu_count() or 4

ENV = dict(os.environ)
ENV.update({"CARGO_NET_OFFLINE": "true", "GOPROXY": "off", "PIP_NO_INDEX": "1"})

ALLOWED_AXIOMS = set()  # every property theorem is expected to be closed under the global context

FORBIDDEN = re.compile(
    r"\b(Admitted|admit|Axiom|Axioms|Parameter|Parameters|Conjecture|Conjectures|"
    r"Admit Obligations|bypass_check|type-in-type|impredicative-set)\b|Unset\s+Guard|"
    r"Unset\s+Positivity|Unset\s+Universe\s+Checking"
)
TOPLEVEL_VAR = re.compile(r"^\s*(Variable|Variables|Hypothesis|Hypotheses|Context)\b")


def log(*a):
    print(*a, file=sys.stderr, flush=True)


def sh(cmd, cwd=None, timeout=None, env=None, check=False, input=None):
    p = subprocess.run(cmd, cwd=cwd, timeout=timeout, env=env or ENV, input=input,
                       stdout=subprocess.PIPE, stderr=subprocess.STDOUT, text=True, errors="replace")
    if check and p.returncode != 0:
        raise RuntimeError("command failed: %s\n%s" % (cmd, p.stdout[-4000:]))
    return p.returncode, p.stdout


# ----------------------------------------------------------------------------------------
# Coq


def strip_comments(text):
    out = []
    depth = 0
    i = 0
    n = len(text)
    while i < n:
        if text.startswith("(*", i):
            depth += 1
            i += 2
        elif text.startswith("*)", i) and depth > 0:
            depth -= 1
            i += 2
        else:
            if depth == 0:
                out.append(text[i])
            elif text[i] == "\n":
                out.append("\n")
            i += 1
    return "".join(out)


def coq_sources():
    res = []
    for root, _, files in os.walk(os.path.join(COQ, "theories")):
        for f in files:
            if f.endswith(".v"):
                res.append(os.path.join(root, f))
    return sorted(res)


def scan_forbidden():
    """Admitted/Axiom/... anywhere in the development (comments stripped), and
    Variable/Hypothesis outside a Section."""
    bad = []
    for path in coq_sources():
        text = strip_comments(open(path).read())
        depth = 0
        for ln, line in enumerate(text.split("\n"), 1):
            if re.match(r"^\s*(Section|Module)\s+\w+\s*\.", line):
                depth += 1
            elif re.match(r"^\s*End\s+\w+\s*\.", line):
                depth = max(0, depth - 1)
            if FORBIDDEN.search(line):
                bad.append("%s:%d: %s" % (os.path.relpath(path, VERIF), ln, line.strip()))
            if depth == 0 and TOPLEVEL_VAR.match(line):
                bad.append("%s:%d: %s (outside a section)" % (os.path.relpath(path, VERIF), ln, line.strip()))
    return bad


def coq_make(targets=None, timeout=3000):
    """Full .vo build of the library (or of the given .vo targets and what they need)."""
    mk = os.path.join(COQ, "Makefile")
    proj = os.path.join(COQ, "_CoqProject")
    if not os.path.exists(mk) or os.path.getmtime(mk) < os.path.getmtime(proj):
        sh(["coq_makefile", "-f", "_CoqProject", "-o", "Makefile"], cwd=COQ, check=True)
    cmd = ["make", "-j%d" % NCPU] + (targets or [])
    rc, out = sh(cmd, cwd=COQ, timeout=timeout)
    return rc, out


def props_digest():
    h = hashlib.sha256()
    d = os.path.join(COQ, "theories", "Props")
    for f in sorted(os.listdir(d)):
        if f.endswith(".v"):
            h.update(f.encode() + b"\0" + open(os.path.join(d, f), "rb").read() + b"\0")
    return h.hexdigest()


def file_digest(path):
    return hashlib.sha256(open(path, "rb").read()).hexdigest()


def proof_gate(prop, theorems, extra_modules=(), thorough=False):
    """Build Props/<prop>.vo from the current sources, re-check the pinned statements and
    collect Print Assumptions of every listed theorem.  `theorems`: list of
    (name, pinned_statement or None).  Returns a dict for the evidence plus a list of
    problems (empty = gate passed)."""
    t0 = time.time()
    problems = []
    bad = scan_forbidden()
    problems += ["forbidden construct: " + b for b in bad]
    target = "theories/Props/%s.vo" % prop
    rc, out = coq_make([target])
    if rc != 0:
        problems.append("coq build failed for %s:\n%s" % (target, out[-3000:]))
        return {"obligations": len(theorems), "discharged": 0, "gate_wall_s": time.time() - t0,
                "theorems": []}, problems
    # pins
    pin_file = os.path.join(COQ, "theories", "Props", "PINS.sha256")
    want = {}
    if os.path.exists(pin_file):
        for line in open(pin_file):
            parts = line.split()
            if len(parts) == 2:
                want[parts[1]] = parts[0]
    pf = "%s.v" % prop
    got = file_digest(os.path.join(COQ, "theories", "Props", pf))
    if want.get(pf) != got:
        problems.append("statement file Props/%s does not match its pin (PINS.sha256)" % pf)
    # fresh Check + Print Assumptions
    os.makedirs(os.path.join(CACHE, "gate"), exist_ok=True)
    gv = os.path.join(CACHE, "gate", "Gate_%s.v" % prop)
    with open(gv, "w") as f:
        f.write("From Coq Require Import String.\nFrom N2 Require Import Props.%s.\n" % prop)
        # the vocabulary of the statements: whatever the statement file itself imports
        ptxt = strip_comments(open(os.path.join(COQ, "theories", "Props", "%s.v" % prop)).read())
        mods = list(extra_modules)
        for mm in re.finditer(r"From\s+N2\s+Require\s+(?:Import|Export)\s+(.*?)\.(?=\s|$)", ptxt, re.S):
            for x in mm.group(1).split():
                if x not in mods:
                    mods.append(x)
        for mm in re.finditer(r"From\s+Coq\s+Require\s+(?:Import|Export)\s+(.*?)\.(?=\s|$)", ptxt, re.S):
            f.write("From Coq Require Import %s.\n" % " ".join(mm.group(1).split()))      # standard-library vocabulary (Sorted, ...)
        for m in mods:
            f.write("From N2 Require Import %s.\n" % m)
        for name, stmt in theorems:
            f.write('Goal True. idtac "@@THM %s". exact I. Qed.\n' % name)
            q = "N2.Props.%s.%s" % (prop, name)
            if stmt:
                f.write("Timeout 120 Check (%s : %s).\n" % (q, stmt))
            f.write("Print Assumptions %s.\n" % q)
        f.write('Goal True. idtac "@@END". exact I. Qed.\n')
    rc, out = sh(["coqc", "-Q", os.path.join(COQ, "theories"), "N2", "-o",
                  os.path.join(CACHE, "gate", "Gate_%s.vo" % prop), gv], timeout=600)
    if rc != 0:
        problems.append("gate file failed for %s:\n%s" % (prop, out[-3000:]))
    thms = []
    chunks = re.split(r"@@THM (\S+)", out)
    discharged = 0
    for i in range(1, len(chunks), 2):
        name = chunks[i]
        body = chunks[i + 1].split("@@END")[0]
        closed = "Closed under the global context" in body
        axioms = []
        if not closed:
            m = re.search(r"Axioms:\s*(.*)", body, re.S)
            if m:
                axioms = re.findall(r"^(\S+)\s*:", m.group(1), re.M)
            bad_ax = [a for a in axioms if a not in ALLOWED_AXIOMS]
            if bad_ax or not axioms:
                problems.append("theorem %s depends on axioms not on the allow-list: %s" % (name, bad_ax or body.strip()[:200]))
            else:
                discharged += 1
        else:
            discharged += 1
        thms.append({"name": name, "assumptions": "closed" if closed else axioms})
    if len(thms) != len(theorems):
        problems.append("gate: expected %d theorems, saw %d" % (len(theorems), len(thms)))
    info = {"obligations": len(theorems), "discharged": discharged if rc == 0 else 0,
            "theorems": thms, "gate_wall_s": round(time.time() - t0, 2)}
    if thorough:
        rc, out = sh(["coqchk", "-silent", "-o", "-Q", os.path.join(COQ, "theories"), "N2",
                      "N2.Props.%s" % prop], timeout=3000)
        info["coqchk_rc"] = rc
        info["coqchk_tail"] = out[-1500:]
        if rc != 0:
            problems.append("coqchk failed: " + out[-1500:])
        else:
            m = re.search(r"Axioms:\s*(.*?)(\n\s*\n|\Z)", out, re.S)
            if m and "<none>" not in m.group(1):
                problems.append("coqchk reports axioms: " + m.group(1).strip()[:500])
    return info, problems


def pins_of(stem):
    return [tuple(x) for x in json.load(open(os.path.join(VERIF, "lib", "pins", stem + ".json")))]


def proof_gate_multi(stems, thorough=False):
    """proof gate over several statement files (Props/<stem>.v with lib/pins/<stem>.json); merged info"""
    info = {"obligations": 0, "discharged": 0, "theorems": [], "gate_wall_s": 0, "statement_files": list(stems)}
    problems = []
    for st in stems:
        i, pr = proof_gate(st, pins_of(st), thorough=thorough)
        info["obligations"] += i.get("obligations", 0)
        info["discharged"] += i.get("discharged", 0)
        info["theorems"] += i.get("theorems", [])
        info["gate_wall_s"] = round(info["gate_wall_s"] + i.get("gate_wall_s", 0), 2)
        for k in ("coqchk_rc",):
            if k in i:
                info[k] = max(info.get(k, 0), i[k])
        problems += pr
    return info, problems


def coq_eval(lines_v, timeout=900):
    """Run one coqc on generated vernacular text; returns stdout."""
    os.makedirs(os.path.join(CACHE, "cases"), exist_ok=True)
    path = os.path.join(CACHE, "cases", "cases_%d_%d.v" % (os.getpid(), int(time.time() * 1000) % 100000))
    with open(path, "w") as f:
        f.write(lines_v)
    rc, out = sh(["coqc", "-noglob", "-Q", os.path.join(COQ, "theories"), "N2", "-o", path + "o", path],
                 timeout=timeout)
    for p in (path, path + "o"):
        try:
            os.remove(p)
        except OSError:
            pass
    d = os.path.dirname(path)
    for f in os.listdir(d):
        if f.startswith(".cases_") and f.endswith(".aux"):
            try:
                os.remove(os.path.join(d, f))
            except OSError:
                pass
    if rc != 0:
        raise RuntimeError("coqc on cases failed:\n" + out[-3000:])
    return out


def coq_list(bs):
    return "[" + ";".join(str(b) for b in bs) + "]%N"


# ----------------------------------------------------------------------------------------
# builds


def build_driver():
    """(Re)extract and build the OCaml driver when any model/driver source is newer."""
    drv = os.path.join(CACHE, "ocaml", "driver")
    srcs = [os.path.join(VERIF, "ocaml", f) for f in ("conv.ml", "driver.ml", "build.sh")]
    srcs += [p for p in coq_sources() if "/Model/" in p or "/Base/" in p or p.endswith("Extract.v")]
    newest = max(os.path.getmtime(p) for p in srcs)
    if os.path.exists(drv) and os.path.getmtime(drv) >= newest:
        return drv
    rc, out = coq_make(["theories/Model/All.vo", "theories/Model/Build.vo", "theories/Model/Fancy.vo", "theories/Model/Task.vo", "theories/Model/Dumb.vo", "theories/Model/Cli.vo"])
    if rc != 0:
        raise RuntimeError("coq model build failed:\n" + out[-3000:])
    sh([os.path.join(VERIF, "ocaml", "build.sh")], check=True, timeout=1200)
    return drv


def build_harness(release=False):
    """cargo build of the harness against /repo's current working tree, hooks on."""
    env = dict(ENV)
    env["CARGO_TARGET_DIR"] = os.path.join(CACHE, "target")
    env["RUSTFLAGS"] = "--cfg n2_verif -Awarnings"
    cmd = ["cargo", "build", "--offline", "-q"] + (["--release"] if release else [])
    lock = os.path.join(CACHE, "cargo.lock")
    os.makedirs(CACHE, exist_ok=True)
    # serialise concurrent checks on the shared target dir
    import fcntl
    with open(lock, "w") as lf:
        fcntl.flock(lf, fcntl.LOCK_EX)
        rc, out = sh(cmd, cwd=os.path.join(VERIF, "harness"), env=env, timeout=3000)
    if rc != 0:
        return None, out
    return os.path.join(CACHE, "target", "release" if release else "debug", "n2-verif-harness"), out


def build_n2_binary():
    """The ordinary n2 binary (no hooks) from /repo's working tree, into our cache."""
    env = dict(ENV)
    env["CARGO_TARGET_DIR"] = os.path.join(CACHE, "target-n2")
    import fcntl
    with open(os.path.join(CACHE, "cargo-n2.lock"), "w") as lf:
        fcntl.flock(lf, fcntl.LOCK_EX)
        rc, out = sh(["cargo", "build", "--offline", "-q", "--no-default-features"], cwd=REPO, env=env, timeout=3000)
    if rc != 0:
        return None, out
    return os.path.join(CACHE, "target-n2", "debug", "n2"), out


# ----------------------------------------------------------------------------------------
# line runners


def run_lines(cmd, lines, timeout=1800, cwd=None, stall=60):
    """Feed `lines` to `cmd` (one case per line), return the list of result lines.
    If the process dies (abort), the offending case gets the result 'abort <rc>' and the
    run resumes after it."""
    results = []
    start = 0
    n = len(lines)
    pre = None
    if os.path.basename(str(cmd[0])) == "driver":
        # the extracted model is structurally recursive OCaml (not tail-recursive): records with 65536 dependencies need more than
        # the default 8 MiB of machine stack.  Only the model side gets it; the implementation runs with the default.
        def pre():
            import resource
            soft, hard = resource.getrlimit(resource.RLIMIT_STACK)
            want = 4 << 30
            resource.setrlimit(resource.RLIMIT_STACK, (want if hard == resource.RLIM_INFINITY else min(want, hard), hard))
    import select, threading
    deadline = time.time() + timeout
    hangs = 0
    while start < n:
        data = ("\n".join(lines[start:]) + "\n").encode("utf-8", "replace")
        p = subprocess.Popen(cmd, stdin=subprocess.PIPE, stdout=subprocess.PIPE, stderr=subprocess.DEVNULL, env=ENV, cwd=cwd, preexec_fn=pre)

        def feed(proc=p, payload=data):
            try:
                proc.stdin.write(payload)
                proc.stdin.close()
            except (BrokenPipeError, OSError):
                pass
        th = threading.Thread(target=feed, daemon=True)
        th.start()
        buf, got, hung = b"", [], False
        fd = p.stdout.fileno()
        while True:
            # a case that produces no result line for `stall` seconds is a hang (the implementation must terminate on every input)
            r, _, _ = select.select([fd], [], [], min(stall, max(1, deadline - time.time())))
            if not r:
                hung = True
                break
            chunk = os.read(fd, 1 << 16)
            if not chunk:
                break
            buf += chunk
            if b"\n" in buf:
                parts = buf.split(b"\n")
                buf = parts.pop()
                got.extend(x.decode("utf-8", "replace") for x in parts)
        if hung:
            p.kill()
        p.wait()
        p.stdout.close()
        results.extend(got)
        if len(results) >= n:
            break
        # died (or hung) on case number len(results)
        results.append("hang %ds without a result" % stall if hung else "abort %d" % p.returncode)
        start = len(results)
        hangs += 1 if hung else 0
        if hangs >= 2:
            results.extend(["abort skipped (two earlier cases of this batch hung)"] * (n - len(results)))
            break
        if time.time() > deadline:
            results.extend(["abort timeout"] * (n - len(results)))
            break
    return results[:n]


def run_lines_sharded(cmd, lines, shards=None, timeout=1800):
    from concurrent.futures import ThreadPoolExecutor
    shards = shards or NCPU
    n = len(lines)
    if n < 2000 or shards == 1:
        return run_lines(cmd, lines, timeout)
    step = (n + shards - 1) // shards
    parts = [lines[i:i + step] for i in range(0, n, step)]
    with ThreadPoolExecutor(max_workers=shards) as ex:
        outs = list(ex.map(lambda part: run_lines(cmd, part, timeout), parts))
    res = []
    for o in outs:
        res.extend(o)
    return res


def hexs(b):
    return b.hex() if b else "-"


def unhexs(s):
    return b"" if s == "-" else bytes.fromhex(s)


# ----------------------------------------------------------------------------------------
# known findings


def load_known():
    known, fixed = [], []
    path = os.path.join(VERIF, "KNOWN_FINDINGS.txt")
    if os.path.exists(path):
        for line in open(path):
            line = line.strip()
            if not line or line.startswith("#"):
                continue
            kind, _, rest = line.partition(":")
            fields = dict(re.findall(r"(\w+)=(\S+)", rest))
            fields["text"] = rest.strip()
            (known if kind == "known" else fixed).append(fields)
    return known, fixed


# ----------------------------------------------------------------------------------------
# verdict / evidence


def cleanup_scratch():
    """remove scratch directories left behind by harness processes that died (aborts)"""
    import shutil
    import tempfile
    tmp = tempfile.gettempdir()
    try:
        names = os.listdir(tmp)
    except OSError:
        return
    for n in names:
        if not n.startswith("n2verif-"):
            continue
        parts = n.split("-")
        pid = None
        for x in parts[1:]:
            if x.isdigit():
                pid = int(x)
                break
        alive = pid is not None and os.path.exists("/proc/%d" % pid)
        if not alive:
            shutil.rmtree(os.path.join(tmp, n), ignore_errors=True)


class Run:
    def __init__(self, prop, tier, seed, level="proof"):
        self.prop = prop
        self.tier = tier
        self.seed = seed
        self.level = level
        self.t0 = time.time()
        self.coverage = {"samples": []}
        self.assumptions = []
        self.violations = []      # (description, replay object)
        self.known_hits = {}      # finding id -> description
        self.tie_broken = []      # descriptions of broken proof obligations / correspondence
        self.known, self.fixed = load_known()

    def known_class(self, cls):
        for k in self.known:
            if k.get("class") == cls and k.get("property", "").find(self.prop) >= 0:
                return k
        return None

    def report_failure(self, cls, what, replay):
        """A property failure on the implementation, classified by `cls`."""
        k = self.known_class(cls) if cls else None
        if k:
            self.known_hits.setdefault(k.get("id", cls), (k, what))
        else:
            self.violations.append((what, replay))

    def tie(self, what, detail):
        self.tie_broken.append({"what": what, "detail": detail})

    def finish(self):
        cleanup_scratch()
        os.makedirs(os.path.join(VERIF, "evidence"), exist_ok=True)
        wall = round(time.time() - self.t0, 2)
        rc = 0
        lines = []
        for fid, (k, what) in sorted(self.known_hits.items()):
            lines.append("KNOWN-FINDING: property=%s %s: %s" % (self.prop, fid, what))
        nviol = 0
        if self.violations:
            os.makedirs(os.path.join(VERIF, "replays"), exist_ok=True)
            what, replay = self.violations[0]
            digest = hashlib.sha256(json.dumps(replay, sort_keys=True, default=str).encode()).hexdigest()[:12]
            path = os.path.join(VERIF, "replays", "%s-%s.json" % (self.prop, digest))
            with open(path, "w") as f:
                json.dump({"property": self.prop, "what": what, "replay": replay,
                           "all": [{"what": w, "replay": r} for w, r in self.violations[:20]],
                           "tie_broken": self.tie_broken[:10]}, f, indent=1, default=str)
            lines.append("VIOLATION property=%s replay=%s" % (self.prop, path))
            nviol = len(self.violations)
            rc = 1
        elif self.tie_broken:
            os.makedirs(os.path.join(VERIF, "replays"), exist_ok=True)
            digest = hashlib.sha256(json.dumps(self.tie_broken, sort_keys=True, default=str).encode()).hexdigest()[:12]
            path = os.path.join(VERIF, "replays", "%s-tie-%s.json" % (self.prop, digest))
            with open(path, "w") as f:
                json.dump({"property": self.prop,
                           "what": "a proof obligation or the model/implementation correspondence no longer checks; "
                                   "the search found no input on which the property itself fails",
                           "no_longer_checks": self.tie_broken[:20]}, f, indent=1, default=str)
            lines.append("VIOLATION property=%s replay=%s no-failing-input-found" % (self.prop, path))
            nviol = 1
            rc = 1
        ev = {
            "property_id": self.prop,
            "tier": self.tier,
            "seed": self.seed,
            "level": self.level,
            "coverage": self.coverage,
            "assumptions": self.assumptions,
            "wall_s": wall,
            "violations": nviol,
        }
        ev["coverage"]["known_findings_seen"] = sorted(self.known_hits.keys())
        with open(os.path.join(VERIF, "evidence", "%s.json" % self.prop), "w") as f:
            json.dump(ev, f, indent=1, default=str)
        for l in lines:
            print(l, flush=True)
        log("[%s] %s tier=%s seed=%d wall=%.1fs" % (self.prop, "FAIL" if rc else "ok", self.tier, self.seed, wall))
        return rc


TRUSTED_BASE = [
    "Coq 8.16.1 kernel (coqc; coqchk in thorough); vm_compute used for witnesses/reflection; no native_compute",
    "axioms: none (every property theorem: Print Assumptions = Closed under the global context)",
    "extraction to OCaml 4.13.1 with ExtrOcamlBasic directives only (bool, option, unit, list, prod, sumbool, sumor; andb/orb inlined)",
    "hand-written Gallina model tied to /repo by the correspondence check (Rust harness built from /repo's working tree with --cfg n2_verif, python generators/diff, OCaml driver I/O)",
]


# ----------------------------------------------------------------------------------------
# generic differential helper


def differential(run, what, harness, driver, h_suite, d_suite, lines, panic_map=None, show=None):
    """Run the implementation (harness suite) and the model (driver suite) on `lines`; record
    every disagreement as a broken tie.  panic_map: model 'panic N'/'oob N' -> substring expected in the
    implementation's 'panic file:line|msg' (or 'abort')."""
    impl = run_lines_sharded([harness, h_suite], lines)
    model = run_lines_sharded([driver, d_suite], lines)
    bad = []
    for i, (a, b) in enumerate(zip(impl, model)):
        if a == b:
            continue
        if panic_map and (b.startswith("panic ") or b.startswith("oob ")):
            want = panic_map.get(b)
            if want and (a.startswith("panic ") or a.startswith("abort")) and any(w in a for w in want):
                continue
        bad.append(i)
    for i in bad[:5]:
        run.tie("correspondence %s" % what, {"case": lines[i] if show is None else show(lines[i]),
                                              "implementation": impl[i][:400], "model": model[i][:400]})
    return impl, model, bad


def vm_subsample(run, what, rng, lines, model, render_call, parse_result, n=100):
    """Evaluate a sub-sample of the cases inside Coq (vm_compute) and compare with the extracted
    code's answers.  render_call(line) -> Coq term; parse_result(text) -> list of canonical strings."""
    idx = rng.sample(range(len(lines)), min(n, len(lines)))
    v = "From N2 Require Import Model.All.\nFrom Coq Require Import String.\n"
    for i in idx:
        v += "Eval vm_compute in (%s).\n" % render_call(lines[i])
    out = coq_eval(v)
    got = parse_result(out)
    if len(got) != len(idx):
        run.tie("vm_compute sub-sample %s" % what, "parsed %d of %d results" % (len(got), len(idx)))
        return 0
    bad = 0
    for i, g in zip(idx, got):
        if g != model[i]:
            bad += 1
            if bad <= 3:
                run.tie("extraction vs vm_compute %s" % what, {"case": lines[i], "vm": g, "ocaml": model[i]})
    return len(idx)


def coq_bytes_of_out(txt):
    """'[1%N; 2%N]' or '[1; 2]%N' -> bytes"""
    return bytes(int(x) for x in re.findall(r"(\d+)(?:%N)?", txt))
