"""Common body of C02 / C03 / C09 / C17."""
from world import *


def world_leg(run, PROP, rng, tier, drv, har, n, monitors, gen_kw=None, clean_oracle=False, replay=None, scen_gen=None):
    """histories through the instrumented scheduler; every trace replayed through both models; monitors on each invocation"""
    hist = []
    if replay:
        rp = json.load(open(replay))
        rp = rp.get("replay") or (rp.get("no_longer_checks") or [{}])[0].get("detail", {})
        hist.append((rp["scenario"].split("\n"), rp["invs"], None))
    else:
        gen = scen_gen or gen_history
        for i in range(n):
            hist.append(gen(rng, **(gen_kw or {})))
    reports = S.run_histories(har, ["\n".join(s) for s, _, _ in hist])
    items, index = [], []
    for hi, ((steps, invs, _), rep) in enumerate(zip(hist, reports)):
        if isinstance(rep, str):
            run.report_failure(None, "harness died on a history: %s" % rep[:200], {"scenario": "\n".join(steps), "invs": invs})
            continue
        for ii, (inv, meta) in enumerate(zip(rep, invs)):
            items.append((inv, meta))
            index.append((hi, ii))
    sched_reps = S.replay_invocations(drv, [(inv, m["j"], m["k"], m.get("adopt", False), m["targets"]) for inv, m in items])
    world_reps = replay_world(drv, [(inv, m.get("adopt", False)) for inv, m in items])
    # invocations that ran with `-d explain`: the messages logged, verdict by verdict, against Model/Explain.v
    flags = {}
    for hi, (steps, _, _) in enumerate(hist):
        for ii, l in enumerate([l for l in steps if l.startswith("inv ")]):
            flags[(hi, ii)] = S.inv_explains(l)
    ex_idx = [k for k, ix in enumerate(index) if flags.get(ix)]
    ex_reps = dict(zip(ex_idx, explain_world(drv, [(items[k][0], items[k][1].get("adopt", False)) for k in ex_idx])))
    stats = {"histories": len(hist), "invocations": len(items), "sched_accepted": 0, "world_consistent": 0, "commands": 0,
             "verdicts": 0, "records": 0, "results": {}, "explain_invocations": len(ex_idx), "explain_consistent": 0,
             "explain_messages": 0}
    nontrivial = set()
    samples = []
    clean_jobs = []
    for pos, ((hi, ii), (inv, meta), srep, wrep) in enumerate(zip(index, items, sched_reps, world_reps)):
        scen = "\n".join(hist[hi][0])
        where = {"scenario": scen, "invs": [{k: v for k, v in m.items() if k != "files"} for m in hist[hi][1]], "invocation": ii, "result": inv.result}
        if S.check_acceptance(run, PROP, scen, ii, inv, None, srep):
            stats["sched_accepted"] += 1
        wok = check_world(run, where, inv, wrep)
        if wok:
            stats["world_consistent"] += 1
        if wok and pos in ex_reps and not inv.result.startswith("panic"):
            if check_explain(run, where, inv, ex_reps[pos]):
                stats["explain_consistent"] += 1
                stats["explain_messages"] += sum(len(m) for _, m in inv.explained)
                kinds = stats.setdefault("explain_kinds", {"input missing": 0, "no previous state known": 0, "manifest changed": 0, "none (clean or error)": 0})
                for _, msgs in inv.explained:
                    if not msgs:
                        kinds["none (clean or error)"] += 1
                    elif msgs[0].endswith(b" missing"):
                        kinds["input missing"] += 1
                    elif msgs[0].endswith(b"no previous state known"):
                        kinds["no previous state known"] += 1
                    elif msgs[0].endswith(b"manifest changed"):
                        kinds["manifest changed"] += 1
        kind = inv.result.split(":")[0]
        stats["results"][kind] = stats["results"].get(kind, 0) + 1
        stats["commands"] += len(inv.started)
        stats["verdicts"] += sum(1 for e in inv.trace if e.startswith("dirty_"))
        stats["records"] += sum(1 for e in inv.trace if e.startswith("record_"))
        for m in monitors:
            m(run, where, inv, meta, hist[hi], ii, reports[hi])
        if inv.started:
            nontrivial.add(",".join(inv.trace))
        if clean_oracle and inv.result.startswith("ok:"):
            clean_jobs.append((where, inv, meta))
        if len(samples) < 2 and len(inv.started) >= 2:
            samples.append({"targets": meta["targets"], "result": inv.result, "trace": inv.trace[:50]})
    if clean_oracle and clean_jobs:
        if tier == "quick" and len(clean_jobs) > 400:
            clean_jobs = rng.sample(clean_jobs, 400)
        creps = S.run_histories(har, [clean_scenario(meta) for _, _, meta in clean_jobs])
        stats["clean_build_comparisons"] = len(clean_jobs)
        for (where, inv, meta), crep in zip(clean_jobs, creps):
            if isinstance(crep, str) or not crep:
                continue
            c = crep[0]
            if not c.result.startswith("ok:"):
                continue
            g = inv.graphs[-1]
            outs = {g.files[o]["name"] for b in g.builds for o in b["outs"]}
            for name, (mt, dig) in c.files.items():
                if name in outs:
                    got = inv.files.get(name)
                    if got is None or got[1] != dig:
                        cls = None
                        run.report_failure(cls, "after a successful incremental build output %r differs from what a clean build produces" % name,
                                           dict(where, output=name, incremental=got, clean=(mt, dig)))
                        break
    return stats, nontrivial, samples, items


def world_check(PROP, THEOREMS, tier, seed, monitors, n_quick=250, n_thorough=2500, gen_kw=None, extra_modules=("Model.All",),
                clean_oracle=False, replay=None, note=None, scen_gen=None, before_finish=None):
    run = Run(PROP, tier, seed, "proof")
    rng = random.Random(seed)
    if THEOREMS and isinstance(THEOREMS[0], str):
        info, problems = proof_gate_multi(THEOREMS, thorough=(tier == "thorough"))
    else:
        info, problems = proof_gate(PROP, THEOREMS, extra_modules=list(extra_modules), thorough=(tier == "thorough"))
    for p in problems:
        run.tie("proof gate", p)
    drv = build_driver()
    har, out = build_harness()
    if har is None:
        run.tie("harness build", out[-2000:])
        return run.finish()
    n = n_quick if tier == "quick" else n_thorough
    stats, nontrivial, samples, items = world_leg(run, PROP, rng, tier, drv, har, n, monitors, gen_kw=gen_kw, clean_oracle=clean_oracle,
                                                  replay=replay, scen_gen=scen_gen)
    run.coverage.update(info)
    run.coverage.update({
        "checker_cmd": "make -C coq theories/Props/%s.vo && coqc Gate_%s.v" % (PROP, PROP),
        "trusted_base": TRUSTED_BASE,
        "evaluations": len(items),
        "distinct_nontrivial": len(nontrivial),
        "traces_validated_against_impl": stats["world_consistent"],
        "rule": "random projects (1..7 steps, multi-output, implicit/order-only edges, steps reporting #include-style dependencies, restat "
                "steps) x histories of 2..5 invocations with edits in between (modify/touch/delete sources, headers, outputs; edit command "
                "text / edges; target subsets; failures and interruptions through the scripted executor); every verdict, record and the "
                "final log are replayed through the extracted model; non-trivial = distinct trace with >= 1 command",
        "stats": stats,
        "samples": samples or [{"note": "no sample"}],
    })
    run.assumptions += ["H-cmd: commands are deterministic and hermetic (pseudo-commands of the harness: output = digest of command line, "
                        "dirtying inputs and reported dependencies)",
                        "H-mtime: every write gets a fresh logical mtime; H-quiet: only the scripted commands write during an invocation",
                        "H-hash: SipHash-1-3 collisions are not considered"]
    if note:
        run.assumptions.append(note)
    if before_finish:
        before_finish(run)
    return run.finish()


# ---- monitors (run, where, inv, meta, history, index, all invocations of the history) ----


def monitor_null_build(run, where, inv, meta, hist, ii, rep):
    """an invocation identical to the previous successful one with no edit in between runs nothing"""
    if ii == 0 or isinstance(rep, str):
        return
    steps, invs, _ = hist
    prev, pm = rep[ii - 1], invs[ii - 1]
    no_edit = meta["nsteps"] == pm["nsteps"] + 1
    if no_edit and prev.result.startswith("ok:") and pm["targets"] == meta["targets"]:
        # every declared input and output exists?
        g = prev.graphs[-1]
        names = {g.files[f]["name"] for b in g.builds for f in b["ins"][: b["explicit"] + b["implicit"]] + b["outs"]}
        import posixpath
        for e in prev.trace:
            if e.startswith("deps_"):
                d = e.split("_")[2]
                if d != "-":
                    names |= {posixpath.normpath(unhexs(x).decode()) for x in d.split(";")}
        # discovered dependencies recorded earlier in the history count as well
        for earlier in rep[:ii - 1]:
            for e in earlier.trace:
                if e.startswith("deps_"):
                    d = e.split("_")[2]
                    if d != "-":
                        names |= {posixpath.normpath(unhexs(x).decode()) for x in d.split(";")}
        if all(n in prev.files for n in names):
            if pm.get("adopt") and inv.result.startswith("err:") and b"unknown path requested" in unhexs(inv.result[4:]):
                return      # `-t restat` skips names it does not know (run.rs cites CMake); the build proper refuses them, rightly
            if inv.result != "ok:0":
                run.report_failure(None, "a repeated build with nothing changed is not a null build: %s" % inv.result[:60], where)


def lexically_canonical(name):
    if name in (b"", b".", b"/"):
        return name != b""
    comps = name.split(b"/")
    body = comps[1:] if name.startswith(b"/") else comps
    if body and body[-1] == b"":
        body = body[:-1]                      # a trailing separator is significant and kept
    seen_name = False
    for c in body:
        if c in (b"", b"."):
            return False
        if c == b"..":
            if seen_name:
                return False
        else:
            seen_name = True
    return True


def db_names(db):
    """the path records of a log, in order"""
    names, i = [], 8
    while i + 2 <= len(db):
        m = int.from_bytes(db[i:i + 2], "little")
        i += 2
        if m & 0x8000:
            no = m & 0x7fff
            i += 3 * no
            nd = int.from_bytes(db[i:i + 2], "little")
            i += 2 + 3 * nd + 8
        else:
            names.append(db[i:i + m])
            i += m
    return names


def monitor_one_node_per_location(run, where, inv, meta, hist, ii, rep):
    """C13 at whole-program level: whatever spelling the manifest, the command line or a command's report used, the log names each
    location once, under its canonical spelling"""
    for g in inv.graphs:
        gnames = [f["name"].encode("utf-8", "surrogateescape") for f in g.files]
        for n in gnames:
            if not lexically_canonical(n):
                run.report_failure(None, "the loaded graph has a file node under the non-canonical spelling %r (a second node for the same location)" % n, where)
                return
        if len(set(gnames)) != len(gnames):
            run.report_failure(None, "the loaded graph has two file nodes with one name", where)
            return
    if not inv.db or not inv.db.startswith(b"n2db"):
        return
    names = db_names(inv.db)
    for n in names:
        if not lexically_canonical(n):
            run.report_failure(None, "a file was entered in the graph under the non-canonical spelling %r (a second node for the same location)" % n, where)
            return
    if len(set(names)) != len(names):
        dup = [n for n in set(names) if names.count(n) > 1][0]
        run.report_failure(None, "the log names %r twice (two nodes for one spelling)" % dup, where)
