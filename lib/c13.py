"""C13 — different spellings of one path are one graph node (src/canon.rs)."""
import itertools
import random

from common import *

PROP = "C13"

THEOREMS = [
    ("C13_refines", "forall p, canon_impl p = canon p"),
    ("C13_total", "forall p, p <> [] -> (length (comps p) <= 60)%nat -> exists q, canon p = Ok q"),
    ("C13_outcomes", "forall p, (exists q, canon p = Ok q) \\/ canon p = Panic 0%N \\/ canon p = Panic 1%N"),
    ("C13_idempotent", "forall p q, canon p = Ok q -> canon q = Ok q"),
    ("C13_never_longer", "forall p q, canon p = Ok q -> (length q <= length p)%nat"),
    ("C13_sem_preserved", "forall p q, canon p = Ok q -> sem q = sem p"),
    ("C13_normal_form", "forall p q, canon p = Ok q -> normal_form q = true"),
    ("C13_same_node_partial",
     "forall s p q p' q', uses_only s p = true -> uses_only s q = true -> canon p = Ok p' -> canon q = Ok q' -> "
     "sem p = sem q -> ends_dirlike p = ends_dirlike q -> f17_class p = false -> p' = q'"),
    ("C13_same_node_refuted",
     "exists s p q p' q', uses_only s p = true /\\ uses_only s q = true /\\ canon p = Ok p' /\\ canon q = Ok q' /\\ "
     "sem p = sem q /\\ ends_dirlike p = ends_dirlike q /\\ p' <> q'"),
]

SEP = (0x2F, 0x5C)


def py_comps(p):
    out, cur = [], bytearray()
    for c in p:
        if c in SEP:
            if cur:
                out.append(bytes(cur))
            cur = bytearray()
        else:
            cur.append(c)
    if cur:
        out.append(bytes(cur))
    return out


def py_sem(p):
    """Independent statement of what location a spelling denotes."""
    ups, names = 0, []
    for c in py_comps(p):
        if c == b".":
            continue
        if c == b"..":
            if names:
                names.pop()
            else:
                ups += 1
        else:
            names.append(c)
    return (p[:1] in (b"/", b"\\"), ups, tuple(names))


def py_dirlike(p):
    cs = py_comps(p)
    return p[-1] in SEP or (bool(cs) and cs[-1] in (b".", b".."))


def py_normal(q):
    if q == b".":
        return True
    if not q:
        return False
    for i in range(len(q) - 1):
        if q[i] in SEP and q[i + 1] in SEP:
            return False
    cs = py_comps(q)
    while cs and cs[0] == b"..":
        cs.pop(0)
    return all(c not in (b".", b"..") for c in cs)


def uniform(p):
    return not (0x2F in p and 0x5C in p)


def gen_cases(tier, rng):
    alphabet = [0x61, 0x62, 0x2E, 0x2F, 0x5C]
    maxlen = 8 if tier == "quick" else 10
    cases = []
    for n in range(1, maxlen + 1):
        for t in itertools.product(alphabet, repeat=n):
            cases.append(bytes(t))
    n_exh = len(cases)
    # random long paths with UTF-8 names and up to 70 components
    names = ["a", "bb", "é", "日本", "😀x", "..a", ".h", "a..", "...", "x.y"]
    # component lengths around the widths a compact implementation might use (u8 / u16)
    for ln in (254, 255, 256, 257, 300, 65535, 65536):
        for pat in ("%s/../x", "a/%s/../../b", "%s/./../y/", "/%s/..", "%s/z/../.."):
            cases.append((pat % ("n" * ln)).encode())
    nrand = 5000 if tier == "quick" else 50000
    for _ in range(nrand):
        k = rng.choice([1, 2, 3, 5, 8, 13, 30, 59, 60, 61, 62, 70])
        parts = []
        if rng.random() < 0.3:
            parts.append(rng.choice(["/", "\\"]))
        for i in range(k):
            r = rng.random()
            if r < 0.15:
                parts.append(".")
            elif r < 0.35:
                parts.append("..")
            elif r < 0.40:
                parts.append("")
            else:
                parts.append(rng.choice(names))
            if i + 1 < k or rng.random() < 0.3:
                parts.append(rng.choice(["/", "/", "/", "\\", "//"]))
        s = "".join(parts).encode()
        if s:
            cases.append(s)
    return cases, n_exh


def main(tier, seed, replay=None):
    run = Run(PROP, tier, seed, "proof")
    rng = random.Random(seed)
    info, problems = proof_gate(PROP, THEOREMS, extra_modules=["Model.All"], thorough=(tier == "thorough"))
    for p in problems:
        run.tie("proof gate", p)
    drv = build_driver()
    profiles = [False] + ([True] if tier == "thorough" else [])
    world_replay = bool(replay) and '"scenario"' in open(replay).read()
    if replay and not world_replay:
        cases, n_exh = [unhexs(json.load(open(replay))["replay"]["input_hex"])], 0
    else:
        cases, n_exh = gen_cases(tier, rng)
    corpus = os.path.join(VERIF, "corpus", PROP, "cases.txt")
    if os.path.exists(corpus):
        extra = [unhexs(l.split()[0]) for l in open(corpus) if l.strip() and not l.startswith("#")]
        cases = extra + cases
    lines = [hexs(c) for c in cases]
    m_impl = run_lines_sharded([drv, "canon_impl"], lines)
    m_fn = run_lines_sharded([drv, "canon"], lines)
    stats = {"ok": 0, "panic": 0, "changed": 0}
    disagreements = []
    seen_sites = {}
    impl_by_profile = {}
    for rel in profiles:
        har, out = build_harness(release=rel)
        if har is None:
            run.tie("harness build", out[-2000:])
            return run.finish()
        impl_by_profile[rel] = run_lines_sharded([har, "canon"], lines)
    impl = impl_by_profile[False]
    SITE = {"1": "too many path components", "0": "assertion failed: !path.is_empty()"}
    for rel, res in impl_by_profile.items():
        for c, a, b, r in zip(cases, m_impl, m_fn, res):
            if a != b:
                disagreements.append(("model canon_impl vs canon", c, a, b))
                continue
            if a.startswith("panic "):
                want = SITE.get(a.split()[1], "?")
                good = r.startswith("panic ") and want in r
            else:
                good = (a == r)
            if not good:
                disagreements.append(("model vs implementation (%s)" % ("release" if rel else "debug"), c, a, r))
    # monitors on the implementation's own outputs
    okpairs = []
    for c, r in zip(cases, impl):
        if r.startswith("ok "):
            q = unhexs(r[3:])
            okpairs.append((c, q))
            stats["ok"] += 1
            if q != c:
                stats["changed"] += 1
        elif r.startswith("panic "):
            stats["panic"] += 1
            if "too many path components" in r:
                # more than 60 stacked components: finding F4, outside the property's range when
                # the path has more than 60 components
                if len(py_comps(c)) <= 60:
                    run.report_failure(None, "panic on a path of <= 60 components: %s" % r, {"input_hex": hexs(c), "result": r})
                else:
                    seen_sites["F4"] = hexs(c)
            else:
                run.report_failure(None, "canonicalize_path panicked: %s" % r, {"input_hex": hexs(c), "result": r})
        else:
            run.report_failure(None, "canonicalize_path aborted: %s" % r, {"input_hex": hexs(c), "result": r})
    har = os.path.join(CACHE, "target", "debug", "n2-verif-harness")
    second = run_lines_sharded([har, "canon"], [hexs(q) for _, q in okpairs])
    groups = {}
    for (c, q), r2 in zip(okpairs, second):
        if r2 != "ok " + hexs(q):
            run.report_failure(None, "not idempotent: canon(%r)=%r, canon of that = %s" % (c, q, r2), {"input_hex": hexs(c)})
        if len(q) > len(c):
            run.report_failure(None, "longer than the input: %r -> %r" % (c, q), {"input_hex": hexs(c)})
        if py_sem(q) != py_sem(c):
            run.report_failure(None, "denotes another location: %r -> %r" % (c, q), {"input_hex": hexs(c)})
        if not py_normal(q):
            run.report_failure(None, "result not in normal form: %r -> %r" % (c, q), {"input_hex": hexs(c)})
        if uniform(c):
            sep = 0x5C if 0x5C in c else (0x2F if 0x2F in c else None)
            key = (py_sem(c), py_dirlike(c))
            groups.setdefault(key, {}).setdefault(sep, {}).setdefault(q, c)
    f17 = None
    for (sem, dl), bysep in groups.items():
        for sepc in (0x2F, 0x5C):
            outs = dict(bysep.get(sepc, {}))
            for q, c in bysep.get(None, {}).items():
                outs.setdefault(q, c)
            if len(outs) > 1:
                ups, names = sem[1], sem[2]
                if ups > 0 and not names:
                    f17 = sorted(outs.items())[:2]
                    run.report_failure("all-dotdot-trailing-separator",
                                       "two spellings of one all-'..' location give two nodes, e.g. %r"
                                       % [(c, q) for q, c in f17], {"inputs_hex": [hexs(c) for _, c in f17]})
                else:
                    ex = sorted(outs.items())[:2]
                    run.report_failure(None, "same location, different nodes: %r" % [(c, q) for q, c in ex],
                                       {"inputs_hex": [hexs(c) for _, c in ex], "input_hex": hexs(ex[0][1])})
    if disagreements:
        for what, c, a, b in disagreements[:5]:
            run.tie("correspondence canon: " + what, {"input_hex": hexs(c), "input": repr(c), "model": a, "other": b})
    # vm_compute sub-sample: the extracted code against kernel evaluation
    sub = rng.sample(range(len(cases)), min(150, len(cases)))
    v = "From N2 Require Import Model.All.\n"
    for i in sub:
        v += "Eval vm_compute in (canon_impl %s).\n" % coq_list(cases[i])
    out = coq_eval(v)
    got = re.findall(r"=\s*(Ok\s*\[[^\]]*\]|Panic\s+\d+|OutOfBounds\s+\d+|OutOfFuel)", out)
    vm_bad = 0
    if len(got) != len(sub):
        run.tie("vm_compute sub-sample", "parsed %d of %d results" % (len(got), len(sub)))
    else:
        for i, g in zip(sub, got):
            if g.startswith("Ok"):
                bs = bytes(int(x.replace("%N", "")) for x in re.findall(r"\d+%N|\d+", g[2:]))
                s = "ok " + hexs(bs)
            elif g.startswith("Panic"):
                s = "panic " + g.split()[1]
            else:
                s = g
            if s != m_impl[i]:
                vm_bad += 1
                run.tie("extraction vs vm_compute", {"input_hex": hexs(cases[i]), "vm": s, "ocaml": m_impl[i]})
    distinct_changed = len({c for c, q in okpairs if c != q})
    # whole-program leg: spellings in the manifest, on the command line and in commands' reports (depfile and /showIncludes style)
    import worldcheck as WC
    wstats = {}
    if not replay or world_replay:
        def spelled(rng_, **kw):
            # every fourth history regenerates its manifest, invoked as `-f ./build.ninja` and the like
            if rng_.random() < 0.25:
                return WC.gen_history(rng_, with_regen=rng_.choice([True, "include"]), **kw)
            return WC.gen_history(rng_, **kw)
        wstats, _, _, _ = WC.world_leg(run, PROP, rng, tier, drv, har, 150 if tier == "quick" else 1500,
                                       [WC.monitor_one_node_per_location, WC.monitor_null_build], scen_gen=spelled,
                                       replay=replay if world_replay else None)
    # command-line leg: every short string as a target against a manifest that declares `a`, `a/`, `a/b`, `out/gen`, `out/gen/`
    tstats = {}
    if not replay:
        import c12
        c12.target_leg(run, rng, har, drv, tier, tstats, prop=PROP)
    wstats = dict(wstats, command_line_targets=tstats)
    run.coverage.update(info)
    run.coverage.update({
        "checker_cmd": "make -C coq theories/Props/C13.vo && coqc Gate_C13.v (Check pinned statements + Print Assumptions)" + ("; coqchk -o" if tier == "thorough" else ""),
        "trusted_base": TRUSTED_BASE,
        "evaluations": len(cases) * len(profiles),
        "distinct_nontrivial": distinct_changed,
        "rule": "all strings over {a,b,'.','/','\\\\'} of length 1..%d (%d, exhaustive) + random paths of 1..70 components with "
                "UTF-8 names and both separators; non-trivial = distinct input whose canonical form differs from it"
                % (8 if tier == "quick" else 10, n_exh),
        "exhaustive": True,
        "outcomes": stats,
        "profiles": ["release" if r else "debug" for r in profiles],
        "vm_compute_subsample": len(sub),
        "model_vs_impl_disagreements": len(disagreements),
        "samples": [{"input": repr(c), "impl": r, "model": a} for c, r, a in
                    [(cases[i], impl[i], m_impl[i]) for i in rng.sample(range(len(cases)), 6)]],
        "same_node_groups": len(groups),
        "whole_program_spelling_histories": wstats,
    })
    run.assumptions += [
        "the theorems are about Model/Canon.v; its tie to src/canon.rs is the differential check above",
        "F4 (more than 60 stacked components panics) is outside the property's stated range",
    ]
    return run.finish()
