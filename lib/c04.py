"""C04 — -j and pool depths are never exceeded."""
from sched import *

PROP = "C04"
THEOREMS = [tuple(x) for x in json.load(open(os.path.join(VERIF, "lib", "pins", PROP + ".json")))]


def fault_leg(run, har):
    """black-box, through the real task::Runner: a step whose response file cannot be written fails without ever running; the
    slots it never used must not be handed out - at most -j commands run at any instant afterwards"""
    import shutil, tempfile
    n2, out_ = build_n2_binary()
    if n2 is None:
        run.tie("n2 build", out_[-1000:])
        return
    for j, nbad in ((2, 1), (2, 3), (3, 2)):
        d = tempfile.mkdtemp(prefix="n2verif-c04-%d-" % os.getpid())
        try:
            lines = ["rule slow", "  command = echo s >> log; sleep 0.4; echo e >> log; touch $out",
                     "rule withrsp", "  command = echo s >> log; sleep 0.4; echo e >> log; touch $out", "  rspfile = blocker/$out.rsp", "  rspfile_content = x"]
            for i in range(nbad):
                lines.append("build bad%d: withrsp" % i)
            for i in range(8):
                lines.append("build w%d: slow" % i)
            open(os.path.join(d, "build.ninja"), "w").write("\n".join(lines) + "\n")
            open(os.path.join(d, "blocker"), "w").write("a regular file where a directory is needed\n")
            p_ = subprocess.run([n2, "-j", str(j), "-k", "100"], cwd=d, stdout=subprocess.PIPE, stderr=subprocess.STDOUT, stdin=subprocess.DEVNULL, timeout=120, env=ENV)
            log = open(os.path.join(d, "log")).read().split() if os.path.exists(os.path.join(d, "log")) else []
            cur = peak = 0
            for t in log:
                cur += 1 if t == "s" else -1
                peak = max(peak, cur)
            built = sum(1 for i in range(8) if os.path.exists(os.path.join(d, "w%d" % i)))
            where = {"suite": "rspfile-fault", "j": j, "unwritable_response_files": nbad, "peak": peak, "built": built, "rc": p_.returncode,
                     "tail": p_.stdout.decode("utf-8", "replace")[-300:]}
            if peak > j:
                run.report_failure(None, "%d commands ran at once with -j %d after %d steps failed to write their response files" % (peak, j, nbad), where)
            elif p_.returncode == 0 or built != 8:
                run.report_failure(None, "unwritable response files: exit %d, %d of 8 independent steps built" % (p_.returncode, built), where)
        finally:
            shutil.rmtree(d, ignore_errors=True)
    run.coverage["black_box_rspfile_fault"] = "steps whose response file cannot be written, -j 2/3, -k 100: peak concurrency from a start/end log"


def main(tier, seed, replay=None):
    return sched_check(PROP, THEOREMS, tier, seed, [monitor_c04], extra_modules=["Model.All", "Proofs.SchedSpec", "Proofs.SchedInv", "Proofs.SchedLive", "Proofs.SchedRunThms"],
                       replay=replay, scen_gen=gen_sched_or_regen, gen_kw=dict(pools=True), probes=fault_leg)
