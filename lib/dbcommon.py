"""Shared by C07 / C08: generation of log histories and the two sides of the db correspondence."""
import random

from common import *


def hx(s):
    if isinstance(s, str):
        s = s.encode("utf-8", "surrogateescape")       # names are byte strings: \udcXX stands for a byte that is not UTF-8
    return s.hex() if s else "-"


def gen_manifest(rng, nb=None):
    """builds with 1..3 outputs each over a small name pool; returns (text, builds=[outs])"""
    nb = nb or rng.randint(1, 5)
    names = ["o%d" % i for i in range(8)] + ["dir/é%d" % i for i in range(3)] + ["x" * rng.choice([100, 300])] + ["caf\udce9%d.o" % i for i in range(2)] + ["\udcff\udcfe"]
    rng.shuffle(names)
    builds, used = [], 0
    for _ in range(nb):
        k = rng.choice([1, 1, 2, 3, 3, 4])
        outs = names[used:used + k]
        used += k
        if not outs:
            break
        builds.append(outs)
    text = "rule r\n  command = x\n" + "".join("build %s: r\n" % " ".join(o) for o in builds)
    return text, builds


def gen_writes(rng, builds, n=None, big=False):
    depnames = ["h%d" % i for i in range(12)] + ["inc/ü.h", "y" * 255, "z" * 256, "h\udce9ader.h", "\udc80", "e\udcc3"]
    ws = []
    for _ in range(n if n is not None else rng.randint(0, 6)):
        b = rng.randrange(len(builds))
        k = rng.choice([0, 0, 1, 2, 3, 5])
        if big and rng.random() < 0.3:
            k = rng.choice([255, 256, 257, 1000])
            deps = ["g%d" % i for i in range(k)]
        else:
            deps = rng.sample(depnames, min(k, len(depnames)))
        h = rng.choice([0, 1, 2**64 - 1, rng.getrandbits(64), rng.getrandbits(64)])
        ws.append((b, deps, h))
    return ws


def harness_line(manifest, file_bytes, writes):
    parts = [hx(manifest), "-x" if file_bytes is None else hx(file_bytes)]
    for b, deps, h in writes:
        parts += ["W", str(b), "%x" % h, ",".join(hx(d) for d in deps) if deps else "-"]
    return " ".join(parts)


def driver_line(fixed, builds, file_bytes, writes):
    prods = []
    for i, outs in enumerate(builds):
        for o in outs:
            prods.append("%s %d" % (hx(o), i))
    parts = ["1" if fixed else "0", hx(file_bytes), "P", str(len(prods))] + prods + ["W", str(len(writes))]
    for b, deps, h in writes:
        outs = builds[b]
        parts += ["O", str(len(outs))] + [hx(o) for o in outs] + ["D", str(len(deps))] + [hx(d) for d in deps] + ["H", "%x" % h]
    return " ".join(parts)


def parse_res(r):
    """-> dict(kind, after_open, loaded{b:(hash,deps)}, final)"""
    if not r.startswith("ok "):
        return {"kind": r.split(" ")[0], "raw": r}
    kv = dict(tok.split("=", 1) for tok in r[3:].split(" ") if "=" in tok)
    loaded = {}
    for ent in kv.get("loaded", "").split(";"):
        if ent:
            b, h, ds = ent.split(":")
            loaded[int(b)] = (int(h, 16), [unhexs(d).decode("utf-8", "surrogateescape") for d in ds.split(",")] if ds else [])
    return {"kind": "ok", "after_open": unhexs(kv.get("after_open", "-") or "-"), "loaded": loaded,
            "final": unhexs(kv["final"]) if "final" in kv else None, "raw": r}


def same(a, b):
    """implementation vs model result lines (error text: prefix match)"""
    if a == b:
        return True
    if a.startswith("err ") and b.startswith("err "):
        x, y = unhexs(a[4:]), unhexs(b[4:])
        return x.startswith(y) or y.startswith(x)
    if a.startswith("panic ") and b.startswith("panic "):
        site = b.split()[1]
        want = {"50": "too many fileids", "51": "filename too long", "52": "index out of bounds"}.get(site, "?")
        return want in a
    if " wpanic " in (" " + b) and a.startswith("panic "):
        site = b.split("wpanic ")[1].split()[0]
        want = {"50": "too many fileids", "51": "filename too long"}.get(site, "?")
        return want in a
    return False
