"""C19 — progress counts match reality."""
from sched import *

PROP = "C19"
THEOREMS = [tuple(x) for x in json.load(open(os.path.join(VERIF, "lib", "pins", PROP + ".json")))]


def console_counts(run, har, tier="quick", seed=1):
    """the running count the tty console prints is the number of commands on display (started, not finished), whatever the steps'
    `hide_success` / outcome: the real FancyState against Model/Fancy.v and an independent monitor of every status line"""
    import c20
    run.coverage["fancy_console_counts"] = c20.fancy_leg(run, random.Random(seed + 19), tier, har, build_driver())


def summary_leg(run, rng, tier):
    """the closing line and the exit status of the real binary against Cli.summary, the number of commands that completed
    successfully counted independently (each command appends to a log)"""
    import tempfile, shutil
    n2, out_ = build_n2_binary()
    if n2 is None:
        run.tie("n2 build", out_[-1000:])
        return
    drv = build_driver()
    cases = []
    for n in [0, 1, 2, 3, 7, 12] + ([25, 101] if tier == "thorough" else []):
        for failing in (False, True):
            cases.append((n, failing))
    want = run_lines([drv, "summary"], ["none" if f else str(n) for n, f in cases])
    d0 = tempfile.mkdtemp(prefix="n2verif-c19s-%d-" % os.getpid())
    try:
        for (n, failing), w in zip(cases, want):
            d = os.path.join(d0, "p%d%d" % (n, failing))
            os.makedirs(d)
            lines = ["rule ok", "  command = echo x >> ran.log && touch $out", "rule bad", "  command = false"]
            lines += ["build o%d: ok" % i for i in range(n)]
            if failing:
                lines.append("build z: bad " + " ".join("o%d" % i for i in range(n)))       # fails after everything else succeeded
            open(os.path.join(d, "build.ninja"), "w").write("\n".join(lines) + "\n")
            p = subprocess.run([n2, "-j", str(rng.choice([1, 3]))], cwd=d, stdout=subprocess.PIPE, stderr=subprocess.STDOUT, stdin=subprocess.DEVNULL, timeout=120, env=ENV)
            ran = len(open(os.path.join(d, "ran.log")).read().split()) if os.path.exists(os.path.join(d, "ran.log")) else 0
            txt, code = w.rsplit(" ", 1)
            txt = unhexs(txt)
            last = p.stdout.split(b"\n")[-2] + b"\n" if p.stdout.count(b"\n") else b""
            where = {"suite": "summary", "successful_commands": ran, "failing_step": failing, "stdout_tail": p.stdout[-200:].decode("utf-8", "replace"), "rc": p.returncode}
            if ran != n:
                run.report_failure(None, "%d commands were to succeed, %d did" % (n, ran), where)
            elif p.returncode != int(code) or (txt and last != txt) or (not txt and (b"n2: ran" in p.stdout or b"no work to do" in p.stdout)):
                run.report_failure(None, "%d commands completed successfully%s: n2 ends with %r and exit status %d; expected %r and %s"
                                   % (n, " and one failed" if failing else "", last, p.returncode, txt, code), where)
            # a second invocation of a successful build: zero commands, `no work to do`
            if not failing:
                p2 = subprocess.run([n2], cwd=d, stdout=subprocess.PIPE, stderr=subprocess.STDOUT, stdin=subprocess.DEVNULL, timeout=120, env=ENV)
                if p2.returncode != 0 or not p2.stdout.endswith(b"n2: no work to do\n"):
                    run.report_failure(None, "a repeated build runs no command but ends with %r (exit %d)" % (p2.stdout[-60:], p2.returncode), where)
    finally:
        shutil.rmtree(d0, ignore_errors=True)
    run.coverage["summary_line_cases"] = len(cases)


def main(tier, seed, replay=None):
    def probes(run, har):
        console_counts(run, har, tier, seed)
        summary_leg(run, random.Random(seed + 191), tier)

    return sched_check(PROP, THEOREMS, tier, seed, [monitor_c19], extra_modules=["Model.All", "Proofs.SchedSpec", "Proofs.SchedInv", "Proofs.SchedLive", "Proofs.SchedRunThms"],
                       replay=replay, scen_gen=gen_sched_or_regen, probes=probes)
