"""C19 — progress counts match reality."""
from sched import *

PROP = "C19"
THEOREMS = [tuple(x) for x in json.load(open(os.path.join(VERIF, "lib", "pins", PROP + ".json")))]


def console_counts(run, har, tier="quick", seed=1):
    """the running count the tty console prints is the number of commands on display (started, not finished), whatever the steps'
    `hide_success` / outcome: the real FancyState against Model/Fancy.v and an independent monitor of every status line"""
    import c20
    run.coverage["fancy_console_counts"] = c20.fancy_leg(run, random.Random(seed + 19), tier, har, build_driver())


def main(tier, seed, replay=None):
    probes = (lambda run, har: console_counts(run, har, tier, seed))
    return sched_check(PROP, THEOREMS, tier, seed, [monitor_c19], extra_modules=["Model.All", "Proofs.SchedSpec", "Proofs.SchedInv", "Proofs.SchedLive", "Proofs.SchedRunThms"],
                       replay=replay, scen_gen=gen_sched_or_regen, probes=probes)
