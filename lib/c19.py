"""C19 — progress counts match reality."""
from sched import *

PROP = "C19"
THEOREMS = [tuple(x) for x in json.load(open(os.path.join(VERIF, "lib", "pins", PROP + ".json")))]


def main(tier, seed, replay=None):
    return sched_check(PROP, THEOREMS, tier, seed, [monitor_c19], extra_modules=["Model.All", "Proofs.SchedSpec", "Proofs.SchedInv", "Proofs.SchedLive", "Proofs.SchedRunThms"],
                       replay=replay, scen_gen=gen_sched_or_regen)
