"""World-level replay (verdicts, records, log) and history scenarios for C02 C03 C09 C17."""
import random

from common import *
import sched as S
from sched import hx


def raw_phases(inv):
    """[(reloaded, [events incl. write_/deps_])] split like Inv.phases()"""
    out, cur, reloaded = [], None, False
    for e in inv.trace:
        if e in ("regen_begin", "main_begin"):
            cur = {"reloaded": reloaded, "events": [], "kind": e}
            out.append(cur)
        elif e == "reload":
            reloaded = True
        elif cur is not None:
            cur["events"].append(e)
    return out


def wgraph_tokens(g):
    toks = ["WG", str(len(g.builds))]
    for b in g.builds:
        toks += ["B", str(len(b["ins"]))] + [hx(g.files[i]["name"]) for i in b["ins"]]
        toks += [str(b["explicit"]), str(b["implicit"]), str(b["order_only"]), str(len(b["outs"]))]
        toks += [hx(g.files[i]["name"]) for i in b["outs"]]
        toks.append("n" if b["cmd"] is None else "c" + hexs(b["cmd"]))
        toks.append("n" if b["rsp"] is None else "r%s:%s" % (hexs(b["rsp"][0]), hexs(b["rsp"][1])))
    return toks


def world_line(inv, adopt, locs=False):
    """driver 'world' input for one invocation (None if the manifest did not load); locs: the `file:line` of every step
    after each phase's events (driver suite 'explain')"""
    if not inv.graphs or inv.graphs[0].error:
        return None
    toks = ["FS", str(len(inv.files0))]
    for n, (mt, _) in sorted(inv.files0.items()):
        toks += [hx(n), str(mt)]
    toks += ["DB", "none" if inv.db0 is None else hexs(inv.db0)]
    phs = raw_phases(inv)
    # a reload starts a new Work: merge the regen phase and the main phase when there is no reload
    groups = []
    for ph in phs:
        if groups and not ph["reloaded"]:
            groups[-1]["events"] += ph["events"]
        elif groups and ph["reloaded"] and not groups[-1]["reloaded_group"]:
            groups.append({"reloaded_group": True, "events": list(ph["events"])})
        elif not groups:
            groups.append({"reloaded_group": False, "events": list(ph["events"])})
        else:
            groups[-1]["events"] += ph["events"]
    for gi, grp in enumerate(groups):
        g = inv.graphs[-1] if grp["reloaded_group"] else inv.graphs[0]
        if g.error:
            break
        evs = []
        pending_deps = {}
        last_finish = None
        awaiting = None        # step whose record / no-record decision is pending
        for e in grp["events"]:
            p = e.split("_")
            if p[0] == "write":
                evs.append("w %s %s" % (p[1], p[2]))
            elif p[0] == "deps":
                pending_deps[int(p[1])] = p[2]
            elif p[0] == "dirty":
                b = int(p[1])
                v = 0 if p[2] == "false" else (1 if p[2] == "true" else 2)
                evs.append("v %d %d" % (b, v))
                if adopt and v == 1:
                    evs.append("a %d" % b)
                    awaiting = b
            elif p[0] == "finish":
                b, t = int(p[1]), int(p[2])
                evs.append("f %d %d %s" % (b, t, pending_deps.pop(b, "~")))
                awaiting = b if t == 0 else None
            elif p[0] == "record":
                evs.append("r %s %x" % (p[1], int(p[2])))
                awaiting = None
            elif p[0] == "set" and awaiting is not None and int(p[1]) == awaiting and p[3] == "Done":
                evs.append("nr %d" % awaiting)
                awaiting = None
        toks += ["PHASE", "1" if grp["reloaded_group"] else "0"] + wgraph_tokens(g) + ["EV", str(len(evs))] + evs
        if locs:
            toks += ["LOC", str(len(g.locs))] + [hexs(l) for l in g.locs]
    return " ".join(toks)


def explain_world(drv, items):
    """items: list of (inv, adopt) that ran with `-d explain` -> per item the model's [(step, [messages])] or None"""
    lines, idx = [], []
    for i, (inv, adopt) in enumerate(items):
        l = world_line(inv, adopt, locs=True)
        if l is not None:
            lines.append(l)
            idx.append(i)
    res = run_lines_sharded([drv, "explain"], lines)
    out = [None] * len(items)
    for i, r in zip(idx, res):
        if not r.startswith("ok"):
            out[i] = r
            continue
        ex = []
        for ent in r[2:].split():
            b, _, msgs = ent.partition(":")
            ex.append((int(b), [unhexs(m) for m in msgs.split(",")] if msgs else []))
        out[i] = ex
    return out


def check_explain(run, where, inv, model):
    """what `-d explain` logged, verdict by verdict, against Model/Explain.v; plus monitors on the messages themselves"""
    if model is None:
        return True
    if isinstance(model, str):
        run.tie("explain replay: %s" % model[:80], where)
        return False
    got = inv.explained
    if inv.stray_logs:
        run.tie("messages logged outside a dirtiness check", dict(where, messages=[m.decode("utf-8", "replace")[:120] for m in inv.stray_logs]))
        return False
    if got != model:
        k = next((i for i, (a, b) in enumerate(zip(got, model)) if a != b), min(len(got), len(model)))
        run.tie("`-d explain` messages differ from the model's at verdict %d" % k,
                dict(where, implementation=repr(got[k:k + 1])[:500], model=repr(model[k:k + 1])[:500]))
        return False
    return True


def replay_world(drv, items):
    """items: list of (inv, adopt) -> list of result strings (or None)"""
    lines, idx = [], []
    for i, (inv, adopt) in enumerate(items):
        l = world_line(inv, adopt)
        if l is not None:
            lines.append(l)
            idx.append(i)
    res = run_lines_sharded([drv, "world"], lines)
    out = [None] * len(items)
    for i, r in zip(idx, res):
        out[i] = r
    return out


def check_world(run, where, inv, res):
    """compare the model's replay with the implementation; True if consistent"""
    if res is None:
        return True
    body, _, log = res.partition(" log=")
    parts = [p.strip() for p in body.split("|")]
    ok = True
    for p in parts:
        if p == "ok":
            continue
        if p.startswith("loaderr") and inv.result.startswith("err:"):
            if unhexs(p.split()[1]) in unhexs(inv.result[4:]) or True:
                continue
        run.tie("world replay (verdicts / records / log): %s" % p[:60], dict(where, world=res[:300]))
        ok = False
        break
    if ok and all(p == "ok" for p in parts) and not inv.result.startswith("panic"):
        mlog = unhexs(log.strip() or "-")
        if inv.db and mlog != inv.db:
            run.tie("the build log written differs from the model's", dict(where, model_log=hexs(mlog)[:400], real_log=hexs(inv.db)[:400]))
            ok = False
    return ok


# ----------------------------------------------------------------------------------------
# history generator


def gen_project(rng, nmax=7, with_deps=True, with_regen=False, with_pools=False):
    """a DAG project without phony-as-input; returns (manifest_text, info)"""
    n = rng.randint(1, nmax)
    pools = []
    if with_pools and rng.random() < 0.7:
        pools = [["p%d" % i, rng.choice([1, 2, 3])] for i in range(rng.randint(1, 2))]
    sources = ["s%d.c" % i for i in range(rng.randint(1, 3))]
    headers = ["h%d.h" % i for i in range(3)]
    builds = []
    outs_all = []
    for i in range(n):
        outs = ["o%d" % i] + (["o%d.x" % i] if rng.random() < 0.2 else [])
        iouts = ["o%d.side" % i] if rng.random() < 0.2 else []          # an implicit output (`build o | o.side: ...`), written by the command too
        prev = [o for os_ in outs_all for o in os_]
        ex = [rng.choice(sources + prev) for _ in range(rng.randint(1, 2))]
        im = [rng.choice(headers + prev)] if rng.random() < 0.3 else []
        oo = [rng.choice(prev)] if prev and rng.random() < 0.25 else []
        if rng.random() < 0.2:
            oo.append(rng.choice(headers))         # a plain file as order-only input (it may also be reported as a dependency, and vanish)
        opts = []
        depsrc = None
        if with_deps and rng.random() < 0.5:
            srcs = [e for e in ex if e in sources]
            if srcs:
                depsrc = srcs[0]
                opts.append("depsfrom=%s" % depsrc)
        if rng.random() < 0.15:
            opts.append("restat")
        builds.append({"outs": outs, "iouts": iouts, "ex": ex, "im": im, "oo": oo, "opts": opts, "tag": "t%d" % i, "msvc": rng.random() < 0.25,
                       "pool": rng.choice(pools)[0] if pools and rng.random() < 0.7 else None})
        outs_all.append(outs + iouts)
    # some outputs live in a directory and have dot-less names; consumers may spell them with a doubled separator
    if rng.random() < 0.5:
        ren = {}
        for b in builds:
            if rng.random() < 0.35:
                for o in b["outs"]:
                    ren[o] = "gen/" + o.replace(".", "_")
        if ren:
            for b in builds:
                b["outs"] = [ren.get(o, o) for o in b["outs"]]
                b["iouts"] = [ren.get(o, o) for o in b.get("iouts", [])]
                for k in ("ex", "im", "oo"):
                    b[k] = [ren.get(x, x) for x in b[k]]
            outs_all = [[ren.get(o, o) for o in os_] for os_ in outs_all]
    regen_oo = with_regen is True and rng.random() < 0.4
    if regen_oo:
        # the generator's generated input is shared with ordinary steps (which may have further generated inputs)
        for b in builds:
            if rng.random() < 0.4:
                b[rng.choice(["im", "oo", "ex"])].append("cfgstamp")
    info = {"builds": builds, "sources": sources, "headers": headers, "outs_all": outs_all, "regen": with_regen, "pools": pools,
            "regen_last": bool(with_regen) and rng.random() < 0.5, "regen_oo": regen_oo, "regen_dep_kind": rng.choice(["||", "|", ""]),
            "default": [rng.choice(outs_all)[0]] if with_regen and rng.random() < 0.4 else None}
    return manifest_text(info), info


def manifest_text(info):
    lines = ["rule r", "  command = cmd $tag $out $opts"]
    if any(b.get("msvc") for b in info["builds"]):
        lines += ["rule rm", "  command = cmd $tag $out $opts", "  deps = msvc"]     # same command, dependencies arrive as /showIncludes notes
    for pn, pd in info.get("pools", []):
        lines += ["pool %s" % pn, "  depth = %d" % pd]
    if info.get("regen") == "include":
        pass      # the regeneration statement lives in the wrapper (wrapper_text); this text is rules.ninja
    regen_block = []
    if info.get("regen") and info.get("regen") != "include":
        regen_block = ["rule regen", "  command = cmd regen gen=manifest.in",
                       "build build.ninja: regen manifest.in" + (" %s cfgstamp" % info.get("regen_dep_kind", "||") if info.get("regen_oo") else "")]
        if info.get("regen_oo"):
            regen_block += ["build cfgstamp: r cfg.src", "  tag = cfg"]
        if not info.get("regen_last"):
            lines += regen_block
    def sp(x):
        # deterministic per name, so that regenerated manifests keep their spelling: every other gen/ input is written gen//
        return x.replace("gen/", "gen//") if x.startswith("gen/") and sum(map(ord, x)) % 2 == 0 else x
    for b in info["builds"]:
        l = "build %s%s: %s %s" % (" ".join(b["outs"]), (" | " + " ".join(b["iouts"])) if b.get("iouts") else "",
                                   "rm" if b.get("msvc") else "r", " ".join(sp(x) for x in b["ex"]))
        if b["im"]:
            l += " | " + " ".join(sp(x) for x in b["im"])
        if b["oo"]:
            l += " || " + " ".join(sp(x) for x in b["oo"])
        lines.append(l)
        lines.append("  tag = %s" % b["tag"])
        if b.get("pool"):
            lines.append("  pool = %s" % b["pool"])
        if b["opts"]:
            lines.append("  opts = %s" % " ".join(b["opts"]))
    if regen_block and info.get("regen_last"):
        lines += regen_block
    if info.get("default"):
        lines.append("default " + " ".join(info["default"]))
    return "\n".join(lines) + "\n"


WRAPPER = ("rule regen\n  command = cmd regen gen=wrapper.in gen1=rules.in restat\n"
           "build build.ninja rules.ninja: regen rules.in\ninclude rules.ninja\n")


def respell_path(rng, p):
    """another spelling of the relative path p (same location lexically)"""
    r = rng.random()
    if r < 0.3:
        return "./" + p
    if r < 0.5:
        return ".//" + p
    if r < 0.8:
        return "%s/../%s" % (rng.choice(["zz", "inc", "a.b"]), p)
    return "./q/.././" + p


def src_content(rng, headers):
    inc = rng.sample(headers, rng.randint(0, 2))
    extra = []
    if rng.random() < 0.3:
        extra.append(respell_path(rng, rng.choice(headers)))          # another spelling
        if rng.random() < 0.3:
            extra.append(respell_path(rng, rng.choice(headers)))
    if rng.random() < 0.1:
        extra.append("missing_%d.h" % rng.randint(0, 2))   # reported but absent
    return "".join("#include %s\n" % h for h in inc + extra) + "// v%d\n" % rng.randint(0, 999)


def gen_history(rng, nmax=6, with_regen=False, ninv=None, with_pools=False, with_restat=False):
    """returns (steps(list of str), invs(list of meta), state per invocation for the clean-build oracle)"""
    text, info = gen_project(rng, nmax=nmax, with_regen=with_regen, with_pools=with_pools)
    files = {}
    steps = []

    def put(name, content):
        files[name] = content
        steps.append("file %s %s" % (hx(name), hx(content)))

    if with_regen == "include":
        put("wrapper.in", WRAPPER)
        put("rules.in", text)
        put("rules.ninja", text)
        put("build.ninja", WRAPPER)
    else:
        if with_regen:
            put("manifest.in", text)
        put("build.ninja", text)
    for s in info["sources"]:
        put(s, src_content(rng, info["headers"]))
    for h in info["headers"]:
        put(h, "// h v0\n")
    if info.get("regen_oo"):
        put("cfg.src", "cfg v0\n")
    mspell = rng.choice([None, None, None, "./build.ninja", ".//build.ninja"]) if with_regen else None
    invs = []
    outs_flat = [o for os_ in info["outs_all"] for o in os_]
    ninv = ninv or rng.randint(2, 5)
    after_restat = None
    for r in range(ninv):
        new_target = None
        if r > 0 and after_restat is None:
            for _ in range(rng.randint(0, 3)):
                c = rng.random()
                if c < 0.25:
                    s = rng.choice(info["sources"])
                    put(s, src_content(rng, info["headers"]))
                elif c < 0.45:
                    h = rng.choice(info["headers"])
                    put(h, "// h v%d\n" % rng.randint(1, 999))
                elif c < 0.52:
                    steps.append("touch %s" % hx(rng.choice(info["sources"] + info["headers"])))
                elif c < 0.55:
                    gone = rng.choice(info["headers"])                           # a (possibly reported) header disappears
                    steps.append("del %s" % hx(gone))
                    files.pop(gone, None)
                elif c < 0.75:
                    steps.append("del %s" % hx(rng.choice(outs_flat)))
                elif c < 0.85:
                    # edit the manifest: change a step's tag (command text) or add/remove an order-only edge
                    b = rng.choice(info["builds"])
                    if with_pools and rng.random() < 0.25:
                        # a pool that only the edited (possibly regenerated) manifest declares; a step moves into it and is made dirty
                        pn = "np%d" % len(info["pools"])
                        info["pools"].append([pn, rng.choice([1, 2])])
                        for bb in rng.sample(info["builds"], min(len(info["builds"]), rng.randint(1, 2))):
                            bb["pool"] = pn
                            bb["tag"] = "t%d" % rng.randint(100, 999)
                    elif info.get("pools") and rng.random() < 0.4:
                        pl = rng.choice(info["pools"])
                        pl[1] = rng.choice([d for d in (1, 2, 3) if d != pl[1]])
                        # make the pool's members dirty so that the new depth matters in this very invocation
                        for bb in info["builds"]:
                            if bb.get("pool") == pl[0]:
                                bb["tag"] = "t%d" % rng.randint(100, 999)
                    elif rng.random() < 0.5:
                        b["tag"] = "t%d" % rng.randint(100, 999)
                    elif rng.random() < 0.5:
                        # the step stops (or starts) reporting dependencies: its command no longer names a dependency source
                        had = [o for o in b["opts"] if o.startswith("depsfrom=")]
                        if had:
                            b["opts"] = [o for o in b["opts"] if not o.startswith("depsfrom=")]
                        else:
                            srcs = [e for e in b["ex"] if e in info["sources"]]
                            if srcs:
                                b["opts"] = b["opts"] + ["depsfrom=%s" % srcs[0]]
                    elif b["oo"]:
                        b["oo"] = []
                    text = manifest_text(info)
                    if with_regen == "include":
                        put("rules.in", text)
                    elif with_regen:
                        put("manifest.in", text)
                    else:
                        put("build.ninja", text)
                elif c < 0.9:
                    if rng.random() < 0.5:
                        steps.append("touch %s" % hx(rng.choice(outs_flat)))
                    else:
                        o_ = rng.choice(outs_flat)                     # an output (explicit or implicit) overwritten behind n2's back
                        steps.append("file %s %s" % (hx(o_), hx("garbage %d\n" % rng.randint(0, 999))))
                elif with_regen and rng.random() < 0.5:
                    # structural edit through the generator's template: toggle an extra step at the front
                    if info["builds"] and info["builds"][0].get("extra"):
                        info["builds"].pop(0)
                        info["outs_all"].pop(0)
                    else:
                        k_ = rng.randint(0, 99)
                        info["builds"].insert(0, {"outs": ["x%d" % k_, "x%d.aux" % k_], "ex": [rng.choice(info["sources"])], "im": [], "oo": [],
                                                  "opts": [], "tag": "x", "extra": True})
                        info["outs_all"].insert(0, ["x%d" % k_, "x%d.aux" % k_])
                        if rng.random() < 0.5:
                            new_target = "x%d" % k_        # ask, in this very invocation, for what only the regenerated text declares
                    outs_flat[:] = [o for os_ in info["outs_all"] for o in os_]
                    text = manifest_text(info)
                    put("rules.in" if with_regen == "include" else "manifest.in", text)
                elif info.get("regen_oo"):
                    put("cfg.src", "cfg v%d\n" % rng.randint(1, 999))
                elif info.get("default") and with_regen:
                    # change the default target (through the generator's template)
                    info["default"] = [rng.choice(info["outs_all"])[0]]
                    text = manifest_text(info)
                    put("rules.in" if with_regen == "include" else "manifest.in", text)
        j = rng.choice([1, 2, 3])
        k = rng.choice([None, None, 1, 2])
        targets = [] if rng.random() < 0.6 else [rng.choice(outs_flat) for _ in range(rng.randint(1, 2))]
        if targets and rng.random() < 0.3:
            targets = [respell_path(rng, t) if rng.random() < 0.6 else t for t in targets]     # the command line spells them differently
        if with_regen and rng.random() < 0.08:
            targets = ["build.ninja"]
        if new_target:
            targets = [new_target] + targets[:1]
        adopt = False
        if after_restat is not None:
            targets, after_restat = after_restat, None       # right after `-t restat`: the same request, nothing edited -> nothing to do
        elif with_restat and r > 0 and r + 1 < ninv and rng.random() < 0.12:
            adopt, after_restat = True, list(targets)        # `-t restat`: the present state counts as up to date, no command runs
            # give it something to adopt: the generator's template (when there is one) or a source has just been touched
            steps.append("touch %s" % hx(("rules.in" if with_regen == "include" else "manifest.in") if with_regen else rng.choice(info["sources"])))
        script = S.gen_script(rng, rng.randint(0, 8), fail_rate=rng.choice([0, 0, 0, 0.2]), interrupt_rate=rng.choice([0, 0, 0.05]))
        steps.append(S.inv_cmd(j, k, adopt, targets, script, manifest=mspell))
        invs.append({"j": j, "k": k, "adopt": adopt, "targets": targets, "files": dict(files), "nsteps": len(steps), "manifest": mspell})
    return steps, invs, info


def gen_history_gendep(rng):
    """a step whose *reported* dependency is the output of another step it has no declared path to (a generated header that is
    only discovered): recorded by an earlier run, then generator and an ordering input of the step both dirty, several jobs, any
    completion order.  Discovered dependencies must not change build order, block, or abort the invocation (C09, C06)."""
    kind = rng.choice(["|", "||", ""])                 # how the step declares its generated ordering input
    nextra = rng.randint(0, 2)
    lines = ["rule r", "  command = cmd $tag $out $opts", "rule rm", "  command = cmd $tag $out $opts", "  deps = msvc"]
    tags = {"g": "tg0", "p": "tp0", "s": "ts0"}
    def text():
        l = list(lines)
        l += ["build gen.h: r gen.in", "  tag = %s" % tags["g"]]
        l += ["build p: r p.in", "  tag = %s" % tags["p"]]
        l += ["build s.o: %s s.c %s p" % (rule, kind) if kind else "build s.o: %s s.c p" % rule, "  tag = %s" % tags["s"], "  opts = depsfrom=s.c"]
        for i in range(nextra):
            l += ["build x%d: r %s" % (i, rng.choice(["s.o", "gen.h", "p", "x.in"])), "  tag = x%d" % i]
        return "\n".join(l) + "\n"
    rule = rng.choice(["r", "rm"])
    files, steps = {}, []
    def put(name, content):
        files[name] = content
        steps.append("file %s %s" % (hx(name), hx(content)))
    put("build.ninja", text())
    put("s.c", "#include gen.h\n" + ("#include h0.h\n" if rng.random() < 0.5 else "") + "// v0\n")
    for n in ("gen.in", "p.in", "x.in", "h0.h"):
        put(n, n + " v0\n")
    invs = []
    def inv(j, targets, nscript, fail=0.0):
        script = S.gen_script(rng, nscript, fail_rate=fail, interrupt_rate=0)
        steps.append(S.inv_cmd(j, None, False, targets, script))
        invs.append({"j": j, "k": None, "adopt": False, "targets": targets, "files": dict(files), "nsteps": len(steps), "manifest": None})
    # first builds: gen.h before s.o (so that the report names an existing file and the step is recorded)
    inv(1, ["gen.h"], 0)
    inv(rng.choice([1, 2, 3]), [], rng.randint(0, 4))
    if rng.random() < 0.5:
        inv(rng.choice([1, 2]), [], 0)                                         # a null build in between
    for r in range(rng.randint(1, 3)):
        # generator and the ordering input's producer both dirty (sometimes only one of them)
        c = rng.random()
        if c < 0.7 or r == 0:
            put("gen.in", "gen.in v%d\n" % rng.randint(1, 999))
            put("p.in", "p.in v%d\n" % rng.randint(1, 999))
        elif c < 0.85:
            put("gen.in", "gen.in v%d\n" % rng.randint(1, 999))
        else:
            put("p.in", "p.in v%d\n" % rng.randint(1, 999))
        if rng.random() < 0.2:
            put("s.c", "#include gen.h\n// v%d\n" % rng.randint(1, 999))
        inv(rng.choice([2, 2, 3, 4]), rng.choice([[], [], ["s.o"], ["s.o", "gen.h"]]), rng.randint(0, 6), fail=rng.choice([0, 0, 0.2]))
    return steps, invs, {"builds": [], "gendep": True}


def clean_scenario(meta):
    """a from-scratch build of the sources as they were at that invocation"""
    steps = ["file %s %s" % (hx(n), hx(c)) for n, c in meta["files"].items()]
    steps.append(S.inv_cmd(meta["j"], None, False, meta["targets"], "-", manifest=meta.get("manifest")))
    return "\n".join(steps)
