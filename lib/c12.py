"""C12 — any input is either loaded or rejected with a diagnostic."""
import itertools
import random

from common import *

PROP = "C12"
THEOREMS = [tuple(x) for x in json.load(open(os.path.join(VERIF, "lib", "pins", PROP + ".json")))]

TOKENS = ["build", "rule", "pool", "default", "include", "subninja", "x", "command", "depth", " ", "\n", ":", "|", "@", "$", "=", "{",
          "}", "#", "é", "\0", "\r", "3", "."]

VALID = [
    "rule cc\n  command = gcc $in -o $out\n  description = CC $out\nbuild a.o: cc a.c | b.h || gen |@ val\n  x = 1\ndefault a.o\n",
    "x = 3\ny = ${x}y$x.z\npool p\n  depth = 2\nrule r\n  command = c $\n    d\n  pool = p\nbuild o1 o2 | o3: r i1$ i2 $:c\nbuild all: phony o1\n",
    "# comment\nrule r\n  command = é 日本 $out\n  rspfile = $out.rsp\n  rspfile_content = $in\nbuild ./out/../x: r ../y\n",
    "include sub.ninja\nsubninja sub.ninja\nbuild q: phony\n",
]
SUB = "rule s\n  command = s\nbuild subout: s\n"

PANIC_TEXT = {
    "panic 0": ["!path.is_empty()"], "panic 1": ["too many path components"],
    "panic 20": ["back at start"], "panic 21": ["scanned past end"], "panic 22": ["nul-terminated"],
    "panic 23": ["char boundary", "char_boundary"], "panic 24": ["invalid offset"], "panic 60": ["abort", "overflow"],
    "oob 20": ["abort", "unsafe precondition", "scanned past end"], "oob 21": ["abort", "unsafe precondition", "slice index"],
}


def gen_cases(tier, rng):
    cases = []
    maxtok = 4 if tier == "quick" else 5
    for n in range(0, maxtok + 1):
        for t in itertools.product(TOKENS, repeat=n):
            cases.append("".join(t).encode())
    n_exh = len(cases)
    # binding / statement tails at end of file (every prefix of the valid manifests)
    for v in VALID:
        b = v.encode()
        for k in range(len(b) + 1):
            cases.append(b[:k])
    # mutations
    nm = 4000 if tier == "quick" else 60000
    for _ in range(nm):
        b = bytearray(rng.choice(VALID).encode())
        for _ in range(rng.randint(1, 3)):
            op = rng.random()
            pos = rng.randrange(len(b) + 1)
            if op < 0.3 and b:
                del b[min(pos, len(b) - 1)]
            elif op < 0.6:
                b.insert(pos, rng.choice(b" \n$:|@={}#\0\r\t.x\xc3\xa9"))
            elif op < 0.8 and b:
                b[min(pos, len(b) - 1)] = rng.randrange(256)
            else:
                b[pos:pos] = rng.choice([b"$\n", b"${", b"$ ", b"||", b"|@", b"  ", "日".encode(), b"build ", b"\r\n"])
        cases.append(bytes(b))
    # raw bytes
    for _ in range(1000 if tier == "quick" else 10000):
        cases.append(bytes(rng.randrange(256) for _ in range(rng.randint(1, 30))))
    # long lines with multi-byte text around the excerpt cut points, deep paths, empty expansions
    for _ in range(300 if tier == "quick" else 3000):
        pre = "".join(rng.choice("ab é日") for _ in range(rng.choice([10, 39, 40, 41, 45, 60, 80])))
        cases.append(("build %s: nosuchrule |\n" % pre).encode() if rng.random() < 0.5 else ("x = %s ${\n" % pre).encode())
    cases.append(("rule r\n  command = c\nbuild " + "/".join("d%d" % i for i in range(70)) + ": r\n").encode())
    cases.append(b"rule r\n  command = c\nbuild $empty: r\n")
    cases.append(b"rule r\n  command = c\nbuild a: r $empty\n")
    cases.append(b"x = 3")
    cases.append(b"rule r\n  command = a $\n")
    return cases, n_exh


def main(tier, seed, replay=None):
    run = Run(PROP, tier, seed, "proof")
    rng = random.Random(seed)
    info, problems = proof_gate(PROP, THEOREMS, extra_modules=["Model.All"], thorough=(tier == "thorough"))
    for p in problems:
        run.tie("proof gate", p)
    drv = build_driver()
    har, out = build_harness()
    if har is None:
        run.tie("harness build", out[-2000:])
        return run.finish()
    if replay:
        cases, n_exh = [unhexs(json.load(open(replay))["replay"]["input_hex"])], 0
    else:
        cases, n_exh = gen_cases(tier, rng)
    corpus = os.path.join(VERIF, "corpus", PROP, "cases.txt")
    if os.path.exists(corpus):
        cases = [unhexs(l.split()[0]) for l in open(corpus) if l.strip() and not l.startswith("#")] + cases
    files = "%s %s" % (hexs(b"sub.ninja"), hexs(SUB.encode()))
    h_lines = ["%s %s %s" % (hexs(b"build.ninja"), hexs(c), files) for c in cases]
    # include cycles: a manifest that includes itself, directly or through another file
    cyc = [(b"include build.ninja\n", {b"build.ninja": b"include build.ninja\n"}),
           (b"rule r\n  command = c\nsubninja a.ninja\n", {b"a.ninja": b"build x: r\ninclude b.ninja\n", b"b.ninja": b"subninja a.ninja\n"}),
           (b"include a.ninja\n", {b"a.ninja": b"include a.ninja\n"})]
    for text, fs in cyc:
        cases.append(text)
        h_lines.append("%s %s %s" % (hexs(b"build.ninja"), hexs(text), " ".join("%s %s" % (hexs(k), hexs(v)) for k, v in fs.items())))
    impl = run_lines_sharded([har, "load"], h_lines)
    model = run_lines_sharded([drv, "load"], ["1 " + l for l in h_lines])
    bad = []
    for i, (a, m) in enumerate(zip(impl, model)):
        if a == m:
            continue
        if a.startswith("err 7265616420") and m.startswith("err 7265616420"):
            continue    # "read <path>: <os error>": the oracle file system knows no directories / lossy path display
        if (m.startswith("panic ") or m.startswith("oob ")) and (a.startswith("panic ") or a.startswith("abort")):
            if any(w in a for w in PANIC_TEXT.get(m, [])):
                continue
        bad.append(i)
    for i in bad[:6]:
        run.tie("correspondence loader (parse.rs/load.rs/eval.rs)", {"input_hex": hexs(cases[i]), "input": repr(cases[i])[:200],
                                                                       "implementation": impl[i][:300], "model": model[i][:300]})
    stats = {"ok": 0, "err": 0, "panic": 0, "abort": 0}
    nontrivial = set()
    for c, r in zip(cases, impl):
        kind = r.split(" ", 1)[0]
        stats[kind] = stats.get(kind, 0) + 1
        where = {"input_hex": hexs(c), "input": repr(c)[:300], "result": r[:300]}
        if kind == "ok":
            if b"build" in c:
                nontrivial.add(c)
        elif kind == "err":
            msg = unhexs(r[4:])
            if msg.startswith(b"parse error: "):
                lines = msg.split(b"\n")
                okfmt = len(lines) >= 4 and lines[1].startswith(b"build.ninja:") and lines[-2].rstrip(b"^").strip() == b"" and lines[-2].endswith(b"^")
                okfmt = okfmt or (len(lines) >= 4 and lines[1].startswith(b"sub.ninja:"))
                if not okfmt:
                    run.report_failure(None, "malformed syntax diagnostic %r" % msg[:200], where)
            nontrivial.add(c)
        else:
            cls = None
            if "too many path components" in r:
                cls = "too-many-path-components"
            elif "!path.is_empty()" in r:
                cls = "empty-path"
            elif kind == "abort" or "unsafe precondition" in r or "scanned past end" in r:
                cls = None
            run.report_failure(cls, "manifest %r: no diagnostic, %s" % (c[:80], r[:160]), where)
    run.coverage.update(info)
    run.coverage.update({
        "checker_cmd": "make -C coq theories/Props/C12.vo && coqc Gate_C12.v",
        "trusted_base": TRUSTED_BASE,
        "evaluations": len(cases),
        "distinct_nontrivial": len(nontrivial),
        "rule": "all sequences of 0..%d tokens over %d Ninja tokens (%d, exhaustive), every prefix of 4 valid manifests, byte-level mutants of "
                "them, raw random bytes, long multi-byte lines, deep paths, empty expansions; non-trivial = distinct input that is "
                "rejected with a diagnostic or loads a build statement" % (4 if tier == "quick" else 5, len(TOKENS), n_exh),
        "exhaustive": True,
        "outcomes": stats,
        "model_vs_impl_disagreements": len(bad),
        "samples": [{"input": repr(cases[i])[:120], "impl": impl[i][:120]} for i in rng.sample(range(len(cases)), 6)],
    })
    run.assumptions += ["exit status 1 and the 'n2: error:' prefix are added by main.rs around the message compared here (black-box leg in C16/C18)",
                        "recursion depth of include chains and of very long dependency chains is bounded by the machine stack (F19/F20)"]
    return run.finish()
