"""C12 — any input is either loaded or rejected with a diagnostic."""
import itertools
import random

from common import *

PROP = "C12"
THEOREMS = [tuple(x) for x in json.load(open(os.path.join(VERIF, "lib", "pins", PROP + ".json")))]

TOKENS = ["build", "rule", "pool", "default", "include", "subninja", "x", "command", "depth", " ", "\n", ":", "|", "@", "$", "=", "{",
          "}", "#", "é", "\0", "\r", "3", "."]

VALID = [
    "rule cc\n  command = gcc $in -o $out\n  description = CC $out\nbuild a.o: cc a.c | b.h || gen |@ val\n  x = 1\ndefault a.o\n",
    "x = 3\ny = ${x}y$x.z\npool p\n  depth = 2\nrule r\n  command = c $\n    d\n  pool = p\nbuild o1 o2 | o3: r i1$ i2 $:c\nbuild all: phony o1\n",
    "# comment\nrule r\n  command = é 日本 $out\n  rspfile = $out.rsp\n  rspfile_content = $in\nbuild ./out/../x: r ../y\n",
    "include sub.ninja\nsubninja sub.ninja\nbuild q: phony\n",
]
SUB = "rule s\n  command = s\nbuild subout: s\n"

PANIC_TEXT = {
    "panic 0": ["!path.is_empty()"], "panic 1": ["too many path components"],
    "panic 20": ["back at start"], "panic 21": ["scanned past end"], "panic 22": ["nul-terminated"],
    "panic 23": ["char boundary", "char_boundary"], "panic 24": ["invalid offset"], "panic 60": ["abort", "overflow"],
    "oob 20": ["abort", "unsafe precondition", "scanned past end"], "oob 21": ["abort", "unsafe precondition", "slice index"],
}


def gen_cases(tier, rng):
    cases = []
    maxtok = 4 if tier == "quick" else 5
    for n in range(0, maxtok + 1):
        for t in itertools.product(TOKENS, repeat=n):
            cases.append("".join(t).encode())
    n_exh = len(cases)
    # binding / statement tails at end of file (every prefix of the valid manifests)
    for v in VALID:
        b = v.encode()
        for k in range(len(b) + 1):
            cases.append(b[:k])
    # mutations
    nm = 4000 if tier == "quick" else 60000
    for _ in range(nm):
        b = bytearray(rng.choice(VALID).encode())
        for _ in range(rng.randint(1, 3)):
            op = rng.random()
            pos = rng.randrange(len(b) + 1)
            if op < 0.3 and b:
                del b[min(pos, len(b) - 1)]
            elif op < 0.6:
                b.insert(pos, rng.choice(b" \n$:|@={}#\0\r\t.x\xc3\xa9"))
            elif op < 0.8 and b:
                b[min(pos, len(b) - 1)] = rng.randrange(256)
            else:
                b[pos:pos] = rng.choice([b"$\n", b"${", b"$ ", b"||", b"|@", b"  ", "日".encode(), b"build ", b"\r\n"])
        cases.append(bytes(b))
    # raw bytes
    for _ in range(1000 if tier == "quick" else 10000):
        cases.append(bytes(rng.randrange(256) for _ in range(rng.randint(1, 30))))
    # long lines with multi-byte text around the excerpt cut points, deep paths, empty expansions
    for _ in range(300 if tier == "quick" else 3000):
        pre = "".join(rng.choice("ab é日") for _ in range(rng.choice([10, 39, 40, 41, 45, 60, 80])))
        cases.append(("build %s: nosuchrule |\n" % pre).encode() if rng.random() < 0.5 else ("x = %s ${\n" % pre).encode())
    cases.append(("rule r\n  command = c\nbuild " + "/".join("d%d" % i for i in range(70)) + ": r\n").encode())
    cases.append(b"rule r\n  command = c\nbuild $empty: r\n")
    cases.append(b"rule r\n  command = c\nbuild a: r $empty\n")
    cases.append(b"x = 3")
    cases.append(b"rule r\n  command = a $\n")
    return cases, n_exh



def target_leg(run, rng, har, drv, tier, stats, prop=None):
    """every target string on the command line: the invocation proceeds or is refused with a diagnostic, never panics;
    the model's target resolution (C12_target_safe is about it) agrees"""
    import sched as S
    alpha = [b"a", b".", b"/", b"\\", b" "]
    targets = [b""]
    for n in range(1, 5 if tier == "quick" else 6):
        for t in itertools.product(alpha, repeat=n):
            targets.append(b"".join(t))
    targets += [b"out/gen", b"out/gen/", b"./out//gen", b"out/x/../gen", b"\xc3\xa9", "日本/é".encode(), b"a\0b", b"a\nb", b"$out", b"a" * 5000,
                b"/".join([b"d%d" % i for i in range(59)]), b"/".join([b"d%d" % i for i in range(70)]), b"../" * 30 + b"a", b"a/" * 40 + b"../" * 40 + b"a"]
    # nodes whose names end in a separator are nodes of their own (`a/` is not `a`): phony, so that nothing has to write them
    man = "rule r\n  command = cmd x $out\nbuild out/gen: r in\nbuild a: r in\nbuild a/b: r in\nbuild a/: phony in\nbuild out/gen/: phony in\ndefault a\n"
    declared = [b"out/gen", b"a", b"a/b", b"a/", b"out/gen/"]
    import c13 as P
    def key(t):
        return (P.py_sem(t), P.py_dirlike(t))
    dkeys = {key(d): i for i, d in enumerate(declared)}
    scens, metas = [], []
    for t in targets:
        names = [t] if rng.random() < 0.7 else rng.choice([[b"a", t], [t, b"a"], [t, t]])
        if t == b"":
            names = [b"", b"a"]          # (a lone empty name cannot be told from "no targets" in the scenario encoding)
        scens.append("\n".join(["file %s %s" % (S.hx("build.ninja"), S.hx(man)), "file %s %s" % (S.hx("in"), S.hx("v")),
                                 S.inv_cmd(1, None, False, names, "-")]))
        metas.append(names)
    reps = S.run_histories(har, scens)
    items = []
    for sc, names, rep in zip(scens, metas, reps):
        where = {"scenario": sc, "targets": [repr(n) for n in names]}
        if isinstance(rep, str) or not rep:
            cls = "too-many-path-components" if isinstance(rep, str) and "too many path components" in rep else None
            run.report_failure(cls, "command-line targets %r: n2 did not return (%s)" % ([n[:40] for n in names], str(rep)[:160]), where)
            continue
        inv = rep[0]
        kind = inv.result.split(":")[0]
        stats["target_" + kind] = stats.get("target_" + kind, 0) + 1
        if kind == "panic":
            msg = unhexs(inv.result[6:]).decode("utf-8", "replace")
            cls = "too-many-path-components" if "too many path components" in msg else None
            run.report_failure(cls, "command-line targets %r: no diagnostic, panic %s" % ([n[:40] for n in names], msg[:160]), where)
            continue
        items.append((sc, inv, names))
        # independent of the model: a name that denotes a declared node (a trailing separator being significant) selects that
        # node's step; a name that denotes none is refused
        # (names written with `/` only: canonicalisation keeps the separator characters it is given, so `a\` is not `a/`)
        plain = [t for t in names if t and len(P.py_comps(t)) <= 60 and b"\0" not in t and b"\n" not in t and b"\\" not in t
                 and any(c not in (b".", b"..") for c in P.py_comps(t))]
        if len(plain) == len(names):
            wanted = {int(e.split("_")[1]) for e in inv.trace if e.startswith("set_") and e.split("_")[2] == "Unknown"}
            hits = [dkeys.get(key(t)) for t in names]
            msg = unhexs(inv.result[4:]).decode("utf-8", "replace") if kind == "err" else ""
            if all(h is not None for h in hits):
                if kind == "err" and "unknown path" in msg:
                    run.report_failure(None, "command-line target %r denotes the declared node %r but is refused: %s"
                                       % (names, [declared[h] for h in hits], msg[:120]), where)
                elif kind in ("ok", "fail") and not set(hits) <= wanted:
                    run.report_failure(None, "command-line targets %r denote the nodes %r; the steps wanted are %r"
                                       % (names, [declared[h] for h in hits], sorted(wanted)), where)
            elif kind != "err":
                run.report_failure(None, "command-line targets %r: %r denotes no node of the manifest, yet the invocation went ahead (%s)"
                                   % (names, [t for t, h in zip(names, hits) if h is None], inv.result[:40]), where)
    sreps = S.replay_invocations(drv, [(inv, 1, None, False, [n.decode("utf-8", "surrogateescape") for n in names]) for _, inv, names in items])
    for (sc, inv, names), srep in zip(items, sreps):
        S.check_acceptance(run, prop or PROP, sc, 0, inv, None, srep)
    stats["target_strings"] = len(targets)
    n2, out_ = build_n2_binary()
    if n2 is None:
        run.tie("n2 build", out_[-1000:])
        return
    import tempfile, shutil
    d = tempfile.mkdtemp(prefix="n2verif-c12-%d-" % os.getpid())
    try:
        open(os.path.join(d, "build.ninja"), "w").write(man.replace("cmd x $out", "touch $out"))
        open(os.path.join(d, "in"), "w").write("v")
        for t in [b"\xff\xfe", b"a\xc3", b"/", b"//", b"\\", b"", b"a//", b"./", b".."]:
            p_ = subprocess.run([n2.encode(), t], cwd=d, stdout=subprocess.PIPE, stderr=subprocess.STDOUT, stdin=subprocess.DEVNULL, timeout=60, env=ENV)
            txt = p_.stdout.decode("utf-8", "replace")
            stats["blackbox_targets"] = stats.get("blackbox_targets", 0) + 1
            if p_.returncode not in (0, 1, 2) or "panicked" in txt or "RUST_BACKTRACE" in txt:
                run.report_failure(None, "n2 %r: exit status %d without a diagnostic: %s" % (t, p_.returncode, txt[-200:]), {"target": repr(t), "output": txt[-400:]})
            elif p_.returncode != 0 and "n2: error:" not in txt and "error:" not in txt.lower():
                run.report_failure(None, "n2 %r: refused without an `n2: error:` diagnostic: %s" % (t, txt[-200:]), {"target": repr(t), "output": txt[-400:]})
    finally:
        shutil.rmtree(d, ignore_errors=True)


def main(tier, seed, replay=None):
    run = Run(PROP, tier, seed, "proof")
    rng = random.Random(seed)
    info, problems = proof_gate_multi([PROP, "C12Depth"], thorough=(tier == "thorough"))
    for p in problems:
        run.tie("proof gate", p)
    drv = build_driver()
    har, out = build_harness()
    if har is None:
        run.tie("harness build", out[-2000:])
        return run.finish()
    if replay:
        cases, n_exh = [unhexs(json.load(open(replay))["replay"]["input_hex"])], 0
    else:
        cases, n_exh = gen_cases(tier, rng)
    corpus = os.path.join(VERIF, "corpus", PROP, "cases.txt")
    if os.path.exists(corpus):
        cases = [unhexs(l.split()[0]) for l in open(corpus) if l.strip() and not l.startswith("#")] + cases
    files = "%s %s" % (hexs(b"sub.ninja"), hexs(SUB.encode()))
    h_lines = ["%s %s %s" % (hexs(b"build.ninja"), hexs(c), files) for c in cases]
    # include cycles: a manifest that includes itself, directly or through another file
    cyc = [(b"include build.ninja\n", {b"build.ninja": b"include build.ninja\n"}),
           (b"rule r\n  command = c\nsubninja a.ninja\n", {b"a.ninja": b"build x: r\ninclude b.ninja\n", b"b.ninja": b"subninja a.ninja\n"}),
           (b"include a.ninja\n", {b"a.ninja": b"include a.ninja\n"}),
           # cycles of two and three files with no build statement on the cycle (nothing else would stop the recursion),
           # through include, subninja and both; through the top-level manifest; in a subdirectory
           (b"include a.ninja\n", {b"a.ninja": b"include b.ninja\n", b"b.ninja": b"include a.ninja\n"}),
           (b"subninja a.ninja\n", {b"a.ninja": b"subninja b.ninja\n", b"b.ninja": b"subninja a.ninja\n"}),
           (b"x = 1\ninclude a.ninja\n", {b"a.ninja": b"y = 2\nsubninja b.ninja\n", b"b.ninja": b"z = 3\ninclude c.ninja\n", b"c.ninja": b"include a.ninja\n"}),
           (b"subninja sub/rules.ninja\n", {b"sub/rules.ninja": b"include build.ninja\n"}),
           (b"include a.ninja\ninclude a.ninja\n", {b"a.ninja": b"include b.ninja\n", b"b.ninja": b"v = 1\n"}),          # a diamond, not a cycle
           (b"include a.ninja\n", {b"a.ninja": b"include ./b.ninja\n", b"b.ninja": b"include x/../a.ninja\n"})]
    # bindings that refer to themselves or to each other, at rule level, at build level and across the two: every one loads
    # (a reference that nothing binds at that point expands to nothing); none may recurse
    R = b"rule r\n"
    for body in [b"  command = a $command\nbuild o: r\n",
                 b"  command = a $description\n  description = b $command\nbuild o: r\n",
                 b"  command = a $extra\nbuild o: r\n  extra = b $command\n",
                 b"  command = a $rspfile\n  rspfile = $out.rsp $rspfile_content\n  rspfile_content = $command\nbuild o: r i\n",
                 b"  command = c $depfile $pool\n  depfile = $out.d $depfile\n  pool = $pool\nbuild o: r\n  pool = $pool\n",
                 b"  command = c $x\nbuild o: r\n  x = $y\n  y = $x\n",
                 b"  command = ${command}${command}\n  description = ${description}\nbuild o | o2: r i | j || k\n  command = $command\n",
                 b"  command = $in $out $in_newline\nbuild $out: r $in\n  in = $out\n  out = $in\n"]:
        cyc.append((R + body, {}))
    cyc.append((b"x = $x\ny = $z\nz = $y\n" + R + b"  command = $x$y$z\nbuild o$x: r\n", {}))
    for text, fs in cyc:
        cases.append(text)
        h_lines.append("%s %s %s" % (hexs(b"build.ninja"), hexs(text), " ".join("%s %s" % (hexs(k), hexs(v)) for k, v in fs.items())))
    impl = run_lines_sharded([har, "load"], h_lines)
    model = run_lines_sharded([drv, "load"], ["1 " + l for l in h_lines])
    bad = []
    for i, (a, m) in enumerate(zip(impl, model)):
        if a == m:
            continue
        if a.startswith("err 7265616420") and m.startswith("err 7265616420"):
            continue    # "read <path>: <os error>": the oracle file system knows no directories / lossy path display
        if (m.startswith("panic ") or m.startswith("oob ")) and (a.startswith("panic ") or a.startswith("abort")):
            if any(w in a for w in PANIC_TEXT.get(m, [])):
                continue
        bad.append(i)
    for i in bad[:6]:
        run.tie("correspondence loader (parse.rs/load.rs/eval.rs)", {"input_hex": hexs(cases[i]), "input": repr(cases[i])[:200],
                                                                       "implementation": impl[i][:300], "model": model[i][:300]})
    stats = {"ok": 0, "err": 0, "panic": 0, "abort": 0}
    nontrivial = set()
    for c, r in zip(cases, impl):
        kind = r.split(" ", 1)[0]
        stats[kind] = stats.get(kind, 0) + 1
        where = {"input_hex": hexs(c), "input": repr(c)[:300], "result": r[:300]}
        if kind == "ok":
            if b"build" in c:
                nontrivial.add(c)
        elif kind == "err":
            msg = unhexs(r[4:])
            if msg.startswith(b"parse error: "):
                lines = msg.split(b"\n")
                okfmt = len(lines) >= 4 and lines[1].startswith(b"build.ninja:") and lines[-2].rstrip(b"^").strip() == b"" and lines[-2].endswith(b"^")
                okfmt = okfmt or (len(lines) >= 4 and lines[1].startswith(b"sub.ninja:"))
                if not okfmt:
                    run.report_failure(None, "malformed syntax diagnostic %r" % msg[:200], where)
            nontrivial.add(c)
        else:
            cls = None
            if "too many path components" in r:
                cls = "too-many-path-components"
            elif "!path.is_empty()" in r:
                cls = "empty-path"
            elif kind == "abort" or "unsafe precondition" in r or "scanned past end" in r:
                cls = None
            run.report_failure(cls, "manifest %r: no diagnostic, %s" % (c[:80], r[:160]), where)
    if not replay:
        target_leg(run, rng, har, drv, tier, stats)
        # every depfile: totality of depfile::parse over short strings (its grammar is C15's subject)
        alpha = [b"a", b" ", b":", b"\\", b"\n"]
        dcases = [b""]
        for n in range(1, 7 if tier == "quick" else 9):
            dcases += [b"".join(t) for t in itertools.product(alpha, repeat=n)]
        dcases += [b"o: a\\", b"o: C:\\x\\", b"o: a \\", b"\\", b"o:\\\r\n a", b"o: \xc3", b"\0", b"o: a\0b\n"]
        dres = run_lines_sharded([har, "depfile"], [hexs(c) for c in dcases])
        stats["depfile_strings"] = len(dcases)
        for c, r in zip(dcases, dres):
            if not (r.startswith("ok") or r.startswith("err")):
                run.report_failure(None, "depfile %r: depfile::parse did not return a result or a diagnostic: %s" % (c[:60], r[:160]),
                                   {"depfile_hex": hexs(c), "result": r[:300]})
    run.coverage.update(info)
    run.coverage.update({
        "checker_cmd": "make -C coq theories/Props/C12.vo && coqc Gate_C12.v",
        "trusted_base": TRUSTED_BASE,
        "evaluations": len(cases),
        "distinct_nontrivial": len(nontrivial),
        "rule": "all sequences of 0..%d tokens over %d Ninja tokens (%d, exhaustive), every prefix of 4 valid manifests, byte-level mutants of "
                "them, raw random bytes, long multi-byte lines, deep paths, empty expansions; non-trivial = distinct input that is "
                "rejected with a diagnostic or loads a build statement" % (4 if tier == "quick" else 5, len(TOKENS), n_exh),
        "exhaustive": True,
        "outcomes": stats,
        "model_vs_impl_disagreements": len(bad),
        "samples": [{"input": repr(cases[i])[:120], "impl": impl[i][:120]} for i in rng.sample(range(len(cases)), 6)],
    })
    run.assumptions += ["exit status 1 and the 'n2: error:' prefix are added by main.rs around the message compared here (black-box leg in C16/C18)",
                        "recursion depth of include chains and of very long dependency chains is bounded by the machine stack (F19/F20)"]
    return run.finish()
