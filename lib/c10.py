"""C10 — manifest syntax is read into exactly the declared graph."""
from frontcheck import *

PROP = "C10"
THEOREMS = ["C10", "C10Load", "C10Incl", "C10InclSpell"]


def main(tier, seed, replay=None):
    return front_check(PROP, THEOREMS, tier, seed, gen_kw=dict(includes=True), replay=replay)
