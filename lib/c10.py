"""C10 — manifest syntax is read into exactly the declared graph."""
from frontcheck import *

PROP = "C10"
THEOREMS = []


def main(tier, seed, replay=None):
    return front_check(PROP, THEOREMS, tier, seed, dict(includes=True), replay=replay)
