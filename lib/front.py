"""Abstract manifests, their concrete spellings, and an independent python statement of what
they mean (Ninja's scoping rules) — shared by C10, C11, C14."""
import posixpath
import random

from common import *

IDENT = "abcdefghijklmnopqrstuvwxyzABCXYZ0123456789_-"


def hx(s):
    if isinstance(s, str):
        s = s.encode()
    return s.hex() if s else "-"


# ---------------------------------------------------------------------------------------
# abstract syntax: values and paths are lists of ("lit", str) | ("var", name)


def rand_name(rng, dots=True):
    n = rng.randint(1, 5)
    s = "".join(rng.choice("abcxyz_") for _ in range(n))
    if dots and rng.random() < 0.2:
        s += "." + rng.choice("cho")
    return s


def rand_value(rng, varnames, path=False, rich=True, may_be_empty=False):
    parts = []
    if may_be_empty and rng.random() < 0.12:
        return []                       # `name =` : bound to the empty string (still shadows an outer binding)
    for _ in range(rng.randint(1, 3)):
        r = rng.random()
        if r < 0.55 or not varnames:
            alphabet = "abcxyz_./-" if path else "abcxyz_./- =|:#"
            t = "".join(rng.choice(alphabet) for _ in range(rng.randint(1, 5)))
            if rich and rng.random() < 0.15:
                t += rng.choice(["é", "日本", "$", " ", ":"]) if not path else rng.choice(["é", "$", " ", ":"])
            if rich and parts and parts[-1][0] == "var" and rng.random() < 0.25:
                t = rng.choice(["é", "日本", "ü"]) + t          # non-ASCII text directly after a `$name` reference
            parts.append(("lit", t))
        else:
            parts.append(("var", rng.choice(varnames)))
    # merge adjacent literals (the parser does)
    out = []
    for p in parts:
        if out and out[-1][0] == "lit" and p[0] == "lit":
            out[-1] = ("lit", out[-1][1] + p[1])
        else:
            out.append(p)
    return out


def gen_abstract(rng, nstmt=None, dup_outputs=False, includes=False, scoping=False, depth=0, file_prefix="inc"):
    varnames = ["v%d" % i for i in range(4)] + ["cflags", "builddir"]
    stmts = []
    rules = []
    outs_used = []
    nstmt = nstmt or rng.randint(2, 9)
    files = {}
    for _ in range(nstmt):
        r = rng.random()
        if r < 0.25:
            stmts.append(("bind", rng.choice(varnames), rand_value(rng, varnames, rich=True, may_be_empty=True)))
        elif r < 0.40 or not rules:
            name = "r%d" % len(rules)
            binds = [("command", rand_value(rng, varnames + ["in", "out", "in_newline", "out_newline"] * 1))]
            for k in rng.sample(["description", "depfile", "pool", "rspfile+", "deps", "hide_success"], rng.randint(0, 3)):
                if k == "rspfile+":
                    binds.append(("rspfile", rand_value(rng, varnames + ["out"], path=True)))
                    binds.append(("rspfile_content", rand_value(rng, varnames + ["in"])))
                elif k == "deps":
                    binds.append(("deps", [("lit", rng.choice(["gcc", "msvc"]))]))
                elif k == "pool":
                    if rng.random() < 0.5:
                        binds.append(("pool", [("lit", rng.choice(["p0", "console"]))]))
                    else:
                        binds.append(("pool", rand_value(rng, varnames, rich=False)))   # e.g. pool = $jobpool, rebound per build
                else:
                    binds.append((k, rand_value(rng, varnames + ["out"], may_be_empty=(k == "description"))))
            rules.append(name)
            stmts.append(("rule", name, binds))
        elif r < 0.48:
            stmts.append(("pool", "p%d" % rng.randint(0, 2), rng.choice([0, 1, 2, 7, 100])))
        elif r < 0.90:
            def paths(n, lo=0):
                return [rand_value(rng, varnames, path=True) for _ in range(rng.randint(lo, n))]
            eo = paths(2, 1)
            io_ = paths(1) if rng.random() < 0.3 else []
            if dup_outputs and rng.random() < 0.5:
                src = eo + io_ + [o for o in outs_used]
                for _ in range(rng.randint(1, 3)):
                    (eo if rng.random() < 0.6 else io_).append(rng.choice(src))
            binds = []
            if rng.random() < 0.4:
                for _ in range(rng.randint(1, 2)):
                    k = rng.choice(varnames + ["command", "description", "pool", "depfile"] + (["in", "out", "in_newline"] if scoping else []))
                    binds.append((k, rand_value(rng, varnames + (["in", "out"] if scoping else []), may_be_empty=True)))
            stmts.append(("build", eo, io_, rng.choice(rules + ["phony"] if rng.random() < 0.2 else rules),
                          paths(2), paths(1) if rng.random() < 0.4 else [], paths(1) if rng.random() < 0.3 else [],
                          paths(1) if rng.random() < 0.2 else [], binds))
            outs_used += eo + io_
        elif r < 0.95 and stmts:
            b = [s for s in stmts if s[0] == "build"]
            if b:
                stmts.append(("default", [rng.choice(b)[1][0]]))
        elif includes:
            fname = "%s%d.ninja" % (file_prefix, len(files))
            # (one time in three the included file includes a further file: scopes chain over more than one level)
            sub, subfiles = gen_abstract(rng, nstmt=rng.randint(1, 5), depth=depth + 1)
            if depth < 2 and rng.random() < 0.35:
                gname = "%s%d_g.ninja" % (file_prefix, len(files))
                gsub, _ = gen_abstract(rng, nstmt=rng.randint(1, 4), depth=depth + 2)
                if rng.random() < 0.5:
                    gsub = [x for x in gsub if x[0] == "bind"] or [("bind", "v1", [("var", "v0"), ("lit", "g")])]
                files[gname] = gsub
                sub.insert(rng.randint(0, len(sub)), (rng.choice(["include", "subninja"]), gname))
            # the included file binds variables and (two times out of three) also declares rules, pools and steps that read the
            # scope in force at the include line; the statements after the line may rebind what the child read
            if rng.random() < 0.33:
                sub = [s for s in sub if s[0] in ("bind",)]
            sub = sub or [("bind", "v0", [("lit", "sub")])]
            files[fname] = sub
            stmts.append((rng.choice(["include", "subninja"]), fname))
    return stmts, files


# ---------------------------------------------------------------------------------------
# spelling


def spell_value(rng, parts, path, plain=False):
    out = ""
    for i, (k, t) in enumerate(parts):
        if k == "lit":
            for ci, ch in enumerate(t):
                if ch == "$":
                    out += "$$"
                elif ch == " " and path:
                    out += "$ "
                elif ch == ":" and path:
                    out += "$:"
                elif ch == " " and not path and out == "" :
                    out += "$ "       # a leading space would be skipped
                else:
                    out += ch
                last_char = (ci == len(t) - 1)
                if not plain and rng.random() < 0.03 and not (path and last_char) and not (last_char and i == len(parts) - 1):
                    # a continuation inside the text; what follows it must not be a (significant) space
                    nxt_ch = t[ci + 1] if not last_char else ""
                    if nxt_ch != " ":
                        out += "$\n" + " " * rng.randint(0, 3)
        else:
            nxt = ""
            if i + 1 < len(parts) and parts[i + 1][0] == "lit":
                nxt = parts[i + 1][1][:1]
            braces = plain is False and rng.random() < 0.4
            if nxt and (nxt in IDENT) :
                braces = True
            if "." in t:
                braces = True
            out += "${%s}" % t if braces else "$%s" % t
    return out


def sp(rng, plain=False):
    if plain:
        return " "
    r = rng.random()
    if r < 0.7:
        return " "
    if r < 0.85:
        return " " * rng.randint(2, 4)
    return " $\n" + " " * rng.randint(0, 4)


def spell(rng, stmts, plain=False):
    lines = []
    for s in stmts:
        if not plain and rng.random() < 0.15:
            lines.append(rng.choice(["", "# a comment", "#", "# costs 5 US$", "# $", "#$$ build x: y"]))
        if s[0] == "bind":
            eq = "=" if plain else rng.choice(["=", " =", "= ", " = ", "  =  "])
            lines.append("%s%s%s" % (s[1], eq, spell_value(rng, s[2], False, plain)))
        elif s[0] == "rule":
            lines.append("rule%s%s" % (sp(rng, plain), s[1]))
            ind = "  " if plain else " " * rng.randint(1, 4)
            for k, v in s[2]:
                lines.append("%s%s = %s" % (ind, k, spell_value(rng, v, False, plain)))
        elif s[0] == "pool":
            lines.append("pool %s" % s[1])
            lines.append("  depth = %d" % s[2])
        elif s[0] == "build":
            _, eo, io_, rule, ei, ii, oo, vv, binds = s
            l = "build"
            for p in eo:
                l += sp(rng, plain) + spell_value(rng, p, True, plain)
            if io_ or (not plain and rng.random() < 0.1):
                l += sp(rng, plain).rstrip(" ") + " |" if False else (sp(rng, plain) + "|")
                for p in io_:
                    l += sp(rng, plain) + spell_value(rng, p, True, plain)
            l += ("" if plain or rng.random() < 0.5 else " ") + ":" + sp(rng, plain) + rule
            for p in ei:
                l += sp(rng, plain) + spell_value(rng, p, True, plain)
            if ii or (not plain and rng.random() < 0.1):
                l += sp(rng, plain) + "|"
                for p in ii:
                    l += sp(rng, plain) + spell_value(rng, p, True, plain)
            if oo or (not plain and rng.random() < 0.1):
                l += sp(rng, plain) + "||"
                for p in oo:
                    l += sp(rng, plain) + spell_value(rng, p, True, plain)
            if vv or (not plain and rng.random() < 0.1):
                l += sp(rng, plain) + "|@"
                for p in vv:
                    l += sp(rng, plain) + spell_value(rng, p, True, plain)
            if not plain and rng.random() < 0.2:
                l += " " * rng.randint(1, 2)
            lines.append(l)
            ind = "  " if plain else " " * rng.randint(1, 4)
            for k, v in binds:
                lines.append("%s%s = %s" % (ind, k, spell_value(rng, v, False, plain)))
        elif s[0] == "default":
            l = "default"
            for p in s[1]:
                l += sp(rng, plain) + spell_value(rng, p, True, plain)
            lines.append(l)
        elif s[0] in ("include", "subninja"):
            lines.append("%s %s" % (s[0], s[1]))
    return "\n".join(lines) + "\n"


# ---------------------------------------------------------------------------------------
# independent semantics (Ninja's rules)


def canon_py(p):
    """lexical canonicalisation for the simple paths the generator produces"""
    if p == "":
        return None
    if p.startswith("/") and ".." in p.split("/"):
        return "?"          # n2 keeps "/.." lexically; not predicted here (covered by C13)
    trail = p.endswith("/") and p != "/"
    n = posixpath.normpath(p)
    if p.startswith("//") and not p.startswith("///"):
        n = n[1:]
    if trail and n not in (".",) and not n.endswith("/"):
        # n2 keeps a trailing separator except when nothing else remains
        last = [c for c in p.split("/") if c not in ("", ".")]
        if last and last[-1] != "..":
            n += "/"
        elif last and last[-1] == "..":
            return "?"      # all-dotdot class (F17): do not predict
    if p.rstrip("/").endswith("/.") or p.rstrip("/").endswith("/..") or p in (".", ".."):
        return "?"
    return n


def expand(parts, scopes):
    """scopes: list of dicts; a dict value is either a str (already evaluated) or a parts list (evaluated in later scopes)"""
    out = ""
    for k, t in parts:
        if k == "lit":
            out += t
        else:
            for i, sc in enumerate(scopes):
                if t in sc:
                    v = sc[t]
                    out += v if isinstance(v, str) else expand(v, scopes[i + 1:])
                    break
    return out


def expected(stmts, files, ninja_include=True):
    """-> dict(builds=[...], pools, defaults, error=None|str) under Ninja's scoping rules.
    ninja_include: an included file extends the including scope (what the property demands)."""
    res = {"builds": [], "pools": [], "defaults": [], "error": None, "uses_include_scope": False}
    rules = {"phony": {}}
    producers = {}

    def run(stmts, scope, fname):
        for s in stmts:
            if res["error"]:
                return
            if s[0] == "bind":
                scope[s[1]] = expand(s[2], [scope])
            elif s[0] == "rule":
                d = {}
                for k, v in s[2]:
                    d[k] = v
                rules[s[1]] = d
            elif s[0] == "pool":
                res["pools"] = [(n, d) for n, d in res["pools"] if n != s[1]] + [(s[1], s[2])] if s[1] not in [n for n, _ in res["pools"]] \
                    else [(n, (s[2] if n == s[1] else d)) for n, d in res["pools"]]
            elif s[0] == "build":
                _, eo, io_, rule, ei, ii, oo, vv, binds = s
                bscope = {}
                for k, v in binds:
                    bscope[k] = v
                pe = lambda p: expand(p, [bscope, scope])
                ins = [pe(p) for p in ei + ii + oo + vv]
                outs = [pe(p) for p in eo + io_]
                if any(x == "" for x in ins + outs):
                    res["error"] = "empty path"
                    return
                cins = [canon_py(x) for x in ins]
                couts = [canon_py(x) for x in outs]
                if "?" in cins + couts:
                    res["error"] = "unpredictable"
                    return
                # duplicates within the statement: kept once
                seen, douts, dexp = [], [], 0
                for i, o in enumerate(couts):
                    if o in seen:
                        continue
                    seen.append(o)
                    douts.append(o)
                    if i < len(eo):
                        dexp += 1
                bid = len(res["builds"])
                for o in douts:
                    if o in producers and producers[o] != bid:
                        res["error"] = "is already an output"
                        return
                    producers[o] = bid
                rl = rules.get(rule)
                if rl is None:
                    res["error"] = "unknown rule"
                    return
                imp = {"in": " ".join(cins[:len(ei)]), "in_newline": "\n".join(cins[:len(ei)]),
                       "out": " ".join(couts[:len(eo)]), "out_newline": "\n".join(couts[:len(eo)])}

                def attr(key):
                    if key in bscope:
                        return expand(bscope[key], [scope])
                    if key in rl:
                        return expand(rl[key], [imp, bscope, scope])
                    return None
                b = {"ins": cins, "ne": len(ei), "ni": len(ii), "no": len(oo), "outs": douts, "eo": dexp,
                     "cmd": attr("command"), "desc": attr("description"), "depfile": attr("depfile"), "pool": attr("pool"),
                     "deps": attr("deps"), "rsp": (attr("rspfile"), attr("rspfile_content")), "hs": attr("hide_success") is not None,
                     "raw_out_dups": len(couts) != len(douts)}
                res["builds"].append(b)
            elif s[0] == "default":
                for p in s[1]:
                    v = expand(p, [scope])
                    if v == "":
                        res["error"] = "empty path"
                        return
                    c = canon_py(v)
                    if c == "?":
                        res["error"] = "unpredictable"
                        return
                    res["defaults"].append(c)
            elif s[0] in ("include", "subninja"):
                child = dict(scope)
                run(files[s[1]], child, s[1])
                if s[0] == "include" and ninja_include:
                    if child != scope:
                        res["uses_include_scope"] = True
                    scope.clear()
                    scope.update(child)
        return scope

    run(stmts, {}, "build.ninja")
    return res


def parse_dump(r):
    """harness/driver 'ok B ...;F ...;P ..;D ..;BD ..' -> dict comparable with expected()"""
    if not r.startswith("ok "):
        return None
    files, builds, pools, defaults, bd = [], [], [], [], None
    for part in r[3:].split(";"):
        w = part.split(" ")
        if w[0] == "B":
            kv = dict(x.split("=", 1) for x in w[2:])
            builds.append(kv)
        elif w[0] == "F":
            files.append(unhexs(w[1]).decode("utf-8", "replace"))
        elif w[0] == "P":
            if len(w) > 1 and w[1]:
                for ent in w[1].split(","):
                    n, d = ent.split("=")
                    pools.append((unhexs(n).decode(), int(d, 16)))
        elif w[0] == "D":
            defaults = [int(x) for x in w[1].split(",") if x] if len(w) > 1 else []
        elif w[0] == "BD":
            bd = w[1]

    def oh(x):
        return None if x == "~" else unhexs(x).decode("utf-8", "replace")
    out = []
    for kv in builds:
        ids = lambda k: [files[int(x)] for x in kv[k].split(",") if x]
        rsp = kv["rsp"]
        out.append({"ins": ids("ins"), "ne": int(kv["e"]), "ni": int(kv["i"]), "no": int(kv["o"]), "outs": ids("outs"), "eo": int(kv["eo"]),
                    "cmd": oh(kv["cmd"]), "desc": oh(kv["desc"]), "depfile": oh(kv["depfile"]), "pool": oh(kv["pool"]),
                    "si": kv["si"] == "1", "rsp": (None, None) if rsp == "~" else tuple(unhexs(x).decode("utf-8", "replace") for x in rsp.split(":")),
                    "hs": kv["hs"] == "1"})
    return {"builds": out, "pools": pools, "defaults": [files[i] for i in defaults], "files": files}


def compare_expected(exp, got):
    """-> None or a description of the first difference"""
    if len(exp["builds"]) != len(got["builds"]):
        return "number of steps: declared %d, loaded %d" % (len(exp["builds"]), len(got["builds"]))
    for i, (e, g) in enumerate(zip(exp["builds"], got["builds"])):
        for k in ("ins", "ne", "ni", "no", "outs", "eo", "cmd", "desc", "depfile", "pool", "hs"):
            if e[k] != g[k]:
                return "step %d: %s declared %r, loaded %r" % (i, k, e[k], g[k])
        if (e["deps"] == "msvc") != g["si"]:
            return "step %d: deps" % i
        if e["rsp"] != g["rsp"]:
            return "step %d: rspfile declared %r, loaded %r" % (i, e["rsp"], g["rsp"])
    if sorted(exp["pools"]) != sorted(got["pools"]):
        return "pools declared %r, loaded %r" % (exp["pools"], got["pools"])
    if exp["defaults"] != got["defaults"]:
        return "defaults declared %r, loaded %r" % (exp["defaults"], got["defaults"])
    return None
