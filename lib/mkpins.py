#!/usr/bin/env python3
"""One-off helper: copy the theorem statements of a Props file into lib/pins/<Cxx>.json (the checks
re-Check every pinned statement against the compiled theorem on each run)."""
import json, os, re, sys
V = os.path.dirname(os.path.dirname(os.path.abspath(__file__)))
for prop in sys.argv[1:]:
    text = open(os.path.join(V, "coq", "theories", "Props", prop + ".v")).read()
    # strip comments
    out, depth, i = [], 0, 0
    while i < len(text):
        if text.startswith("(*", i): depth += 1; i += 2
        elif text.startswith("*)", i) and depth: depth -= 1; i += 2
        else:
            if depth == 0: out.append(text[i])
            i += 1
    text = "".join(out)
    thms = []
    for m in re.finditer(r"Theorem\s+(\w+)\s*:\s*(.*?)\.\s*Proof\.", text, re.S):
        body = m.group(2)
        # collapse white space outside string literals only
        outb, inq, prev_space = [], False, False
        for ch in body:
            if ch == '"':
                inq = not inq
            if not inq and ch in " \n\t":
                if not prev_space:
                    outb.append(" ")
                prev_space = True
            else:
                outb.append(ch)
                prev_space = False
        thms.append([m.group(1), "".join(outb).strip()])
    json.dump(thms, open(os.path.join(V, "lib", "pins", prop + ".json"), "w"), indent=1)
    print(prop, len(thms))
