"""C15 — depfiles are read as the compiler wrote them (src/depfile.rs, task.rs read_depfile)."""
import itertools
import random

from common import *

PROP = "C15"

THEOREMS = [
    ("C15_roundtrip", "forall d t, spells_d d t -> depfile_parse t = Ok (merge_targets d)"),
    ("C15_deps_all_listed", "forall d t, spells_d d t -> exists l, depfile_deps t = Ok l /\\ Permutation l (concat (map snd d))"),
    ("C15_deps_in_order", "forall d t, spells_d d t -> NoDup (map fst d) -> depfile_deps t = Ok (concat (map snd d))"),
    ("C15_total", "forall t, (exists m, depfile_parse t = Ok m) \\/ (exists e, depfile_parse t = Err e)"),
    ("C15_pinned_refuted", "exists d t, spells_d d t /\\ depfile_deps_pinned t <> Ok (concat (map snd d)) /\\ "
                           "exists l, depfile_deps_pinned t = Ok l /\\ ~ Permutation l (concat (map snd d))"),
]

GOOD = [c for c in range(33, 127) if c not in (92,)]


def rand_path(rng, allow_colon_end=True):
    n = rng.choice([1, 1, 2, 3, 5, 9])
    alphabet = "abcxyz._-/:\\é日"
    while True:
        s = "".join(rng.choice(alphabet) for _ in range(n))
        if s[0] == "\\" or s[-1] == "\\":
            continue
        if not allow_colon_end and s.endswith(":"):
            continue
        return s.encode()


def gen_structured(rng):
    """abstract depfile + one formatting; returns (entries, text)"""
    k = rng.choice([1, 1, 2, 3, 4])
    names = [rand_path(rng, False) for _ in range(k)]
    if k >= 2 and rng.random() < 0.35:
        names[rng.randrange(1, k)] = names[0]  # repeated target
    entries = []
    for t in names:
        deps = [rand_path(rng) for _ in range(rng.choice([0, 1, 2, 3, 6]))]
        entries.append((t, deps))

    def sep():
        r = rng.random()
        if r < 0.5:
            return b" " * rng.choice([1, 1, 2, 5])
        if r < 0.8:
            return b" " * rng.choice([0, 1]) + b"\\\n" + b" " * rng.choice([0, 2])
        return b" \\\n\\\n "

    out = bytearray()
    out += rng.choice([b"", b"", b"\n", b"\n\n ", b"  "])
    for i, (t, deps) in enumerate(entries):
        out += t
        if rng.random() < 0.7:
            out += b":" + (sep() if deps or rng.random() < 0.5 else b"")
            if not deps and out.endswith(b":") is False:
                pass
        else:
            out += b" " * rng.choice([1, 3]) + b":" + (sep() if rng.random() < 0.8 else b"")
        for j, d in enumerate(deps):
            out += d
            if j + 1 < len(deps):
                out += sep()
        out += rng.choice([b"", b" ", b"   "])
        last = i + 1 == len(entries)
        if last and rng.random() < 0.4:
            pass  # no final newline
        else:
            out += b"\n" * rng.choice([1, 1, 2, 3])
    return entries, bytes(out)


def expected_deps(entries):
    """python statement of the fixed semantics: grouped by first occurrence of the target"""
    order, m = [], {}
    for t, deps in entries:
        if t not in m:
            m[t] = []
            order.append(t)
        m[t] += deps
    return [d for t in order for d in m[t]]


def parse_ok(res):
    """'ok t:d,d;t:...' -> list of (target, [deps])"""
    body = res[3:]
    if not body:
        return []
    out = []
    for ent in body.split(";"):
        t, _, ds = ent.partition(":")
        out.append((unhexs(t), [unhexs(x) for x in ds.split(",")] if ds else []))
    return out


def main(tier, seed, replay=None):
    run = Run(PROP, tier, seed, "proof")
    rng = random.Random(seed)
    info, problems = proof_gate_multi([PROP, "C15Indep"], thorough=(tier == "thorough"))
    for p in problems:
        run.tie("proof gate", p)
    drv = build_driver()
    har, out = build_harness()
    if har is None:
        run.tie("harness build", out[-2000:])
        return run.finish()
    # exhaustive strings over {a, ' ', ':', '\\', '\n'} (+ CR and NUL in a smaller scope)
    cases = []
    alphabet = [0x61, 0x20, 0x3A, 0x5C, 0x0A]
    maxlen = 7 if tier == "quick" else 9
    for n in range(0, maxlen + 1):
        for t in itertools.product(alphabet, repeat=n):
            cases.append(bytes(t))
    alphabet2 = [0x61, 0x20, 0x3A, 0x5C, 0x0A, 0x0D, 0x00, 0xC3, 0xA9]
    for n in range(1, (4 if tier == "quick" else 5) + 1):
        for t in itertools.product(alphabet2, repeat=n):
            cases.append(bytes(t))
    n_exh = len(cases)
    structured = [gen_structured(rng) for _ in range(3000 if tier == "quick" else 30000)]
    # long-line cases for the error excerpt logic (col > 40, len > 40, multi-byte)
    for _ in range(300 if tier == "quick" else 3000):
        pre = "".join(rng.choice("ab é日:") for _ in range(rng.choice([10, 39, 40, 41, 45, 60, 80])))
        post = "".join(rng.choice("ab é日") for _ in range(rng.choice([0, 5, 19, 20, 21, 39, 40, 41, 60])))
        cases.append((pre + rng.choice([" \\x", "\\", " b c", ""]) + post).encode())
    if replay:
        rp = json.load(open(replay))["replay"]
        cases = [unhexs(rp["input_hex"])]
        structured = []
    corpus = os.path.join(VERIF, "corpus", PROP, "cases.txt")
    if os.path.exists(corpus):
        cases = [unhexs(l.split()[0]) for l in open(corpus) if l.strip() and not l.startswith("#")] + cases
    all_cases = cases + [t for _, t in structured]
    lines = [hexs(c) for c in all_cases]
    PANICS = {"panic 23": ["scanner.rs"], "panic 20": ["back at start"], "panic 21": ["scanned past end"],
              "oob 20": ["abort", "unsafe precondition", "scanned past end"], "oob 21": ["abort", "unsafe precondition"]}
    impl, model, bad = differential(run, "depfile::parse", har, drv, "depfile", "depfile", lines, PANICS,
                                    show=lambda l: {"input_hex": l, "input": repr(unhexs(l))})
    # monitors on the implementation
    stats = {"ok": 0, "err": 0, "panic": 0, "abort": 0}
    f2_seen = None
    for c, r in zip(all_cases, impl):
        kind = r.split(" ", 1)[0]
        stats[kind] = stats.get(kind, 0) + 1
        if kind == "err":
            msg = unhexs(r[4:])
            if not msg.startswith(b"parse error: ") or b"\nd:" not in msg or not msg.endswith(b"^\n"):
                run.report_failure(None, "malformed depfile diagnostic %r" % msg, {"input_hex": hexs(c)})
        elif kind in ("panic", "abort"):
            if "scanner.rs" in r and ("char boundary" in r or "byte index" in r):
                run.report_failure("parse-error-excerpt-char-boundary",
                                   "parse error excerpt cut inside a multi-byte character: %s" % r[:160],
                                   {"input_hex": hexs(c), "result": r})
            else:
                run.report_failure(None, "depfile::parse did not return: %s" % r[:200], {"input_hex": hexs(c), "result": r})
    nontrivial = set()
    for (entries, text), r in zip(structured, impl[len(cases):]):
        if not r.startswith("ok"):
            run.report_failure(None, "well-formed depfile rejected: %r -> %s" % (text, r[:200]), {"input_hex": hexs(text)})
            continue
        got = [d for _, ds in parse_ok(r) for d in ds]
        want_all = [d for _, ds in entries for d in ds]
        if sorted(got) != sorted(want_all):
            run.report_failure(None, "prerequisites lost or invented: depfile %r gives %r, listed %r" % (text, got, want_all),
                               {"input_hex": hexs(text)})
        elif got != expected_deps(entries):
            run.report_failure(None, "prerequisites out of order: depfile %r gives %r" % (text, got), {"input_hex": hexs(text)})
        if len(entries) > 1 or any(len(ds) > 1 for _, ds in entries):
            nontrivial.add(text)
    # vm_compute sub-sample
    small = [i for i in range(len(all_cases)) if len(all_cases[i]) <= 40]
    sub_lines = [lines[i] for i in rng.sample(small, min(100, len(small)))]
    sub_model = run_lines([drv, "depfile"], sub_lines)

    def parse_vm(out):
        res = []
        for m in re.finditer(r"=\s*(Ok|Err|Panic|OutOfBounds|OutOfFuel)(.*?)\n\s*:\s*outcome", out, re.S):
            kind, body = m.group(1), m.group(2)
            if kind == "Ok":
                ents = re.findall(r"\(\s*(\[[^\]]*\])\s*,\s*(\[(?:[^\[\]]|\[[^\]]*\])*\])\s*\)", body)
                parts = []
                for t, ds in ents:
                    dl = re.findall(r"\[[^\[\]]*\]", ds[1:-1])
                    parts.append(hexs(coq_bytes_of_out(t)) + ":" + ",".join(hexs(coq_bytes_of_out(x)) for x in dl))
                res.append("ok " + ";".join(parts))
            elif kind == "Err":
                res.append("err " + hexs(coq_bytes_of_out(body)))
            elif kind == "Panic":
                res.append("panic " + body.strip().replace("%N", ""))
            elif kind == "OutOfBounds":
                res.append("oob " + body.strip().replace("%N", ""))
            else:
                res.append("fuel")
        return res

    # task::read_depfile on real files (flattening, NUL terminator, missing file = empty) against depfile_deps
    if not replay:
        rd_cases = ["-x"] + [hexs(t) for _, t in structured[:1500]] + [lines[i] for i in rng.sample(range(len(cases)), min(1500, len(cases)))]
        # names that are not valid UTF-8 (ISO-8859-1 file names, stray bytes): the dependencies are the listed bytes, unchanged
        raw_names = [(b"o: src.c caf\xe9.h \\\n plain.h\n", [b"src.c", b"caf\xe9.h", b"plain.h"]),
                     (b"o: \xff\xfe x\n", [b"\xff\xfe", b"x"]),
                     (b"\xe9.o: a\xc3 b\n", [b"a\xc3", b"b"]),
                     (b"o: d\xe4r/\xfcber.h \xc3\xa9.h\n", [b"d\xe4r/\xfcber.h", b"\xc3\xa9.h"]),
                     (b"a: \x80\n\nc: \xbf\xbf \\\n\xf0\x9f\n", [b"\x80", b"\xbf\xbf", b"\xf0\x9f"])]
        rd_cases += [hexs(t) for t, _ in raw_names]
        rd_cases = [c if c != "-" else "" for c in rd_cases]
        rd_impl = run_lines_sharded([har, "readdepfile"], [c or "-" for c in rd_cases])
        rd_model = run_lines_sharded([drv, "depfiledeps"], [c or "-" for c in rd_cases])
        rd_bad = 0
        for c, a, m in zip(rd_cases, rd_impl, rd_model):
            a_kind, m_kind = a.split(" ")[0], m.split(" ")[0]
            same_ = (a.strip() == m.strip()) if a_kind == "ok" else (a_kind == m_kind == "err")
            if not same_:
                rd_bad += 1
                if rd_bad <= 3:
                    run.tie("correspondence task::read_depfile", {"depfile_hex": c[:400], "implementation": a[:300], "model": m[:300]})
            for t, want in raw_names:
                if c == hexs(t) and a.strip() != "ok " + ",".join(hexs(w) for w in want):
                    run.report_failure(None, "depfile %r: the dependencies reported are %s, the listed prerequisites are %r" % (t, a[:120], want),
                                       {"case": "non-UTF-8 names", "depfile_hex": c})
            if c == "-x" and a.strip() != "ok":
                run.report_failure(None, "a missing depfile does not count as empty: %s" % a[:120], {"case": "missing depfile"})
        run.coverage["read_depfile_cases"] = len(rd_cases)
        run.coverage["read_depfile_disagreements"] = rd_bad
    nvm = vm_subsample(run, "depfile", rng, sub_lines, sub_model,
                       lambda l: "depfile_parse %s" % coq_list(unhexs(l)), parse_vm)
    if not replay:
        import taskleg
        n2, out_ = build_n2_binary()
        if n2 is None:
            run.tie("n2 build", out_[-1000:])
        else:
            taskleg.depfile_leg(run, n2)
            run.coverage["black_box_depfile_projects"] = taskleg.depfile_random_leg(run, n2, random.Random(seed + 78), 20 if tier == "quick" else 200)
    run.coverage.update(info)
    run.coverage.update({
        "checker_cmd": "make -C coq theories/Props/C15.vo && coqc Gate_C15.v (Check pinned statements + Print Assumptions)",
        "trusted_base": TRUSTED_BASE,
        "evaluations": len(all_cases),
        "distinct_nontrivial": len(nontrivial),
        "rule": "all strings of length 0..%d over {a,' ',':','\\\\','\\n'} and 1..%d over those plus CR, NUL, the two bytes of 'é' "
                "(%d, exhaustive) + long-line error cases + %d structured depfiles under random formattings; non-trivial = distinct "
                "structured depfile with several targets or several prerequisites" % (maxlen, 4 if tier == "quick" else 5, n_exh, len(structured)),
        "exhaustive": True,
        "outcomes": stats,
        "model_vs_impl_disagreements": len(bad),
        "vm_compute_subsample": nvm,
        "samples": [{"input": repr(all_cases[i]), "impl": impl[i][:120]} for i in rng.sample(range(len(all_cases)), 5)]
                   + [{"depfile": repr(structured[0][1]), "entries": repr(structured[0][0])}] if structured else [],
    })
    run.assumptions += ["the theorems are about Model/Depfile.v and Model/Scanner.v; the tie to depfile.rs/scanner.rs is the differential check",
                        "a repeated target accumulates its prerequisites at the target's first position (fix for F13)"]
    return run.finish()
