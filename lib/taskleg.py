"""Black-box leg for the parts of task.rs the scripted executor bypasses (run_task, read_depfile):
real n2 binary, real /bin/sh commands.  Used by C09 and C15."""
import shutil
import tempfile

from common import *


def n2run(n2, d, args, timeout=120):
    p = subprocess.run([n2] + args, cwd=d, stdout=subprocess.PIPE, stderr=subprocess.STDOUT, stdin=subprocess.DEVNULL, timeout=timeout, env=ENV)
    return p.returncode, p.stdout.decode("utf-8", "replace")


def write(d, name, text, mtime=None):
    p = os.path.join(d, name)
    os.makedirs(os.path.dirname(p), exist_ok=True) if os.path.dirname(name) else None
    open(p, "w").write(text)
    if mtime is not None:
        os.utime(p, (mtime, mtime))


def showincludes_leg(run, n2):
    """deps = msvc: Note lines are hidden whatever the outcome; the reported files are dependencies afterwards"""
    d = tempfile.mkdtemp(prefix="n2verif-task-%d-" % os.getpid())
    try:
        write(d, "cl.sh", "#!/bin/sh\n# fake cl: prints include notes, a warning, then succeeds or fails\n"
                          "echo 'Note: including file: h1.h'\necho 'in.c(1): warning C4100'\necho 'Note: including file:   sub/h2.h'\n"
                          "if [ -e fail.flag ]; then echo 'in.c(2): error C2065'; exit 2; fi\ncat in.c h1.h sub/h2.h > $1\n")
        os.chmod(os.path.join(d, "cl.sh"), 0o755)
        write(d, "build.ninja", "rule cl\n  command = ./cl.sh $out\n  deps = msvc\nbuild out.obj: cl in.c\n")
        write(d, "in.c", "int x;\n", 1000000000)
        write(d, "h1.h", "a\n", 1000000000)
        write(d, "sub/h2.h", "b\n", 1000000000)
        where = {"project": "deps=msvc step (fake cl printing 'Note: including file:' lines)"}
        rc, out = n2run(n2, d, ["out.obj"])
        if rc != 0 or "ran 1 task" not in out:
            run.report_failure(None, "msvc-deps step did not build: rc=%d %s" % (rc, out[-200:]), where)
            return
        if "Note: including file" in out:
            run.report_failure(None, "/showIncludes lines shown to the user on success: %r" % out[-200:], where)
        if "warning C4100" not in out:
            run.report_failure(None, "the remaining output of the command was not shown: %r" % out[-200:], where)
        rc, out = n2run(n2, d, ["out.obj"])
        if "no work to do" not in out:
            run.report_failure(None, "second build is not a null build: %r" % out[-200:], where)
        write(d, "sub/h2.h", "b2\n", 1000000100)
        rc, out = n2run(n2, d, ["out.obj"])
        if "ran 1 task" not in out:
            run.report_failure(None, "editing a header reported through /showIncludes did not rebuild the step: %r" % out[-200:], where)
        # failing run: the notes must still be hidden, and the old list stays in force
        write(d, "fail.flag", "")
        write(d, "in.c", "int y;\n", 1000000200)
        rc, out = n2run(n2, d, ["out.obj"])
        if rc == 0:
            run.report_failure(None, "failing msvc step reported success", where)
        if "Note: including file" in out:
            run.report_failure(None, "/showIncludes lines shown to the user when the command fails: %r" % out[-300:], where)
        if "error C2065" not in out:
            run.report_failure(None, "the error output of the failing command was not shown: %r" % out[-300:], where)
        os.remove(os.path.join(d, "fail.flag"))
        rc, out = n2run(n2, d, ["out.obj"])
        if rc != 0 or "ran 1 task" not in out:
            run.report_failure(None, "step not rebuilt after its failure: %r" % out[-200:], where)
    finally:
        shutil.rmtree(d, ignore_errors=True)


def depfile_leg(run, n2):
    """gcc-style depfiles through the real read_depfile: discovered deps, missing depfile = empty, malformed = step fails"""
    d = tempfile.mkdtemp(prefix="n2verif-task-%d-" % os.getpid())
    try:
        write(d, "cc.sh", "#!/bin/sh\n# fake cc: $1 = output; writes $1.d from the file deps.txt unless nodep.flag exists\n"
                          "if [ ! -e nodep.flag ]; then cp deps.txt $1.d; fi\ncat in.c > $1\n")
        os.chmod(os.path.join(d, "cc.sh"), 0o755)
        write(d, "build.ninja", "rule cc\n  command = ./cc.sh $out\n  depfile = $out.d\nbuild out.o: cc in.c\n")
        write(d, "in.c", "int x;\n", 1000000000)
        for h in ("a.h", "b.h", "dir/c d.h"):
            write(d, h, "h\n", 1000000000)
        where = {"project": "depfile step (fake cc copying deps.txt to out.o.d)"}
        write(d, "deps.txt", "out.o: a.h \\\n  b.h\n\nout.o: ./a.h dir/../b.h\n")
        rc, out = n2run(n2, d, ["out.o"])
        if rc != 0:
            run.report_failure(None, "depfile step failed: %s" % out[-300:], where)
            return
        rc, out = n2run(n2, d, ["out.o"])
        if "no work to do" not in out:
            run.report_failure(None, "second build is not a null build: %r" % out[-200:], where)
        for h in ("a.h", "b.h"):
            write(d, h, "h2 %s\n" % h, 1000000100 if h == "a.h" else 1000000200)
            rc, out = n2run(n2, d, ["out.o"])
            if "ran 1 task" not in out:
                run.report_failure(None, "editing prerequisite %s listed in the depfile did not rebuild the step: %r" % (h, out[-200:]), where)
        # missing depfile counts as empty
        write(d, "nodep.flag", "")
        os.remove(os.path.join(d, "out.o.d"))
        write(d, "in.c", "int y;\n", 1000000300)
        rc, out = n2run(n2, d, ["out.o"])
        if rc != 0:
            run.report_failure(None, "a missing depfile failed the step: %r" % out[-300:], where)
        write(d, "a.h", "h3\n", 1000000400)
        rc, out = n2run(n2, d, ["out.o"])
        if "no work to do" not in out:
            run.report_failure(None, "after a run without depfile the old prerequisites still count: %r" % out[-200:], where)
        # malformed depfile fails the step with a parse error naming the depfile
        os.remove(os.path.join(d, "nodep.flag"))
        write(d, "deps.txt", "out.o a.h b.h\n")
        write(d, "in.c", "int z;\n", 1000000500)
        rc, out = n2run(n2, d, ["out.o"])
        if rc == 0 or "parse error" not in out or "out.o.d" not in out:
            run.report_failure(None, "malformed depfile: expected the step to fail with a parse error naming out.o.d, got rc=%d %r" % (rc, out[-300:]), where)
    finally:
        shutil.rmtree(d, ignore_errors=True)
