"""Black-box leg for the parts of task.rs the scripted executor bypasses (run_task, read_depfile):
real n2 binary, real /bin/sh commands.  Used by C09 and C15."""
import collections
import time
import shutil
import tempfile

from common import *


def n2run(n2, d, args, timeout=120):
    p = subprocess.run([n2] + args, cwd=d, stdout=subprocess.PIPE, stderr=subprocess.STDOUT, stdin=subprocess.DEVNULL, timeout=timeout, env=ENV)
    return p.returncode, p.stdout.decode("utf-8", "replace")


def write(d, name, text, mtime=None):
    p = os.path.join(d, name)
    os.makedirs(os.path.dirname(p), exist_ok=True) if os.path.dirname(name) else None
    open(p, "w").write(text)
    if mtime is not None:
        os.utime(p, (mtime, mtime))


NOTE = b"Note: including file: "


def split_notes(c):
    """what C09 says about the whole output of a deps = msvc command: (files reported, text shown)"""
    src = c.split(b"\n")
    want_out = b"\n".join(l for l in src if not l.startswith(NOTE))
    want_incs = []
    for l in src:
        if l.startswith(NOTE):
            p = l[len(NOTE):]
            core = p[:-1] if p.endswith(b"\r") else p
            st = p.lstrip(b" ")
            if st == b"":
                want_incs.append(core)
            else:
                want_incs.append(st[:-1] if p.endswith(b"\r") else st)
    return want_incs, want_out


def read_db(path):
    """[(outs, deps)] of every build record of an .n2_db, names resolved (format of db.rs, version 1)"""
    b = open(path, "rb").read()
    if b[:4] != b"n2db":
        return None
    i, names, recs = 8, [], []
    while i + 2 <= len(b):
        m = int.from_bytes(b[i:i + 2], "little")
        i += 2
        if m & 0x8000:
            no = m & 0x7fff
            outs = [int.from_bytes(b[i + 3 * k:i + 3 * k + 3], "little") for k in range(no)]
            i += 3 * no
            nd = int.from_bytes(b[i:i + 2], "little")
            i += 2
            deps = [int.from_bytes(b[i + 3 * k:i + 3 * k + 3], "little") for k in range(nd)]
            i += 3 * nd + 8
            recs.append(([names[x] if x < len(names) else None for x in outs], [names[x] if x < len(names) else None for x in deps]))
        else:
            names.append(b[i:i + m])
            i += m
    return recs


CL_PY = r"""#!/usr/bin/env python3
# fake cl: replays a plan of timed writes (hex stream delay_ms per line), then creates $1 and exits with the plan's code
import os, sys, time
code = 0
for l in open(os.environ.get("PLAN", "plan.txt")):
    w = l.split()
    if w[0] == "exit":
        code = int(w[1]); continue
    data = bytes.fromhex(w[0]) if w[0] != "-" else b""
    while data:
        n = os.write(int(w[1]), data)
        data = data[n:]
    if int(w[2]):
        time.sleep(int(w[2]) / 1000.0)
if code == 0:
    open(sys.argv[1], "w").write("obj\n")
sys.exit(code)
"""


def gen_cl_output(rng, kind):
    """(lines, writes): the text a fake compiler prints and how it is cut into write() calls"""
    nhdr = {"small": rng.randint(1, 4), "big": rng.randint(120, 260), "huge": rng.randint(2500, 3500)}.get(kind, rng.randint(1, 6))
    hdrs = ["inc/hdr_%d_zz.h" % i for i in range(nhdr)]
    lines = []
    for i, h in enumerate(hdrs):
        hs = rng.choice([h, h, h, "./" + h, "inc/../" + h, ".//" + h, "inc//" + h[4:]]) if kind != "huge" else h
        lines.append(NOTE + b" " * rng.choice([0, 0, 1, 3]) + hs.encode() + rng.choice([b"", b"", b"\r"]))
        if rng.random() < (0.3 if kind != "huge" else 0.02):
            lines.append(rng.choice([b"in.c(%d): warning C4100: 'x' unreferenced" % i, b"in.c", b"", b"  Note: not an include", b"Note: something else"]))
        if rng.random() < 0.1:
            lines.append(NOTE + hdrs[rng.randrange(i + 1)].encode())       # a header reported twice
    text = b"\n".join(lines) + b"\n"
    writes = []
    if kind == "split":
        # every write boundary falls inside a line, most inside a note's prefix or file name
        pos = 0
        while pos < len(text):
            n = rng.randint(1, 40)
            writes.append((text[pos:pos + n], rng.choice([1, 2]), rng.choice([0, 0, 30])))
            pos += n
    else:
        # line-at-a-time like a real compiler, or one large write
        if rng.random() < 0.5:
            writes.append((text, 1, 0))
        else:
            for l in text.split(b"\n")[:-1]:
                writes.append((l + b"\n", 1, 0))
    return hdrs, text, writes


def showincludes_random_leg(run, n2, rng, rounds):
    """deps = msvc through the real run_task: arbitrary chunking and sizes of the command's output"""
    stats = collections.Counter()
    for kind in (["small", "split", "big", "split", "big"] + ["huge"] * (1 if rounds > 5 else 0) + [rng.choice(["small", "split", "big"]) for _ in range(max(0, rounds - 5))])[:max(rounds, 5)]:
        d = tempfile.mkdtemp(prefix="n2verif-task-%d-" % os.getpid())
        try:
            stats[kind] += 1
            hdrs, text, writes = gen_cl_output(rng, kind)
            fail = rng.random() < 0.25
            write(d, "cl.py", CL_PY)
            os.chmod(os.path.join(d, "cl.py"), 0o755)
            write(d, "build.ninja", "rule cl\n  command = ./cl.py $out\n  deps = msvc\nbuild out.obj: cl in.c\n")
            write(d, "in.c", "int x;\n", 1000000000)
            for h in hdrs:
                write(d, h, "h\n", 1000000000)
            plan = "".join("%s %d %d\n" % (w.hex() or "-", fd, ms) for w, fd, ms in writes)
            write(d, "plan.txt", plan + ("exit 3\n" if fail else ""))
            want_incs, want_out = split_notes(text)
            uniq = []
            for x in want_incs:
                x = lex_canon(x.decode()).encode()          # whatever spelling the compiler printed, one node per location
                if x not in uniq:
                    uniq.append(x)
            where = {"project": "deps=msvc step; fake cl replays plan.txt (hex fd delay_ms)", "kind": kind, "plan": plan[:4000], "command_fails": fail,
                     "output_bytes": len(text), "writes": len(writes)}
            rc, out = n2run(n2, d, ["out.obj"])
            outb = out.encode("utf-8", "replace")
            if b"Note: including file" in outb or b"_zz.h" in outb:
                frag = outb[max(0, outb.find(b"_zz.h") - 40):][:120] if b"_zz.h" in outb else outb[outb.find(b"Note: incl"):][:120]
                run.report_failure(None, "/showIncludes text shown to the user (%s output of %d bytes in %d writes, command %s): %r" % (
                    kind, len(text), len(writes), "fails" if fail else "succeeds", frag), where)
            shown = [l for l in want_out.split(b"\n") if l.strip()]
            pos = 0
            for l in shown:
                k = outb.find(l.rstrip(b"\r"), pos)
                if k < 0:
                    run.report_failure(None, "a line of the command's remaining output was not shown (or out of order): %r" % l[:80], where)
                    break
                pos = k + len(l.rstrip(b"\r"))
            if fail:
                if rc == 0:
                    run.report_failure(None, "failing msvc step reported success", where)
                # make it succeed now with the same output
                write(d, "plan.txt", plan)
                rc, out = n2run(n2, d, ["out.obj"])
            if rc != 0 or "ran 1 task" not in out:
                run.report_failure(None, "msvc-deps step did not build: rc=%d %s" % (rc, out[-200:]), where)
                continue
            recs = read_db(os.path.join(d, ".n2_db")) or []
            mine = [deps for outs, deps in recs if outs == [b"out.obj"]]
            if not mine:
                run.report_failure(None, "no record of the step in .n2_db after its successful run", where)
            elif mine[-1] != uniq:
                missing = [x for x in uniq if x not in mine[-1]]
                extra = [x for x in mine[-1] if x not in uniq]
                run.report_failure(None, "dependencies recorded for a deps=msvc step differ from the files its output reported (%s output, %d bytes, %d writes): %d missing %r, %d unexpected %r" % (
                    kind, len(text), len(writes), len(missing), missing[:3], len(extra), extra[:3]), where)
            rc, out = n2run(n2, d, ["out.obj"])
            if "no work to do" not in out:
                run.report_failure(None, "second build is not a null build: %r" % out[-200:], where)
                continue
            for h in rng.sample(hdrs, min(2, len(hdrs))):
                write(d, h, "h2\n", 1000000100 + rng.randint(0, 1000))
                rc, out = n2run(n2, d, ["out.obj"])
                if "ran 1 task" not in out:
                    run.report_failure(None, "editing %s, reported through /showIncludes, did not rebuild the step: %r" % (h, out[-200:]), where)
                    break
        finally:
            shutil.rmtree(d, ignore_errors=True)
    return dict(stats)


def showincludes_leg(run, n2):
    """deps = msvc: Note lines are hidden whatever the outcome; the reported files are dependencies afterwards"""
    d = tempfile.mkdtemp(prefix="n2verif-task-%d-" % os.getpid())
    try:
        write(d, "cl.sh", "#!/bin/sh\n# fake cl: prints include notes, a warning, then succeeds or fails\n"
                          "echo 'Note: including file: h1.h'\necho 'in.c(1): warning C4100'\necho 'Note: including file:   sub/h2.h'\n"
                          "if [ -e fail.flag ]; then echo 'in.c(2): error C2065'; exit 2; fi\ncat in.c h1.h sub/h2.h > $1\n")
        os.chmod(os.path.join(d, "cl.sh"), 0o755)
        write(d, "build.ninja", "rule cl\n  command = ./cl.sh $out\n  deps = msvc\nbuild out.obj: cl in.c\n")
        write(d, "in.c", "int x;\n", 1000000000)
        write(d, "h1.h", "a\n", 1000000000)
        write(d, "sub/h2.h", "b\n", 1000000000)
        where = {"project": "deps=msvc step (fake cl printing 'Note: including file:' lines)"}
        rc, out = n2run(n2, d, ["out.obj"])
        if rc != 0 or "ran 1 task" not in out:
            run.report_failure(None, "msvc-deps step did not build: rc=%d %s" % (rc, out[-200:]), where)
            return
        if "Note: including file" in out:
            run.report_failure(None, "/showIncludes lines shown to the user on success: %r" % out[-200:], where)
        if "warning C4100" not in out:
            run.report_failure(None, "the remaining output of the command was not shown: %r" % out[-200:], where)
        rc, out = n2run(n2, d, ["out.obj"])
        if "no work to do" not in out:
            run.report_failure(None, "second build is not a null build: %r" % out[-200:], where)
        write(d, "sub/h2.h", "b2\n", 1000000100)
        rc, out = n2run(n2, d, ["out.obj"])
        if "ran 1 task" not in out:
            run.report_failure(None, "editing a header reported through /showIncludes did not rebuild the step: %r" % out[-200:], where)
        # failing run: the notes must still be hidden, and the old list stays in force
        write(d, "fail.flag", "")
        write(d, "in.c", "int y;\n", 1000000200)
        rc, out = n2run(n2, d, ["out.obj"])
        if rc == 0:
            run.report_failure(None, "failing msvc step reported success", where)
        if "Note: including file" in out:
            run.report_failure(None, "/showIncludes lines shown to the user when the command fails: %r" % out[-300:], where)
        if "error C2065" not in out:
            run.report_failure(None, "the error output of the failing command was not shown: %r" % out[-300:], where)
        os.remove(os.path.join(d, "fail.flag"))
        rc, out = n2run(n2, d, ["out.obj"])
        if rc != 0 or "ran 1 task" not in out:
            run.report_failure(None, "step not rebuilt after its failure: %r" % out[-200:], where)
    finally:
        shutil.rmtree(d, ignore_errors=True)


def depfile_leg(run, n2):
    """gcc-style depfiles through the real read_depfile: discovered deps, missing depfile = empty, malformed = step fails"""
    d = tempfile.mkdtemp(prefix="n2verif-task-%d-" % os.getpid())
    try:
        write(d, "cc.sh", "#!/bin/sh\n# fake cc: $1 = output; writes $1.d from the file deps.txt unless nodep.flag exists\n"
                          "if [ ! -e nodep.flag ]; then cp deps.txt $1.d; fi\ncat in.c > $1\n")
        os.chmod(os.path.join(d, "cc.sh"), 0o755)
        write(d, "build.ninja", "rule cc\n  command = ./cc.sh $out\n  depfile = $out.d\nbuild out.o: cc in.c\n")
        write(d, "in.c", "int x;\n", 1000000000)
        for h in ("a.h", "b.h", "dir/c d.h"):
            write(d, h, "h\n", 1000000000)
        where = {"project": "depfile step (fake cc copying deps.txt to out.o.d)"}
        write(d, "deps.txt", "out.o: a.h \\\n  b.h\n\nout.o: ./a.h dir/../b.h\n")
        rc, out = n2run(n2, d, ["out.o"])
        if rc != 0:
            run.report_failure(None, "depfile step failed: %s" % out[-300:], where)
            return
        rc, out = n2run(n2, d, ["out.o"])
        if "no work to do" not in out:
            run.report_failure(None, "second build is not a null build: %r" % out[-200:], where)
        for h in ("a.h", "b.h"):
            write(d, h, "h2 %s\n" % h, 1000000100 if h == "a.h" else 1000000200)
            rc, out = n2run(n2, d, ["out.o"])
            if "ran 1 task" not in out:
                run.report_failure(None, "editing prerequisite %s listed in the depfile did not rebuild the step: %r" % (h, out[-200:]), where)
        # missing depfile counts as empty
        write(d, "nodep.flag", "")
        os.remove(os.path.join(d, "out.o.d"))
        write(d, "in.c", "int y;\n", 1000000300)
        rc, out = n2run(n2, d, ["out.o"])
        if rc != 0:
            run.report_failure(None, "a missing depfile failed the step: %r" % out[-300:], where)
        write(d, "a.h", "h3\n", 1000000400)
        rc, out = n2run(n2, d, ["out.o"])
        if "no work to do" not in out:
            run.report_failure(None, "after a run without depfile the old prerequisites still count: %r" % out[-200:], where)
        # malformed depfile fails the step with a parse error naming the depfile
        os.remove(os.path.join(d, "nodep.flag"))
        write(d, "deps.txt", "out.o a.h b.h\n")
        write(d, "in.c", "int z;\n", 1000000500)
        rc, out = n2run(n2, d, ["out.o"])
        if rc == 0 or "parse error" not in out or "out.o.d" not in out:
            run.report_failure(None, "malformed depfile: expected the step to fail with a parse error naming out.o.d, got rc=%d %r" % (rc, out[-300:]), where)
    finally:
        shutil.rmtree(d, ignore_errors=True)


def lex_canon(p):
    out = []
    for c in p.split("/"):
        if c in ("", "."):
            continue
        if c == ".." and out and out[-1] != "..":
            out.pop()
        else:
            out.append(c)
    return "/".join(out)


def depfile_random_leg(run, n2, rng, rounds):
    """depfiles with several rules, target spellings and formattings through the real run_task/read_depfile: the step's record
    lists exactly the prerequisites of all targets, each location once"""
    stats = collections.Counter()
    for _ in range(rounds):
        d = tempfile.mkdtemp(prefix="n2verif-task-%d-" % os.getpid())
        try:
            multi = rng.random() < 0.4
            outs = ["out.o", "out.aux"] if multi else ["out.o"]
            hdrs = ["h%d.h" % i for i in range(6)] + ["inc/k%d.h" % i for i in range(3)]
            tspell = ["out.o", "out.o", "./out.o", "obj/../out.o", "other.o", "gen.stamp"] + (["out.aux", "./out.aux"] if multi else [])
            rules = []
            for _ in range(rng.randint(1, 4)):
                t = rng.choice(tspell)
                ps = []
                for _ in range(rng.randint(0, 4)):
                    h = rng.choice(hdrs)
                    ps.append(rng.choice([h, h, "./" + h, "x/../" + h, ".//" + h]))
                if rng.random() < 0.2:
                    ps.insert(0, "in.c")
                rules.append((t, ps))
            text = ""
            for t, ps in rules:
                sep = rng.choice([" ", " \\\n  ", "  "])
                # (a colon directly followed by a name is read as part of a Windows-style path, by Ninja too: keep a space after it)
                text += t + rng.choice([": ", " : ", ":  "]) + sep.join([""] + ps if rng.random() < 0.5 else ps) + rng.choice(["\n", "\n\n", " \n"])
            if rng.random() < 0.3:
                text = text.rstrip("\n")
            order = []
            for t, ps in rules:
                if t not in order:
                    order.append(t)
            want = []
            for t in order:
                for t2, ps in rules:
                    if t2 == t:
                        for p_ in ps:
                            c = lex_canon(p_)
                            if c != "in.c" and c not in want:
                                want.append(c)
            write(d, "cc.sh", "#!/bin/sh\n# fake cc: writes $1.d from deps.txt, then every output\ncp deps.txt $1.d\nfor o in \"$@\"; do cat in.c > $o; done\n")
            os.chmod(os.path.join(d, "cc.sh"), 0o755)
            write(d, "build.ninja", "rule cc\n  command = ./cc.sh $out\n  depfile = out.o.d\nbuild %s: cc in.c\n" % " ".join(outs))
            write(d, "in.c", "int x;\n", 1000000000)
            for h in hdrs:
                write(d, h, "h\n", 1000000000)
            write(d, "deps.txt", text)
            where = {"project": "depfile step; fake cc copies deps.txt to out.o.d", "depfile": text, "outputs": outs}
            stats["rules_%d" % len(rules)] += 1
            stats["targets_spelled_differently"] += int(len({t for t, _ in rules}) > 1)
            rc, out = n2run(n2, d, ["out.o"])
            if rc != 0:
                run.report_failure(None, "depfile step failed: %s" % out[-300:], where)
                continue
            recs = read_db(os.path.join(d, ".n2_db")) or []
            mine = [deps for o_, deps in recs if o_ and o_[0] == b"out.o"]
            got = [x.decode() for x in mine[-1]] if mine else None
            if got is None:
                run.report_failure(None, "no record of the step in .n2_db after its successful run", where)
            elif got != want:
                run.report_failure(None, "dependencies recorded from the depfile %r, expected the prerequisites of all targets %r" % (got, want), where)
            rc, out = n2run(n2, d, ["out.o"])
            if "no work to do" not in out:
                run.report_failure(None, "second build is not a null build: %r" % out[-200:], where)
                continue
            for h in rng.sample(want, min(2, len(want))):
                write(d, h, "h2\n", 1000000100 + rng.randint(0, 1000))
                rc, out = n2run(n2, d, ["out.o"])
                if "ran 1 task" not in out:
                    run.report_failure(None, "editing %s, a prerequisite listed in the depfile, did not rebuild the step: %r" % (h, out[-200:]), where)
                    break
        finally:
            shutil.rmtree(d, ignore_errors=True)
    return dict(stats)


def killed_command_leg(run, n2, rng):
    """real commands that die from a signal after writing (part of) their outputs: the invocation must not report success,
    nothing downstream is built from the partial output, and the next invocation re-runs the step (clean-build equivalence)"""
    stats = collections.Counter()
    for sig in ["KILL", "TERM", "SEGV", "HUP", "ABRT"] + ["exit7"]:
        d = tempfile.mkdtemp(prefix="n2verif-task-%d-" % os.getpid())
        try:
            stats[sig] += 1
            die = "exit 7" if sig == "exit7" else "kill -%s $$" % sig
            write(d, "gen.sh", "#!/bin/sh\n# writes a partial output; dies while die.flag exists\nprintf 'partial-' > $1\n"
                               "if [ -e die.flag ]; then %s; fi\ncat in.txt >> $1\n" % die)
            os.chmod(os.path.join(d, "gen.sh"), 0o755)
            # exec: the command itself (n2's direct child) is the process that dies
            write(d, "build.ninja", "rule gen\n  command = exec ./gen.sh $out\nrule cp\n  command = cp $in $out\nbuild mid: gen in.txt\nbuild final: cp mid\n")
            write(d, "in.txt", "v1\n", 1000000000)
            where = {"project": "mid <- gen.sh (dies by %s after a partial write while die.flag exists); final <- cp mid" % sig}
            rc, out = n2run(n2, d, ["final"])
            if rc != 0 or open(os.path.join(d, "final")).read() != "partial-v1\n":
                run.report_failure(None, "first build failed: rc=%d %r" % (rc, out[-200:]), where)
                continue
            write(d, "in.txt", "v2\n", 1000000100)
            write(d, "die.flag", "")
            rc, out = n2run(n2, d, ["final"])
            if rc == 0:
                run.report_failure(None, "a command that died (%s) after a partial write: the invocation reports success; final=%r" % (
                    sig, open(os.path.join(d, "final")).read()), dict(where, output=out[-300:]))
            if open(os.path.join(d, "final")).read() != "partial-v1\n":
                run.report_failure(None, "a dependent of a command that died (%s) was rebuilt from its partial output" % sig, dict(where, output=out[-300:]))
            os.remove(os.path.join(d, "die.flag"))
            rc, out = n2run(n2, d, ["final"])
            got = open(os.path.join(d, "final")).read()
            if rc != 0 or got != "partial-v2\n":
                run.report_failure(None, "after a command died (%s) the next successful invocation leaves final=%r, a clean build gives 'partial-v2'" % (sig, got),
                                   dict(where, output=out[-300:]))
        finally:
            shutil.rmtree(d, ignore_errors=True)
    return dict(stats)


def showincludes_bytes_leg(run, n2):
    """deps = msvc with header names that are not UTF-8 (Latin-1) or multi-byte: the worker thread must deliver its result (a panic
    there leaves the run loop waiting forever), the names are recorded byte for byte and keep working as dependencies"""
    d = tempfile.mkdtemp(prefix="n2verif-task-%d-" % os.getpid())
    try:
        names = [b"caf\xe9.h", "日本.h".encode(), b"inc/\xff\xfe.h", b"plain.h"]
        os.makedirs(os.path.join(d, "inc"))
        for nm in names:
            with open(os.path.join(d.encode(), nm), "wb") as f:
                f.write(b"h\n")
            os.utime(os.path.join(d.encode(), nm), (1000000000, 1000000000))
        with open(os.path.join(d, "cl.sh"), "wb") as f:
            f.write(b"#!/bin/sh\n" + b"".join(b"printf 'Note: including file: %s\\n' '" + nm + b"'\n" for nm in names) + b"echo done-compiling\ncat in.c > $1\n")
        os.chmod(os.path.join(d, "cl.sh"), 0o755)
        write(d, "build.ninja", "rule cl\n  command = ./cl.sh $out\n  deps = msvc\nbuild out.obj: cl in.c\nbuild final: cl out.obj\n")
        write(d, "in.c", "int x;\n", 1000000000)
        where = {"project": "deps=msvc step reporting headers named %r" % names}
        try:
            rc, out = n2run(n2, d, ["-j", "2", "final"], timeout=60)
        except subprocess.TimeoutExpired:
            run.report_failure(None, "n2 hangs: a deps=msvc command reported a header whose name is not UTF-8 and the build never finished (60 s)", where)
            return
        if rc != 0 or "ran 2 tasks" not in out:
            run.report_failure(None, "msvc-deps step with non-UTF-8 header names did not build: rc=%d %s" % (rc, out[-300:]), where)
            return
        recs = read_db(os.path.join(d, ".n2_db")) or []
        mine = [deps for outs, deps in recs if outs == [b"out.obj"]]
        if not mine or mine[-1] != names:
            run.report_failure(None, "recorded dependencies %r differ from the reported header names %r" % (mine[-1] if mine else None, names), where)
        rc, out = n2run(n2, d, ["final"], timeout=60)
        if "no work to do" not in out:
            run.report_failure(None, "second build is not a null build: %r" % out[-200:], where)
            return
        for nm in names[:2]:
            with open(os.path.join(d.encode(), nm), "wb") as f:
                f.write(b"h2\n")
            os.utime(os.path.join(d.encode(), nm), (1000000200, 1000000200))
            rc, out = n2run(n2, d, ["final"], timeout=60)
            if "ran " not in out or rc != 0:
                run.report_failure(None, "editing header %r, reported through /showIncludes, did not rebuild the step: %r" % (nm, out[-200:]), where)
                break
    finally:
        shutil.rmtree(d, ignore_errors=True)


def symlink_leg(run, n2):
    """inputs reached through symbolic links (declared input, discovered dependency, a linked directory): editing the file the
    link points to changes what the command reads, so the step must re-run (C02: never skips a step whose inputs changed)"""
    d = tempfile.mkdtemp(prefix="n2verif-task-%d-" % os.getpid())
    try:
        os.makedirs(os.path.join(d, "real"))
        write(d, "real/src.txt", "version one\n", 1000000000)
        write(d, "real/hdr.h", "h1\n", 1000000000)
        os.symlink("real/src.txt", os.path.join(d, "src.txt"))
        os.symlink("real", os.path.join(d, "linkdir"))
        write(d, "cc.sh", "#!/bin/sh\n# $1 = out, $2 = in; reports linkdir/hdr.h as a dependency\nprintf '%s: linkdir/hdr.h\\n' $1 > $1.d\ncat $2 linkdir/hdr.h > $1\n")
        os.chmod(os.path.join(d, "cc.sh"), 0o755)
        write(d, "build.ninja", "rule cc\n  command = ./cc.sh $out $in\n  depfile = $out.d\nrule cp\n  command = cp $in $out\nbuild mid.txt: cc src.txt\nbuild out.txt: cp mid.txt\n")
        where = {"project": "src.txt -> real/src.txt (symlink), linkdir -> real (symlinked directory holding a reported header)"}
        rc, out = n2run(n2, d, ["out.txt"])
        if rc != 0 or open(os.path.join(d, "out.txt")).read() != "version one\nh1\n":
            run.report_failure(None, "first build through symlinks failed: rc=%d %r" % (rc, out[-200:]), where)
            return
        rc, out = n2run(n2, d, ["out.txt"])
        if "no work to do" not in out:
            run.report_failure(None, "second build is not a null build: %r" % out[-200:], where)
        for name, content, want in (("real/src.txt", "version two\n", "version two\nh1\n"), ("real/hdr.h", "h2\n", "version two\nh2\n")):
            write(d, name, content, 1000000100 if name.endswith("txt") else 1000000200)
            rc, out = n2run(n2, d, ["out.txt"])
            got = open(os.path.join(d, "out.txt")).read()
            if rc != 0 or got != want:
                run.report_failure(None, "after editing %s (reached through a symbolic link) the successful build leaves out.txt=%r; a clean build gives %r (%s)" % (
                    name, got, want, out.strip().split("\n")[-1][:60]), dict(where, output=out[-300:]))
                return
    finally:
        shutil.rmtree(d, ignore_errors=True)


def selfwrite_leg(run, n2):
    """a command that rewrites a file it also reports as a dependency (an undeclared by-product): the record made after the run
    must describe the tree as the command left it, so the invocation right after a successful one runs nothing"""
    d = tempfile.mkdtemp(prefix="n2verif-task-%d-" % os.getpid())
    try:
        write(d, "cc.sh", "#!/bin/sh\n# rewrites gen.h on every run and lists it in the depfile\necho \"gen $(cat in.c)\" > gen.h\nprintf '%s: gen.h\\n' $1 > $1.d\ncat in.c gen.h > $1\n")
        os.chmod(os.path.join(d, "cc.sh"), 0o755)
        write(d, "build.ninja", "rule cc\n  command = ./cc.sh $out\n  depfile = $out.d\nbuild out.o: cc in.c\n")
        write(d, "in.c", "v1\n", 1000000000)
        where = {"project": "out.o <- cc.sh: rewrites gen.h and reports it in the depfile"}
        seq = []
        rc, out = n2run(n2, d, ["out.o"]); seq.append(out.strip().split("\n")[-1])
        rc, out = n2run(n2, d, ["out.o"]); seq.append(out.strip().split("\n")[-1])
        time.sleep(0.02)
        write(d, "in.c", "v2\n")
        rc, out = n2run(n2, d, ["out.o"]); seq.append(out.strip().split("\n")[-1])
        for _ in range(2):
            rc, out = n2run(n2, d, ["out.o"]); seq.append(out.strip().split("\n")[-1])
        want = ["ran 1 task", "no work to do", "ran 1 task", "no work to do", "no work to do"]
        if not all(w in s_ for w, s_ in zip(want, seq)):
            run.report_failure(None, "a command rewrites a file it reports as a dependency; build, build, edit, build, build, build gave %r (expected %r)" % (seq, want), where)
    finally:
        shutil.rmtree(d, ignore_errors=True)
