"""C02 — a successful incremental build leaves what a clean build would produce."""
from worldcheck import *

PROP = "C02"
THEOREMS = [tuple(x) for x in json.load(open(os.path.join(VERIF, "lib", "pins", PROP + ".json")))]


def gen(rng, **kw):
    # every fifth history regenerates its manifest (directly or through an included file)
    if rng.random() < 0.2:
        return gen_history(rng, with_regen=rng.choice([True, "include"]), **kw)
    return gen_history(rng, **kw)


def main(tier, seed, replay=None):
    return world_check(PROP, THEOREMS, tier, seed, [monitor_null_build], clean_oracle=True, replay=replay, scen_gen=gen,
                       note="phony aliases used as dirtying inputs (finding F8) are excluded by the property and not generated")
