"""C02 — a successful incremental build leaves what a clean build would produce."""
from worldcheck import *

PROP = "C02"
THEOREMS = ["C02", "C02Hist", "C02HistG"]


def gen(rng, **kw):
    # every fifth history regenerates its manifest (directly or through an included file)
    if rng.random() < 0.2:
        return gen_history(rng, with_regen=rng.choice([True, "include"]), **kw)
    return gen_history(rng, **kw)


def main(tier, seed, replay=None):
    state = {"done": bool(replay)}

    def monitor_killed_commands(run, where, inv, meta, hist, ii, rep):
        # once per run: the part of "a command failed" the scripted executor bypasses (process_posix.rs classification)
        if state["done"]:
            return
        state["done"] = True
        # std's DefaultHasher = the model's SipHash-1-3 with zero keys, on raw byte strings of every length around the 8-byte blocks
        rng_ = random.Random(seed + 5)
        hs = [bytes(rng_.randrange(256) for _ in range(n)) for n in list(range(0, 40)) * 5 + [63, 64, 65, 255, 256, 1000]]
        har_, _o = build_harness()
        a_ = run_lines([har_, "siphash"], [hexs(h) for h in hs])
        m_ = run_lines([build_driver(), "siphash"], [hexs(h) for h in hs])
        nb = sum(1 for x, y in zip(a_, m_) if x.strip() != y.strip())
        if nb:
            i_ = [i for i, (x, y) in enumerate(zip(a_, m_)) if x.strip() != y.strip()][0]
            run.tie("correspondence SipHash-1-3 (std DefaultHasher vs Model/Hash.v)", {"input_hex": hexs(hs[i_]), "implementation": a_[i_], "model": m_[i_]})
        run.coverage["siphash_cases"] = len(hs)
        import taskleg
        n2, out_ = build_n2_binary()
        if n2 is None:
            run.tie("n2 build", out_[-1000:])
        else:
            run.coverage["black_box_killed_commands"] = taskleg.killed_command_leg(run, n2, random.Random(seed))
            taskleg.symlink_leg(run, n2)
            taskleg.selfwrite_leg(run, n2)
            run.coverage["black_box_symlinks_and_byproducts"] = "inputs reached through symbolic links; a command rewriting its own reported dependency"

    return world_check(PROP, THEOREMS, tier, seed, [monitor_null_build, monitor_killed_commands], clean_oracle=True, replay=replay, scen_gen=gen,
                       note="phony aliases used as dirtying inputs (finding F8) are excluded by the property and not generated")
