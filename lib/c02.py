"""C02 — a successful incremental build leaves what a clean build would produce."""
from worldcheck import *

PROP = "C02"
THEOREMS = [tuple(x) for x in json.load(open(os.path.join(VERIF, "lib", "pins", PROP + ".json")))]


def main(tier, seed, replay=None):
    return world_check(PROP, THEOREMS, tier, seed, [monitor_null_build], clean_oracle=True, replay=replay,
                       note="phony aliases used as dirtying inputs (finding F8) are excluded by the property and not generated")
