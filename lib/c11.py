"""C11 — variables are expanded with Ninja's scoping rules."""
from frontcheck import *

PROP = "C11"
THEOREMS = [tuple(x) for x in json.load(open(os.path.join(VERIF, "lib", "pins", PROP + ".json")))]


def main(tier, seed, replay=None):
    return front_check(PROP, THEOREMS, tier, seed, extra_modules=["Model.All", "Proofs.EvalScope", "Proofs.EvalFiles", "Proofs.GraphDedup", "Proofs.GraphAddBuild", "Proofs.GraphLoad"], gen_kw=dict(includes=True, scoping=True), replay=replay)
