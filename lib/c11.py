"""C11 — variables are expanded with Ninja's scoping rules."""
from frontcheck import *

PROP = "C11"
THEOREMS = []


def main(tier, seed, replay=None):
    return front_check(PROP, THEOREMS, tier, seed, dict(includes=True, scoping=True), replay=replay)
