#!/usr/bin/env python3
"""Regenerates the seeded-change table at the end of DESIGN.md (§12) from /verif/seeded/*/meta.json."""
import json, os, re
V = os.path.dirname(os.path.dirname(os.path.abspath(__file__)))
rows = []
for d in sorted(os.listdir(os.path.join(V, "seeded"))):
    mp = os.path.join(V, "seeded", d, "meta.json")
    if not os.path.exists(mp):
        continue
    m = json.load(open(mp))
    checks = m.get("checks_quick", {})
    caught = []
    for c, r in sorted(checks.items()):
        if r.get("violation"):
            caught.append("%s%s" % (c, " (no-failing-input-found)" if r.get("nfi") else ""))
    missed = [c for c, r in sorted(checks.items()) if not r.get("violation")]
    what = (m.get("what_it_breaks") or "")
    what = re.sub(r"\s+", " ", what)[:160]
    rows.append("| %s | %s | %s | %s |" % (d, what, ", ".join(caught) or "—", ", ".join(missed) or "—"))
table = ["## 12. Seeded changes: which checks catch which", "",
         "Quick tier, after the strengthening described in §11; `(no-failing-input-found)` = the check failed because the model/",
         "implementation correspondence broke but its monitors found no input on which the property itself fails.", "",
         "| id | what it breaks | caught by | run but silent |", "|---|---|---|---|"] + rows
p = os.path.join(V, "DESIGN.md")
s = open(p).read()
s = s.split("\n## 12. Seeded changes")[0].rstrip("\n") + "\n\n" + "\n".join(table) + "\n"
open(p, "w").write(s)
print(len(rows), "rows")
