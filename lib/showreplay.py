import json,glob,os,collections,sys
prop=sys.argv[1]
fs=sorted(glob.glob('/verif/replays/%s-*'%prop),key=os.path.getmtime)
d=json.load(open(fs[-1]))
print(fs[-1]); print(d['what'][:300]); print(len(d.get('all',[])))
c=collections.Counter(x['what'][:int(sys.argv[2]) if len(sys.argv)>2 else 70] for x in d.get('all',[]))
for k,v in c.most_common(12): print(v,k)
n=int(sys.argv[3]) if len(sys.argv)>3 else 2
for x in d.get('all',[])[:n]:
    print('V',x['what'][:500]); 
    r=x['replay']
    for k in ('manifest','other_spelling','files','result','other_result'):
        if k in r: print('  %s:'%k, (r[k] if isinstance(r[k],str) else json.dumps(r[k]))[:1500])
for x in (d.get('tie_broken') or d.get('no_longer_checks') or [])[:n]:
    print('T',x['what']); det=x['detail']
    if isinstance(det,dict):
        for k,v in det.items(): print('  %s:'%k, (v if isinstance(v,str) else json.dumps(v))[:1500])
    else: print('  ',str(det)[:800])
