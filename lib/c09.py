"""C09 — discovered dependencies are remembered, replaced wholesale, and never block."""
import itertools

from worldcheck import *
from sched import hx

PROP = "C09"
THEOREMS = [tuple(x) for x in json.load(open(os.path.join(VERIF, "lib", "pins", PROP + ".json")))]

NOTE = b"Note: including file: "


def showincludes_suite(run, rng, har, drv, tier):
    cases = []
    toks = [b"a", b"\n", NOTE, b" ", b"\r", b"x.h", b"Note: ", b"\n\n"]
    for n in range(0, 6 if tier == "quick" else 7):
        for t in itertools.product(toks, repeat=n):
            cases.append(b"".join(t))
    for _ in range(500):
        lines = []
        for _ in range(rng.randint(0, 6)):
            r = rng.random()
            if r < 0.4:
                lines.append(NOTE + b" " * rng.randint(0, 3) + rng.choice([b"a.h", b"C:\\x y\\z.h", "é.h".encode(), b""]) + rng.choice([b"", b"\r"]))
            else:
                lines.append(rng.choice([b"", b"warning: x", b"Note: something", b" " + NOTE + b"x", b"\r"]))
        cases.append(b"\n".join(lines) + rng.choice([b"", b"\n"]))
    lines = [hexs(c) for c in cases]
    impl, model, bad = differential(run, "extract_showincludes", har, drv, "showincludes", "showincludes", lines)
    for c, r in zip(cases, impl):
        if not r.startswith("ok "):
            run.report_failure(None, "extract_showincludes did not return: %s" % r[:100], {"suite": "showincludes", "input_hex": hexs(c)})
            continue
        incs, _, out = r[3:].partition("|")
        out = unhexs(out)
        got_incs = [unhexs(x) for x in incs.split(",")] if incs else []
        src = c.split(b"\n")
        want_out = b"\n".join(l for l in src if not l.startswith(NOTE))
        want_incs = []
        for l in src:
            if l.startswith(NOTE):
                p = l[len(NOTE):]
                if p.endswith(b"\r"):
                    core = p[:-1]
                else:
                    core = p
                st = p.lstrip(b" ")
                if st == b"":
                    want_incs.append(core)
                else:
                    want_incs.append(st[:-1] if p.endswith(b"\r") else st)
        if any(l.startswith(NOTE) for l in out.split(b"\n")):
            run.report_failure(None, "a /showIncludes line is left in the output shown to the user", {"suite": "showincludes", "input_hex": hexs(c)})
        if out != want_out:
            cls = "showincludes-drops-leading-empty-lines" if out.lstrip(b"\n") == want_out.lstrip(b"\n") else None
            run.report_failure(cls, "filtered output %r differs from the other lines %r" % (out[:60], want_out[:60]), {"suite": "showincludes", "input_hex": hexs(c)})
        if got_incs != want_incs:
            run.report_failure(None, "reported includes %r, expected %r" % (got_incs, want_incs), {"suite": "showincludes", "input_hex": hexs(c)})
    return len(cases), len(bad)


def restat_probe(run, har):
    """F10 probe: `-t restat` (adopt mode) must not forget the dependencies a step reported on its last real run"""
    man = "rule r\n  command = cmd $tag $out $opts\nbuild o: r s.c\n  tag = t\n  opts = depsfrom=s.c\n"
    steps = ["file %s %s" % (hx("build.ninja"), hx(man)), "file %s %s" % (hx("s.c"), hx("#include h.h\n")), "file %s %s" % (hx("h.h"), hx("v0")),
             S.inv_cmd(1, None, False, [], "-"),
             "touch %s" % hx("s.c"),
             S.inv_cmd(1, None, True, [], "-"),
             "file %s %s" % (hx("h.h"), hx("v1")),
             S.inv_cmd(1, None, False, [], "-")]
    rep = S.run_histories(har, ["\n".join(steps)])[0]
    where = {"scenario": "\n".join(steps)}
    if isinstance(rep, str) or len(rep) < 3:
        run.report_failure(None, "restat probe: harness died", where)
        return
    if not rep[0].result.startswith("ok:1") or rep[1].result != "ok:0":
        run.report_failure(None, "restat probe: unexpected results %s / %s" % (rep[0].result, rep[1].result), where)
        return
    if rep[2].result == "ok:0":
        run.report_failure("restat-drops-discovered-deps",
                           "after `-t restat` a change of a previously discovered dependency (h.h) no longer rebuilds the step", where)
    elif not rep[2].result.startswith("ok:1"):
        run.report_failure(None, "restat probe: final invocation %s" % rep[2].result, where)


def monitor_missing_dep_never_fails(run, where, inv, meta, hist, ii, rep):
    if inv.result.startswith("err:"):
        msg = unhexs(inv.result[4:]).decode("utf-8", "replace")
        if "missing" in msg and "missing_" in msg:
            run.report_failure(None, "a discovered dependency that disappeared failed the build: %s" % msg[:120], where)
            return
        # any refusal that names a file no statement of the manifest mentions: such a file can only be a reported dependency
        if "missing" in msg and inv.graphs and not inv.graphs[-1].error:
            g = inv.graphs[-1]
            declared = {f["name"] for f in g.files}
            import re as _re
            for name in _re.findall(r"[A-Za-z0-9_./-]+\.h", msg):
                if name not in declared and name not in meta.get("targets", []):
                    run.report_failure(None, "a reported dependency that has disappeared (%s, named by no statement) failed the build: %s" % (name, msg[:120]), where)
                    return


def monitor_reports_do_not_order(run, where, inv, meta, hist, ii, rep):
    """discovered dependencies never change build order: only declared inputs may hold a step back (sched.monitor_no_idle_wait)"""
    S.monitor_no_idle_wait(run, where, inv, meta.get("j", 1), meta.get("k"))


def monitor_discovered_never_blocks(run, where, inv, meta, hist, ii, rep):
    """discovered dependencies never change build order and never block: an invocation in which no command failed must not
    abort, and must not leave a wanted step undecided"""
    if inv.result.startswith("panic:"):
        run.report_failure(None, "the invocation aborted with an internal error: %s" % unhexs(inv.result[6:]).decode("utf-8", "replace")[:160], where)
        return
    failed = any(e.startswith("finish_") and e.split("_")[2] != "0" for e in inv.trace)
    if inv.result == "fail" and not failed:
        run.report_failure(None, "the invocation reports failure although no command failed: %s" % inv.result[:80], where)


def main(tier, seed, replay=None):
    extra = {}

    def mon_extra(*a):
        pass
    rc_holder = {}
    import worldcheck as W
    orig_finish = Run.finish

    # run the pure showIncludes suite inside the same Run by hooking a monitor that fires once
    state = {"done": False}

    def monitor_showincludes(run, where, inv, meta, hist, ii, rep):
        if state["done"]:
            return
        state["done"] = True
        drv = build_driver()
        har, _ = build_harness()
        restat_probe(run, har)
        import taskleg
        n2, out_ = build_n2_binary()
        if n2 is None:
            run.tie("n2 build", out_[-1000:])
        else:
            taskleg.showincludes_leg(run, n2)
            taskleg.showincludes_bytes_leg(run, n2)
            taskleg.depfile_leg(run, n2)
            run.coverage["black_box_depfile_projects"] = taskleg.depfile_random_leg(run, n2, random.Random(seed + 78), 12 if tier == "quick" else 120)
            run.coverage["black_box_showincludes_plans"] = taskleg.showincludes_random_leg(run, n2, random.Random(seed + 77), 6 if tier == "quick" else 40)
            run.coverage["black_box_task_leg"] = "deps=msvc and depfile projects run through the real binary (run_task / read_depfile)"
        n, bad = showincludes_suite(run, random.Random(seed), har, drv, tier)
        run.coverage["showincludes_cases"] = n
        run.coverage["showincludes_disagreements"] = bad

    def scen(rng, **kw):
        # one history in five: a reported dependency that is itself generated, with no declared path to its producer
        return gen_history_gendep(rng) if rng.random() < 0.2 else gen_history(rng, **kw)

    return world_check(PROP, THEOREMS, tier, seed, [monitor_showincludes, monitor_discovered_never_blocks, monitor_reports_do_not_order, monitor_missing_dep_never_fails, monitor_null_build, monitor_one_node_per_location],
                       replay=replay, scen_gen=scen, note="F10: `-t restat` (adopt) empties the discovered list of the steps it marks up to date")
