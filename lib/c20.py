"""C20 — status rendering never breaks the build (src/progress_fancy.rs helpers)."""
import itertools
import random

from common import *

PROP = "C20"

THEOREMS = [
    ("C20_truncate_safe", "forall s max, (length (truncate s max) <= max)%nat /\\ (exists t, s = truncate s max ++ t) /\\ "
                          "is_char_boundary s (length (truncate s max)) = true"),
    ("C20_truncate_utf8", "forall s max, utf8_ok s = true -> utf8_ok (truncate s max) = true"),
    ("C20_truncate_fits", "forall s max, (length s <= max)%nat -> truncate s max = s"),
    ("C20_bar_width", "forall c n, length (progress_bar c n) = N.to_nat n"),
    ("C20_task_message", "forall m secs cols, exists r, task_message m secs cols = Ok r /\\ (length r <= cols)%nat /\\ "
                         "(utf8_ok m = true -> utf8_ok r = true)"),
    ("C20_task_message_fits", "forall m secs cols, (length m + length (time_note secs) < cols)%nat -> "
                              "task_message m secs cols = Ok (m ++ time_note secs)"),
    ("C20_task_message_pinned_refuted",
     "(exists m secs cols, (10 <= cols)%nat /\\ utf8_ok m = true /\\ (secs <= 1000000)%N /\\ task_message_pinned m secs cols = Panic 30%N) /\\ "
     "(exists m secs cols, (10 <= cols)%nat /\\ utf8_ok m = true /\\ (secs <= 1000000)%N /\\ task_message_pinned m secs cols = Panic 31%N)"),
]

CHARS = ["a", "é", "€", "😀"]


def utf8_ok(b):
    try:
        b.decode("utf-8")
        return True
    except UnicodeDecodeError:
        return False


def pty_leg(run, tier):
    """the fancy console on a real pty: long lines of multi-byte text as last output line, long descriptions, many tasks;
    the build must finish normally whatever is rendered"""
    import shutil, tempfile
    n2, out = build_n2_binary()
    if n2 is None:
        run.tie("n2 build", out[-1000:])
        return 0
    if shutil.which("script") is None:
        return 0
    d = tempfile.mkdtemp(prefix="n2verif-c20-%d-" % os.getpid())
    n = 0
    try:
        lines = ["rule say", "  command = printf '%s\\n' \"$text\"; sleep 0.3; printf '%s' \"$text\" > $out", "  description = $desc"]
        texts = ["a" * 511 + "é" * 40, "€" * 300, "😀" * 200, "x" * 79 + "é", "plain", "é" * 39 + "a" * 3, "a" * 509 + "😀😀"]
        prev = None
        for i, t in enumerate(texts):
            lines += ["build o%d: say%s" % (i, (" || " + prev) if prev and i % 2 else ""), "  text = %s" % t, "  desc = %s" % (t[:100] + " é" * 30)]
            prev = "o%d" % i
        for i in range(90):
            lines += ["build q%d: say" % i, "  text = q", "  desc = quick %d" % i]
        open(os.path.join(d, "build.ninja"), "w").write("\n".join(lines) + "\n")
        for cols in (80, 10, 13, 200):
            cmd = "stty cols %d 2>/dev/null; %s -j 8" % (cols, n2)
            p = subprocess.run(["script", "-qec", cmd, "/dev/null"], cwd=d, stdout=subprocess.PIPE, stderr=subprocess.STDOUT,
                               stdin=subprocess.DEVNULL, timeout=300, env=ENV)
            txt = p.stdout.decode("utf-8", "replace")
            n += 1
            where = {"suite": "pty", "cols": cols, "rc": p.returncode, "tail": txt[-400:]}
            if "panicked" in txt or p.returncode != 0:
                run.report_failure(None, "the fancy console broke the build on a %d-column pty (rc %d)" % (cols, p.returncode), where)
            else:
                for m in re.finditer(r"\[([=\- ]*)\] \d+/\d+ done", txt):
                    if len(m.group(1)) != 40:
                        run.report_failure(None, "progress bar is %d wide, not 40" % len(m.group(1)), where)
                        break
            for f in os.listdir(d):
                if f.startswith("o") or f.startswith("q") or f == ".n2_db":
                    os.remove(os.path.join(d, f))
    finally:
        shutil.rmtree(d, ignore_errors=True)
    return n



def pty_resize_leg(run):
    """more than 8 chatty commands at once on a pty that is made narrower while they run: the build is unaffected and every
    frame painted after the resize keeps task lines and last-output lines within the new width"""
    import fcntl, pty, select, shutil, struct, tempfile, termios, time
    n2, out = build_n2_binary()
    if n2 is None:
        return 0
    d = tempfile.mkdtemp(prefix="n2verif-c20-%d-" % os.getpid())
    WIDE, NARROW, NSTEP = 120, 40, 12
    try:
        lines = ["rule gen", "  command = printf 'L%0149d\\n' 7; sleep 4; touch $out",
                 "  description = GENERATE $out " + "from-a-rather-long-list-of-inputs-" * 5]
        lines += ["build out%d: gen" % i for i in range(NSTEP)]
        open(os.path.join(d, "build.ninja"), "w").write("\n".join(lines) + "\n")
        pid, fd = pty.fork()
        if pid == 0:
            try:
                os.chdir(d)
                os.execve(n2, [n2, "-j", str(NSTEP)], ENV)
            finally:
                os._exit(127)
        fcntl.ioctl(fd, termios.TIOCSWINSZ, struct.pack("HHHH", 50, WIDE, 0, 0))
        t0, buf, marks, resized = time.time(), b"", {}, False
        while True:
            r, _, _ = select.select([fd], [], [], 0.1)
            now = time.time() - t0
            if not resized and now >= 1.0:
                fcntl.ioctl(fd, termios.TIOCSWINSZ, struct.pack("HHHH", 50, NARROW, 0, 0))
                resized = True
            for name, t in (("from", 2.0), ("to", 3.5)):
                if name not in marks and now >= t:
                    marks[name] = len(buf)
            if r:
                try:
                    chunk = os.read(fd, 65536)
                except OSError:
                    break
                if not chunk:
                    break
                buf += chunk
            if now > 120:
                os.kill(pid, 9)
                break
        _, status = os.waitpid(pid, 0)
        os.close(fd)
        rc = os.waitstatus_to_exitcode(status)
        txt = buf.decode("utf-8", "replace")
        built = sum(1 for i in range(NSTEP) if os.path.exists(os.path.join(d, "out%d" % i)))
        where = {"suite": "pty-resize", "rc": rc, "outputs_built": built, "tail": txt[-500:]}
        if rc != 0 or built != NSTEP or "panicked" in txt or "ran %d tasks" % NSTEP not in txt:
            run.report_failure(None, "%d chatty commands on a pty: the display broke the build (exit %d, %d of %d outputs, %s)" % (
                NSTEP, rc, built, NSTEP, "panic" if "panicked" in txt else "no panic text"), where)
            return 1
        window = buf[marks.get("from", len(buf)):marks.get("to", len(buf))]
        plain = re.sub(rb"\x1b\[[0-9;]*[A-Za-z]", b"", window).replace(b"\r", b"")
        frame_lines = plain.split(b"\n")[1:-1]          # whole lines painted well after the resize and before any command finished
        checked = 0
        for l in frame_lines:
            # (the summary line `[bar] n/m done, ...` has its nominal width whatever the terminal; the property cuts messages only)
            if l.startswith(b"  L0") or l.startswith(b"GENERATE"):
                checked += 1
                if len(l) > NARROW:
                    run.report_failure(None, "after the terminal was narrowed to %d columns a progress line of %d bytes was painted: %r" % (
                        NARROW, len(l), l[:60]), dict(where, line=repr(l)))
                    break
        run.coverage["pty_resize_lines_checked"] = checked
    finally:
        shutil.rmtree(d, ignore_errors=True)
    return 1


LOSSY_ALPHA = [0x61, 0x80, 0xbf, 0xc0, 0xc1, 0xc2, 0xdf, 0xe0, 0xa0, 0x9f, 0xed, 0xee, 0xef, 0xf0, 0x90, 0x8f, 0xf4, 0xf5, 0xff, 0xe1, 0xf1]
RAW_PIECES = [b"warning: x", b"\xff", b"\xe2\x82", b"\xe2\x82\xac", b"\xf0\x9f\x98", b"\xf0\x9f\x98\x80", b"\xc0\xaf", b"\xed\xa0\x80",
              b"\xf4\x90\x80\x80", b" ", b"ok", "é".encode(), "日本語".encode(), b"\x1b[1m", b"\x80", b"a" * 30, b"\t"]
TEXT_PIECES = ["cc -c ", "foo.c", " -o ", "é", "€", "😀", "日本", "x" * 25, " ", "LINK prog", "/very/long/path/" * 3, "a"]


def fancy_text(rng, raw=False):
    if raw:
        return b"".join(rng.choice(RAW_PIECES) for _ in range(rng.randint(0, 8)))
    return "".join(rng.choice(TEXT_PIECES) for _ in range(rng.randint(1, 7))).encode()


def gen_fancy(rng, malformed=False):
    """one scenario for the display state: (line, meta).  Protocol-respecting unless `malformed`."""
    hx = lambda b: hexs(b)
    ops, shown, clock, nid = [], [], 0, 1
    last_counts = [0] * 6                          # Want Ready Queued Running Done Failed, as last passed to update()
    meta = {"valid_text": True, "prints": [], "malformed": malformed}
    descs = {}
    wide = rng.random() < 0.4                      # often more than eight commands on display
    raw_desc = rng.random() < 0.15
    for _ in range(rng.randint(4, 45)):
        r = rng.random()
        clock += rng.choice([0, 1, 30, 400, 999, 1000, 1001, 2500, 60000, 3600000])
        if r < (0.45 if wide and len(shown) < 12 else 0.2) or not shown:
            d = rng.choice([None, b"", fancy_text(rng, raw_desc), fancy_text(rng)])
            c = fancy_text(rng, raw_desc) if rng.random() < 0.9 else b""
            if raw_desc:
                meta["valid_text"] = meta["valid_text"] and utf8_ok(d or b"") and utf8_ok(c)
            start = clock if rng.random() < 0.9 else clock + rng.choice([1, 5000])      # a start "after" the frame's clock saturates
            descs[nid] = (d, c)
            ops.append("S %d %d %s %s" % (nid, start, "~" if d is None else hx(d), hx(c)))
            shown.append(nid)
            nid += 1 if rng.random() < 0.97 else 0      # occasionally the same id twice on display
        elif r < 0.45:
            i = rng.choice(shown)
            ops.append("O %d %s" % (i, hx(fancy_text(rng, raw=rng.random() < 0.6))))
        elif r < 0.6:
            i = rng.choice(shown)
            d, c = descs[i]
            out = rng.choice([b"", b"out\n", b"no newline", fancy_text(rng, True) + b"\n", b"x" * 300])
            ops.append("F %d %s %s %d %d %s" % (i, "~" if d is None else hx(d), hx(c), rng.random() < 0.2, rng.choice([0, 0, 0, 1, 2]), hx(out)))
            shown.remove(i)
        elif r < 0.7:
            last_counts = [rng.choice([0, 1, 2, 7, 100, 12345]) for _ in range(6)]
            ops.append("U " + " ".join(str(x) for x in last_counts))
        elif r < 0.73:
            ops.append("L " + hx(fancy_text(rng)))
        else:
            cols = rng.choice([10, 11, 12, 13, 14, 15, 20, 40, 79, 80, 81, 120, 300])
            ops.append("P %d %d" % (clock, cols))
            meta["prints"].append({"cols": cols, "shown": len(shown), "counts": list(last_counts)})
    if malformed:
        k = rng.choice(["O", "F", "S", "P"])
        if k == "O":
            ops.append("O 9999 %s" % hx(b"x"))
        elif k == "F":
            ops.append("F 9999 ~ %s 0 0 -" % hx(b"c"))
        elif k == "S":
            ops.append("S 9998 0 %s ~" % rng.choice(["~", "-"]))
        else:
            ops.append("S 9997 0 ~ %s;O 9997 %s;P %d %d" % (hx(b"c"), hx(b"l"), clock, rng.choice([0, 1])))
        meta["bad_op"] = k
    return "v=%d %s" % (rng.random() < 0.1, ";".join(ops)), meta


STATUS_RE = re.compile(rb"\[([=\- ]*)\] (\d+)/(\d+) done, (\d+ failed, )?(\d+)/\d+ running$")


def fancy_monitor(run, line, meta, res):
    """the property on the implementation's own frames: no panic under the protocol, bar 40 wide, task lines within the width and
    cut at character boundaries, cursor-up count = lines painted, between min(8, shown) and 16 task lines"""
    where = {"suite": "fancy", "case": line, "result": res[:300]}
    if not res.startswith("ok "):
        if meta["malformed"]:
            return                                   # outside the protocol the code is allowed to panic (C20_protocol_is_needed)
        run.report_failure(None, "the display state panicked although its callers' protocol was respected: %s" % res[:160], where)
        return
    frames = res.split("frames=")[1].split(" ")[0]
    frames = [unhexs(f) for f in frames.split(",")] if frames else []
    prints = meta["prints"] + ([{"cols": None, "shown": None}] if meta["malformed"] and len(frames) > len(meta["prints"]) else [])
    if len(frames) != len(prints):
        run.report_failure(None, "%d frames for %d print_progress calls" % (len(frames), len(prints)), where)
        return
    for fr, pr in zip(frames, prints):
        if pr["cols"] is None:
            continue
        m = re.search(rb"\x1b\[(\d+)A$", fr)
        if not m:
            run.report_failure(None, "frame does not end in a cursor-up sequence", where)
            return
        n = int(m.group(1))
        body = fr[:m.start()]
        if not body.endswith(b"\n"):
            run.report_failure(None, "frame text does not end in a newline before the cursor-up", where)
            return
        lines = body[:-1].split(b"\n")[-n:]
        if len(lines) != n or not STATUS_RE.search(lines[0]):
            run.report_failure(None, "cursor-up by %d does not lead back to the status line: %r" % (n, lines[0][:80] if lines else b""), where)
            return
        bar = STATUS_RE.search(lines[0]).group(1)      # (the line may start with pending text: '\\r\\x1b[J', a logged message without newline)
        if len(bar) != 40:
            run.report_failure(None, "the bar is %d wide, not 40" % len(bar), where)
        mm = STATUS_RE.search(lines[0])
        if not meta["malformed"] and pr.get("counts") is not None:
            cts = pr["counts"]
            if (int(mm.group(2)), int(mm.group(3))) != (cts[4] + cts[5], sum(cts)):
                run.report_failure(None, "the status line says %s/%s done; the counts last reported are %d finished of %d"
                                   % (mm.group(2).decode(), mm.group(3).decode(), cts[4] + cts[5], sum(cts)), where)
                return
        shown_count = int(mm.group(5))
        if not meta["malformed"] and shown_count != pr["shown"]:
            run.report_failure(None, "the status line says %d running while %d commands were started and have not finished" % (shown_count, pr["shown"]), where)
            return
        tl = lines[1:]
        if pr["shown"] > 8:
            if not tl or not re.match(rb"^\.\.\.and %d more$" % (pr["shown"] - 8), tl[-1]):
                run.report_failure(None, "%d commands on display but no '...and %d more' line" % (pr["shown"], pr["shown"] - 8), where)
                return
            tl = tl[:-1]
        if not (min(8, pr["shown"]) <= len(tl) <= 16):
            run.report_failure(None, "%d task lines for %d commands on display" % (len(tl), pr["shown"]), where)
        for l in tl:
            if len(l) > pr["cols"]:
                run.report_failure(None, "a task line of %d bytes on a %d-column terminal: %r" % (len(l), pr["cols"], l[:60]), where)
                break
            if meta["valid_text"] and not utf8_ok(l):
                run.report_failure(None, "a task line was cut inside a character: %r" % l[-12:], where)
                break


def fancy_leg(run, rng, tier, har, drv, replay=None):
    n = 1500 if tier == "quick" else 15000
    cases = [gen_fancy(rng, malformed=(i % 10 == 9)) for i in range(n)]
    if replay:
        cases = [(replay["case"], replay.get("meta", {"valid_text": False, "prints": [], "malformed": True}))]
    lines = [c[0] for c in cases]
    PAN = {"panic 31": ["subtract with overflow"], "panic 32": ["progress.rs", "called `Option::unwrap()`"],
           "panic 33": ["progress_fancy.rs", "called `Option::unwrap()`"], "panic 34": ["progress_fancy.rs", "called `Option::unwrap()`"]}
    impl, model, bad = differential(run, "FancyState / print_progress", har, drv, "fancy", "fancy", lines, PAN)
    for (l, meta), r in zip(cases, impl):
        if not replay:
            fancy_monitor(run, l, meta, r)
    # String::from_utf8_lossy against Fancy.lossy and against python's decoder (an independent third opinion)
    depth = 3 if tier == "quick" else 4
    ls = [bytes(t) for k in range(depth + 1) for t in itertools.product(LOSSY_ALPHA, repeat=k)]
    for _ in range(3000 if tier == "quick" else 30000):
        ls.append(b"".join(rng.choice(RAW_PIECES + [bytes([rng.choice(LOSSY_ALPHA)])]) for _ in range(rng.randint(1, 10))))
    li, lm, lbad = differential(run, "String::from_utf8_lossy", har, drv, "lossy", "lossy", [hexs(c) for c in ls])
    for c, r in zip(ls, li):
        want = c.decode("utf-8", "replace").encode()
        if r != "ok " + hexs(want):
            run.report_failure(None, "from_utf8_lossy(%r) = %s, expected %r" % (c, r[:80], want), {"suite": "lossy", "case": hexs(c)})
            break
    ops = sum(l.count(";") + 1 for l in lines)
    return {"fancy_scenarios": len(lines), "fancy_operations": ops, "fancy_frames": sum(len(m["prints"]) for _, m in cases),
            "fancy_frames_more_than_8": sum(1 for _, m in cases for p in m["prints"] if p["shown"] > 8),
            "fancy_malformed": sum(1 for _, m in cases if m["malformed"]), "fancy_disagreements": len(bad),
            "fancy_panics_impl": sum(1 for r in impl if not r.startswith("ok ")),
            "lossy_cases": len(ls), "lossy_disagreements": len(lbad)}


def narrow_pty_leg(run):
    """a terminal that reports fewer than 10 columns (a freshly opened pty reports 0): n2 must not accept that width; a command that
    has printed a line and is still running is on display when frames are painted"""
    import fcntl, pty, select, shutil, struct, tempfile, termios, time
    n2, out = build_n2_binary()
    if n2 is None:
        return 0
    n = 0
    for cols in (0, 1, 5, 9):
        d = tempfile.mkdtemp(prefix="n2verif-c20-%d-" % os.getpid())
        try:
            open(os.path.join(d, "build.ninja"), "w").write(
                "rule say\n  command = echo a line of output that is longer than nine columns; sleep 1.2; touch $out\n  description = SAY $out\nbuild o1: say\nbuild o2: say\n")
            pid, fd = pty.fork()
            if pid == 0:
                try:
                    fcntl.ioctl(0, termios.TIOCSWINSZ, struct.pack("HHHH", 24, cols, 0, 0))
                    os.chdir(d)
                    os.execve(n2, [n2, "-j", "2"], ENV)
                finally:
                    os._exit(127)
            buf, t0 = b"", time.time()
            while time.time() - t0 < 60:
                r, _, _ = select.select([fd], [], [], 0.2)
                if r:
                    try:
                        chunk = os.read(fd, 65536)
                    except OSError:
                        break
                    if not chunk:
                        break
                    buf += chunk
            else:
                os.kill(pid, 9)
            _, status = os.waitpid(pid, 0)
            os.close(fd)
            rc = os.waitstatus_to_exitcode(status)
            txt = buf.decode("utf-8", "replace")
            n += 1
            if rc != 0 or "panicked" in txt or "ran 2 tasks" not in txt or not all(os.path.exists(os.path.join(d, o)) for o in ("o1", "o2")):
                run.report_failure(None, "on a terminal reporting %d columns the display broke the build (exit %d%s)" % (cols, rc, ", panic" if "panicked" in txt else ""),
                                   {"suite": "narrow-pty", "cols": cols, "rc": rc, "tail": txt[-500:]})
        finally:
            shutil.rmtree(d, ignore_errors=True)
    return n


def main(tier, seed, replay=None):
    run = Run(PROP, tier, seed, "proof")
    rng = random.Random(seed)
    info, problems = proof_gate_multi([PROP, "C20Shape", "C20Frame", "C20Width"], thorough=(tier == "thorough"))
    for p in problems:
        run.tie("proof gate", p)
    drv = build_driver()
    har, out = build_harness()
    if har is None:
        run.tie("harness build", out[-2000:])
        return run.finish()
    maxchars = 5 if tier == "quick" else 6
    strings = []
    for n in range(0, maxchars + 1):
        for t in itertools.product(CHARS, repeat=n):
            strings.append("".join(t))
    n_exh = len(strings)
    for _ in range(400 if tier == "quick" else 4000):
        k = rng.choice([8, 9, 10, 12, 15, 20, 40, 79, 80, 81, 120, 300])
        strings.append("".join(rng.choice("ab c/.-_éñ€日😀") for _ in range(k)))
    secs_set = [0, 2, 3, 99, 1000, 1000000]
    widths_small = list(range(10, 31))
    widths_all = list(range(10, 301))
    tm_lines, tr_lines = [], []
    for s in strings:
        h = hexs(s.encode())
        b = len(s.encode())
        ws = widths_small if len(s) <= maxchars else rng.sample(widths_all, 12) + [b, b + 1, max(10, b - 1), b + 5, b + 6, b + 13]
        for w in ws:
            if w < 10:
                continue
            for sec in (secs_set if len(s) <= 4 or tier == "thorough" else rng.sample(secs_set, 3)):
                tm_lines.append("%s %d %d" % (h, sec, w))
        for mx in (range(0, b + 2) if b <= 24 else rng.sample(range(0, b + 2), 12)):
            tr_lines.append("%s %d" % (h, mx))
    bar_lines = []
    bound = 3 if tier == "quick" else 4
    for t in itertools.product(range(bound + 1), repeat=6):
        for size in (40, 10, 1, 0, 7):
            bar_lines.append(" ".join(map(str, t)) + " %d" % size)
    for _ in range(2000):
        bar_lines.append(" ".join(str(rng.choice([0, 1, 2, 5, 100, 9999, 10**6])) for _ in range(6)) + " %d" % rng.choice([40, 80, 3]))
    if replay:
        rp = json.load(open(replay))["replay"]
        tm_lines = [rp["case"]] if rp.get("suite") == "taskmsg" else tm_lines[:10]
        tr_lines = [rp["case"]] if rp.get("suite") == "truncate" else tr_lines[:10]
        bar_lines = [rp["case"]] if rp.get("suite") == "bar" else bar_lines[:10]
    PANICS = {"panic 30": ["char boundary", "char_boundary"], "panic 31": ["subtract with overflow"]}
    tm_impl, tm_model, bad1 = differential(run, "task_message", har, drv, "taskmsg", "taskmsg", tm_lines, PANICS)
    tr_impl, tr_model, bad2 = differential(run, "truncate", har, drv, "truncate", "truncate", tr_lines, PANICS)
    bar_impl, bar_model, bad3 = differential(run, "progress_bar", har, drv, "bar", "bar", bar_lines, PANICS)
    stats = {"task_message": len(tm_lines), "truncate": len(tr_lines), "progress_bar": len(bar_lines), "panics": 0}
    nontrivial = set()
    # monitors on the implementation's outputs
    for l, r in zip(tm_lines, tm_impl):
        h, sec, w = l.split()
        msg = unhexs(h)
        w = int(w)
        if not r.startswith("ok "):
            stats["panics"] += 1
            cls = None
            if "char boundary" in r:
                cls = "task-message-char-boundary"
            elif "subtract with overflow" in r:
                cls = "task-message-width-underflow"
            run.report_failure(cls, "task_message(%r, %s, %d) did not return: %s" % (msg.decode(), sec, w, r[:160]),
                               {"suite": "taskmsg", "case": l, "result": r})
            continue
        out = unhexs(r[3:])
        if len(out) > w:
            run.report_failure(None, "task_message(%r, %s, %d) is %d bytes wide" % (msg.decode(), sec, w, len(out)),
                               {"suite": "taskmsg", "case": l, "result": r})
        if not utf8_ok(out):
            run.report_failure(None, "task_message(%r, %s, %d) cut inside a character" % (msg.decode(), sec, w),
                               {"suite": "taskmsg", "case": l, "result": r})
        note = (" (%ss)" % sec) if int(sec) > 2 else ""
        if len(msg) + len(note) < w and out != msg + note.encode():
            run.report_failure(None, "task_message altered a message that fits: %r" % l, {"suite": "taskmsg", "case": l, "result": r})
        if out != msg + note.encode():
            nontrivial.add(l)
    for l, r in zip(tr_lines, tr_impl):
        h, mx = l.split()
        s = unhexs(h)
        if not r.startswith("ok "):
            run.report_failure(None, "truncate(%r, %s) did not return: %s" % (s, mx, r[:160]), {"suite": "truncate", "case": l})
            continue
        out = unhexs(r[3:])
        if len(out) > int(mx) or not s.startswith(out) or not utf8_ok(out) or (len(s) <= int(mx) and out != s):
            run.report_failure(None, "truncate(%r, %s) = %r" % (s, mx, out), {"suite": "truncate", "case": l})
        if out != s:
            nontrivial.add(l)
    for l, r in zip(bar_lines, bar_impl):
        size = int(l.split()[-1])
        if not r.startswith("ok ") or len(unhexs(r[3:])) != size:
            run.report_failure(None, "progress_bar(%s) = %s, nominal width %d" % (l, r[:100], size), {"suite": "bar", "case": l})
    # vm_compute sub-sample of task_message
    idx = rng.sample(range(len(tm_lines)), min(100, len(tm_lines)))
    sub = [tm_lines[i] for i in idx]
    subm = [tm_model[i] for i in idx]

    def call(l):
        h, sec, w = l.split()
        return "task_message %s %s%%N %s%%nat" % (coq_list(unhexs(h)), sec, w)

    def parse_vm(out):
        res = []
        for m in re.finditer(r"=\s*(Ok|Panic)\s*(.*?)\n\s*:\s*outcome", out, re.S):
            if m.group(1) == "Ok":
                res.append("ok " + hexs(coq_bytes_of_out(m.group(2))))
            else:
                res.append("panic " + m.group(2).strip().replace("%N", ""))
        return res

    nvm = vm_subsample(run, "task_message", rng, sub, subm, call, parse_vm)
    # task::find_last_line (what the display shows of a running command's output) against Proc.find_last_line
    if not replay:
        ll = [b""]
        alpha = [b"a", b"\n", b"\r", b" ", "é".encode()]
        for n in range(1, 7 if tier == "quick" else 8):
            ll += [b"".join(t) for t in itertools.product(alpha, repeat=n)]
        for _ in range(500):
            ll.append(b"".join(rng.choice([b"line %d" % rng.randint(0, 99), b"\n", b"\r\n", b"\n\n", "日本".encode(), b"\x1b[1m", b"\xff"]) for _ in range(rng.randint(1, 12))))
        a_, m_, bad_ = differential(run, "task::find_last_line", har, drv, "lastline", "lastline", [hexs(c) for c in ll])
        for c, r in zip(ll, a_):
            if not r.startswith("ok"):
                run.report_failure(None, "find_last_line did not return: %s" % r[:100], {"input_hex": hexs(c)})
            else:
                got = unhexs(r[3:].strip() or "-")
                body = c.rstrip(b"\r\n")
                want = body[max(body.rfind(b"\n"), body.rfind(b"\r")) + 1:]
                if got != want:
                    run.report_failure(None, "find_last_line(%r) = %r, expected the last non-empty line %r" % (c[:60], got[:60], want[:60]), {"input_hex": hexs(c)})
        stats["last_line_cases"] = len(ll)
        stats["last_line_disagreements"] = len(bad_)
    rp_f = json.load(open(replay))["replay"] if replay else None
    if not replay or rp_f.get("suite") in ("fancy",):
        stats.update(fancy_leg(run, rng, tier, har, drv, rp_f))
    npty = (pty_leg(run, tier) + pty_resize_leg(run) + narrow_pty_leg(run)) if not replay else 0
    stats["pty_runs"] = npty
    # terminal::get_cols on real ptys of every width class (and on a descriptor that is no terminal) against Model/Terminal.v
    cl = ["fail"] + [str(c) for c in list(range(0, 40)) + [79, 80, 81, 120, 255, 256, 1000, 32767, 32768, 65535]]
    if tier == "thorough":
        cl += [str(c) for c in range(40, 2000)]
    impl_c = run_lines([har, "cols"], cl)
    model_c = run_lines([drv, "cols"], cl)
    bad_c = [i for i, (a, b) in enumerate(zip(impl_c, model_c)) if a != b and a != "nopty"]      # (no pty to be had: nothing to compare)
    for i in bad_c[:5]:
        run.tie("correspondence terminal::get_cols / the width print_progress uses", {"case": cl[i], "implementation": impl_c[i][:200], "model": model_c[i][:200]})
    stats["terminal_width_without_pty"] = sum(1 for a in impl_c if a == "nopty")
    for l, r in zip(cl, impl_c):
        if r == "nopty":
            continue
        if not r.startswith(("some ", "none ")):
            run.report_failure(None, "asking the terminal width did not return: %s" % r[:120], {"suite": "cols", "case": l})
        elif int(r.split()[-1]) < 10:
            run.report_failure(None, "a terminal reporting %s columns makes n2 render for %s columns (fewer than the 10 it accepts)" % (l, r.split()[-1]),
                               {"suite": "cols", "case": l, "result": r})
        elif l != "fail" and int(l) >= 10 and int(r.split()[-1]) != int(l):
            run.report_failure(None, "a terminal %s columns wide is rendered for %s columns" % (l, r.split()[-1]), {"suite": "cols", "case": l, "result": r})
    stats["terminal_width_cases"] = len(cl)
    stats["terminal_width_disagreements"] = len(bad_c)
    run.coverage.update(info)
    run.coverage.update({
        "checker_cmd": "make -C coq theories/Props/C20.vo && coqc Gate_C20.v (Check pinned statements + Print Assumptions)",
        "trusted_base": TRUSTED_BASE,
        "evaluations": len(tm_lines) + len(tr_lines) + len(bar_lines),
        "distinct_nontrivial": len(nontrivial),
        "rule": "all strings of 0..%d characters over {a, é, €, 😀} (%d, exhaustive) x widths 10..30 x seconds {0,2,3,99,1000,10^6}, random "
                "long strings x widths 10..300; truncate at every max 0..len+1; all count vectors <= %d per state x bar sizes; "
                "non-trivial = distinct case in which the text was actually cut" % (maxchars, n_exh, bound),
        "exhaustive": True,
        "suites": stats,
        "model_vs_impl_disagreements": len(bad1) + len(bad2) + len(bad3) + stats.get("fancy_disagreements", 0) + stats.get("lossy_disagreements", 0),
        "vm_compute_subsample": nvm,
        "samples": [{"case": tm_lines[i], "impl": tm_impl[i]} for i in rng.sample(range(len(tm_lines)), 4)]
                   + [{"case": bar_lines[i], "impl": bar_impl[i]} for i in rng.sample(range(len(bar_lines)), 2)],
    })
    run.assumptions += ["theorems are about Model/Render.v; tie to progress_fancy.rs = differential check through cfg-gated wrappers",
                        "FancyState and print_progress are modelled (Model/Fancy.v) and compared through a cfg-gated driver that replaces clock, width and stdout; the debounce thread, the mutex and the terminal ioctl are not",
                        "isolation of a rendering panic from the build (display thread, mutex poisoning) is a run-time fact outside the model",
                        "terminal width >= 10 is enforced by terminal::get_cols (not modelled)"]
    return run.finish()
