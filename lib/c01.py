"""C01 — a command starts only after everything it depends on has finished."""
from sched import *

PROP = "C01"
THEOREMS = ["C01", "C01Loaded"]


def killed_producers(run, har):
    """black-box: a consumer never starts after its producer's command died from a signal (the classification of how a command
    ended lives in process_posix.rs, which the scripted executor bypasses)"""
    import taskleg
    n2, out_ = build_n2_binary()
    if n2 is None:
        run.tie("n2 build", out_[-1000:])
    else:
        run.coverage["black_box_killed_producers"] = taskleg.killed_command_leg(run, n2, random.Random(1))


def main(tier, seed, replay=None):
    return sched_check(PROP, THEOREMS, tier, seed, [monitor_c01], extra_modules=["Model.All", "Proofs.SchedSpec", "Proofs.SchedInv", "Proofs.SchedLive", "Proofs.SchedRunThms"],
                       replay=replay, scen_gen=gen_sched_or_regen, probes=killed_producers)
