"""C01 — a command starts only after everything it depends on has finished."""
from sched import *

PROP = "C01"
THEOREMS = []


def main(tier, seed, replay=None):
    return sched_check(PROP, THEOREMS, tier, seed, [monitor_c01, monitor_c04, monitor_c05, monitor_c06, monitor_c19, monitor_c18], replay=replay)
