"""C01 — a command starts only after everything it depends on has finished."""
from sched import *

PROP = "C01"
THEOREMS = [tuple(x) for x in json.load(open(os.path.join(VERIF, "lib", "pins", PROP + ".json")))]


def main(tier, seed, replay=None):
    return sched_check(PROP, THEOREMS, tier, seed, [monitor_c01], extra_modules=["Model.All", "Proofs.SchedSpec", "Proofs.SchedInv", "Proofs.SchedLive", "Proofs.SchedRunThms"],
                       replay=replay, scen_gen=gen_sched_or_regen)
