"""C08 — log records follow steps by output name across manifest edits (src/db.rs, hash.rs)."""
from dbcommon import *
import sched as S

PROP = "C08"
THEOREMS = [
    ("C08_roundtrip", "forall producer ws log, Forall in_bounds ws -> table_small ws -> log_of ws = Ok log -> exists st, db_open true producer log = OpenOk st log /\\ forall b, loaded_for st b = last_applicable producer ws b None"),
    ("C08_writer_total", "forall ws, Forall in_bounds ws -> table_small ws -> exists log, log_of ws = Ok log"),
    ("C08_applied_only_if_all_outputs_match", "forall producer ws log st b deps h, Forall in_bounds ws -> table_small ws -> log_of ws = Ok log -> db_open true producer log = OpenOk st log -> loaded_for st b = Some (deps, h) -> exists w, In w ws /\\ w_deps w = deps /\\ w_hash w = h /\\ w_outs w <> [] /\\ forall o, In o (w_outs w) -> producer o = Some b"),
    ("C08_renumbering_invariant", "forall producer sigma log st1 st2, (forall x y : nat, sigma x = sigma y -> x = y) -> db_open true producer log = OpenOk st1 log -> db_open true (fun n => option_map sigma (producer n)) log = OpenOk st2 log -> forall b, loaded_for st2 (sigma b) = loaded_for st1 b"),
    ("C08_renumbering_opens", "forall producer sigma log st1 f, (forall x y : nat, sigma x = sigma y -> x = y) -> db_open true producer log = OpenOk st1 f -> exists st2, db_open true (fun n => option_map sigma (producer n)) log = OpenOk st2 f /\\ ld_tbl st2 = ld_tbl st1 /\\ forall b, loaded_for st2 (sigma b) = loaded_for st1 b"),
    ("C08_pinned_attribution_refuted", "exists producer ws log st b, log_of ws = Ok log /\\ db_open false producer log = OpenOk st log /\\ loaded_for st b <> None /\\ last_applicable producer ws b None = None"),
]


def reorder_manifest(rng, text):
    """semantics-preserving edit of a generated manifest: reorder build statements (keeping blocks), rename the rule,
    add comments and an unrelated statement"""
    lines = text.rstrip("\n").split("\n")
    head, blocks, cur, tail = [], [], None, []
    for l in lines:
        if l.startswith("build "):
            cur = [l]
            blocks.append(cur)
        elif l.startswith("default "):
            tail.append(l)
            cur = None
        elif l.startswith("  ") and cur is not None:
            cur.append(l)
        else:
            head.append(l)
            cur = None
    rng.shuffle(blocks)
    newrule = "rr%d" % rng.randint(0, 99)
    out = []
    for l in head:
        if l == "rule r":
            l = "rule " + newrule
        if not l.startswith(" ") and rng.random() < 0.3:
            out.append("# comment %d" % rng.randint(0, 9))
        out.append(l)
    out.append("unrelated_var = %d" % rng.randint(0, 99))
    if rng.random() < 0.5:
        out.append("build extra_unrelated_%d: %s extra_src" % (rng.randint(0, 9), newrule))
    for b in blocks:
        b = list(b)
        b[0] = b[0].replace(": r ", ": %s " % newrule)
        if b[0].endswith(": r"):
            b[0] = b[0][:-1] + newrule
        out += b
    return "\n".join(out + tail) + "\n"


def kind_of(k):
    return k if isinstance(k, str) else k[0]


def main(tier, seed, replay=None):
    run = Run(PROP, tier, seed, "proof")
    rng = random.Random(seed)
    info, problems = proof_gate_multi([PROP, "C08Image"], thorough=(tier == "thorough"))
    for p in problems:
        run.tie("proof gate", p)
    drv = build_driver()
    har, out = build_harness()
    if har is None:
        run.tie("harness build", out[-2000:])
        return run.finish()
    # 1. codec: write sequences through the real writer, reload with the real reader; same on the model
    n = 1500 if tier == "quick" else 15000
    cases = []
    for i in range(n):
        text, builds = gen_manifest(rng)
        ws = gen_writes(rng, builds, big=(i % 10 == 0))
        cases.append((text, builds, None, ws))
    # boundary shapes: many deps / long names
    for k in ([255, 256, 4095, 4096, 32767, 32768, 65535] if tier == "quick" else [255, 256, 4095, 4096, 16383, 32767, 32768, 40000, 65535]):
        text, builds = "rule r\n  command = x\nbuild out: r\n", [["out"]]
        cases.append((text, builds, None, [(0, ["d%d" % i for i in range(k)], 7)]))
    for ln in (0x7FFE, 0x7FFF):
        text, builds = "rule r\n  command = x\nbuild out: r\n", [["out"]]
        cases.append((text, builds, None, [(0, ["n" * ln], 9)]))
    # witness of the known finding F7 (format limits): 65536 discovered dependencies in one record
    cases.append(("rule r\n  command = x\nbuild out: r\n", [["out"]], None, [(0, ["n" * 0x8000], 7)]))
    if tier == "thorough":
        cases.append(("rule r\n  command = x\nbuild out: r\n", [["out"]], None, [(0, ["d%d" % i for i in range(65536)], 7)]))
    if replay:
        rp = json.load(open(replay))["replay"]
        cases = [(rp["manifest"], rp["builds"], unhexs(rp["file_hex"]) if rp.get("file_hex") else None, [tuple(x) for x in rp["writes"]])]
    impl1 = run_lines_sharded([har, "db"], [harness_line(t, f, ws) for t, b, f, ws in cases])
    # the executable model works on unary-indexed lists (quadratic in the number of names): records beyond 20000 dependencies
    # are checked on the implementation only (write, reload, compare); the theorems cover them (no size bound below the format's)
    huge = lambda ws: any(len(wd) > 20000 for _, wd, _ in ws)
    model1 = run_lines_sharded([drv, "dbopen"], [driver_line(True, b, f if f is not None else b"", ws if not huge(ws) else []) for t, b, f, ws in cases])
    # a fresh log: the model opens the empty file which it re-initialises to the signature, like Writer::create
    bad = [i for i, (a, m) in enumerate(zip(impl1, model1)) if not huge(cases[i][3]) and not same(a.replace("loaded= ", "loaded= "), m)]
    for i in bad[:5]:
        t, b, f, ws = cases[i]
        run.tie("correspondence db writer", {"manifest": t, "builds": b, "writes": [list(w) for w in ws][:5],
                                              "implementation": impl1[i][:300], "model": model1[i][:300]})
    # 2. reload under the same and under edited manifests
    second, meta = [], []
    for (t, b, f, ws), r in zip(cases, impl1):
        p = parse_res(r)
        if p["kind"] != "ok":
            if "filename too long" in r or "too many fileids" in r:
                run.report_failure("log-format-limits", "record outside the format's limits: %s" % r[:120], {"manifest": t, "writes": ws[:3]})
            else:
                run.report_failure(None, "db write failed: %s" % r[:200], {"manifest": t, "builds": b, "writes": [list(w) for w in ws][:5]})
            continue
        log = p["final"]
        # (a) same manifest
        second.append((t, b, log, "same", ws))
        # (b) builds permuted (ids renumbered), extra build in front
        perm = list(range(len(b)))
        rng.shuffle(perm)
        nb = [b[i] for i in perm]
        t2 = "rule q\n  command = y\nbuild unrelated: q\n" + "".join("build %s: q\n" % " ".join(o) for o in nb)
        second.append((t2, [["unrelated"]] + nb, log, ("perm", perm), ws))
        # (c) an output moved to another step / removed from the output set
        if len(b) >= 1 and len(b[0]) >= 2:
            mi = rng.randrange(len(b[0]))           # any position, not only the last one
            moved = b[0][mi]
            nb2 = [b[0][:mi] + b[0][mi + 1:]] + [list(x) for x in b[1:]]
            if rng.random() < 0.5 and len(nb2) >= 2:
                nb2[1] = nb2[1] + [moved]
                kind = "moved"
            else:
                kind = "removed"
            t3 = "rule r\n  command = x\n" + "".join("build %s: r\n" % " ".join(o) for o in nb2)
            second.append((t3, nb2, log, (kind, moved), ws))
    impl2 = run_lines_sharded([har, "db"], [harness_line(t, f, []) for t, b, f, k, ws in second])
    model2 = run_lines_sharded([drv, "dbopen"], [driver_line(True, b, f if not huge(ws) else b"", []) for t, b, f, k, ws in second])
    bad2 = [i for i, (a, m) in enumerate(zip(impl2, model2)) if not huge(second[i][4]) and not same(a, m)]
    for i in bad2[:5]:
        t, b, f, k, ws = second[i]
        run.tie("correspondence db reader", {"manifest": t, "builds": b, "file_hex": hexs(f)[:400], "kind": str(k),
                                              "implementation": impl2[i][:300], "model": model2[i][:300]})
    nontrivial = set()
    stats = {"write_sequences": len(cases), "reloads": len(second), "same": 0, "perm": 0, "moved": 0, "removed": 0}
    for (t, b, f, k, ws), r in zip(second, impl2):
        p = parse_res(r)
        where = {"manifest": t, "builds": b, "file_hex": hexs(f), "writes": [list(w) for w in ws][:6], "kind": str(k), "result": r[:300]}
        if p["kind"] != "ok":
            big = any(len(wd) >= 65536 or len(b[wb]) >= 32768 for wb, wd, wh in ws) if kind_of(k) == "same" else any(len(wd) >= 65536 for _, wd, _ in ws)
            if big:
                where = dict(where, writes="(one record with %d dependencies)" % max(len(wd) for _, wd, _ in ws), file_hex=hexs(f)[:200])
            run.report_failure("log-format-limits" if big else None, "a log written by n2 does not load: %s" % r[:160], where)
            continue
        kind = k if isinstance(k, str) else k[0]
        stats[kind] += 1
        last = {}
        for wb, wd, wh in ws:
            last[wb] = (wh, list(wd))
        if kind == "same":
            if p["loaded"] != last:
                big = any(len(wd) >= 65536 or len(b[wb]) >= 32768 for wb, wd, wh in ws)
                if big:
                    where = dict(where, writes="(one record with %d dependencies)" % max(len(wd) for _, wd, _ in ws), file_hex=hexs(f)[:200])
                run.report_failure("log-format-limits" if big else None,
                                   "loaded %s, written (latest per step) %s" % (str(p["loaded"])[:200], str(last)[:200]), where)
            if len(ws) >= 2:
                nontrivial.add(hexs(f)[:64] + str(len(f)))
        elif kind == "perm":
            perm = k[1]
            want = {1 + perm.index(ob): v for ob, v in last.items()}
            if p["loaded"] != want:
                run.report_failure(None, "after renumbering the steps the loaded records changed: %r vs %r" % (p["loaded"], want), where)
        else:
            # step 0 lost an output: its old records name an output it no longer produces (alone)
            if 0 in p["loaded"] and 0 in last:
                run.report_failure("record-applied-after-output-lost-producer" if kind == "removed" else None,
                                   "a record naming output %r, which step 0 no longer produces, is still applied to step 0" % k[1], where)
            if kind == "moved" and 1 in p["loaded"] and p["loaded"][1] != last.get(1):
                run.report_failure(None, "a record of step 0 was applied to step 1 after an output moved", where)
    # 3. whole-program: semantics-preserving manifest edits between builds never cause re-runs
    nh = 150 if tier == "quick" else 1500
    scens = []
    for _ in range(nh):
        text, sinfo = S.gen_graph(rng, nmax=6, cyclic=False, pools=False, validations=True, phony=False)
        steps = ["file %s %s" % (hx("build.ninja"), hx(text))] + ["file %s %s" % (hx(s), hx("v")) for s in sinfo["sources"]]
        steps.append("file %s %s" % (hx("extra_src"), hx("v")))
        targets = [o for os_ in sinfo["all_outs"] for o in os_[:1]]
        steps.append(S.inv_cmd(2, None, False, targets, "-"))
        t2 = reorder_manifest(rng, text)
        steps.append("file %s %s" % (hx("build.ninja"), hx(t2)))
        steps.append(S.inv_cmd(2, None, False, targets, "-"))
        scens.append("\n".join(steps))
    reps = S.run_histories(har, scens)
    stats["manifest_edit_histories"] = len(scens)
    for sc, rep in zip(scens, reps):
        where = {"scenario": sc}
        if isinstance(rep, str) or len(rep) < 2:
            run.report_failure(None, "harness died", where)
            continue
        if not rep[0].result.startswith("ok"):
            continue
        if rep[1].result != "ok:0":
            run.report_failure(None, "after reordering statements / renaming the rule / adding unrelated statements, %s" % rep[1].result[:60], where)
    run.coverage.update(info)
    run.coverage.update({
        "checker_cmd": "make -C coq theories/Props/C08.vo && coqc Gate_C08.v",
        "trusted_base": TRUSTED_BASE,
        "evaluations": len(cases) + len(second) + len(scens),
        "distinct_nontrivial": len(nontrivial),
        "rule": "random write sequences (0..6 records, 1..3 outputs, 0..1000 deps, non-ASCII and long names, hashes 0/1/2^64-1/random) through the "
                "real db::Writer, reloaded by the real reader under the same manifest, a renumbered one, and one where an output moved/"
                "vanished; boundary shapes (255/256/4095/4096 deps, names of 0x7FFE/0x7FFF bytes); histories with a semantics-preserving "
                "manifest rewrite between two builds; non-trivial = distinct log with >= 2 build records",
        "stats": stats,
        "model_vs_impl_disagreements": len(bad) + len(bad2),
        "samples": [{"manifest": cases[i][0], "writes": [list(w) for w in cases[i][3]][:3], "impl": impl1[i][:160]} for i in rng.sample(range(len(cases)), 3)],
    })
    run.assumptions += ["records beyond the format's field widths (>= 32768 outputs, >= 65536 dependencies, names >= 32768 bytes, 2^24 paths) are finding F7 (known)",
                        "the manifest hash itself (hash.rs) is compared by value in the C02/C03 histories"]
    return run.finish()
