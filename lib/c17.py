"""C17 — an out-of-date manifest is regenerated and reloaded before anything else."""
from worldcheck import *

PROP = "C17"
THEOREMS = [tuple(x) for x in json.load(open(os.path.join(VERIF, "lib", "pins", PROP + ".json")))]


def monitor_regen(run, where, inv, meta, hist, ii, rep):
    phs = inv.phases()
    if not phs:
        return
    regen = [p for p in phs if p["kind"] == "regen"]
    main_ = [p for p in phs if p["kind"] == "main"]
    g0 = inv.graphs[0]
    if g0.error:
        return
    m = g0.file_id("build.ninja")
    gen_build = g0.files[m]["input"] if m is not None else None
    # commands of the regeneration phase belong to the manifest's closure and precede everything else
    if regen and regen[0]["run"] is not None:
        starts1 = [int(e.split("_")[1]) for e in regen[0]["run"] if e.startswith("start_")]
        want = S.closure_of(g0, [m]) if m is not None else set()
        for b in starts1:
            if b not in want:
                run.report_failure(None, "step %d ran in the regeneration phase but the manifest does not need it" % b, where)
        fin_ok = [e for e in regen[0]["run"] if e.startswith("finish_") and e.endswith("_0")]
        failed = [e for e in regen[0]["run"] if e.startswith("finish_") and not e.endswith("_0")]
        if failed:
            if main_:
                run.report_failure(None, "regeneration failed but the main phase ran", where)
            if inv.result.startswith("ok"):
                run.report_failure(None, "regeneration failed but the invocation reports success", where)
        elif fin_ok:
            if main_ and not main_[0]["reloaded"]:
                run.report_failure(None, "a command ran for the manifest but it was not reloaded", where)
        else:
            if main_ and main_[0]["reloaded"]:
                run.report_failure(None, "manifest reloaded although nothing ran for it", where)
            if gen_build is not None and gen_build in starts1:
                run.report_failure(None, "generator ran although the manifest was up to date", where)
    # after a reload everything refers to the new text: the graph used by the main phase is the one on disk now
    if main_ and main_[0]["reloaded"] and len(inv.graphs) >= 2:
        g1 = inv.graphs[-1]
        if g1.error and not inv.result.startswith("err"):
            run.report_failure(None, "the regenerated manifest does not load but the invocation did not fail", where)


def gen(rng, **kw):
    steps, invs, info = gen_history(rng, with_regen=("include" if rng.random() < 0.35 else True), with_pools=True, nmax=8, **kw)
    return steps, invs, info


def main(tier, seed, replay=None):
    return world_check(PROP, THEOREMS, tier, seed, [monitor_regen, monitor_null_build], scen_gen=gen, clean_oracle=True, replay=replay)
