"""C17 — an out-of-date manifest is regenerated and reloaded before anything else."""
from worldcheck import *

PROP = "C17"
THEOREMS = [tuple(x) for x in json.load(open(os.path.join(VERIF, "lib", "pins", PROP + ".json")))]


def monitor_regen(run, where, inv, meta, hist, ii, rep):
    S.monitor_resolved_after_regen(run, where, inv)
    phs = inv.phases()
    if not phs:
        return
    regen = [p for p in phs if p["kind"] == "regen"]
    main_ = [p for p in phs if p["kind"] == "main"]
    g0 = inv.graphs[0]
    if g0.error:
        return
    m = g0.file_id("build.ninja")
    gen_build = g0.files[m]["input"] if m is not None else None
    # commands of the regeneration phase belong to the manifest's closure and precede everything else
    if regen and regen[0]["run"] is not None:
        starts1 = [int(e.split("_")[1]) for e in regen[0]["run"] if e.startswith("start_")]
        want = S.closure_of(g0, [m]) if m is not None else set()
        for b in starts1:
            if b not in want:
                run.report_failure(None, "step %d ran in the regeneration phase but the manifest does not need it" % b, where)
        fin_ok = [e for e in regen[0]["run"] if e.startswith("finish_") and e.endswith("_0")]
        failed = [e for e in regen[0]["run"] if e.startswith("finish_") and not e.endswith("_0")]
        if failed:
            if main_:
                run.report_failure(None, "regeneration failed but the main phase ran", where)
            if inv.result.startswith("ok"):
                run.report_failure(None, "regeneration failed but the invocation reports success", where)
        elif fin_ok:
            if main_ and not main_[0]["reloaded"]:
                run.report_failure(None, "a command ran for the manifest but it was not reloaded", where)
        else:
            if main_ and main_[0]["reloaded"]:
                run.report_failure(None, "manifest reloaded although nothing ran for it", where)
            if gen_build is not None and gen_build in starts1:
                run.report_failure(None, "generator ran although the manifest was up to date", where)
    # after a reload everything refers to the new text: the graph used by the main phase is the one on disk now
    if main_ and main_[0]["reloaded"] and len(inv.graphs) >= 2:
        g1 = inv.graphs[-1]
        if g1.error and not inv.result.startswith("err"):
            run.report_failure(None, "the regenerated manifest does not load but the invocation did not fail", where)


def tape_of(inv):
    """what one invocation of the real run::build showed, as the model's tape; and what it did"""
    phs = inv.phases()
    regen = [p for p in phs if p["kind"] == "regen"]
    main_ = [p for p in phs if p["kind"] == "main"]
    g0 = inv.graphs[0] if inv.graphs else None
    load0 = bool(g0 is not None and not g0.error)
    ok_fin = lambda ph: sum(1 for e in (ph["run"] or []) if e.startswith("finish_") and e.endswith("_0"))
    res = inv.result
    kind = "ok" if res.startswith("ok:") else ("fail" if res == "fail" else ("err" if res.startswith("err") else None))
    if kind is None:
        return None
    reload_seen = "reload" in inv.trace
    t1 = ok_fin(regen[0]) if regen else 0
    final = {"ok": "1", "fail": "0", "err": "e"}[kind]
    if main_:
        r1, l1, m, t2 = "1", "1", final, ok_fin(main_[0])
    elif reload_seen:
        r1, l1, m, t2 = "1", "0", "1", 0           # the reload itself failed
    elif regen:
        r1, l1, m, t2 = final, "1", "1", 0         # the regeneration phase was the last thing that happened
        if kind == "ok":
            return None
    else:
        return None                                 # nothing ran (load error): covered by load0 below
    tape = "%d %s %d %s %s %d" % (1 if load0 else 0, r1, t1, l1, m, t2)
    if main_:
        did = "main:%d:%d" % (1 if main_[0]["reloaded"] else 0, 0 if main_[0]["reloaded"] else 1)
    else:
        did = "nomain"
    return tape, (res if kind == "ok" else kind) + " " + did


def build_tape_check(run, drv, items, stats):
    """Model/Build.v (`build`, the subject of the C17 theorems) replayed on every observed invocation"""
    lines, metas = [], []
    for inv, where in items:
        t = tape_of(inv)
        if t is None or not inv.graphs or inv.graphs[0].error:
            continue
        lines.append(t[0])
        metas.append((t, where))
    out = run_lines([drv, "build"], lines) if lines else []
    stats["orchestration_tapes"] = len(lines)
    stats["orchestration_with_reload"] = sum(1 for l in lines if l.split()[2] != "0")
    for (t, where), m in zip(metas, out):
        if m.strip() != t[1]:
            run.report_failure(None, "run::build did %r where the orchestration model, on what the two phases returned (%s), does %r" % (t[1], t[0], m.strip()),
                               dict(where, tape=t[0], model=m.strip(), implementation=t[1]))


def monitor_new_text_only(run, where, inv, meta, hist, ii, rep):
    """targets, graph and dirtiness are resolved against the new text only: a pool the manifest in force declares is not unknown"""
    if inv.result.startswith("err:") and inv.graphs and not inv.graphs[-1].error:
        msg = unhexs(inv.result[4:]).decode("utf-8", "replace")
        m = re.search(r'unknown pool "([^"]*)"', msg)
        if m and m.group(1) in [n for n, _ in inv.graphs[-1].pools]:
            run.report_failure(None, "the manifest in force declares pool %r, yet the invocation fails with: %s" % (m.group(1), msg[:120]), where)


def gen(rng, **kw):
    steps, invs, info = gen_history(rng, with_regen=("include" if rng.random() < 0.35 else True), with_pools=True, nmax=8, **kw)
    return steps, invs, info


def main(tier, seed, replay=None):
    seen = []

    def collect(run, where, inv, meta, hist, ii, rep):
        seen.append((inv, where))

    def finish_hook(run):
        stats = {}
        build_tape_check(run, build_driver(), seen, stats)
        run.coverage["orchestration_model"] = stats

    return world_check(PROP, THEOREMS, tier, seed, [monitor_regen, monitor_new_text_only, monitor_null_build, collect], scen_gen=gen, clean_oracle=True, replay=replay,
                       before_finish=finish_hook)
