"""C07 — the build log survives a crash at any point (src/db.rs)."""
from dbcommon import *
import sched as S

PROP = "C07"
THEOREMS = [
    ("C07_prefix_opens", "forall producer ws log k, Forall in_bounds ws -> table_small ws -> log_of ws = Ok log -> exists st f, db_open true producer (firstn k log) = OpenOk st f /\\ is_prefix f log /\\ (length f <= Nat.max k 8)%nat /\\ db_open true producer f = OpenOk st f"),
    ("C07_survivors_are_written_records", "forall producer ws log k st f, Forall in_bounds ws -> table_small ws -> log_of ws = Ok log -> db_open true producer (firstn k log) = OpenOk st f -> forall b deps h, loaded_for st b = Some (deps, h) -> exists w, In w ws /\\ w_deps w = deps /\\ w_hash w = h /\\ applicable producer w b = true"),
    ("C07_whole_records_survive", "forall producer ws1 ws2 log1 log k, Forall in_bounds (ws1 ++ ws2) -> table_small (ws1 ++ ws2) -> log_of ws1 = Ok log1 -> log_of (ws1 ++ ws2) = Ok log -> (length log1 <= k)%nat -> exists st f, db_open true producer (firstn k log) = OpenOk st f /\\ is_prefix log1 f /\\ forall b, last_applicable producer ws1 b None <> None -> loaded_for st b <> None"),
    ("C07_append_after_recovery_exact", "forall producer ws log k st f w bytes tbl', Forall in_bounds ws -> table_small ws -> log_of ws = Ok log -> db_open true producer (firstn k log) = OpenOk st f -> in_bounds w -> (N.of_nat (length (ld_tbl st) + length (w_outs w) + length (w_deps w)) < 16777216)%N -> write_build (ld_tbl st) (w_outs w) (w_deps w) (w_hash w) = Ok (bytes, tbl') -> exists st', db_open true producer (f ++ bytes) = OpenOk st' (f ++ bytes) /\\ ld_tbl st' = tbl' /\\ forall b, loaded_for st' b = if applicable producer w b then Some (w_deps w, w_hash w) else loaded_for st b"),
    ("C07_append_total", "forall producer ws log k st f w, Forall in_bounds ws -> table_small ws -> log_of ws = Ok log -> db_open true producer (firstn k log) = OpenOk st f -> in_bounds w -> (N.of_nat (length (ld_tbl st) + length (w_outs w) + length (w_deps w)) < 16777216)%N -> exists bytes tbl', write_build (ld_tbl st) (w_outs w) (w_deps w) (w_hash w) = Ok (bytes, tbl')"),
    ("C07_pinned_refuted", "exists producer ws log k, log_of ws = Ok log /\\ (exists m, db_open false producer (firstn k log) = OpenErr m)"),
]


def main(tier, seed, replay=None):
    run = Run(PROP, tier, seed, "proof")
    rng = random.Random(seed)
    info, problems = proof_gate_multi([PROP, "C07Crash"], thorough=(tier == "thorough"))
    for p in problems:
        run.tie("proof gate", p)
    drv = build_driver()
    har, out = build_harness()
    if har is None:
        run.tie("harness build", out[-2000:])
        return run.finish()
    # 1. real logs written by the real writer
    nlogs = 60 if tier == "quick" else 600
    base = []
    for _ in range(nlogs):
        text, builds = gen_manifest(rng)
        ws = gen_writes(rng, builds, n=rng.randint(1, 5))
        base.append((text, builds, ws))
    res = run_lines_sharded([har, "db"], [harness_line(t, None, ws) for t, b, ws in base])
    logs = []
    for (text, builds, ws), r in zip(base, res):
        p = parse_res(r)
        if p["kind"] != "ok":
            run.report_failure(None, "writing a fresh log failed: %s" % r[:200], {"manifest": text, "writes": ws})
            continue
        logs.append((text, builds, ws, p["final"]))
    # 2. every byte prefix of every log: open, append one more record, reopen
    cases = []
    for text, builds, ws, log in logs:
        for k in range(0, len(log) + 1):
            extra = [(rng.randrange(len(builds)), ["h1", "new%d" % k], 0x1234 + k)]
            cases.append((text, builds, log[:k], extra, len(log), ws))
    # ... and the same after the manifest was edited before the restart: the first step is gone, its records are obsolete
    for text, builds, ws, log in logs:
        if len(builds) < 2:
            continue
        builds2 = builds[1:]
        text2 = "rule r\n  command = x\n" + "".join("build %s: r\n" % " ".join(o) for o in builds2)
        ws2 = [(wb - 1, wd, wh) for wb, wd, wh in ws if wb >= 1]
        for k in range(0, len(log) + 1):
            extra = [(rng.randrange(len(builds2)), ["h1", "new%d" % k], 0x4321 + k)]
            cases.append((text2, builds2, log[:k], extra, len(log), None))     # (survivor check skipped: obsolete records drop out)
    if replay:
        rp = json.load(open(replay))["replay"]
        cases = [(rp["manifest"], rp["builds"], unhexs(rp["file_hex"]), [tuple(x) for x in rp["extra"]], 0, [])]
    h_lines = [harness_line(t, f, extra) for t, b, f, extra, _, _ in cases]
    d_lines = [driver_line(True, b, f, extra) for t, b, f, extra, _, _ in cases]
    impl = run_lines_sharded([har, "db"], h_lines)
    model = run_lines_sharded([drv, "dbopen"], d_lines)
    bad = [i for i, (a, m) in enumerate(zip(impl, model)) if not same(a, m)]
    for i in bad[:5]:
        t, b, f, extra, _, _ = cases[i]
        run.tie("correspondence db::open / write_build on a log prefix",
                {"manifest": t, "builds": b, "file_hex": hexs(f), "extra": extra, "implementation": impl[i][:300], "model": model[i][:300]})
    # monitors on the implementation: starts normally, survivors = whole records, loadable afterwards
    second = []
    idx2 = []
    nontrivial = set()
    stats = {"prefixes": len(cases), "open_failed": 0, "torn": 0}
    for i, ((t, b, f, extra, full, ws), r) in enumerate(zip(cases, impl)):
        p = parse_res(r)
        where = {"manifest": t, "builds": b, "file_hex": hexs(f), "extra": extra, "result": r[:300]}
        if p["kind"] != "ok":
            stats["open_failed"] += 1
            msg = unhexs(r[4:]).decode("utf-8", "replace") if r.startswith("err ") else r
            cls = "torn-log-tail" if "failed to fill whole buffer" in msg else None
            run.report_failure(cls, "a log cut after %d of %d bytes cannot be opened: %s" % (len(f), full, msg[:120]), where)
            continue
        if len(f) < full:
            stats["torn"] += 1
            nontrivial.add(hexs(f))
        # surviving records must be what was written: loaded hashes/deps are those of some prefix of ws
        ok_states = []
        cur = {}
        ok_states.append(dict(cur))
        for (wb, wdeps, wh) in (ws or []):
            cur[wb] = (wh, list(wdeps))
            ok_states.append(dict(cur))
        if ws and p["loaded"] not in ok_states:
            run.report_failure(None, "records loaded from a %d-byte prefix are not a prefix of what was written: %r" % (len(f), p["loaded"]), where)
        second.append(harness_line(t, p["final"], []))
        idx2.append(i)
    re2 = run_lines_sharded([har, "db"], second)
    for i, r in zip(idx2, re2):
        t, b, f, extra, full, ws = cases[i]
        p = parse_res(r)
        where = {"manifest": t, "builds": b, "file_hex": hexs(f), "extra": extra, "result": r[:300]}
        if p["kind"] != "ok":
            run.report_failure("append-after-torn-tail", "after opening a %d-byte prefix and appending a record the log no longer loads: %s" % (len(f), r[:160]), where)
            continue
        eb, edeps, eh = extra[0]
        if p["loaded"].get(eb) != (eh, edeps):
            run.report_failure("append-after-torn-tail", "the record appended after a crash is not what is loaded next time: %r" % (p["loaded"].get(eb),), where)
    # 3. history level: truncate the log between invocations of the real build
    nh = 40 if tier == "quick" else 400
    scens = []
    for _ in range(nh):
        text, sinfo = S.gen_graph(rng, nmax=5, cyclic=False, pools=False, validations=False, phony=False)
        steps = ["file %s %s" % (hx("build.ninja"), hx(text))] + ["file %s %s" % (hx(s), hx("v")) for s in sinfo["sources"]]
        steps.append(S.inv_cmd(2, None, False, [], "-"))
        scens.append((steps, sinfo))
    first = S.run_histories(har, ["\n".join(s) for s, _ in scens])
    scen2, meta2 = [], []
    for (steps, sinfo), rep in zip(scens, first):
        if isinstance(rep, str) or not rep or not rep[0].result.startswith("ok"):
            continue
        n = len(rep[0].db)
        for k in (range(0, n + 1) if tier == "thorough" else sorted(set(rng.sample(range(0, n + 1), min(12, n + 1)) + [n - 1, n - 2, 7, 8, 9]))):
            if 0 <= k <= n:
                scen2.append("\n".join(steps + ["trunc %d" % k, S.inv_cmd(2, None, False, [], "-"), S.inv_cmd(2, None, False, [], "-")]))
                meta2.append((k, n, rep[0]))
    rep2 = S.run_histories(har, scen2)
    stats["history_truncations"] = len(scen2)
    for sc, (k, n, inv0), rep in zip(scen2, meta2, rep2):
        where = {"scenario": sc, "cut": k, "log_len": n}
        if isinstance(rep, str) or len(rep) < 3:
            run.report_failure(None, "harness died", where)
            continue
        a, b = rep[1], rep[2]
        if not a.result.startswith("ok"):
            msg = unhexs(a.result[4:]).decode("utf-8", "replace") if a.result.startswith("err:") else a.result
            cls = "torn-log-tail" if "failed to fill whole buffer" in msg else None
            run.report_failure(cls, "invocation after a crash that left %d of %d log bytes fails: %s" % (k, n, msg[:100]), where)
            continue
        if b.result != "ok:0":
            run.report_failure("append-after-torn-tail" if b.result.startswith("err") else None,
                               "the invocation after the recovery run is not a null build: %s" % b.result[:80], where)
        if k == n and a.result != "ok:0":
            run.report_failure(None, "intact log but steps were re-run: %s" % a.result, where)
    run.coverage.update(info)
    run.coverage.update({
        "checker_cmd": "make -C coq theories/Props/C07.vo && coqc Gate_C07.v",
        "trusted_base": TRUSTED_BASE,
        "evaluations": len(cases) + len(scen2),
        "distinct_nontrivial": len(nontrivial),
        "rule": "every byte prefix (no sampling) of %d logs written by the real writer (1..5 records, 1..3 outputs, 0..5 deps, non-ASCII "
                "and long names): open with the real code, append a record, reopen; plus truncation of the real .n2_db between "
                "invocations of run::build; non-trivial = distinct proper prefix" % len(logs),
        "exhaustive": True,
        "stats": stats,
        "model_vs_impl_disagreements": len(bad),
        "samples": [{"file_hex": hexs(cases[i][2])[:200], "impl": impl[i][:200]} for i in rng.sample(range(len(cases)), min(4, len(cases)))],
    })
    run.assumptions += ["crash model: the file after a crash is a byte prefix of the file a crash-free run would have written "
                        "(records are only ever appended; durability without fsync and block reordering are outside the model)"]
    return run.finish()
