"""C06 — every invocation terminates with a decision for every wanted step."""
from sched import *

PROP = "C06"
THEOREMS = [tuple(x) for x in json.load(open(os.path.join(VERIF, "lib", "pins", PROP + ".json")))]


def main(tier, seed, replay=None):
    return sched_check(PROP, THEOREMS, tier, seed, [monitor_c06], extra_modules=["Model.All", "Proofs.SchedSpec", "Proofs.SchedInv", "Proofs.SchedLive", "Proofs.SchedRunThms"],
                       replay=replay)
