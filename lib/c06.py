"""C06 — every invocation terminates with a decision for every wanted step."""
from sched import *

PROP = "C06"
THEOREMS = ["C06", "C06Bound", "C06Term", "C06Runner"]


def probe_f19(run, har):
    """a dependency chain of 10000 steps: the recursive want traversal exhausts the machine stack"""
    import tempfile, shutil
    n2, out = build_n2_binary()
    if n2 is None:
        run.tie("n2 build", out[-1000:])
        return
    d = tempfile.mkdtemp(prefix="n2verif-c06-%d-" % os.getpid())
    try:
        n = 10000
        with open(os.path.join(d, "build.ninja"), "w") as f:
            f.write("rule t\n  command = touch $out\nbuild o0: t\n")
            for i in range(1, n):
                f.write("build o%d: t o%d\n" % (i, i - 1))
        p = subprocess.run([n2, "-j", "4", "o%d" % (n - 1), "-k", "1"], cwd=d, stdout=subprocess.PIPE, stderr=subprocess.PIPE,
                           stdin=subprocess.DEVNULL, timeout=600, env=ENV)
        where = {"chain_length": n, "rc": p.returncode, "stderr": p.stderr.decode("utf-8", "replace")[-300:]}
        if p.returncode < 0 or p.returncode in (134, 139) or b"overflow" in p.stderr:
            run.report_failure("deep-recursion-stack-overflow", "a chain of %d steps aborts n2 (rc %d) instead of building" % (n, p.returncode), where)
        elif p.returncode != 0:
            run.report_failure(None, "a chain of %d steps fails: rc %d" % (n, p.returncode), where)
    finally:
        shutil.rmtree(d, ignore_errors=True)
    # the run loop waits on the worker threads' channel: a worker that dies without reporting leaves it waiting forever
    import taskleg
    taskleg.showincludes_bytes_leg(run, n2)
    run.coverage["black_box_worker_thread_leg"] = "deps=msvc command reporting non-UTF-8 header names: the loop must get its result back (no hang)"


def gen_c06(rng, **kw):
    """scheduler scenarios (every fifth possibly cyclic), and - two in five - histories whose manifest is a step's output: the
    Work of the regeneration phase is reused, so the traversal meets steps that are already settled"""
    if rng.random() < 0.1:
        # a reported dependency that is itself generated (no declared path): the loop must not wait for it, nor give up
        import world
        steps, invs, info = world.gen_history_gendep(rng)
        return "\n".join(steps), [{k: v for k, v in m.items() if k != "files"} for m in invs], info
    if rng.random() < 0.4:
        import world
        steps, invs, info = world.gen_history(rng, with_regen=True, with_pools=True, nmax=8)
        return "\n".join(steps), [{k: v for k, v in m.items() if k != "files"} for m in invs], info
    return gen_sched_scenario(rng, **kw)


def main(tier, seed, replay=None):
    return sched_check(PROP, THEOREMS, tier, seed, [monitor_c06], extra_modules=["Model.All", "Proofs.SchedSpec", "Proofs.SchedInv", "Proofs.SchedLive", "Proofs.SchedRunThms"],
                       replay=replay, probes=probe_f19, scen_gen=gen_c06)
