"""C06 — every invocation terminates with a decision for every wanted step."""
from sched import *

PROP = "C06"
THEOREMS = ["C06", "C06Bound", "C06Term", "C06Runner"]


def probe_f19(run, har):
    """a dependency chain of 10000 steps: the recursive want traversal exhausts the machine stack"""
    import tempfile, shutil
    n2, out = build_n2_binary()
    if n2 is None:
        run.tie("n2 build", out[-1000:])
        return
    d = tempfile.mkdtemp(prefix="n2verif-c06-%d-" % os.getpid())
    try:
        n = 10000
        with open(os.path.join(d, "build.ninja"), "w") as f:
            f.write("rule t\n  command = touch $out\nbuild o0: t\n")
            for i in range(1, n):
                f.write("build o%d: t o%d\n" % (i, i - 1))
        p = subprocess.run([n2, "-j", "4", "o%d" % (n - 1), "-k", "1"], cwd=d, stdout=subprocess.PIPE, stderr=subprocess.PIPE,
                           stdin=subprocess.DEVNULL, timeout=600, env=ENV)
        where = {"chain_length": n, "rc": p.returncode, "stderr": p.stderr.decode("utf-8", "replace")[-300:]}
        if p.returncode < 0 or p.returncode in (134, 139) or b"overflow" in p.stderr:
            run.report_failure("deep-recursion-stack-overflow", "a chain of %d steps aborts n2 (rc %d) instead of building" % (n, p.returncode), where)
        elif p.returncode != 0:
            run.report_failure(None, "a chain of %d steps fails: rc %d" % (n, p.returncode), where)
    finally:
        shutil.rmtree(d, ignore_errors=True)
    # "never waits forever", whatever the commands do that succeed: chatty commands (more output than a pipe holds), commands that
    # close their output early, commands that leave a background process holding the pipe for a moment
    d = tempfile.mkdtemp(prefix="n2verif-c06b-%d-" % os.getpid())
    try:
        with open(os.path.join(d, "build.ninja"), "w") as f:
            f.write("rule big\n  command = head -c $n /dev/zero | tr '\\0' x; touch $out\n"
                    "rule closer\n  command = exec >&- 2>&-; sleep 0.2; touch $out\n"
                    "rule bg\n  command = (sleep 1; echo late) & touch $out\n"
                    "rule cat\n  command = cat $in > $out\n")
            outs = []
            for i, n in enumerate([10, 70000, 300000, 1000000]):
                f.write("build b%d: big\n  n = %d\n" % (i, n))
                outs.append("b%d" % i)
            f.write("build c0: closer\nbuild g0: bg\nbuild all: cat %s c0 g0\n" % " ".join(outs))
        for j in ("1", "4"):
            p = subprocess.Popen([n2, "-j", j, "all"], cwd=d, stdout=subprocess.PIPE, stderr=subprocess.PIPE, stdin=subprocess.DEVNULL, env=ENV,
                                 preexec_fn=os.setsid)
            try:
                so, se = p.communicate(timeout=90)
                if p.returncode != 0 or not os.path.exists(os.path.join(d, "all")):
                    run.report_failure(None, "no command fails, yet the invocation ends with status %d" % p.returncode,
                                       {"suite": "chatty-commands", "j": j, "tail": so.decode("utf-8", "replace")[-300:]})
            except subprocess.TimeoutExpired:
                try:
                    os.killpg(p.pid, 9)
                except OSError:
                    pass
                p.communicate()
                run.report_failure(None, "n2 waits forever: steps writing 10 to 1000000 bytes of output, none failing, -j %s: not finished after 90 s" % j,
                                   {"suite": "chatty-commands", "j": j, "manifest": open(os.path.join(d, "build.ninja")).read()})
            for o in outs + ["c0", "g0", "all"]:
                try:
                    os.remove(os.path.join(d, o))
                except OSError:
                    pass
    finally:
        shutil.rmtree(d, ignore_errors=True)
    run.coverage["black_box_chatty_commands"] = "outputs of 10..1000000 bytes, a command closing its output, a background writer; -j 1 and 4; 90 s limit"
    # the run loop waits on the worker threads' channel: a worker that dies without reporting leaves it waiting forever
    import taskleg
    taskleg.showincludes_bytes_leg(run, n2)
    run.coverage["black_box_worker_thread_leg"] = "deps=msvc command reporting non-UTF-8 header names: the loop must get its result back (no hang)"


def gen_c06(rng, **kw):
    """scheduler scenarios (every fifth possibly cyclic), and - two in five - histories whose manifest is a step's output: the
    Work of the regeneration phase is reused, so the traversal meets steps that are already settled"""
    if rng.random() < 0.1:
        # a reported dependency that is itself generated (no declared path): the loop must not wait for it, nor give up
        import world
        steps, invs, info = world.gen_history_gendep(rng)
        return "\n".join(steps), [{k: v for k, v in m.items() if k != "files"} for m in invs], info
    if rng.random() < 0.4:
        import world
        steps, invs, info = world.gen_history(rng, with_regen=True, with_pools=True, nmax=8)
        return "\n".join(steps), [{k: v for k, v in m.items() if k != "files"} for m in invs], info
    return gen_sched_scenario(rng, **kw)


def main(tier, seed, replay=None):
    return sched_check(PROP, THEOREMS, tier, seed, [monitor_c06], extra_modules=["Model.All", "Proofs.SchedSpec", "Proofs.SchedInv", "Proofs.SchedLive", "Proofs.SchedRunThms"],
                       replay=replay, probes=probe_f19, scen_gen=gen_c06)
