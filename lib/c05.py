"""C05 — failures are contained, budgeted by -k, and reflected in the exit status."""
from sched import *

PROP = "C05"
THEOREMS = [tuple(x) for x in json.load(open(os.path.join(VERIF, "lib", "pins", PROP + ".json")))]


def killed_commands(run, har):
    """black-box: a command that dies from a signal is a failed command (not recorded, nothing downstream starts, exit status
    non-zero, re-run next time) - the classification in process_posix.rs is bypassed by the scripted executor"""
    import taskleg
    n2, out_ = build_n2_binary()
    if n2 is None:
        run.tie("n2 build", out_[-1000:])
    else:
        run.coverage["black_box_killed_commands"] = taskleg.killed_command_leg(run, n2, random.Random(1))


def main(tier, seed, replay=None):
    return sched_check(PROP, THEOREMS, tier, seed, [monitor_c05, monitor_c01], extra_modules=["Model.All", "Proofs.SchedSpec", "Proofs.SchedInv", "Proofs.SchedLive", "Proofs.SchedRunThms"],
                       replay=replay, scen_gen=gen_sched_or_regen, probes=killed_commands)
