"""C16 — commands run as written and their output is shown intact (process_posix.rs, task.rs,
progress_dumb.rs).  The decision logic is proved (Props/C16.v); the run-time facts are
exercised black-box on the real binary."""
import random
import signal
import time
import shutil
import tempfile

from common import *

PROP = "C16"
THEOREMS = [tuple(x) for x in json.load(open(os.path.join(VERIF, "lib", "pins", PROP + ".json")))] \
    if os.path.exists(os.path.join(VERIF, "lib", "pins", PROP + ".json")) else []


def ninja_escape(s):
    return s.replace("$", "$$")


def _default_signals():
    # commands inherit ignored signals from n2, which inherits them from us (nohup, CI runners ...): start from the defaults
    import signal
    for sig in range(1, 32):
        if sig in (signal.SIGKILL, signal.SIGSTOP):
            continue
        try:
            signal.signal(sig, signal.SIG_DFL)
        except (OSError, ValueError, RuntimeError):
            pass


def run_n2(n2, d, args, timeout=120, env=None):
    """rc 124 = n2 did not finish within the time limit (killed with its process group)"""
    p = subprocess.Popen([n2] + args, cwd=d, stdout=subprocess.PIPE, stderr=subprocess.PIPE, stdin=subprocess.DEVNULL,
                         env=env or ENV, preexec_fn=lambda: (_default_signals(), os.setsid()))
    try:
        so, se = p.communicate(timeout=timeout)
        return p.returncode, so, se
    except subprocess.TimeoutExpired:
        try:
            os.killpg(p.pid, signal.SIGKILL)
        except OSError:
            pass
        so, se = p.communicate()
        return 124, so, se + b"\n<did not finish within %d s>" % timeout


NOTE_PREFIX = b"Note: including file: "


def gen_task_case(rng):
    showinc = rng.random() < 0.5
    term = rng.choice([0, 0, 0, 1, 1, 2])
    lines = []
    for _ in range(rng.randint(0, 8)):
        r = rng.random()
        if r < 0.35:
            lines.append(NOTE_PREFIX + b" " * rng.randint(0, 2) + rng.choice([b"a.h", b"dir/b.h", "é.h".encode(), b"C:\\x y\\z.h", b""]) + rng.choice([b"", b"\r"]))
        else:
            lines.append(rng.choice([b"", b"warning: unused", b"Note: something else", b"\r", b"x" * rng.randint(1, 70), "日本語".encode(), b"\x1b[31mred\x1b[0m", b"\xff\xfe"]))
    text = b"\n".join(lines) + rng.choice([b"", b"\n", b"\n\n", b"\r\n"])
    cuts = sorted(rng.sample(range(len(text) + 1), min(len(text) + 1, rng.randint(0, 5)))) if text else []
    chunks, prev = [], 0
    for c in cuts + [len(text)]:
        chunks.append(text[prev:c])
        prev = c
    if rng.random() < 0.2:
        chunks.insert(rng.randint(0, len(chunks)), b"")                   # an empty read
    chunks = [c for c in chunks] if text or chunks else []
    # (classified with the real parser: a rule naming two targets before the colon is rejected by n2, ` : x` is accepted)
    good = [b"o: a.h b.h\n", b"o: a.h \\\n  b.h\n\no2: c.h\n", b"o:\n", b"", b"o: a.h\no: b.h\n", "o: é.h\n".encode(), b"o: a.h\n  : x\n"]
    bad = [b"o a.h\n", b"o o2: x\n", b"a\\bc\n" + "é".encode() * 30 + b" x\n", b"o: a.h\nnocolon\n"]
    r = rng.random()
    written = None if r < 0.4 else (rng.choice(good) if r < 0.8 else rng.choice(bad))
    stale = rng.choice(good + bad) if rng.random() < 0.15 else None
    flag_d = written is None and stale is None and rng.random() < 0.4            # a depfile is configured but the command writes none
    rsp = rng.choice([b"", b"-o x a.o b.o", b"line1\nline2\n", "é".encode() * 10]) if rng.random() < 0.35 else None
    f = lambda b: "~" if b is None else hexs(b)
    line = "%d %d %s %s %s %s%s" % (showinc, term, f(stale), f(written), f(rsp), ",".join(hexs(c) for c in chunks) if chunks else "-", " d" if flag_d else "")
    return line, {"showinc": showinc, "term": term, "stale": stale, "written": written, "rsp": rsp, "chunks": chunks,
                  "depfile": flag_d or written is not None or stale is not None, "bad": bad}


def task_monitor(run, line, m, res):
    """C16/C09/C15 on what the real run_task returned"""
    where = {"suite": "task", "case": line, "result": res[:300]}
    if res.startswith("panic") or res.startswith("abort"):
        run.report_failure(None, "run_task did not return: %s" % res[:160], where)
        return
    seen = res.rsplit(" rsp=", 1)[1]
    want_seen = "~" if m["rsp"] is None else hexs(m["rsp"])
    if seen != want_seen:
        run.report_failure(None, "when the command started its response file held %s, expected %s" % (seen[:60], want_seen[:60]), where)
    raw = b"".join(m["chunks"])
    left = m["written"] if m["written"] is not None else m["stale"]
    if res.startswith("err "):
        msg = unhexs(res.split()[1])
        if m["term"] != 0 or left is None or left not in m["bad"]:
            run.report_failure(None, "run_task failed although the command did not succeed with a malformed depfile: %r" % msg[:100], where)
        elif b"DEPFILE" not in msg or not msg.startswith(b"parse error: "):
            run.report_failure(None, "the depfile parse error does not name the depfile: %r" % msg[:100], where)
        return
    if m["term"] == 0 and left is not None and left in m["bad"]:
        run.report_failure(None, "a malformed depfile did not fail the step", where)
        return
    w = res.split(" ")
    out, deps, lines = unhexs(w[2]), w[3], w[4][len("lines="):]
    if int(w[1]) != m["term"]:
        run.report_failure(None, "termination %s reported for a command that ended with %d" % (w[1], m["term"]), where)
    notes = [l for l in raw.split(b"\n") if l.startswith(NOTE_PREFIX)]
    if not m["showinc"]:
        if out != raw:
            run.report_failure(None, "the output kept (%d bytes) is not what the command wrote (%d bytes)" % (len(out), len(raw)), where)
    else:
        if any(l.startswith(NOTE_PREFIX) for l in out.split(b"\n")):
            run.report_failure(None, "a /showIncludes line is left in the output", where)
        rest = b"\n".join(l for l in raw.split(b"\n") if not l.startswith(NOTE_PREFIX))
        if out != rest:
            run.report_failure(None, "the output kept differs from the command's other lines", where)
    uses_depfile = m["term"] == 0 and m["depfile"]
    if not uses_depfile:
        if m["showinc"]:
            if deps == "~" or (len(deps[1:-1].split(",")) if deps != "[]" else 0) != len(notes):
                run.report_failure(None, "%d notes in the output but the reported dependencies are %s" % (len(notes), deps[:80]), where)
        elif deps != "~":
            run.report_failure(None, "dependencies reported (%s) by a command without depfile or notes%s" % (deps[:60], " that failed" if m["term"] else ""), where)
    elif left is None and deps != "[]":
        run.report_failure(None, "a missing depfile does not count as empty: %s" % deps[:80], where)
    ll = [unhexs(x) for x in lines.split(",")] if lines else []
    if len(ll) != len(m["chunks"]) and not (len(m["chunks"]) == 1 and lines == "-" ) and not (lines == "" and not m["chunks"]):
        if not (lines == "-" and len(m["chunks"]) == 1):
            pass
    if any(b"\n" in l or b"\r" in l for l in ll):
        run.report_failure(None, "a last-output line contains a line break", where)


def task_leg(run, rng, tier, drv):
    har, out = build_harness()
    if har is None:
        run.tie("harness build", out[-2000:])
        return {}
    n = 3000 if tier == "quick" else 30000
    cases = [gen_task_case(rng) for _ in range(n)]
    lines = [c[0] for c in cases]
    impl, model, bad = differential(run, "task::run_task / read_depfile", har, drv, "task", "task", lines)
    for (l, m), r in zip(cases, impl):
        task_monitor(run, l, m, r)
    return {"run_task_cases": len(lines), "run_task_disagreements": len(bad), "run_task_errors": sum(1 for r in impl if r.startswith("err ")),
            "run_task_with_notes": sum(1 for _, m in cases if m["showinc"]), "run_task_failing_commands": sum(1 for _, m in cases if m["term"])}


def gen_dumb_case(rng):
    """starts and completions on the plain console; outputs with escape sequences, raw bytes, no final newline"""
    ops, open_, nid, descs = [], [], 1, {}
    shown = []
    for _ in range(rng.randint(1, 14)):
        if not open_ or rng.random() < 0.45:
            d = rng.choice([None, b"", b"CC obj", "LINK \xe9".encode("latin-1"), b"x" * 90])
            c = rng.choice([b"cc -c a.c", b"", b"touch out", "echo é".encode()])
            descs[nid] = (d, c)
            ops.append("S %d %s %s" % (nid, "~" if d is None else hexs(d), hexs(c)))
            open_.append(nid)
            nid += 1
        else:
            i = rng.choice(open_)
            open_.remove(i)
            d, c = descs[i]
            out = rng.choice([b"", b"", b"plain\n", b"no newline", b"\x1b[31mred\x1b[0m\n", b"BEGIN\x1b[12345;END", b"tail\x1b", b"\xff\xfe\x00raw\n",
                              b"a\r\nb\r\n", b"x" * 5000 + b"\n", "日本語\n".encode(), b"\x1b[2Kprogress\r\x1b[2Kdone\n"])
            hide, term = rng.random() < 0.25, rng.choice([0, 0, 0, 1, 2])
            ops.append("F %d %s %s %d %d %s" % (i, "~" if d is None else hexs(d), hexs(c), hide, term, hexs(out)))
            if out and not (term == 0 and hide):
                shown.append(out)
    return "v=%d %s" % (rng.random() < 0.3, ";".join(ops)), shown


def dumb_leg(run, rng, tier, drv):
    har, out = build_harness()
    if har is None:
        run.tie("harness build", out[-2000:])
        return {}
    cases = [gen_dumb_case(rng) for _ in range(800 if tier == "quick" else 8000)]
    lines = [c[0] for c in cases]
    impl, model, bad = differential(run, "DumbConsoleProgress (what the plain console prints)", har, drv, "dumb", "dumb", lines)
    for (l, shown), r in zip(cases, impl):
        where = {"suite": "dumb", "case": l, "result": r[:300]}
        if not r.startswith("ok "):
            run.report_failure(None, "the plain console did not return: %s" % r[:160], where)
            continue
        text = unhexs(r[3:])
        pos = 0
        for blk in shown:                       # every output to be shown appears whole, in completion order
            k = text.find(blk, pos)
            if k < 0:
                run.report_failure(None, "the output of a finished command (%d bytes, %r...) is not printed intact" % (len(blk), blk[:24]), where)
                break
            pos = k + len(blk)
    return {"plain_console_cases": len(lines), "plain_console_disagreements": len(bad), "plain_console_blocks": sum(len(c[1]) for c in cases)}


def gen_fs_case(rng):
    """a scratch tree, the directory n2 runs in, and what n2 does before commands start: create the parent directories of a
    step's outputs (names through the loader), write a response file.  Names: nested, shared parents, leading `..`, absolute,
    respelled; regular files in the way."""
    import posixpath
    depth = rng.choice([0, 1, 2, 2])
    cwd = ["w", "c"][:depth]
    tree = {}                                   # location (tuple) -> None (dir) | bytes (file)
    for i in range(1, depth + 1):
        tree[tuple(cwd[:i])] = None
    names = ["a", "b", "d", "f", "x", "o"]
    bases = [(), tuple(cwd)] + ([tuple(cwd[:1])] if depth == 2 else [])
    for _ in range(rng.randint(0, 5)):          # directories and files already there
        base = rng.choice(bases)
        loc = base
        for _ in range(rng.randint(1, 3)):
            loc = loc + (rng.choice(names),)
            if loc in tree and tree[loc] is not None:
                break
            if loc not in tree:
                if rng.random() < 0.3:
                    tree[loc] = bytes([rng.randrange(256) for _ in range(rng.randint(0, 3))])
                    break
                tree[loc] = None
    def name(rsp=False):
        comps = [rng.choice(names) for _ in range(rng.randint(1, 4))]
        r = rng.random()
        pre = ""
        if r < 0.15 and depth:
            pre = "../" * rng.randint(1, depth)
        elif r < 0.3:
            pre = "/"
        n = pre + "/".join(comps)
        q = rng.random()
        if q < 0.08:
            n = n.replace("/", "//", 1) if not n.startswith("/") else n
        elif q < 0.16:
            n = "./" + n if not pre else n
        elif q < 0.24 and len(comps) > 1:
            n = pre + comps[0] + "/../" + "/".join(comps)
        elif q < 0.3:
            n = n + "/"
        elif q < 0.34 and rsp:
            n = pre + comps[0] + "/./" + "/".join(comps[1:] or ["r"])
        return n.encode()
    ops, meta = [], []
    for _ in range(rng.randint(1, 4)):
        if rng.random() < 0.65:
            outs = [name() for _ in range(rng.randint(1, 5))]
            if rng.random() < 0.3:
                outs.append(outs[0].rsplit(b"/", 1)[0] + b"/sib" if b"/" in outs[0].strip(b"/") else b"sib")
            ops.append("D " + " ".join(hexs(o) for o in outs))
            meta.append(("D", outs))
        else:
            n, c = name(True), bytes([rng.randrange(256) for _ in range(rng.randint(0, 6))])
            ops.append("R %s %s" % (hexs(n), hexs(c)))
            meta.append(("R", n, c))
    ents = []
    for loc in sorted(tree, key=lambda l: (len(l), l)):
        pth = "/".join(loc).encode()
        ents.append("D %s" % hexs(pth) if tree[loc] is None else "F %s %s" % (hexs(pth), hexs(tree[loc])))
    return "%s ; %s ; %s" % (hexs("/".join(cwd).encode()), ",".join(ents), ",".join(ops)), (cwd, tree, meta)


def fs_monitor(run, line, info, r):
    """independent of the model: on the implementation's own result"""
    import posixpath
    cwd, tree, meta = info
    where = {"suite": "fs", "case": line, "result": r[:400]}
    if " | " not in r and not r.endswith(" |"):
        run.report_failure(None, "preparing the file system for a command did not return: %s" % r[:160], where)
        return
    res, _, listing = r.partition(" |")
    res = res.split()
    final = {}
    for it in listing.strip().split(","):
        w = it.split()
        if not w:
            continue
        final[unhexs(w[1]).decode("latin-1")] = None if w[0] == "D" else unhexs(w[2] if len(w) > 2 else "-")
    def loc(n):
        n = n.decode("latin-1")
        full = n if n.startswith("/") else "/" + "/".join(cwd) + "/" + n
        return posixpath.normpath(full).lstrip("/")
    written = {}
    for m, e in zip(meta, res):
        if m[0] == "D" and e == "ok":
            for o in m[1]:
                par = posixpath.dirname(loc(o))            # normpath drops a trailing separator, like Path::parent
                if par and final.get(par, b"") is not None:
                    run.report_failure(None, "create_parent_dirs reported success but the directory of output %r does not exist" % o, where)
                    return
        if m[0] == "R" and e == "ok":
            written[loc(m[1])] = m[2]
    for l, c in written.items():
        if final.get(l) != c:
            run.report_failure(None, "write_rspfile reported success but the response file %r does not hold the evaluated content" % l, where)
            return
    for l0, c0 in tree.items():
        l = "/".join(l0)
        if l in written:
            continue
        if l not in final or final[l] != c0:
            run.report_failure(None, "preparing the file system changed or removed %r, which no step names" % l, where)
            return
    for l, c in final.items():
        if c is not None and l not in written and tuple(l.split("/")) not in tree:
            run.report_failure(None, "a regular file %r appeared that nothing wrote" % l, where)
            return


def fs_leg(run, rng, tier, drv):
    har, out = build_harness()
    if har is None:
        run.tie("harness build", out[-2000:])
        return {}
    cases = [gen_fs_case(rng) for _ in range(1500 if tier == "quick" else 15000)]
    lines = [c[0] for c in cases]
    impl, model, bad = differential(run, "create_parent_dirs / write_rspfile on a scratch tree (Model/Fs.v)", har, drv, "fs", "fs", lines)
    errs = {}
    for (l, info), r in zip(cases, impl):
        fs_monitor(run, l, info, r)
        for e in r.partition(" |")[0].split():
            errs[e] = errs.get(e, 0) + 1
    # std::path::Path itself (has_root, components, parent) on every short name, canonical or not, against Fs.path_new / lp_parent
    import itertools
    alpha = [b"a", b"b", b".", b"/"]
    names = [b""]
    for n in range(1, 8 if tier == "quick" else 10):
        names += [b"".join(t) for t in itertools.product(alpha, repeat=n)]
    names += [b"a\\b/c", "é/日本/x".encode(), b"a/" * 70 + b"b", b"../" * 5 + b"x/./y//", b"/.//../a/.."]
    plines = [hexs(n) for n in names]
    pimpl, pmodel, pbad = differential(run, "std::path::Path components / parent (Fs.path_new, lp_parent)", har, drv, "pathparts", "pathparts", plines,
                                       show=lambda l: repr(unhexs(l)))
    return {"fs_cases": len(lines), "fs_disagreements": len(bad), "fs_operation_results": errs,
            "path_names_exhaustive": len(names), "path_disagreements": len(pbad)}


def main(tier, seed, replay=None):
    run = Run(PROP, tier, seed, "proof")
    rng = random.Random(seed)
    info, problems = proof_gate(PROP, THEOREMS, thorough=(tier == "thorough"))
    info2, problems2 = proof_gate_multi(["C16Task", "C16Dumb", "C16Dirs"], thorough=(tier == "thorough"))
    problems = problems + problems2
    info["obligations"] = info.get("obligations", 0) + info2.get("obligations", 0)
    info["discharged"] = info.get("discharged", 0) + info2.get("discharged", 0)
    info["theorems"] = info.get("theorems", []) + info2.get("theorems", [])
    for p in problems:
        run.tie("proof gate", p)
    drv = build_driver()
    if replay:
        # a recorded case of one of the line suites (fs, pathparts, dumb, task): that case alone, implementation against model
        rp = json.load(open(replay))
        rp = rp.get("replay") or (rp.get("no_longer_checks") or [{}])[0].get("detail", {})
        suite, case = rp.get("suite"), rp.get("case")
        if suite in ("fs", "pathparts", "dumb", "task") and case:
            har, out = build_harness()
            if har is None:
                run.tie("harness build", out[-2000:])
                return run.finish()
            impl, model, bad = differential(run, "replayed case of suite %s" % suite, har, drv, suite, suite, [case])
            if suite == "fs":
                cwd_h, tree_s, ops_s = [x.strip() for x in case.split(";")]
                cwd = [c for c in unhexs(cwd_h).decode("latin-1").split("/") if c]
                tree, meta = {}, []
                for e in tree_s.split(","):
                    w = e.split()
                    if w:
                        tree[tuple(unhexs(w[1]).decode("latin-1").split("/"))] = None if w[0] == "D" else unhexs(w[2] if len(w) > 2 else "-")
                for o in ops_s.split(","):
                    w = o.split()
                    if w and w[0] == "D":
                        meta.append(("D", [unhexs(x) for x in w[1:]]))
                    elif w:
                        meta.append(("R", unhexs(w[1]), unhexs(w[2])))
                fs_monitor(run, case, (cwd, tree, meta), impl[0])
            run.coverage.update(info)
            run.coverage.update({"replayed_suite": suite, "implementation": impl[0][:300], "model": model[0][:300]})
            return run.finish()
    n2, out = build_n2_binary()
    if n2 is None:
        run.tie("n2 build", out[-2000:])
        return run.finish()
    stats = {"projects": 0, "commands": 0, "exit_codes": 0, "signals": 0, "output_blocks": 0}
    samples = []
    nontrivial = set()
    base = tempfile.mkdtemp(prefix="n2verif-c16-%d-" % os.getpid())
    try:
        # ---- A. argv / cwd / stdin / descriptors / directories / rspfile ----------------
        nproj = 12 if tier == "quick" else 120
        specials = ["plain", "a 'single quoted' arg", 'a "double quoted" arg', "dollar $HOME and $$", "semi; colon && and || or",
                    "redirect 2>&1 >/dev/null", "back\\slash", "glob * ? [a]", "unicode é 日本", "tab\there", "#hash", "pipe | cat"]
        for pi in range(nproj):
            d = os.path.join(base, "a%d" % pi)
            os.makedirs(d)
            nsteps = rng.randint(1, 6)
            lines = ["rule probe",
                     "  command = tr '\\0' '\\n' < /proc/$$$$/cmdline > $out.argv; pwd > $out.cwd; readlink /proc/self/fd/0 > $out.stdin; "
                     "ls -l /proc/self/fd > $out.fds; readlink /proc/$$$$/exe > $out.exe; cat $out.rsp > $out; # $text",
                     "  rspfile = $out.rsp", "  rspfile_content = $content"]
            expect = []
            for si in range(nsteps):
                outp = rng.choice(["o%d" % si, "d%d/o%d" % (pi, si), "x/y/z%d/o%d" % (si, si)])
                text = rng.choice(specials)
                content = rng.choice(["hello", "a b  c", "é $$ x", "line1 line2", ""]) + str(si)
                lines += ["build %s: probe" % outp, "  text = %s" % ninja_escape(text).replace("\n", " "),
                          "  content = %s" % ninja_escape(content)]
                cmd = ("tr '\\0' '\\n' < /proc/$$/cmdline > %s.argv; pwd > %s.cwd; readlink /proc/self/fd/0 > %s.stdin; "
                       "ls -l /proc/self/fd > %s.fds; readlink /proc/$$/exe > %s.exe; cat %s.rsp > %s; # %s" % (outp, outp, outp, outp, outp, outp, outp, text))
                expect.append((outp, cmd, content))
            open(os.path.join(d, "build.ninja"), "w").write("\n".join(lines) + "\n")
            j = rng.choice([1, 2, 4, 8])
            # every other project: a directory with its own `sh` comes first on PATH (and "." too); the interpreter is /bin/sh all the same
            env = None
            if pi % 2 == 1:
                fake = os.path.join(d, "fakebin")
                os.makedirs(fake)
                for f in (os.path.join(fake, "sh"), os.path.join(d, "sh")):
                    open(f, "w").write("#!/bin/sh\necho hijacked >> %s\nexec /bin/sh \"$@\"\n" % os.path.join(d, "hijack.log"))
                    os.chmod(f, 0o755)
                env = dict(ENV, PATH=fake + "::" + ENV.get("PATH", "/usr/bin:/bin"))
            rc, so, se = run_n2(n2, d, ["-j", str(j)], env=env)
            stats["projects"] += 1
            where = {"manifest": "\n".join(lines), "j": j, "stdout": so.decode("utf-8", "replace")[-600:], "rc": rc}
            if rc != 0:
                run.report_failure(None, "probe project failed: rc=%d" % rc, where)
                continue
            for outp, cmd, content in expect:
                stats["commands"] += 1
                try:
                    argv = open(os.path.join(d, outp + ".argv"), "rb").read().decode("utf-8", "replace").split("\n")
                    cwd = open(os.path.join(d, outp + ".cwd")).read().strip()
                    stdin = open(os.path.join(d, outp + ".stdin")).read().strip()
                    fds = open(os.path.join(d, outp + ".fds")).read()
                    got = open(os.path.join(d, outp), "rb").read().decode("utf-8", "replace")
                except OSError as e:
                    run.report_failure(None, "probe output missing: %s" % e, where)
                    continue
                try:
                    exe = open(os.path.join(d, outp + ".exe")).read().strip()
                except OSError:
                    exe = ""
                if exe != os.path.realpath("/bin/sh") or os.path.exists(os.path.join(d, "hijack.log")):
                    run.report_failure(None, "the command was interpreted by %r (PATH starts with a directory that has its own sh), not by /bin/sh" % exe, where)
                if argv[:3] != ["/bin/sh", "-c", cmd]:
                    run.report_failure(None, "command was not run as /bin/sh -c <evaluated string>: %r vs %r" % (argv[:3], cmd), where)
                if os.path.realpath(cwd) != os.path.realpath(d):
                    run.report_failure(None, "command ran in %r, not in the build directory" % cwd, where)
                if stdin != "/dev/null":
                    run.report_failure(None, "stdin of the command is %r" % stdin, where)
                if got != content:
                    run.report_failure(None, "response file content %r, expected %r" % (got, content), where)
                extra = []
                for l in fds.split("\n"):
                    m = re.search(r"\s(\d+) -> (.*)$", l)
                    if m:
                        fd, tgt = int(m.group(1)), m.group(2)
                        if fd > 3 or ".n2_db" in tgt:
                            extra.append((fd, tgt))
                if extra:
                    run.report_failure(None, "descriptors leaked into the command: %r" % extra, where)
                nontrivial.add(cmd)
            if len(samples) < 2:
                samples.append({"manifest": "\n".join(lines)[:400], "j": j})
        # ---- A2. multi-step / multi-invocation sequences around directories and response files ----
        d = os.path.join(base, "seq")
        os.makedirs(d)
        man = ("rule w\n  command = echo x > $out\nrule clean\n  command = rm -rf stage; echo done > $out\n"
               "rule rsp\n  command = cat $out.rsp > $out\n  rspfile = $out.rsp\n  rspfile_content = $content\n"
               "build stage/a: w\nbuild cleaned: clean stage/a\nbuild stage/c: w cleaned\n"
               "build r.out: rsp\n  content = %s\n")
        open(os.path.join(d, "build.ninja"), "w").write(man % "alpha.o beta.o gamma_long_name.o")
        rc, so, se = run_n2(n2, d, ["-j", "1"])
        where = {"project": "dir removed by an earlier command of the same invocation; response file that shrinks", "stdout": so.decode("utf-8", "replace")[-400:], "rc": rc}
        stats["commands"] += 4
        if rc != 0 or not os.path.exists(os.path.join(d, "stage/c")):
            run.report_failure(None, "the output directory of a step did not exist when its command started (an earlier command had removed it)", where)
        open(os.path.join(d, "build.ninja"), "w").write(man % "alpha.o")
        rc, so, se = run_n2(n2, d, ["-j", "1", "r.out"])
        got = open(os.path.join(d, "r.out")).read() if os.path.exists(os.path.join(d, "r.out")) else None
        if rc != 0 or got != "alpha.o":
            run.report_failure(None, "response file content after it became shorter: %r, expected %r" % (got, "alpha.o"),
                               dict(where, stdout=so.decode("utf-8", "replace")[-300:], rc=rc))
        nontrivial.add("a2-seq")
        # ---- B. output capture: sizes around the 4 KiB read buffer and the 64 KiB pipe ---
        sizes = [0, 1, 4095, 4096, 4097, 8192, 65535, 65536, 65537, 100000]
        if tier == "thorough":
            sizes += [200000, 4096 * 3 + 1]
        rounds = 2 if tier == "quick" else 10
        for r in range(rounds):
            d = os.path.join(base, "b%d" % r)
            os.makedirs(d)
            lines = ["rule spam", "  command = head -c $n /dev/zero | tr '\\0' '$ch'; echo E$ch >&2; head -c $n /dev/zero | tr '\\0' '$ch'",
                     "  description = T$ch"]
            letters = "BCDFGHJKLMPQRSUVWXYZ"
            tasks = []
            for i, n in enumerate(rng.sample(sizes, min(len(sizes), 8))):
                ch = letters[i]
                lines += ["build out%d: spam" % i, "  n = %d" % n, "  ch = %s" % ch]
                tasks.append((ch, n))
            lines.append("rule touch")
            lines.append("  command = touch $out")
            lines.append("build all: touch " + " ".join("out%d" % i for i in range(len(tasks))))
            open(os.path.join(d, "build.ninja"), "w").write("\n".join(lines) + "\n")
            j = rng.choice([1, 3, 8, 16])
            rc, so, se = run_n2(n2, d, ["-j", str(j), "out0"] + ["out%d" % i for i in range(1, len(tasks))], timeout=60)
            where = {"manifest": "\n".join(lines), "j": j, "rc": rc, "stdout_len": len(so)}
            if rc == 124:
                run.report_failure(None, "n2 did not terminate within 60 s on commands writing up to %d bytes of output" % max(n for _, n in tasks), where)
                continue
            text = so.decode("latin-1")
            for ch, n in tasks:
                stats["output_blocks"] += 1
                # the two runs of n letters and the stderr marker in between must appear once, contiguously, in order
                want = ch * n + "E" + ch + "\n" + ch * n
                cnt = text.count(want)
                total = text.count(ch * 1) if n > 0 else 0
                body = re.sub(r"T.\n", "", text)
                if want not in body:
                    run.report_failure(None, "output of the task writing %d+%d bytes of %r is not shown intact and contiguous" % (n, n, ch), where)
                elif n > 0 and body.count(ch) - body.count("E" + ch) - 0 != 2 * n and body.count(ch) != 2 * n + 1:
                    run.report_failure(None, "output of task %r shown more than once or partially (%d letters, expected %d)" % (ch, body.count(ch), 2 * n + 1), where)
                nontrivial.add("out-%s-%d" % (ch, n))
        # ---- C. exit codes and signals ---------------------------------------------------
        codes = list(range(0, 256)) if tier == "thorough" else [0, 1, 2, 3, 126, 127, 128, 129, 130, 137, 143, 200, 255]
        d = os.path.join(base, "c")
        os.makedirs(d)
        lines = ["rule ex", "  command = echo out$code; exit $code", "rule sig", "  command = echo sig$s; kill -$s $$$$; sleep 5"]
        for c in codes:
            lines += ["build e%d: ex" % c, "  code = %d" % c]
        # SIGPIPE (13) is ignored in commands because the Rust runtime ignores it and the disposition is inherited: not used
        sigs = [1, 2, 3, 6, 9, 15] if tier == "quick" else [s for s in range(1, 32) if s not in (13, 17, 18, 19, 20, 21, 22, 23, 28)]
        for s in sigs:
            lines += ["build s%d: sig" % s, "  s = %d" % s]
        open(os.path.join(d, "build.ninja"), "w").write("\n".join(lines) + "\n")
        model = run_lines([drv, "status"], [str(c * 256) for c in codes] + [str(s) for s in sigs])
        k = 0
        for c in codes:
            rc, so, se = run_n2(n2, d, ["e%d" % c])
            stats["exit_codes"] += 1
            want = model[k].split()[1]
            k += 1
            failed = b"failed: " in so
            where = {"target": "e%d" % c, "rc": rc, "stdout": so.decode("utf-8", "replace")[-300:], "model": want}
            if (want == "0") != (rc == 0) or (want != "0") != failed:
                run.tie("correspondence decode_status (exit code %d)" % c, where)
            if c == 0 and rc != 0:
                run.report_failure(None, "exit status 0 treated as failure", where)
            if c != 0 and (rc == 0 or not failed):
                run.report_failure(None, "exit status %d not treated as a failure (n2 exit %d)" % (c, rc), where)
            if ("out%d" % c).encode() not in so and c != 0:
                run.report_failure(None, "output of a failing command not shown", where)
        for s in sigs:
            rc, so, se = run_n2(n2, d, ["s%d" % s])
            stats["signals"] += 1
            want = model[k].split()[1]
            k += 1
            where = {"target": "s%d" % s, "rc": rc, "stdout": so.decode("utf-8", "replace")[-300:], "model": want}
            interrupted = b"interrupted: " in so
            if rc == 0:
                run.report_failure(None, "a command killed by signal %d counts as success" % s, where)
            if (want == "2") != interrupted:
                run.tie("correspondence decode_status (signal %d)" % s, where)
            if s == 2 and not interrupted:
                run.report_failure(None, "SIGINT is not reported as an interruption", where)
        # an interruption stops the build: nothing else starts afterwards
        d2 = os.path.join(base, "c2")
        os.makedirs(d2)
        open(os.path.join(d2, "build.ninja"), "w").write(
            "rule sig\n  command = kill -2 $$$$; sleep 5\nrule t\n  command = touch $out\nbuild a: sig\nbuild b: t a\nbuild c: t\nbuild all: phony b c\n")
        rc, so, se = run_n2(n2, d2, ["-j", "1", "-k", "5", "a", "c"])
        if rc == 0 or os.path.exists(os.path.join(d2, "b")):
            run.report_failure(None, "build continued / succeeded after SIGINT", {"stdout": so.decode("utf-8", "replace")[-300:], "rc": rc})
        # ... also when only the command received the signal and the failure budget is not used up (-k N)
        for kflag in ("10", "2"):
            d3 = os.path.join(base, "c3-" + kflag)
            os.makedirs(d3)
            open(os.path.join(d3, "build.ninja"), "w").write(
                "rule sig\n  command = echo $out >> started.log; kill -INT $$$$\nbuild i1: sig\nbuild i2: sig\nbuild i3: sig\n")
            rc, so, se = run_n2(n2, d3, ["-j", "1", "-k", kflag, "i1", "i2", "i3"])
            started = open(os.path.join(d3, "started.log")).read().split() if os.path.exists(os.path.join(d3, "started.log")) else []
            stats["signals"] += 1
            if rc == 0 or len(started) != 1:
                run.report_failure(None, "a command died from SIGINT under -k %s: %d commands were started (an interruption stops the build), n2 exit %d" % (
                    kflag, len(started), rc), {"stdout": so.decode("utf-8", "replace")[-300:], "rc": rc, "started": started})
        # ... and when the user interrupts the whole process group (ctrl-c): commands die, n2 stops starting steps and reports failure
        d4 = os.path.join(base, "c4")
        os.makedirs(d4)
        open(os.path.join(d4, "build.ninja"), "w").write(
            "rule slow\n  command = echo $out >> started.log; sleep 30; touch $out\nbuild w1: slow\nbuild w2: slow\nbuild w3: slow\nbuild w4: slow\n")
        p4 = subprocess.Popen([n2, "-j", "2", "-k", "10", "w1", "w2", "w3", "w4"], cwd=d4, stdout=subprocess.PIPE, stderr=subprocess.STDOUT,
                              stdin=subprocess.DEVNULL, env=ENV, preexec_fn=lambda: (_default_signals(), os.setpgid(0, 0)))
        t0 = time.time()
        while time.time() - t0 < 20:
            if os.path.exists(os.path.join(d4, "started.log")) and len(open(os.path.join(d4, "started.log")).read().split()) >= 2:
                break
            time.sleep(0.05)
        time.sleep(0.3)
        try:
            os.killpg(p4.pid, signal.SIGINT)
        except ProcessLookupError:
            pass
        try:
            so4, _ = p4.communicate(timeout=25)
            rc4 = p4.returncode
        except subprocess.TimeoutExpired:
            os.killpg(p4.pid, signal.SIGKILL)
            so4, _ = p4.communicate()
            rc4 = None
        started4 = open(os.path.join(d4, "started.log")).read().split() if os.path.exists(os.path.join(d4, "started.log")) else []
        stats["signals"] += 1
        where4 = {"stdout": so4.decode("utf-8", "replace")[-400:], "rc": rc4, "started": started4}
        if rc4 is None:
            run.report_failure(None, "ctrl-c (SIGINT to the process group): n2 was still running 25 s later", where4)
        elif rc4 == 0 or len(started4) != 2 or any(os.path.exists(os.path.join(d4, "w%d" % i)) for i in range(1, 5)):
            run.report_failure(None, "ctrl-c (SIGINT to the process group) with -j 2 -k 10: exit %s, %d commands started (2 were running; none may start afterwards)" % (
                rc4, len(started4)), where4)
    finally:
        shutil.rmtree(base, ignore_errors=True)
    # ---- D. task::run_task around scripted commands, against Model/Task.v ----
    stats.update(task_leg(run, rng, tier, drv))
    # ---- E. the plain console's printing against Model/Dumb.v ----
    stats.update(dumb_leg(run, rng, tier, drv))
    # ---- F. directories of outputs and response files against Model/Fs.v ----
    stats.update(fs_leg(run, rng, tier, drv))
    run.coverage.update(info)
    run.coverage.update({
        "model_vs_impl_disagreements": stats.get("run_task_disagreements", 0) + stats.get("plain_console_disagreements", 0),
        "checker_cmd": "make -C coq theories/Props/C16.vo theories/Props/C16Task.vo && coqc Gate_C16.v Gate_C16Task.v",
        "trusted_base": TRUSTED_BASE,
        "evaluations": stats["commands"] + stats["output_blocks"] + stats["exit_codes"] + stats["signals"],
        "distinct_nontrivial": len(nontrivial),
        "rule": "real n2 binary on generated projects: commands with quotes/$$/redirections/unicode record their argv (/proc/$$/cmdline), "
                "cwd, stdin and open descriptors; nested output directories; response files; output blocks of 0..100000 bytes per stream "
                "around the 4 KiB and 64 KiB boundaries with a stderr marker in between, -j 1..16; exit codes and terminating signals "
                "compared with the model's decode_status; non-trivial = distinct command string / output shape",
        "stats": stats,
        "samples": samples or [{"note": "none"}],
    })
    run.assumptions += ["PARTIAL BY NATURE: that /bin/sh -c receives the string, that no descriptor leaks, that the kernel delivers every byte and "
                        "that output is printed once are run-time facts; they are tested here, not proved. Proved: status decoding, and about "
                        "task::run_task as a whole (Model/Task.v, compared with the real function around scripted commands): every byte kept in "
                        "order for every chunking, notes filtered whatever the outcome, depfile read only after success, never a panic.",
                        "the fancy (tty) console is not exercised; DumbConsoleProgress is used because stdout is a pipe"]
    return run.finish()
