"""C18 — exactly the requested closure is considered."""
from sched import *

PROP = "C18"
THEOREMS = [tuple(x) for x in json.load(open(os.path.join(VERIF, "lib", "pins", PROP + ".json")))]


def probe_f14(run, har):
    """a command-line name that occurs nowhere in the manifest but is remembered by the build log"""
    m1 = "rule r\n  command = cmd $out\nbuild old: r src\nbuild keep: r src\n"
    m2 = "rule r\n  command = cmd $out\nbuild keep: r src\n"
    steps = ["file %s %s" % (hx("build.ninja"), hx(m1)), "file %s %s" % (hx("src"), hx("v")), inv_cmd(1, None, False, [], "-"),
             "file %s %s" % (hx("build.ninja"), hx(m2)), inv_cmd(1, None, False, ["old"], "-")]
    rep = run_histories(har, ["\n".join(steps)])[0]
    where = {"scenario": "\n".join(steps)}
    if isinstance(rep, str) or len(rep) < 2:
        run.report_failure(None, "probe: harness died", where)
        return
    r = rep[1].result
    if r.startswith("err:") and b"unknown path requested" in unhexs(r[4:]):
        return
    run.report_failure("target-known-only-from-log" if r == "ok:0" else None,
                       "target `old` occurs nowhere in the manifest (only in .n2_db) but is accepted: %s" % r[:60], where)


def main(tier, seed, replay=None):
    return sched_check(PROP, THEOREMS, tier, seed, [monitor_c18], extra_modules=["Model.All", "Proofs.SchedSpec", "Proofs.SchedInv", "Proofs.SchedLive", "Proofs.SchedRunThms"],
                       replay=replay, scen_gen=gen_sched_or_regen, probes=probe_f14)
