"""C18 — exactly the requested closure is considered."""
from sched import *

PROP = "C18"
THEOREMS = [tuple(x) for x in json.load(open(os.path.join(VERIF, "lib", "pins", PROP + ".json")))]


def probe_f14(run, har):
    """a command-line name that occurs nowhere in the manifest but is remembered by the build log"""
    m1 = "rule r\n  command = cmd $out\nbuild old: r src\nbuild keep: r src\n"
    m2 = "rule r\n  command = cmd $out\nbuild keep: r src\n"
    steps = ["file %s %s" % (hx("build.ninja"), hx(m1)), "file %s %s" % (hx("src"), hx("v")), inv_cmd(1, None, False, [], "-"),
             "file %s %s" % (hx("build.ninja"), hx(m2)), inv_cmd(1, None, False, ["old"], "-")]
    rep = run_histories(har, ["\n".join(steps)])[0]
    where = {"scenario": "\n".join(steps)}
    if isinstance(rep, str) or len(rep) < 2:
        run.report_failure(None, "probe: harness died", where)
        return
    r = rep[1].result
    if r.startswith("err:") and b"unknown path requested" in unhexs(r[4:]):
        return
    run.report_failure("target-known-only-from-log" if r == "ok:0" else None,
                       "target `old` occurs nowhere in the manifest (only in .n2_db) but is accepted: %s" % r[:60], where)


def flags_leg(run):
    """-f, -C and builddir through the real binary (argument parsing is not modelled): the same project built plainly, from another
    directory with -C, under another manifest name with -f, and with `builddir = out`: same commands, same outputs, the log where
    it belongs; an unknown name is refused in each variant"""
    import shutil, tempfile
    n2, out_ = build_n2_binary()
    if n2 is None:
        run.tie("n2 build", out_[-1000:])
        return
    base = tempfile.mkdtemp(prefix="n2verif-c18-%d-" % os.getpid())
    man = ("rule cat\n  command = echo $out >> ran.log; cat $in > $out\nbuild a: cat s1\nbuild b: cat a s2\nbuild c: cat s2\n"
           "build d: cat c |@ v\nbuild v: cat s1\nbuild all: phony b d\ndefault b\n")
    variants = {
        "plain": dict(name="build.ninja", text=man, args=[], cwd=".", db=".n2_db"),
        "dash-C": dict(name="build.ninja", text=man, args=["-C", "proj"], cwd="..", db=".n2_db"),
        "dash-f": dict(name="alt.ninja", text=man, args=["-f", "alt.ninja"], cwd=".", db=".n2_db"),
        "dash-f-spelled": dict(name="alt.ninja", text=man, args=["-f", "./x/../alt.ninja"], cwd=".", db=".n2_db"),
        "builddir": dict(name="build.ninja", text="builddir = out/db\n" + man, args=[], cwd=".", db="out/db/.n2_db"),
        "C-and-f": dict(name="alt.ninja", text=man, args=["-C", "proj", "-f", "alt.ninja"], cwd="..", db=".n2_db"),
    }
    results = {}
    try:
        for vn, v in variants.items():
            root = os.path.join(base, vn)
            d = os.path.join(root, "proj")
            os.makedirs(d)
            open(os.path.join(d, v["name"]), "w").write(v["text"])
            for s_ in ("s1", "s2"):
                open(os.path.join(d, s_), "w").write(s_ + "\n")
            cwd = d if v["cwd"] == "." else root
            seq = []
            for targets in ([], ["all"], ["nosuch"], ["d"], []):
                p_ = subprocess.run([n2] + v["args"] + targets, cwd=cwd, stdout=subprocess.PIPE, stderr=subprocess.STDOUT, stdin=subprocess.DEVNULL,
                                    timeout=120, env=ENV)
                ran = open(os.path.join(d, "ran.log")).read().split() if os.path.exists(os.path.join(d, "ran.log")) else []
                last = p_.stdout.decode("utf-8", "replace").strip().split("\n")[-1]
                seq.append((p_.returncode, sorted(ran), "unknown path" in last, "no work to do" in last))
                if os.path.exists(os.path.join(d, "ran.log")):
                    os.remove(os.path.join(d, "ran.log"))
            outs = {f: open(os.path.join(d, f)).read() for f in "abcdv" if os.path.exists(os.path.join(d, f))}
            dbs = sorted(os.path.relpath(os.path.join(r_, f), d) for r_, _, fs in os.walk(root) for f in fs if f == ".n2_db")
            results[vn] = (seq, outs, dbs, v["db"])
        ref = results["plain"]
        want_seq = [(0, ["a", "b"], False, False), (0, ["c", "d", "v"], False, False), (1, [], True, False), (0, [], False, True), (0, [], False, True)]
        if ref[0] != want_seq:
            run.report_failure(None, "default / named target / unknown name / validation closure: got %r, expected %r" % (ref[0], want_seq), {"variant": "plain"})
        for vn, (seq, outs, dbs, dbwant) in results.items():
            where = {"variant": vn, "args": variants[vn]["args"], "sequence": repr(seq), "logs": dbs}
            if seq != ref[0] or outs != ref[1]:
                run.report_failure(None, "with %s the build behaves differently from the plain invocation: %r vs %r" % (" ".join(variants[vn]["args"]) or vn, seq, ref[0]), where)
            if dbs != [dbwant]:
                run.report_failure(None, "with %s the log is at %r, expected %r only" % (" ".join(variants[vn]["args"]) or vn, dbs, dbwant), where)
        run.coverage["black_box_flags"] = sorted(results)
    finally:
        shutil.rmtree(base, ignore_errors=True)


def probes(run, har):
    probe_f14(run, har)
    flags_leg(run)


def main(tier, seed, replay=None):
    return sched_check(PROP, THEOREMS, tier, seed, [monitor_c18], extra_modules=["Model.All", "Proofs.SchedSpec", "Proofs.SchedInv", "Proofs.SchedLive", "Proofs.SchedRunThms"],
                       replay=replay, scen_gen=gen_sched_or_regen, probes=probes)
