"""C18 — exactly the requested closure is considered."""
from sched import *

PROP = "C18"
THEOREMS = ["C18", "C18Cli"]


def probe_f14(run, har):
    """a command-line name that occurs nowhere in the manifest but is remembered by the build log"""
    m1 = "rule r\n  command = cmd $out\nbuild old: r src\nbuild keep: r src\n"
    m2 = "rule r\n  command = cmd $out\nbuild keep: r src\n"
    steps = ["file %s %s" % (hx("build.ninja"), hx(m1)), "file %s %s" % (hx("src"), hx("v")), inv_cmd(1, None, False, [], "-"),
             "file %s %s" % (hx("build.ninja"), hx(m2)), inv_cmd(1, None, False, ["old"], "-")]
    rep = run_histories(har, ["\n".join(steps)])[0]
    where = {"scenario": "\n".join(steps)}
    if isinstance(rep, str) or len(rep) < 2:
        run.report_failure(None, "probe: harness died", where)
        return
    r = rep[1].result
    if r.startswith("err:") and b"unknown path requested" in unhexs(r[4:]):
        return
    run.report_failure("target-known-only-from-log" if r == "ok:0" else None,
                       "target `old` occurs nowhere in the manifest (only in .n2_db) but is accepted: %s" % r[:60], where)


def flags_leg(run):
    """-f, -C and builddir through the real binary (argument parsing is not modelled): the same project built plainly, from another
    directory with -C, under another manifest name with -f, and with `builddir = out`: same commands, same outputs, the log where
    it belongs; an unknown name is refused in each variant"""
    import shutil, tempfile
    n2, out_ = build_n2_binary()
    if n2 is None:
        run.tie("n2 build", out_[-1000:])
        return
    base = tempfile.mkdtemp(prefix="n2verif-c18-%d-" % os.getpid())
    man = ("rule cat\n  command = echo $out >> ran.log; cat $in > $out\nbuild a: cat s1\nbuild b: cat a s2\nbuild c: cat s2\n"
           "build d: cat c |@ v\nbuild v: cat s1\nbuild all: phony b d\ndefault b\n")
    variants = {
        "plain": dict(name="build.ninja", text=man, args=[], cwd=".", db=".n2_db"),
        "dash-C": dict(name="build.ninja", text=man, args=["-C", "proj"], cwd="..", db=".n2_db"),
        "dash-f": dict(name="alt.ninja", text=man, args=["-f", "alt.ninja"], cwd=".", db=".n2_db"),
        "dash-f-spelled": dict(name="alt.ninja", text=man, args=["-f", "./x/../alt.ninja"], cwd=".", db=".n2_db"),
        "builddir": dict(name="build.ninja", text="builddir = out/db\n" + man, args=[], cwd=".", db="out/db/.n2_db"),
        "C-and-f": dict(name="alt.ninja", text=man, args=["-C", "proj", "-f", "alt.ninja"], cwd="..", db=".n2_db"),
    }
    results = {}
    try:
        for vn, v in variants.items():
            root = os.path.join(base, vn)
            d = os.path.join(root, "proj")
            os.makedirs(d)
            open(os.path.join(d, v["name"]), "w").write(v["text"])
            for s_ in ("s1", "s2"):
                open(os.path.join(d, s_), "w").write(s_ + "\n")
            cwd = d if v["cwd"] == "." else root
            seq = []
            for targets in ([], ["all"], ["nosuch"], ["d"], []):
                p_ = subprocess.run([n2] + v["args"] + targets, cwd=cwd, stdout=subprocess.PIPE, stderr=subprocess.STDOUT, stdin=subprocess.DEVNULL,
                                    timeout=120, env=ENV)
                ran = open(os.path.join(d, "ran.log")).read().split() if os.path.exists(os.path.join(d, "ran.log")) else []
                last = p_.stdout.decode("utf-8", "replace").strip().split("\n")[-1]
                seq.append((p_.returncode, sorted(ran), "unknown path" in last, "no work to do" in last))
                if os.path.exists(os.path.join(d, "ran.log")):
                    os.remove(os.path.join(d, "ran.log"))
            outs = {f: open(os.path.join(d, f)).read() for f in "abcdv" if os.path.exists(os.path.join(d, f))}
            dbs = sorted(os.path.relpath(os.path.join(r_, f), d) for r_, _, fs in os.walk(root) for f in fs if f == ".n2_db")
            results[vn] = (seq, outs, dbs, v["db"])
        ref = results["plain"]
        want_seq = [(0, ["a", "b"], False, False), (0, ["c", "d", "v"], False, False), (1, [], True, False), (0, [], False, True), (0, [], False, True)]
        if ref[0] != want_seq:
            run.report_failure(None, "default / named target / unknown name / validation closure: got %r, expected %r" % (ref[0], want_seq), {"variant": "plain"})
        for vn, (seq, outs, dbs, dbwant) in results.items():
            where = {"variant": vn, "args": variants[vn]["args"], "sequence": repr(seq), "logs": dbs}
            if seq != ref[0] or outs != ref[1]:
                run.report_failure(None, "with %s the build behaves differently from the plain invocation: %r vs %r" % (" ".join(variants[vn]["args"]) or vn, seq, ref[0]), where)
            if dbs != [dbwant]:
                run.report_failure(None, "with %s the log is at %r, expected %r only" % (" ".join(variants[vn]["args"]) or vn, dbs, dbwant), where)
        run.coverage["black_box_flags"] = sorted(results)
    finally:
        shutil.rmtree(base, ignore_errors=True)


def gen_cli_case(rng):
    """a command line for n2: options in all their spellings, tools, numbers good and bad, directories that exist or not, targets"""
    argv0 = rng.choice(["n2", "n2", "n2", "ninja", "/usr/bin/ninja", "./n2", "bin/../ninja", "ninja.exe", "x/ninja/", "..", "/"])
    words = []
    nums = ["1", "4", "0", "16", "+3", "007", "18446744073709551615", "18446744073709551616", "", "x", "-1", "4x", " 4", "é"]
    dirs = ["d1", "d1/d2", "with space", ".", "d1/..", "nope", "d1/nope", ""]
    files = ["alt.ninja", "build.ninja", "x=y", "-", "\xff.ninja", "dir/é.ninja", ""]
    tools = ["list", "restat", "recompact", "ninja_compat", "explain", "trace", "nosuch", ""]
    targets = ["a", "b", "out/x.o", "-", "é", "\xffraw", "a b", "=", "-j"]

    def opt(letter, values):
        v = rng.choice(values)
        r = rng.random()
        if r < 0.45:
            return ["-" + letter, v]
        if r < 0.7:
            return ["-" + letter + v]
        if r < 0.9:
            return ["-" + letter + "=" + v]
        return ["-v" + letter + v]                   # inside a cluster

    for _ in range(rng.randint(0, 7)):
        r = rng.random()
        if r < 0.3:
            words.append(rng.choice(targets) if rng.random() < 0.8 else rng.choice(targets))
        elif r < 0.4:
            words += opt("j", nums)
        elif r < 0.5:
            words += opt("k", nums)
        elif r < 0.6:
            words += opt("f", files)
        elif r < 0.7:
            words += opt("C", dirs)
        elif r < 0.8:
            words += opt(rng.choice("td"), tools)
        elif r < 0.86:
            words.append(rng.choice(["-v", "-vv", "-h", "--help", "--version", "--version=1", "--help=x"]))
        elif r < 0.92:
            words.append("--")
        else:
            words.append(rng.choice(["-x", "--foo", "--foo=1", "-v=1", "--", "-", "--=", "-=", "-j", "-é", "-\xff"]))
    enc = lambda w: w.encode("latin-1") if any(ord(c) == 0xff for c in w) else w.encode("utf-8")
    return [enc(argv0)] + [enc(w) for w in words]


def cli_leg(run, rng, tier, har, drv):
    """run.rs parse_args on real command lines (the harness starts itself again with them) against Model/Cli.v"""
    import posixpath
    cases = [[b"n2"]] + [gen_cli_case(rng) for _ in range(600 if tier == "quick" else 6000)]
    lines = [" ".join(hexs(w) for w in c) for c in cases]
    from concurrent.futures import ThreadPoolExecutor
    step = (len(lines) + 11) // 12
    parts = [lines[i:i + step] for i in range(0, len(lines), step)]
    with ThreadPoolExecutor(max_workers=12) as ex:
        impl = [r for part in ex.map(lambda pt: run_lines([har, "cli"], pt), parts) for r in part]
    model = run_lines([drv, "cli"], lines)
    default_j = None
    m0 = re.search(r" j=(\d+) ", impl[0] + " ")
    if m0:
        default_j = m0.group(1)
    bad, kinds = 0, {}
    for c, a, m in zip(cases, impl, model):
        where = {"suite": "cli", "argv": [w.decode("utf-8", "replace") for w in c], "implementation": a[:300], "model": m[:300]}
        ka, km = a.split(" ")[0], m.split(" ")[0]
        kinds[km] = kinds.get(km, 0) + 1
        ok = False
        if km == "panic":
            ok = ka == "died"
        elif km == "err":
            ok = ka == "err"
        elif km == "exit":
            ok = a.startswith(m + " ")
        elif km == "args" and ka == "args":
            fa = dict(x.split("=", 1) for x in a.split(" ")[1:])
            fm = dict(x.split("=", 1) for x in m.split(" ")[1:])
            cwd = ""
            for d in ([unhexs(x).decode("utf-8", "replace") for x in fm["chdirs"].split(",")] if fm["chdirs"] else []):
                cwd = posixpath.normpath(posixpath.join(cwd or "/", d))
            cwd = "" if cwd in ("", "/") else cwd
            want_j = default_j if fm["j"] == "0" else fm["j"]
            ok = all(fa[k] == fm[k] for k in ("compat", "adopt", "explain", "file", "targets", "k", "v", "trace")) and fa["j"] == want_j \
                and unhexs(fa["cwd"] or "-").decode("utf-8", "replace") == cwd
        if not ok:
            bad += 1
            if bad <= 4:
                run.tie("correspondence run.rs parse_args", where)
        # monitors on the implementation's own answers
        if ka == "died":
            if not (km == "panic"):
                run.report_failure(None, "n2 aborted on the command line %r: %s" % (where["argv"], a[:120]), where)
        elif ka == "args":
            fa = dict(x.split("=", 1) for x in a.split(" ")[1:])
            ws = c[1:]
            # the canonical shape: -f FILE -C DIR -j N -k M target...
            if len(ws) >= 8 and ws[0] == b"-f" and ws[2] == b"-C" and ws[4] == b"-j" and ws[6] == b"-k" and all(not t.startswith(b"-") for t in ws[8:]):
                if fa["file"] != hexs(ws[1].decode("utf-8", "replace").encode()) or fa["targets"] != ",".join(hexs(t.decode("utf-8", "replace").encode()) for t in ws[8:]):
                    run.report_failure(None, "-f / targets of %r read as file=%s targets=%s" % (where["argv"], fa["file"], fa["targets"]), where)
    # the canonical shape, generated on purpose
    canon = []
    for _ in range(100):
        canon.append([b"n2", b"-f", rng.choice([b"alt.ninja", b"x/y.ninja"]), b"-C", rng.choice([b"d1", b"d1/d2", b"."]), b"-j", str(rng.randint(1, 64)).encode(),
                      b"-k", str(rng.randint(0, 9)).encode()] + [rng.choice([b"a", b"b", b"out/x.o"]) for _ in range(rng.randint(0, 4))])
    clines = [" ".join(hexs(w) for w in c) for c in canon]
    ci = run_lines([har, "cli"], clines)
    cm = run_lines([drv, "cli"], clines)
    for c, a, m in zip(canon, ci, cm):
        fa = dict(x.split("=", 1) for x in a.split(" ")[1:]) if a.startswith("args ") else {}
        if not fa or fa["file"] != hexs(c[2]) or fa["j"] != c[6].decode() or fa["k"] != c[8].decode() or fa["targets"] != ",".join(hexs(t) for t in c[9:]) \
                or unhexs(fa["cwd"] or "-").decode() != ("" if c[4] == b"." else "/" + c[4].decode()):
            run.report_failure(None, "%r: manifest, directory, -j, -k or targets not as given: %s" % ([w.decode() for w in c], a[:200]),
                               {"suite": "cli", "argv": [w.decode() for w in c], "implementation": a[:300], "model": m[:300]})
    run.coverage["command_lines"] = {"cases": len(cases) + len(canon), "disagreements": bad, "model_outcomes": kinds, "default_parallelism": default_j}
    return bad


def probes(run, har):
    probe_f14(run, har)
    flags_leg(run)
    cli_leg(run, random.Random(4242), os.environ.get("VERIF_TIER_", "quick"), har, build_driver())


def main(tier, seed, replay=None):
    return sched_check(PROP, THEOREMS, tier, seed, [monitor_c18], extra_modules=["Model.All", "Proofs.SchedSpec", "Proofs.SchedInv", "Proofs.SchedLive", "Proofs.SchedRunThms"],
                       replay=replay, scen_gen=gen_sched_or_regen, probes=probes)
