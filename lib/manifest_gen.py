#!/usr/bin/env python3
"""Regenerates /verif/MANIFEST.json from the table below (kept here so the file is always valid)."""
import json, os

VERIF = os.path.dirname(os.path.dirname(os.path.abspath(__file__)))

CHECKS = {
    "C13": dict(
        category="proof",
        text="Coq theorems over the model of canonicalize_path (index machine proved equal to a functional form; idempotence, "
             "never longer, same location, normal form, same-node for all byte strings) + exhaustive differential check of the "
             "model against the real function on all strings of length <= 8 (quick) / 10 (thorough) over {a,b,.,/,\\} and the "
             "property monitors on the implementation's own outputs. Same-node is partial: finding F17 (all-'..' results).",
        design_ref="DESIGN.md §6 C13",
        note="Trusted: Coq kernel, extraction (ExtrOcamlBasic), the hand-written model and the sampling of the correspondence "
             "check. Callers of canonicalisation (loader, CLI, depfile) are covered under C10/C18/C09.",
        technique="Coq proof (induction/invariants) over a hand model + exhaustive small-scope differential correspondence",
    ),
    "C20": dict(
        category="proof",
        text="Coq theorems over the model of truncate / task_message / progress_bar (no panic for any byte string, width and "
             "time; result <= width bytes, ends on a char boundary, valid UTF-8 stays valid; bar exactly its nominal width) + "
             "exhaustive differential check against the real helpers (strings <= 5/6 chars over {a,é,€,😀} x widths x seconds, "
             "all count vectors up to a bound). The pinned tree violated it (F15, repaired by a fix: commit; witness kept as "
             "C20_task_message_pinned_refuted).",
        design_ref="DESIGN.md §6 C20",
        note="Trusted: Coq kernel, extraction, hand model, sampling of the differential check. Not modelled: the display thread, "
             "mutex poisoning, terminal ioctl (the isolation clause is a run-time fact).",
        technique="Coq proof over a hand model + exhaustive small-scope differential correspondence",
    ),
    "C15": dict(
        category="proof",
        text="Coq theorems over the model of depfile.rs/scanner.rs: every formatting (spells_d: any spacing, backslash-newline "
             "continuations, blank lines, optional final newline, colons in paths) of an abstract depfile parses to its entries "
             "grouped by target, the discovered list is exactly the listed prerequisites (in order when targets are distinct), and "
             "every byte string yields Ok or a formatted Err (never panic / out-of-bounds / non-termination) + exhaustive "
             "differential check against the real parser (all strings <= 7/9 over {a,' ',':','\\','\n'}, <= 4/5 with CR, NUL, "
             "UTF-8) and structured depfiles under random formattings. Pinned tree violated it (F13 lost prerequisites, F2 "
             "panic in the error excerpt; both repaired by fix: commits).",
        design_ref="DESIGN.md §6 C15",
        note="Trusted: Coq kernel, extraction, hand model, sampling of the differential check. 'Missing depfile counts as empty' "
             "and 'malformed content fails the step' are exercised through task.rs in the C09/C16 legs.",
        technique="Coq proof (grammar round-trip + totality) over a hand model + exhaustive small-scope differential correspondence",
    ),
    "C07": dict(
        category="proof",
        text="Coq theorems over the model of db.rs: for every log a crash-free run can write and every byte prefix of it, db::open "
             "succeeds, keeps exactly the records wholly inside the prefix (a prefix of what was written, never altered or "
             "re-attributed), truncates the file to them, and any record appended afterwards round-trips (so every later "
             "invocation loads the log) + the real writer/reader driven over EVERY byte prefix of logs the real writer produced "
             "(open, append, reopen) and truncation of the real .n2_db between invocations of run::build. The pinned tree violated "
             "it (F5/F6, repaired by a fix: commit; witness C07_pinned_refuted).",
        design_ref="DESIGN.md §6 C07",
        note="Crash model: the file after a crash is a byte prefix of the crash-free file (append-only writes). Durability without "
             "fsync, block reordering and non-prefix garbage are outside the model.",
        technique="Coq proof (prefix theorem over the record codec) + exhaustive truncation sweep against the real code",
    ),
    "C08": dict(
        category="proof",
        text="Coq theorems over the model of db.rs: writer/reader round trip within the format's bounds (latest applicable record "
             "wins), a record is applied only if every output it names is produced by that one step, loading is invariant under "
             "renumbering of steps (depends only on the name -> producer relation) + differential check of the real db::Writer / "
             "reader on random and boundary record shapes under the same, a renumbered and an output-moved manifest, and "
             "semantics-preserving manifest rewrites between two real builds (null second build). Pinned tree: F9 repaired "
             "(witness C08_pinned_attribution_refuted); F7 (format limits) known.",
        design_ref="DESIGN.md §6 C08",
        note="The manifest hash value (hash.rs) is exercised by the history checks; its collision behaviour is an assumption (H-hash).",
        technique="Coq proof (codec round trip, attribution, renumbering invariance) + differential correspondence",
    ),
    "C01": dict(
        category="proof",
        text='Coq theorems over a verified trace acceptor for Work::run (Model/Sched.v): in every state reachable by accepted events, at each command start every transitive ordering producer is Done, Done/Failed are final, a step starts at most once per Work, and a concrete accepted trace witnesses that validation edges impose no order + every invocation trace of the instrumented real scheduler (random graphs, pools, -j/-k, scripted completion orders/outcomes, histories with edits) is replayed through the extracted acceptor and through python monitors on the raw trace.',
        design_ref='DESIGN.md §6 C01',
        note='Trusted: Coq kernel, extraction, the hand model of work.rs (Model/Sched.v) and the sampling of trace acceptance. The real task::Runner (threads, channel, processes) is replaced by the scripted executor; it is exercised by the black-box leg of C16.',
        technique='Coq invariant proof over a trace acceptor + trace acceptance of the instrumented implementation',
    ),
    "C04": dict(
        category="proof",
        text='Coq theorems: in every reachable state the runner count equals the number of Running steps and is <= -j; for every pool of depth d>0 the number of Running steps of that pool is <= d; console has depth 1 unless redeclared; an unknown pool yields the error return and no start + trace acceptance as for C01 with pool-heavy generation and monitors on the raw trace.',
        design_ref='DESIGN.md §6 C04',
        note='Trusted: Coq kernel, extraction, the hand model of work.rs (Model/Sched.v) and the sampling of trace acceptance. The real task::Runner (threads, channel, processes) is replaced by the scripted executor; it is exercised by the black-box leg of C16.',
        technique='Coq invariant proof over a trace acceptor + trace acceptance',
    ),
    "C05": dict(
        category="proof",
        text='Coq theorems: Failed is final and nothing downstream of a failed step is ever started; a record is written only right after a successful finish (or in adopt mode); after an interruption or the k-th failure the only accepted event is the failing return; success is returned only if every wanted step is Done; the keep-going exit leaves every wanted step Done, Failed or waiting transitively on a Failed one + trace acceptance with failure/interrupt scripts and monitors.',
        design_ref='DESIGN.md §6 C05',
        note="Trusted: Coq kernel, extraction, the hand model of work.rs (Model/Sched.v) and the sampling of trace acceptance. The real task::Runner (threads, channel, processes) is replaced by the scripted executor; it is exercised by the black-box leg of C16. Exit status 1 / 'n2: error:' are added by main.rs (black-box leg).",
        technique='Coq invariant proof over a trace acceptor + trace acceptance',
    ),
    "C06": dict(
        category="proof",
        text="Coq theorems: the want traversal never exhausts its depth fuel, a reported cycle is an actual cycle of ordering edges, an Ok traversal leaves an acyclic wanted set (also through validation re-entrancy), acyclicity is invariant, and in any reachable idle state with work pending, nothing running and nothing failed some progress event is enabled (so the 'BUG: no work to do' panic and a silent wait are impossible); success implies all wanted steps Done; a step never waits for its validation targets (witness) + trace acceptance over acyclic, cyclic and validation-cyclic graphs incl. regeneration-phase reuse.",
        design_ref='DESIGN.md §6 C06',
        note='Trusted: Coq kernel, extraction, the hand model of work.rs (Model/Sched.v) and the sampling of trace acceptance. The real task::Runner (threads, channel, processes) is replaced by the scripted executor; it is exercised by the black-box leg of C16. Machine-stack exhaustion of the recursive traversal on very deep graphs (F19) is outside the model.',
        technique='Coq proof (termination, acyclicity, progress) + trace acceptance',
    ),
    "C18": dict(
        category="proof",
        text='Coq theorems: after the want phase the set of steps with a state is exactly the closure of the requested targets over all four input kinds (for named targets, defaults, everything-but-the-manifest), the run loop never starts or touches a step outside it, and a successful selection means every name resolved to a file of the graph + differential check of target selection and traversal against the real run::build on random graphs and target lists (several spellings, unknown names, cycles before unknown names).',
        design_ref='DESIGN.md §6 C18',
        note='Trusted: Coq kernel, extraction, the hand model of work.rs (Model/Sched.v) and the sampling of trace acceptance. The real task::Runner (threads, channel, processes) is replaced by the scripted executor; it is exercised by the black-box leg of C16. Names known only from the build log (F14) and -f/-C/builddir handling are exercised by the black-box leg only.',
        technique='Coq proof (closure characterisation) + differential correspondence and trace acceptance',
    ),
    "C19": dict(
        category="proof",
        text="Coq theorems: every accepted progress update equals the census of non-phony step states, the total equals the number of wanted non-phony steps, the running count equals the runner's count, finished counts never decrease, tasks_run equals the number of successful finishes + every update vector the real scheduler reports is checked by the acceptor and by a python census of the raw trace; the final summary count is compared with the successful commands.",
        design_ref='DESIGN.md §6 C19',
        note='Trusted: Coq kernel, extraction, the hand model of work.rs (Model/Sched.v) and the sampling of trace acceptance. The real task::Runner (threads, channel, processes) is replaced by the scripted executor; it is exercised by the black-box leg of C16.',
        technique='Coq invariant proof over a trace acceptor + trace acceptance',
    ),
    "C10": dict(
        category="proof",
        text="Coq theorems: a spelling relation (spacing, $-newline continuations, $x / ${x}, escapes, comments, indentation, all section markers incl. empty sections) from abstract statements to text, and parser_read returns exactly the declared statement (up to merging of literal pieces) for every spelling, for whole files, independent of the spelling, with totality + differential check of the real loader against the model and against an independent python statement of Ninja's rules on random abstract manifests x 3 spellings. Known: F11 (include scope), F18.",
        design_ref='DESIGN.md §6 C10',
        note='Trusted: Coq kernel, extraction, the hand transcription of parse.rs/eval.rs/load.rs/graph.rs (Model/Parse.v, Model/Load.v) and the sampling of the differential check. The statement->graph half (roles, attributes) is covered by the C11/C14 theorems and the differential check.',
        technique='Coq proof (grammar round trip) + differential correspondence',
    ),
    "C11": dict(
        category="proof",
        text='Coq theorems over evaluate / bind_step / attr_lookup: first environment wins and nested references continue after it, undefined is empty, file-level bindings are top-down, a build-block attribute is expanded in file scope only (siblings invisible), otherwise rule binding with $in/$out then build block then file scope, path scope, subninja copy (witness), include treated like subninja (refutation witness, known finding F11) + differential check of every evaluated attribute and path on random manifests with bindings at all three levels and includes.',
        design_ref='DESIGN.md §6 C11',
        note='Trusted: Coq kernel, extraction, the hand transcription of parse.rs/eval.rs/load.rs/graph.rs (Model/Parse.v, Model/Load.v) and the sampling of the differential check.',
        technique='Coq proof (scoping laws) + differential correspondence',
    ),
    "C12": dict(
        category="proof",
        text="Coq theorems: for every byte string the parser returns a statement, end of file or an error with an offset inside the buffer — never a panic, out-of-bounds read or fuel exhaustion; the loader's only panics are the known sites (empty manifest name, > 60 path components F4, include depth F20); the diagnostic has file, line and a caret line; command-line targets and depfiles are total + exhaustive token sequences (<= 4/5 tokens over 24), every prefix and byte-level mutants of valid manifests, raw bytes, long multi-byte lines through the real loader vs the model. Pinned tree: F1, F2, F3 repaired (witness C12_pinned_vardef_refuted).",
        design_ref='DESIGN.md §6 C12',
        note="Trusted: Coq kernel, extraction, the hand transcription of parse.rs/eval.rs/load.rs/graph.rs (Model/Parse.v, Model/Load.v) and the sampling of the differential check. Exit status and the 'n2: error:' prefix come from main.rs (black-box leg).",
        technique='Coq proof (totality/safety of the front end) + exhaustive small-scope differential correspondence',
    ),
    "C14": dict(
        category="proof",
        text='Coq theorems: after a successful load every file has at most one producer and producer <-> output lists agree (loader invariant through parse_file/load_manifest), a second producer is rejected with a message citing both locations (also across included files, witnesses), an output repeated inside a statement is kept once with the explicit count = number of distinct explicit outputs (remove_duplicates specification; pinned code refuted, F12 repaired) + differential check on manifests with random duplicate outputs and exhaustive id lists for remove_duplicates.',
        design_ref='DESIGN.md §6 C14',
        note='Trusted: Coq kernel, extraction, the hand transcription of parse.rs/eval.rs/load.rs/graph.rs (Model/Parse.v, Model/Load.v) and the sampling of the differential check.',
        technique='Coq proof (loader invariant, dedup specification) + differential correspondence',
    ),
    "C16": dict(
        category="proof",
        text="PARTIAL BY NATURE. Proved in Coq: the decoding of the wait status (success iff exited with 0, interruption iff SIGINT, everything else failure, total over all status words) and that the captured output is the concatenation of the chunks for every chunking. Tested black-box on the real binary (run-time facts a Gallina model cannot exhibit): each command is /bin/sh -c <evaluated string> (argv read back from /proc), runs in the build directory with stdin /dev/null and no leaked descriptors, output directories and response files exist beforehand, output blocks of 0..100000 bytes around the 4 KiB/64 KiB boundaries with interleaved stderr are shown once and contiguously at -j 1..16, exit codes and signals agree with the model's decode_status, SIGINT stops the build.",
        design_ref='DESIGN.md §6 C16',
        note='The theorems cover only the decision logic (Model/Proc.v); descriptor inheritance, /bin/sh invocation, kernel pipe delivery and printing are tested, not proved. The fancy (tty) console is not exercised.',
        technique='Coq proof of the decision logic + black-box testing of the run-time behaviour (labelled partial)',
    ),
    "C17": dict(
        category="proof",
        text='Coq theorems over a thin orchestration model of run::build (if regeneration does not succeed nothing else runs and the result is not success; if a command ran for the manifest the main phase uses a state loaded from the world after regeneration only, and a manifest that no longer loads stops the invocation; an up-to-date manifest means no reload and the scheduler state is reused — the reuse case is part of `reachable`, so all scheduler theorems hold across it; tasks are summed over both phases). The weight is on trace acceptance: histories whose generator step rewrites build.ninja from an edited template (add/remove/rewire steps, command edits), every invocation replayed through the Sched and World models (phase split, reload, reuse) with monitors for phase order, failure stop, no spurious regeneration, and a clean-build comparison of the outputs.',
        design_ref='DESIGN.md §6 C17',
        note='Trusted: Coq kernel, extraction, the hand models, the sampling of trace acceptance. -f alternative manifest names are exercised only through the generic harness parameter.',
        technique='Coq proof over an orchestration model + trace acceptance of regeneration histories',
    ),
    "C02": dict(
        category="proof",
        text='Coq theorems: a clean verdict implies the current manifest has the recorded hash, hence (no collision between the two manifests compared, injectivity of the manifest byte stream proved) names, mtimes, command line of every dirtying input, discovered dependency and output are exactly those of the last successful completion; any change or removal of one of them makes the verdict not clean + every verdict, every recorded hash (bit-for-bit SipHash-1-3 of the modelled stream) and the final log bytes of random edit histories are replayed through the extracted model, and after every successful invocation the outputs are compared with a from-scratch build of the same sources by the real code.',
        design_ref='DESIGN.md §6 C02',
        note='Trusted: Coq kernel, extraction, the hand models of work.rs/hash.rs/db.rs (Model/World.v, Hash.v, Db.v), the sampling of trace acceptance. Hypotheses (explicit premises, not axioms): H-hash no SipHash collision between the two manifests compared; H-cmd hermetic deterministic commands; H-mtime a content change comes with a new mtime; H-quiet nothing else writes the tree during an invocation (cache_consistent). Phony aliases used as dirtying inputs (F8) are excluded by the property.',
        technique='Coq proof of the decision rule + trace acceptance of histories + clean-build oracle',
    ),
    "C03": dict(
        category="proof",
        text='Coq theorems: a dirty verdict has one of exactly three causes (a missing dirtying input / discovered dependency / output; no record; a manifest whose hash differs from the recorded one); the manifest and the verdict ignore order-only and validation inputs and every other step; after a record (also the adopt/restat one) an unchanged tree gives a clean verdict in any later Work, including through a reload of the log (null build) + replay of every verdict/record of random histories through the extracted model and a null-build monitor on repeated invocations.',
        design_ref='DESIGN.md §6 C03',
        note="Trusted: Coq kernel, extraction, the hand models of work.rs/hash.rs/db.rs (Model/World.v, Hash.v, Db.v), the sampling of trace acceptance. Hypotheses (explicit premises, not axioms): H-hash no SipHash collision between the two manifests compared; H-cmd hermetic deterministic commands; H-mtime a content change comes with a new mtime; H-quiet nothing else writes the tree during an invocation (cache_consistent). The link 'generated inputs were stat()ed when their producer finished' (stated_generated) to the scheduler order is a premise, not derived.",
        technique='Coq proof of the dirty-check rule + trace acceptance of histories',
    ),
    "C09": dict(
        category="proof",
        text='Coq theorems: the kept dependency list is the canonicalised, de-duplicated (first occurrence) report minus the declared dirtying inputs, two spellings collapse, a successful run replaces the list wholesale, the list and hash persist through the log into any later load (via the C08 round trip), a missing discovered dependency gives verdict dirty and never an error, and /showIncludes filtering removes exactly the Note lines and reports exactly their payloads + history replay as C02/C03 with steps reporting #include-style dependencies (growing, shrinking, several spellings, missing files), an exhaustive differential check of extract_showincludes, and a `-t restat` probe. Pinned tree: F16 and F10 repaired.',
        design_ref='DESIGN.md §6 C09',
        note="Trusted: Coq kernel, extraction, the hand models of work.rs/hash.rs/db.rs (Model/World.v, Hash.v, Db.v), the sampling of trace acceptance. Hypotheses (explicit premises, not axioms): H-hash no SipHash collision between the two manifests compared; H-cmd hermetic deterministic commands; H-mtime a content change comes with a new mtime; H-quiet nothing else writes the tree during an invocation (cache_consistent). 'Discovered dependencies never change build order' holds because the scheduler model has no access to them (C01).",
        technique='Coq proof (dependency bookkeeping, log persistence, filter) + trace acceptance + differential correspondence',
    ),
}

PENDING_REASON = "check not built yet in this round (work in progress, see DESIGN.md §10); not claimed"


def main():
    props = [json.loads(l)["id"] for l in open(os.path.join(VERIF, "properties.jsonl"))]
    checks = []
    for pid in props:
        if pid not in CHECKS:
            continue
        c = CHECKS[pid]
        checks.append({
            "property_id": pid,
            "quick_cmd": "./check %s --tier quick" % pid,
            "thorough_cmd": "./check %s --tier thorough" % pid,
            "evidence_file": "/verif/evidence/%s.json" % pid,
            "replay_cmd_template": "./check %s --replay {path}" % pid,
            "engine": "n2-coq",
            "level_claimed": {"category": c["category"], "text": c["text"], "design_ref": c["design_ref"]},
            "level_note": c["note"],
            "technique": c["technique"],
        })
    hooks_commits = []
    hc = os.path.join(VERIF, "HOOK_COMMITS.txt")
    if os.path.exists(hc):
        hooks_commits = [l.split()[0] for l in open(hc) if l.strip() and not l.startswith("#")]
    m = {
        "version": 1,
        "setup_cmd": "./setup.sh",
        "hooks": {
            "guard": "--cfg n2_verif (rustc cfg)",
            "enable": "RUSTFLAGS=\"--cfg n2_verif\" cargo build --offline (harness crate /verif/harness depends on /repo by path)",
            "baseline_off_cmd": "cd /repo && cargo test --workspace --no-fail-fast --offline",
            "source_commits": hooks_commits,
            "add_only": True,
        },
        "engines": [{
            "name": "n2-coq", "path": "/verif/coq",
            "serves_properties": [c["property_id"] for c in checks],
            "kind_free_text": "Coq 8.16 library N2 (hand-written executable model + theorems), extracted OCaml driver, Rust harness "
                              "against /repo, python generators/diff (./check)",
        }],
        "checks": checks,
        "notes": "Every check: (1) proof gate (full .vo build of Props/Cxx, forbidden-word scan, pinned statements, Print Assumptions), "
                 "(2) correspondence model vs implementation on generated cases, (3) property monitors on the implementation. "
                 "Known findings: /verif/KNOWN_FINDINGS.txt.",
        "not_applicable": [{"property_id": p, "reason": PENDING_REASON} for p in props if p not in CHECKS],
    }
    with open(os.path.join(VERIF, "MANIFEST.json"), "w") as f:
        json.dump(m, f, indent=1)
    print("wrote MANIFEST.json with %d checks" % len(checks))


if __name__ == "__main__":
    main()
