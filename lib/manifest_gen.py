#!/usr/bin/env python3
"""Regenerates /verif/MANIFEST.json from the table below (kept here so the file is always valid)."""
import json, os

VERIF = os.path.dirname(os.path.dirname(os.path.abspath(__file__)))

CHECKS = {
    "C13": dict(
        category="proof",
        text="Coq theorems over the model of canonicalize_path (index machine proved equal to a functional form; idempotence, "
             "never longer, same location, normal form, same-node for all byte strings) + exhaustive differential check of the "
             "model against the real function on all strings of length <= 8 (quick) / 10 (thorough) over {a,b,.,/,\\} and the "
             "property monitors on the implementation's own outputs. Same-node is partial: finding F17 (all-'..' results).",
        design_ref="DESIGN.md §6 C13",
        note="Trusted: Coq kernel, extraction (ExtrOcamlBasic), the hand-written model and the sampling of the correspondence "
             "check. Callers of canonicalisation (loader, CLI, depfile) are covered under C10/C18/C09.",
        technique="Coq proof (induction/invariants) over a hand model + exhaustive small-scope differential correspondence",
    ),
    "C20": dict(
        category="proof",
        text="Coq theorems over the model of truncate / task_message / progress_bar (no panic for any byte string, width and "
             "time; result <= width bytes, ends on a char boundary, valid UTF-8 stays valid; bar exactly its nominal width) + "
             "exhaustive differential check against the real helpers (strings <= 5/6 chars over {a,é,€,😀} x widths x seconds, "
             "all count vectors up to a bound). The pinned tree violated it (F15, repaired by a fix: commit; witness kept as "
             "C20_task_message_pinned_refuted).",
        design_ref="DESIGN.md §6 C20",
        note="Trusted: Coq kernel, extraction, hand model, sampling of the differential check. Not modelled: the display thread, "
             "mutex poisoning, terminal ioctl (the isolation clause is a run-time fact).",
        technique="Coq proof over a hand model + exhaustive small-scope differential correspondence",
    ),
    "C15": dict(
        category="proof",
        text="Coq theorems over the model of depfile.rs/scanner.rs: every formatting (spells_d: any spacing, backslash-newline "
             "continuations, blank lines, optional final newline, colons in paths) of an abstract depfile parses to its entries "
             "grouped by target, the discovered list is exactly the listed prerequisites (in order when targets are distinct), and "
             "every byte string yields Ok or a formatted Err (never panic / out-of-bounds / non-termination) + exhaustive "
             "differential check against the real parser (all strings <= 7/9 over {a,' ',':','\\','\n'}, <= 4/5 with CR, NUL, "
             "UTF-8) and structured depfiles under random formattings. Pinned tree violated it (F13 lost prerequisites, F2 "
             "panic in the error excerpt; both repaired by fix: commits).",
        design_ref="DESIGN.md §6 C15",
        note="Trusted: Coq kernel, extraction, hand model, sampling of the differential check. 'Missing depfile counts as empty' "
             "and 'malformed content fails the step' are exercised through task.rs in the C09/C16 legs.",
        technique="Coq proof (grammar round-trip + totality) over a hand model + exhaustive small-scope differential correspondence",
    ),
    "C07": dict(
        category="proof",
        text="Coq theorems over the model of db.rs: for every log a crash-free run can write and every byte prefix of it, db::open "
             "succeeds, keeps exactly the records wholly inside the prefix (a prefix of what was written, never altered or "
             "re-attributed), truncates the file to them, and any record appended afterwards round-trips (so every later "
             "invocation loads the log) + the real writer/reader driven over EVERY byte prefix of logs the real writer produced "
             "(open, append, reopen) and truncation of the real .n2_db between invocations of run::build. The pinned tree violated "
             "it (F5/F6, repaired by a fix: commit; witness C07_pinned_refuted).",
        design_ref="DESIGN.md §6 C07",
        note="Crash model: the file after a crash is a byte prefix of the crash-free file (append-only writes). Durability without "
             "fsync, block reordering and non-prefix garbage are outside the model.",
        technique="Coq proof (prefix theorem over the record codec) + exhaustive truncation sweep against the real code",
    ),
    "C08": dict(
        category="proof",
        text="Coq theorems over the model of db.rs: writer/reader round trip within the format's bounds (latest applicable record "
             "wins), a record is applied only if every output it names is produced by that one step, loading is invariant under "
             "renumbering of steps (depends only on the name -> producer relation) + differential check of the real db::Writer / "
             "reader on random and boundary record shapes under the same, a renumbered and an output-moved manifest, and "
             "semantics-preserving manifest rewrites between two real builds (null second build). Pinned tree: F9 repaired "
             "(witness C08_pinned_attribution_refuted); F7 (format limits) known.",
        design_ref="DESIGN.md §6 C08",
        note="The manifest hash value (hash.rs) is exercised by the history checks; its collision behaviour is an assumption (H-hash).",
        technique="Coq proof (codec round trip, attribution, renumbering invariance) + differential correspondence",
    ),
}

PENDING_REASON = "check not built yet in this round (work in progress, see DESIGN.md §10); not claimed"


def main():
    props = [json.loads(l)["id"] for l in open(os.path.join(VERIF, "properties.jsonl"))]
    checks = []
    for pid in props:
        if pid not in CHECKS:
            continue
        c = CHECKS[pid]
        checks.append({
            "property_id": pid,
            "quick_cmd": "./check %s --tier quick" % pid,
            "thorough_cmd": "./check %s --tier thorough" % pid,
            "evidence_file": "/verif/evidence/%s.json" % pid,
            "replay_cmd_template": "./check %s --replay {path}" % pid,
            "engine": "n2-coq",
            "level_claimed": {"category": c["category"], "text": c["text"], "design_ref": c["design_ref"]},
            "level_note": c["note"],
            "technique": c["technique"],
        })
    hooks_commits = []
    hc = os.path.join(VERIF, "HOOK_COMMITS.txt")
    if os.path.exists(hc):
        hooks_commits = [l.split()[0] for l in open(hc) if l.strip() and not l.startswith("#")]
    m = {
        "version": 1,
        "setup_cmd": "./setup.sh",
        "hooks": {
            "guard": "--cfg n2_verif (rustc cfg)",
            "enable": "RUSTFLAGS=\"--cfg n2_verif\" cargo build --offline (harness crate /verif/harness depends on /repo by path)",
            "baseline_off_cmd": "cd /repo && cargo test --workspace --no-fail-fast --offline",
            "source_commits": hooks_commits,
            "add_only": True,
        },
        "engines": [{
            "name": "n2-coq", "path": "/verif/coq",
            "serves_properties": [c["property_id"] for c in checks],
            "kind_free_text": "Coq 8.16 library N2 (hand-written executable model + theorems), extracted OCaml driver, Rust harness "
                              "against /repo, python generators/diff (./check)",
        }],
        "checks": checks,
        "notes": "Every check: (1) proof gate (full .vo build of Props/Cxx, forbidden-word scan, pinned statements, Print Assumptions), "
                 "(2) correspondence model vs implementation on generated cases, (3) property monitors on the implementation. "
                 "Known findings: /verif/KNOWN_FINDINGS.txt.",
        "not_applicable": [{"property_id": p, "reason": PENDING_REASON} for p in props if p not in CHECKS],
    }
    with open(os.path.join(VERIF, "MANIFEST.json"), "w") as f:
        json.dump(m, f, indent=1)
    print("wrote MANIFEST.json with %d checks" % len(checks))


if __name__ == "__main__":
    main()
