"""C03 — unchanged steps are not re-run; a repeated build does nothing."""
from worldcheck import *
from sched import hx

PROP = "C03"
THEOREMS = ["C03", "C03Joint", "C03Local"]


def gen(rng, **kw):
    steps, invs, info = gen_history(rng, **kw)
    # finish every history with two identical invocations (null-build probe)
    j = 2
    steps.append(S.inv_cmd(j, None, False, [], "-"))
    invs.append({"j": j, "k": None, "adopt": False, "targets": [], "files": dict(invs[-1]["files"]), "nsteps": len(steps)})
    steps.append(S.inv_cmd(j, None, False, [], "-"))
    invs.append({"j": j, "k": None, "adopt": False, "targets": [], "files": dict(invs[-1]["files"]), "nsteps": len(steps)})
    return steps, invs, info


def gen_unrelated(rng, **kw):
    """build everything; edit the manifest in ways that leave every existing step's inputs, outputs and command untouched
    (add an unrelated step that uses a header some step discovered, reorder build statements); build again: only the new step may run"""
    text, info = gen_project(rng, nmax=5)
    files = {}
    steps = []

    def put(name, content):
        files[name] = content
        steps.append("file %s %s" % (hx(name), hx(content)))
    put("build.ninja", text)
    for s_ in info["sources"]:
        put(s_, "".join("#include %s\n" % h for h in info["headers"]) + "// v\n")     # every header is reported, in a fixed order
    for h in info["headers"]:
        put(h, "// h v0\n")
    invs = []
    steps.append(S.inv_cmd(2, None, False, [], "-"))
    invs.append({"j": 2, "k": None, "adopt": False, "targets": [], "files": dict(files), "nsteps": len(steps)})
    # the edit
    info2 = dict(info)
    blds = list(info["builds"])
    rng.shuffle(blds)
    extra = {"outs": ["unrelated_out"], "ex": [rng.choice(list(reversed(info["headers"])))], "im": [], "oo": [], "opts": [], "tag": "u"}
    pos = rng.randint(0, len(blds))
    blds.insert(pos, extra)
    info2["builds"] = blds
    put("build.ninja", manifest_text(info2))
    steps.append(S.inv_cmd(2, None, False, [], "-"))
    invs.append({"j": 2, "k": None, "adopt": False, "targets": [], "files": dict(files), "nsteps": len(steps), "only_new": ["unrelated_out"]})
    return steps, invs, info


def monitor_unrelated(run, where, inv, meta, hist, ii, rep):
    if "only_new" not in meta or isinstance(rep, str) or ii == 0:
        return
    if not rep[ii - 1].result.startswith("ok:") or not inv.result.startswith("ok:"):
        return
    g = inv.graphs[-1]
    for b in inv.started:
        outs = [g.files[o]["name"] for o in g.builds[b]["outs"]]
        if not any(o in meta["only_new"] for o in outs):
            run.report_failure(None, "after adding an unrelated statement and reordering, step %r was re-run although nothing of it changed" % outs, where)
            return


def gen_mixed(rng, **kw):
    if rng.random() < 0.25:
        return gen_unrelated(rng, **kw)
    return gen(rng, **kw)


def main(tier, seed, replay=None):
    return world_check(PROP, THEOREMS, tier, seed, [monitor_null_build, monitor_unrelated], scen_gen=gen_mixed, replay=replay)
