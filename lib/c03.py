"""C03 — unchanged steps are not re-run; a repeated build does nothing."""
from worldcheck import *

PROP = "C03"
THEOREMS = [tuple(x) for x in json.load(open(os.path.join(VERIF, "lib", "pins", PROP + ".json")))]


def gen(rng, **kw):
    steps, invs, info = gen_history(rng, **kw)
    # finish every history with two identical invocations (null-build probe)
    j = 2
    steps.append(S.inv_cmd(j, None, False, [], "-"))
    invs.append({"j": j, "k": None, "adopt": False, "targets": [], "files": dict(invs[-1]["files"]), "nsteps": len(steps)})
    steps.append(S.inv_cmd(j, None, False, [], "-"))
    invs.append({"j": j, "k": None, "adopt": False, "targets": [], "files": dict(invs[-1]["files"]), "nsteps": len(steps)})
    return steps, invs, info


def main(tier, seed, replay=None):
    return world_check(PROP, THEOREMS, tier, seed, [monitor_null_build], scen_gen=gen, replay=replay)
