"""C03 — unchanged steps are not re-run; a repeated build does nothing."""
from worldcheck import *
from sched import hx

PROP = "C03"
THEOREMS = ["C03", "C03Joint", "C03Local", "C03Explain"]


def gen(rng, **kw):
    steps, invs, info = gen_history(rng, **kw)
    # finish every history with two identical invocations (null-build probe)
    j = 2
    steps.append(S.inv_cmd(j, None, False, [], "-"))
    invs.append({"j": j, "k": None, "adopt": False, "targets": [], "files": dict(invs[-1]["files"]), "nsteps": len(steps)})
    steps.append(S.inv_cmd(j, None, False, [], "-"))
    invs.append({"j": j, "k": None, "adopt": False, "targets": [], "files": dict(invs[-1]["files"]), "nsteps": len(steps)})
    return steps, invs, info


def gen_unrelated(rng, **kw):
    """build everything; edit the manifest in ways that leave every existing step's inputs, outputs and command untouched
    (add an unrelated step that uses a header some step discovered, reorder build statements); build again: only the new step may run"""
    text, info = gen_project(rng, nmax=5)
    files = {}
    steps = []

    def put(name, content):
        files[name] = content
        steps.append("file %s %s" % (hx(name), hx(content)))
    put("build.ninja", text)
    for s_ in info["sources"]:
        put(s_, "".join("#include %s\n" % h for h in info["headers"]) + "// v\n")     # every header is reported, in a fixed order
    for h in info["headers"]:
        put(h, "// h v0\n")
    invs = []
    steps.append(S.inv_cmd(2, None, False, [], "-"))
    invs.append({"j": 2, "k": None, "adopt": False, "targets": [], "files": dict(files), "nsteps": len(steps)})
    # the edit
    info2 = dict(info)
    blds = list(info["builds"])
    rng.shuffle(blds)
    extra = {"outs": ["unrelated_out"], "ex": [rng.choice(list(reversed(info["headers"])))], "im": [], "oo": [], "opts": [], "tag": "u"}
    pos = rng.randint(0, len(blds))
    blds.insert(pos, extra)
    info2["builds"] = blds
    put("build.ninja", manifest_text(info2))
    steps.append(S.inv_cmd(2, None, False, [], "-"))
    invs.append({"j": 2, "k": None, "adopt": False, "targets": [], "files": dict(files), "nsteps": len(steps), "only_new": ["unrelated_out"]})
    return steps, invs, info


def monitor_unrelated(run, where, inv, meta, hist, ii, rep):
    if "only_new" not in meta or isinstance(rep, str) or ii == 0:
        return
    if not rep[ii - 1].result.startswith("ok:") or not inv.result.startswith("ok:"):
        return
    g = inv.graphs[-1]
    for b in inv.started:
        outs = [g.files[o]["name"] for o in g.builds[b]["outs"]]
        if not any(o in meta["only_new"] for o in outs):
            run.report_failure(None, "after adding an unrelated statement and reordering, step %r was re-run although nothing of it changed" % outs, where)
            return


def gen_mixed(rng, **kw):
    if rng.random() < 0.25:
        return gen_unrelated(rng, **kw)
    if rng.random() < 0.3:
        # `-t restat` in the middle of a history (also of one whose manifest is a step's output, with `default` statements): the
        # present state counts as up to date; the same request right afterwards, nothing edited, has nothing to do
        return gen_history(rng, with_restat=True, with_regen=rng.choice([False, True, True, "include"]), **kw)
    return gen(rng, **kw)


def main(tier, seed, replay=None):
    def black_box(run):
        if replay:
            return
        import taskleg
        n2, out_ = build_n2_binary()
        if n2 is None:
            run.tie("n2 build", out_[-1000:])
            return
        taskleg.selfwrite_leg(run, n2)
        builddir_leg(run, n2)
        run.coverage["black_box_legs"] = "command rewriting its own reported dependency; builddir bound only inside a subninja'd file"

    return world_check(PROP, THEOREMS, tier, seed, [monitor_null_build, monitor_unrelated], scen_gen=gen_mixed, replay=replay, before_finish=black_box)


def builddir_leg(run, n2):
    """adding a subninja'd file that binds `builddir` in its own scope is an unrelated edit: the log stays where it is, nothing re-runs"""
    import shutil, tempfile
    import taskleg
    d = tempfile.mkdtemp(prefix="n2verif-c03-%d-" % os.getpid())
    try:
        top = "rule t\n  command = echo $out >> ran.log; touch $out\nbuild a: t\nbuild b: t a\n"
        taskleg.write(d, "build.ninja", top)
        taskleg.write(d, "vendor/lib.ninja", "builddir = vendor/out\nbuild vendor/lib: t\n")
        rc, out = taskleg.n2run(n2, d, [])
        taskleg.write(d, "build.ninja", top + "subninja vendor/lib.ninja\n")
        rc, out = taskleg.n2run(n2, d, [])
        ran = open(os.path.join(d, "ran.log")).read().split()
        where = {"project": "top-level manifest without builddir; then `subninja vendor/lib.ninja`, which binds builddir in its own scope", "ran": ran,
                 "output": out[-300:]}
        if rc != 0 or ran != ["a", "b", "vendor/lib"]:
            run.report_failure(None, "after adding an unrelated subninja line the commands run were %r (expected a, b once, then vendor/lib only)" % ran, where)
        if os.path.exists(os.path.join(d, "vendor", "out", ".n2_db")):
            run.report_failure(None, "a builddir bound inside a subninja'd file moved the log to vendor/out/.n2_db", where)
    finally:
        shutil.rmtree(d, ignore_errors=True)
