"""C14 — each file has at most one producing step."""
from frontcheck import *

PROP = "C14"
THEOREMS = [tuple(x) for x in json.load(open(os.path.join(VERIF, "lib", "pins", PROP + ".json")))]


def dedup_suite(run, rng, har, drv, stats):
    lines = []
    for n in range(0, 7):
        for ids in itertools.product(range(3), repeat=n):
            for e in range(0, n + 1):
                lines.append("%d %s" % (e, " ".join(map(str, ids))))
    impl, model, bad = differential(run, "BuildOuts::remove_duplicates", har, drv, "dedup", "dedup", lines)
    stats["dedup_cases"] = len(lines)
    for l, r in zip(lines, impl):
        w = [int(x) for x in l.split()]
        e, ids = w[0], w[1:]
        seen, out, ee = [], [], 0
        for i, x in enumerate(ids):
            if x in seen:
                continue
            seen.append(x)
            out.append(x)
            if i < e:
                ee += 1
        want = "ok %d %s" % (ee, " ".join(map(str, out)))
        if r.strip() != want.strip():
            cls = "dedup-explicit-count" if r.split()[2:] == want.split()[2:] else None
            run.report_failure(cls, "remove_duplicates(explicit=%d, %r) = %r, expected %r" % (e, ids, r, want), {"suite": "dedup", "case": l})


def main(tier, seed, replay=None):
    return front_check(PROP, THEOREMS, tier, seed, extra_modules=["Model.All", "Proofs.EvalScope", "Proofs.EvalFiles", "Proofs.GraphDedup", "Proofs.GraphAddBuild", "Proofs.GraphLoad"], gen_kw=dict(dup_outputs=True, includes=True), replay=replay, extra_suites=dedup_suite, skip_include_scope=True)
