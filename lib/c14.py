"""C14 — each file has at most one producing step."""
import collections
from frontcheck import *

PROP = "C14"
THEOREMS = ["C14", "C14Start"]


def dedup_suite(run, rng, har, drv, stats):
    lines = []
    for n in range(0, 7):
        for ids in itertools.product(range(3), repeat=n):
            for e in range(0, n + 1):
                lines.append("%d %s" % (e, " ".join(map(str, ids))))
    impl, model, bad = differential(run, "BuildOuts::remove_duplicates", har, drv, "dedup", "dedup", lines)
    stats["dedup_cases"] = len(lines)
    for l, r in zip(lines, impl):
        w = [int(x) for x in l.split()]
        e, ids = w[0], w[1:]
        seen, out, ee = [], [], 0
        for i, x in enumerate(ids):
            if x in seen:
                continue
            seen.append(x)
            out.append(x)
            if i < e:
                ee += 1
        want = "ok %d %s" % (ee, " ".join(map(str, out)))
        if r.strip() != want.strip():
            cls = "dedup-explicit-count" if r.split()[2:] == want.split()[2:] else None
            run.report_failure(cls, "remove_duplicates(explicit=%d, %r) = %r, expected %r" % (e, ids, r, want), {"suite": "dedup", "case": l})


HAND = [
    # (manifest, files, must_be_rejected)
    ("rule r\n  command = c\ninclude part.ninja\ninclude part.ninja\n", {"part.ninja": "build out: r\n"}, True),
    ("rule r\n  command = c\nsubninja a.ninja\nsubninja b.ninja\n", {"a.ninja": "include common.ninja\n", "b.ninja": "include common.ninja\n",
                                                                      "common.ninja": "build gen/version.h: r\n"}, True),
    ("rule r\n  command = c\nv = ./out\ninclude part.ninja\nv = sub/../out\ninclude part.ninja\n", {"part.ninja": "build $v: r\n"}, True),
    ("rule r\n  command = c\nbuild gen.h: r in1\nbuild x.c x.c gen.h: r in2\n", {}, True),
    ("rule r\n  command = c\nbuild a.c | ./a.c gen.h b.c: r\nbuild gen.h: r\n", {}, True),
    ("rule r\n  command = c\nbuild x.c x.c y.c: r\nbuild z: r y.c\n", {}, False),
    ("rule r\n  command = c\ninclude part.ninja\n", {"part.ninja": "build out out | out: r\n"}, False),
]


COMPS = ["a", "out", "sub", "gen", "o.txt", "b.c", "x-1", "d.e"]


def respell(rng, prefix, comps):
    """a canon-equivalent spelling of prefix + '/'.join(comps): './', doubled separators and 'd/..' detours"""
    out = prefix
    for i, c in enumerate(comps):
        for _ in range(rng.choice([0, 0, 0, 1, 1, 2])):
            k = rng.random()
            if k < 0.35:
                out += "./"
            elif k < 0.5 and i > 0:
                out += "/"
            else:
                depth = rng.choice([1, 1, 2])
                out += "".join(rng.choice(["t", "tmp", "q.r"]) + "/" for _ in range(depth)) + "../" * depth
        out += c + ("/" if i < len(comps) - 1 else "")
    return out


def spelling_suite(run, rng, har, drv, stats, n):
    """two statements name one file by different spellings, in every file layout: rejected, citing both statements"""
    cases, lines = [], []
    for _ in range(n):
        prefix = rng.choice(["", "", "", "/", "../", "../../", "/t/", "../u/"])
        comps = [rng.choice(COMPS) for _ in range(rng.randint(1, 4))]
        canon = prefix + "/".join(comps)
        same = rng.random() < 0.8
        s1 = respell(rng, prefix, comps)
        if same:
            s2 = respell(rng, prefix, comps)
        else:
            comps2 = list(comps)
            comps2[rng.randrange(len(comps2))] += "_"
            s2 = respell(rng, prefix, comps2)
        if rng.random() < 0.25:
            # the same with backslashes: canonicalisation treats `\` as a separator on every platform
            s1, s2, canon = s1.replace("/", "\\"), s2.replace("/", "\\"), canon.replace("/", "\\")
        ctr = itertools.count()
        pad = lambda: "".join(rng.choice(["# c\n", "\n", "v = 1\n", "build other%d: r\n" % next(ctr)]) for _ in range(rng.randint(0, 3)))
        head = "rule r\n  command = c\n"
        st1 = "build %s%s: r\n" % (rng.choice(["", "first | "]), s1)
        st2 = "build %s%s: r in\n" % (rng.choice(["", "second "]), s2)
        kw = rng.choice(["include", "subninja"])
        layout = rng.choice(["flat", "inc-second", "inc-first", "two-incs", "nested"])
        files = {}
        def line_of(text, stmt):
            return text[:text.index(stmt)].count("\n") + 1
        if layout == "flat":
            top = head + pad() + st1 + pad() + st2 + pad()
            loc1, loc2 = ("build.ninja", line_of(top, st1)), ("build.ninja", line_of(top, st2))
        elif layout == "inc-second":
            files["p.ninja"] = pad() + st2 + pad()
            top = head + pad() + st1 + pad() + "%s p.ninja\n" % kw + pad()
            loc1, loc2 = ("build.ninja", line_of(top, st1)), ("p.ninja", line_of(files["p.ninja"], st2))
        elif layout == "inc-first":
            files["p.ninja"] = pad() + st1 + pad()
            top = head + pad() + "%s p.ninja\n" % kw + pad() + st2 + pad()
            loc1, loc2 = ("p.ninja", line_of(files["p.ninja"], st1)), ("build.ninja", line_of(top, st2))
        elif layout == "two-incs":
            files["p.ninja"] = pad() + st1 + pad()
            files["q.ninja"] = pad() + st2 + pad()
            top = head + pad() + "%s p.ninja\n" % kw + pad() + "%s q.ninja\n" % rng.choice(["include", "subninja"]) + pad()
            loc1, loc2 = ("p.ninja", line_of(files["p.ninja"], st1)), ("q.ninja", line_of(files["q.ninja"], st2))
        else:
            files["q.ninja"] = pad() + st1 + pad()
            files["p.ninja"] = pad() + "%s q.ninja\n" % rng.choice(["include", "subninja"]) + pad() + "build mid: r\n"
            top = head + pad() + "%s p.ninja\n" % kw + pad() + st2 + pad()
            loc1, loc2 = ("q.ninja", line_of(files["q.ninja"], st1)), ("build.ninja", line_of(top, st2))
        l = "%s %s" % (hexs(b"build.ninja"), hexs(top.encode()))
        for fn, sub in files.items():
            l += " %s %s" % (hexs(fn.encode()), hexs(sub.encode()))
        lines.append(l)
        cases.append((top, files, same, canon, loc1, loc2, layout))
    impl = run_lines([har, "load"], lines)
    model = run_lines([drv, "load"], ["1 " + l for l in lines])
    stats["respelled_duplicate_cases"] = len(lines)
    stats["respelled_layouts"] = dict(collections.Counter(c[6] for c in cases))
    stats["respelled_distinct_controls"] = sum(1 for c in cases if not c[2])
    for (top, files, same, canon, loc1, loc2, layout), a, m in zip(cases, impl, model):
        where = {"manifest": top, "files": files, "result": a[:300], "layout": layout}
        if a != m:
            run.tie("correspondence loader (respelled duplicate-output cases)", dict(where, model=m[:300]))
        msg = unhexs(a[4:]).decode("utf-8", "replace") if a.startswith("err ") else ""
        if same:
            want = '%s:%d: "%s" is already an output at %s:%d' % (loc2[0], loc2[1], canon.replace("\\", "\\\\"), loc1[0], loc1[1])   # the name is printed with {:?}
            if not a.startswith("err "):
                run.report_failure(None, "two statements produce %r under different spellings but the manifest was accepted" % canon, where)
            elif want not in msg:
                run.report_failure(None, "duplicate producer of %r not reported as %r: %r" % (canon, want, msg[:200]), where)
        elif not a.startswith("ok "):
            run.report_failure(None, "two statements with different outputs were rejected: %r" % msg[:200], where)


def hand_suite(run, rng, har, drv, stats):
    dedup_suite(run, rng, har, drv, stats)
    spelling_suite(run, rng, har, drv, stats, 4000 if run.tier == 'thorough' else 400)
    lines = []
    for text, files, rej in HAND:
        l = "%s %s" % (hexs(b"build.ninja"), hexs(text.encode()))
        for fn, sub in files.items():
            l += " %s %s" % (hexs(fn.encode()), hexs(sub.encode()))
        lines.append(l)
    impl = run_lines([har, "load"], lines)
    model = run_lines([drv, "load"], ["1 " + l for l in lines])
    stats["handwritten_duplicate_cases"] = len(lines)
    for (text, files, rej), a, m in zip(HAND, impl, model):
        where = {"manifest": text, "files": files, "result": a[:300]}
        if a != m:
            run.tie("correspondence loader (handwritten duplicate-output cases)", dict(where, model=m[:300]))
        if rej:
            msg = unhexs(a[4:]).decode("utf-8", "replace") if a.startswith("err ") else ""
            if "is already an output at" not in msg or msg.count(":") < 3:
                run.report_failure(None, "two statements produce the same output but the manifest was not rejected citing both: %s" % a[:120], where)
        elif not a.startswith("ok "):
            run.report_failure(None, "an output repeated inside one statement was not accepted: %s" % a[:160], where)


def main(tier, seed, replay=None):
    return front_check(PROP, THEOREMS, tier, seed, extra_modules=["Model.All", "Proofs.EvalScope", "Proofs.EvalFiles", "Proofs.GraphDedup", "Proofs.GraphAddBuild", "Proofs.GraphLoad"], gen_kw=dict(dup_outputs=True, includes=True), replay=replay, extra_suites=hand_suite, skip_include_scope=True)
