"""C14 — each file has at most one producing step."""
from frontcheck import *

PROP = "C14"
THEOREMS = [tuple(x) for x in json.load(open(os.path.join(VERIF, "lib", "pins", PROP + ".json")))]


def dedup_suite(run, rng, har, drv, stats):
    lines = []
    for n in range(0, 7):
        for ids in itertools.product(range(3), repeat=n):
            for e in range(0, n + 1):
                lines.append("%d %s" % (e, " ".join(map(str, ids))))
    impl, model, bad = differential(run, "BuildOuts::remove_duplicates", har, drv, "dedup", "dedup", lines)
    stats["dedup_cases"] = len(lines)
    for l, r in zip(lines, impl):
        w = [int(x) for x in l.split()]
        e, ids = w[0], w[1:]
        seen, out, ee = [], [], 0
        for i, x in enumerate(ids):
            if x in seen:
                continue
            seen.append(x)
            out.append(x)
            if i < e:
                ee += 1
        want = "ok %d %s" % (ee, " ".join(map(str, out)))
        if r.strip() != want.strip():
            cls = "dedup-explicit-count" if r.split()[2:] == want.split()[2:] else None
            run.report_failure(cls, "remove_duplicates(explicit=%d, %r) = %r, expected %r" % (e, ids, r, want), {"suite": "dedup", "case": l})


HAND = [
    # (manifest, files, must_be_rejected)
    ("rule r\n  command = c\ninclude part.ninja\ninclude part.ninja\n", {"part.ninja": "build out: r\n"}, True),
    ("rule r\n  command = c\nsubninja a.ninja\nsubninja b.ninja\n", {"a.ninja": "include common.ninja\n", "b.ninja": "include common.ninja\n",
                                                                      "common.ninja": "build gen/version.h: r\n"}, True),
    ("rule r\n  command = c\nv = ./out\ninclude part.ninja\nv = sub/../out\ninclude part.ninja\n", {"part.ninja": "build $v: r\n"}, True),
    ("rule r\n  command = c\nbuild gen.h: r in1\nbuild x.c x.c gen.h: r in2\n", {}, True),
    ("rule r\n  command = c\nbuild a.c | ./a.c gen.h b.c: r\nbuild gen.h: r\n", {}, True),
    ("rule r\n  command = c\nbuild x.c x.c y.c: r\nbuild z: r y.c\n", {}, False),
    ("rule r\n  command = c\ninclude part.ninja\n", {"part.ninja": "build out out | out: r\n"}, False),
]


def hand_suite(run, rng, har, drv, stats):
    dedup_suite(run, rng, har, drv, stats)
    lines = []
    for text, files, rej in HAND:
        l = "%s %s" % (hexs(b"build.ninja"), hexs(text.encode()))
        for fn, sub in files.items():
            l += " %s %s" % (hexs(fn.encode()), hexs(sub.encode()))
        lines.append(l)
    impl = run_lines([har, "load"], lines)
    model = run_lines([drv, "load"], ["1 " + l for l in lines])
    stats["handwritten_duplicate_cases"] = len(lines)
    for (text, files, rej), a, m in zip(HAND, impl, model):
        where = {"manifest": text, "files": files, "result": a[:300]}
        if a != m:
            run.tie("correspondence loader (handwritten duplicate-output cases)", dict(where, model=m[:300]))
        if rej:
            msg = unhexs(a[4:]).decode("utf-8", "replace") if a.startswith("err ") else ""
            if "is already an output at" not in msg or msg.count(":") < 3:
                run.report_failure(None, "two statements produce the same output but the manifest was not rejected citing both: %s" % a[:120], where)
        elif not a.startswith("ok "):
            run.report_failure(None, "an output repeated inside one statement was not accepted: %s" % a[:160], where)


def main(tier, seed, replay=None):
    return front_check(PROP, THEOREMS, tier, seed, extra_modules=["Model.All", "Proofs.EvalScope", "Proofs.EvalFiles", "Proofs.GraphDedup", "Proofs.GraphAddBuild", "Proofs.GraphLoad"], gen_kw=dict(dup_outputs=True, includes=True), replay=replay, extra_suites=hand_suite, skip_include_scope=True)
