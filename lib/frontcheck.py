"""Common body of the C10 / C11 / C14 checks."""
import itertools
import random

from common import *
import front as F

PANIC_TEXT = {"panic 0": ["!path.is_empty()"], "panic 1": ["too many path components"], "panic 23": ["char boundary", "char_boundary"]}


def strip_lines(r):
    if r.startswith("err "):
        msg = unhexs(r[4:]).decode("utf-8", "replace")
        return "err " + re.sub(r":\d+", ":N", msg.split("\n")[0])
    return re.sub(r"(B [0-9a-f-]+):\d+", r"\1", r)


def front_check(PROP, THEOREMS, tier, seed, gen_kw=None, extra_modules=("Model.All",), n_quick=2500, n_thorough=25000,
                nspell=3, replay=None, extra_suites=None, focus=None, skip_include_scope=False):
    run = Run(PROP, tier, seed, "proof")
    rng = random.Random(seed)
    if THEOREMS and isinstance(THEOREMS[0], str):
        info, problems = proof_gate_multi(THEOREMS, thorough=(tier == "thorough"))
    else:
        info, problems = proof_gate(PROP, THEOREMS, extra_modules=list(extra_modules), thorough=(tier == "thorough"))
    for p in problems:
        run.tie("proof gate", p)
    drv = build_driver()
    har, out = build_harness()
    if har is None:
        run.tie("harness build", out[-2000:])
        return run.finish()
    n = n_quick if tier == "quick" else n_thorough
    items = []      # (abstract, files, text, spelling index)
    if replay:
        rp = json.load(open(replay))
        rp = rp.get("replay") or (rp.get("no_longer_checks") or [{}])[0].get("detail", {})
        items.append((None, rp.get("files", {}), rp["manifest"], 0))
    else:
        for i in range(n):
            stmts, files = F.gen_abstract(rng, **gen_kw)
            for k in range(nspell):
                items.append((stmts, files, F.spell(rng, stmts, plain=(k == 0)), k))
    lines = []
    for stmts, files, text, k in items:
        l = "%s %s" % (hexs(b"build.ninja"), hexs(text.encode()))
        for fn, sub in (files or {}).items():
            subtext = sub if isinstance(sub, str) else F.spell(random.Random(hash(fn) & 0xffff), sub, plain=True)
            l += " %s %s" % (hexs(fn.encode()), hexs(subtext.encode()))
        lines.append(l)
    impl = run_lines_sharded([har, "load"], lines)
    model = run_lines_sharded([drv, "load"], ["1 " + l for l in lines])
    bad = []
    for i, (a, m) in enumerate(zip(impl, model)):
        if a == m:
            continue
        if a.startswith("err 7265616420") and m.startswith("err 7265616420"):
            continue
        if (m.startswith("panic ") or m.startswith("oob ")) and (a.startswith("panic ") or a.startswith("abort")) \
                and any(w in a for w in PANIC_TEXT.get(m, [])):
            continue
        bad.append(i)
    for i in bad[:5]:
        run.tie("correspondence loader", {"manifest": items[i][2], "files": {k: (v if isinstance(v, str) else "...") for k, v in (items[i][1] or {}).items()},
                                           "implementation": impl[i][:400], "model": model[i][:400]})
    stats = {"manifests": n, "spellings": len(items), "ok": 0, "err": 0, "predicted": 0, "unpredicted": 0, "panic": 0}
    nontrivial = set()
    by_abs = {}
    samples = []
    for i, ((stmts, files, text, k), r) in enumerate(zip(items, impl)):
        where = {"manifest": text, "files": {fn: F.spell(random.Random(hash(fn) & 0xffff), sub, plain=True) for fn, sub in (files or {}).items()}, "result": r[:300]}
        kind = r.split(" ", 1)[0]
        stats[kind] = stats.get(kind, 0) + 1
        if kind in ("panic", "abort"):
            cls = "too-many-path-components" if "too many path components" in r else None
            run.report_failure(cls, "loading a manifest did not return: %s" % r[:160], where)
            continue
        if stmts is None:
            continue
        exp = F.expected(stmts, files)
        key = id(stmts)
        by_abs.setdefault(key, []).append((k, strip_lines(r), text))
        if exp["error"] == "unpredictable" or (skip_include_scope and exp["uses_include_scope"]):
            stats["unpredicted"] += 1
            continue
        stats["predicted"] += 1
        if exp["error"]:
            if kind != "err" or exp["error"].encode() not in unhexs(r[4:]):
                cls = None
                if exp["uses_include_scope"]:
                    alt = F.expected(stmts, files, ninja_include=False)
                    if alt["error"] == "unpredictable":
                        stats["unpredicted"] += 1       # under n2's include scoping (F11) the oracle cannot say: not judged
                        continue
                    if kind == "ok" and not alt["error"] and F.compare_expected(alt, F.parse_dump(r)) is None:
                        cls = "include-binding-not-exported"
                    elif kind == "err" and alt["error"] and alt["error"].encode() in unhexs(r[4:]):
                        cls = "include-binding-not-exported"
                run.report_failure(cls, "a manifest that must be rejected (%s) gave %s" % (exp["error"], r[:120]), where)
            else:
                nontrivial.add(text)
            continue
        if kind != "ok":
            msg = unhexs(r[4:]).decode("utf-8", "replace") if kind == "err" else r
            cls = None
            if exp["uses_include_scope"]:
                alt = F.expected(stmts, files, ninja_include=False)
                if alt["error"] == "unpredictable":
                    stats["unpredicted"] += 1
                    continue
                if alt["error"] and alt["error"] in msg:
                    cls = "include-binding-not-exported"
            run.report_failure(cls, "a well-formed manifest was rejected: %s" % msg[:200], where)
            continue
        got = F.parse_dump(r)
        diff = F.compare_expected(exp, got)
        if diff:
            cls = None
            if exp["uses_include_scope"]:
                alt = F.expected(stmts, files, ninja_include=False)
                if alt["error"] == "unpredictable":
                    stats["unpredicted"] += 1
                    continue
                if not alt["error"] and F.compare_expected(alt, got) is None:
                    cls = "include-binding-not-exported"
            if cls is None and any(b["raw_out_dups"] for b in exp["builds"]):
                # $out is expanded before duplicate outputs are dropped (observation F18)
                alt_ok = True
                for e, g in zip(exp["builds"], got["builds"]):
                    for kk in ("ins", "ne", "ni", "no", "outs", "eo"):
                        if e[kk] != g[kk]:
                            alt_ok = False
                if alt_ok:
                    cls = "out-expanded-before-dedup"
            if focus and cls is None and not focus(diff):
                pass
            run.report_failure(cls, "loaded graph differs from the declared one: %s" % diff, where)
        else:
            if len(exp["builds"]) >= 1:
                nontrivial.add(text)
            if len(samples) < 3 and k > 0:
                samples.append({"manifest": text, "loaded": r[:300]})
    # spelling independence
    for key, lst in by_abs.items():
        outs = {r for _, r, _ in lst}
        if len(outs) > 1:
            a = lst[0]
            b = next(x for x in lst if x[1] != a[1])
            run.report_failure(None, "two spellings of one manifest load differently", {"manifest": b[2], "other_spelling": a[2],
                                                                                        "result": b[1][:300], "other_result": a[1][:300]})
    if extra_suites:
        extra_suites(run, rng, har, drv, stats)
    run.coverage.update(info)
    run.coverage.update({
        "checker_cmd": "make -C coq theories/Props/%s.vo && coqc Gate_%s.v" % (PROP, PROP),
        "trusted_base": TRUSTED_BASE,
        "evaluations": len(items),
        "distinct_nontrivial": len(nontrivial),
        "rule": "%d random abstract manifests (bindings, rules, pools, builds with all four input kinds and implicit outputs, defaults, "
                "includes per options %r) x %d concrete spellings each (spacing, $-newline continuations, $x vs ${x}, escapes, comments, "
                "indentation); the real loader's graph is compared with the model's and with an independent python statement of "
                "Ninja's rules; non-trivial = distinct text whose loaded graph (>= 1 step) or rejection was predicted and confirmed"
                % (n, gen_kw, nspell),
        "stats": stats,
        "model_vs_impl_disagreements": len(bad),
        "samples": samples or [{"manifest": items[0][2], "loaded": impl[0][:300]}],
    })
    run.assumptions += ["the theorems are about Model/Parse.v, Model/Load.v; their tie to parse.rs/load.rs/eval.rs/graph.rs is the differential check"]
    return run.finish()
